import DigModel.Proofs.Reach
import DigModel.Proofs.Just2
/-
  Well-formedness of what the parser produces: the key of a plain parameter has no group, the key of a
  value-group parameter and of a value-group result has a non-empty group name (repair of F11), so the
  two kinds of keys can never coincide.
-/
namespace Dig

theorem parseGroupOpts_name : ∀ (cs : List String) (g g' : GroupSpec), parseGroupOpts cs g = .ok g' → g'.name = g.name := by
  intro cs
  induction cs with
  | nil => intro g g' h; simp only [parseGroupOpts] at h; injection h with h; rw [← h]
  | cons c cs ih =>
    intro g g' h
    simp only [parseGroupOpts] at h
    split at h
    · have h2 := ih _ _ h; exact h2
    · split at h
      · have h2 := ih _ _ h; exact h2
      · cases h

theorem parseGroupString_name (s : String) (g : GroupSpec) (h : parseGroupString s = .ok g) : g.name ≠ "" := by
  unfold parseGroupString at h
  split at h
  · cases h
  · rename_i name opts _
    split at h
    · cases h
    · rename_i hne
      rw [parseGroupOpts_name _ _ _ h]
      simpa using hne

/-! ### parameters -/

def LfWF : Lf → Prop
  | .single k => k.group = ""
  | .group k _ => k.group ≠ ""

def ParamWF (p : Param) : Prop := ∀ l ∈ leaves p, LfWF l
def ParamsWF (ps : List Param) : Prop := ∀ l ∈ leavesL ps, LfWF l

theorem paramsWF_cons {p : Param} {ps : List Param} (h1 : ParamWF p) (h2 : ParamsWF ps) : ParamsWF (p :: ps) := by
  intro l hl
  simp only [leavesL, List.mem_append] at hl
  rcases hl with h | h
  · exact h1 l h
  · exact h2 l h

theorem newParamGroupedSlice_wf (env : TyEnv) (m : FieldMeta) (t : GoT) (s s' : List PGDesc) (p : Param)
    (h : newParamGroupedSlice env m t s = (.ok p, s')) : ParamWF p := by
  unfold newParamGroupedSlice at h
  cases hg : parseGroupString m.tags.group with
  | error e => rw [hg] at h; cases h
  | ok g =>
    rw [hg] at h
    simp only at h
    split at h
    · cases h
    · split at h
      · cases h
      · split at h
        · cases h
        · split at h
          · cases h
          · injection h with h1 _
            injection h1 with h1
            subst h1
            intro l hl
            simp only [leaves, List.mem_singleton] at hl
            subst hl
            exact parseGroupString_name _ _ hg

mutual
theorem newParam_wf (env : TyEnv) : ∀ (t : GoT) (s s' : List PGDesc) (p : Param), newParam env t s = (.ok p, s') → ParamWF p
  | .univ i, s, s', p, h => by
    simp only [newParam] at h
    split at h
    · cases h
    · split at h
      · cases h
      · split at h
        · cases h
        · split at h
          · cases h
          · simp only [PM.pure] at h
            injection h with h1 _; injection h1 with h1; subst h1
            intro l hl; simp only [leaves, List.mem_singleton] at hl; subst hl; rfl
  | .ptr i inner, s, s', p, h => by
    simp only [newParam] at h
    split at h
    · cases h
    · split at h
      · cases h
      · split at h
        · cases h
        · simp only [PM.pure] at h
          injection h with h1 _; injection h1 with h1; subst h1
          intro l hl; simp only [leaves, List.mem_singleton] at hl; subst hl; rfl
  | .strct i fs, s, s', p, h => by
    simp only [newParam] at h
    split at h
    · cases h
    · split at h
      · cases hb : boolTag (if hasInField fs then findIgnoreTag fs else "") with
        | error e => simp only [hb, PM.fail] at h; cases h
        | ok ignore =>
          simp only [hb] at h
          cases hf : newParamFields env ignore fs s with
          | mk r s2 =>
            rw [hf] at h
            cases r with
            | error e => cases h
            | ok ps =>
              simp only at h
              injection h with h1 _; injection h1 with h1; subst h1
              have := newParamFields_wf env ignore fs s s2 ps hf
              intro l hl
              simp only [leaves] at hl
              exact this l hl
      · split at h
        · cases h
        · simp only [PM.pure] at h
          injection h with h1 _; injection h1 with h1; subst h1
          intro l hl; simp only [leaves, List.mem_singleton] at hl; subst hl; rfl
theorem newParamFields_wf (env : TyEnv) (ignore : Bool) : ∀ (fs : List (FieldMeta × GoT)) (s s' : List PGDesc) (ps : List Param),
    newParamFields env ignore fs s = (.ok ps, s') → ParamsWF ps
  | [], s, s', ps, h => by
    simp only [newParamFields, PM.pure] at h
    injection h with h1 _; injection h1 with h1; subst h1
    intro l hl; simp [leavesL] at hl
  | f :: rest, s, s', ps, h => by
    simp only [newParamFields] at h
    split at h
    · exact newParamFields_wf env ignore rest s s' ps h
    · split at h
      · exact newParamFields_wf env ignore rest s s' ps h
      · cases hf : newParamField env f s with
        | mk r s2 =>
          rw [hf] at h
          cases r with
          | error e => cases h
          | ok p =>
            simp only at h
            cases hr : newParamFields env ignore rest s2 with
            | mk r3 s3 =>
              rw [hr] at h
              cases r3 with
              | error e => cases h
              | ok ps' =>
                simp only at h
                injection h with h1 _; injection h1 with h1; subst h1
                exact paramsWF_cons (newParamField_wf env f s s2 p hf) (newParamFields_wf env ignore rest s2 s3 ps' hr)
theorem newParamField_wf (env : TyEnv) : ∀ (f : FieldMeta × GoT) (s s' : List PGDesc) (p : Param),
    newParamField env f s = (.ok p, s') → ParamWF p
  | (m, t), s, s', p, h => by
    simp only [newParamField] at h
    split at h
    · cases h
    · split at h
      · exact newParamGroupedSlice_wf env m t s s' p h
      · cases hp : newParam env t s with
        | mk r s2 =>
          rw [hp] at h
          cases r with
          | error e => cases h
          | ok q =>
            have hq := newParam_wf env t s s2 q hp
            cases q with
            | single k o =>
              simp only at h
              split at h
              · cases h
              · injection h with h1 _; injection h1 with h1; subst h1
                intro l hl
                simp only [leaves, List.mem_singleton] at hl; subst hl
                have := hq (.single k) (by simp [leaves])
                exact this
            | grouped ty k soft pg => simp only at h; injection h with h1 _; injection h1 with h1; subst h1; exact hq
            | object ty fs => simp only at h; injection h with h1 _; injection h1 with h1; subst h1; exact hq
end

end Dig

namespace Dig

theorem newParamListAux_wf (env : TyEnv) : ∀ (ts : List GoT) (s s' : List PGDesc) (ps : List Param),
    newParamListAux env ts s = (.ok ps, s') → ParamsWF ps
  | [], s, s', ps, h => by
    simp only [newParamListAux, PM.pure] at h
    injection h with h1 _; injection h1 with h1; subst h1
    intro l hl; simp [leavesL] at hl
  | t :: rest, s, s', ps, h => by
    simp only [newParamListAux] at h
    cases hp : newParam env t s with
    | mk r s2 =>
      rw [hp] at h
      cases r with
      | error e => cases h
      | ok p =>
        simp only at h
        cases hr : newParamListAux env rest s2 with
        | mk r3 s3 =>
          rw [hr] at h
          cases r3 with
          | error e => cases h
          | ok ps' =>
            simp only at h
            injection h with h1 _; injection h1 with h1; subst h1
            exact paramsWF_cons (newParam_wf env t s s2 p hp) (newParamListAux_wf env rest s2 s3 ps' hr)

theorem newParamList_wf (env : TyEnv) (fn : Fn) (s s' : List PGDesc) (ps : List Param)
    (h : newParamList env fn s = (.ok ps, s')) : ParamsWF ps :=
  newParamListAux_wf env _ s s' ps h

theorem parseParams_wf (env : TyEnv) (st : St) (sc : Nat) (fn : Fn) (ps : List Param) (w : St)
    (h : parseParams env st sc fn = (.ok ps, w)) : ParamsWF ps := by
  unfold parseParams at h
  cases hp : newParamList env fn (st.pgs.map (·.desc)) with
  | mk r descs =>
    simp only [hp] at h
    injection h with h1 _
    subst h1
    exact newParamList_wf env fn _ descs ps hp

/-! ### results: a value-group result has a non-empty group name -/

def ResWF (r : Result) : Prop := ∀ x ∈ groupLeaves r, x.1.group ≠ ""
def RessWF (rs : List Result) : Prop := ∀ x ∈ groupLeavesL rs, x.1.group ≠ ""

theorem ressWF_cons {r : Result} {rs : List Result} (h1 : ResWF r) (h2 : RessWF rs) : RessWF (r :: rs) := by
  intro x hx
  simp only [groupLeavesL, List.mem_append] at hx
  rcases hx with h | h
  · exact h1 x h
  · exact h2 x h

theorem resWF_grouped (slot decl ty : Nat) (group : String) (fl : Bool) (as : List Nat) (hg : group ≠ "") :
    ResWF (.grouped slot decl ty group fl as) := by
  intro x hx
  simp only [groupLeaves] at hx
  split at hx
  · simp only [List.mem_singleton] at hx; subst hx; exact hg
  · simp only [List.mem_map] at hx
    obtain ⟨t, _, rfl⟩ := hx
    exact hg

theorem resWF_single (slot decl ty : Nat) (name : String) (as : List Nat) : ResWF (.single slot decl ty name as) := by
  intro x hx; simp [groupLeaves] at hx

theorem newResultSingle_wf (env : TyEnv) (slot : Nat) (t : GoT) (o : ResultOpts) (r : Result)
    (h : newResultSingle env slot t o = .ok r) : ResWF r := by
  unfold newResultSingle at h
  split at h
  · cases h
  · injection h with h; subst h; exact resWF_single _ _ _ _ _
  · injection h with h; subst h; exact resWF_single _ _ _ _ _

theorem newResultGroupOpt_wf (env : TyEnv) (slot : Nat) (t : GoT) (o : ResultOpts) (r : Result)
    (h : newResultGroupOpt env slot t o = .ok r) : ResWF r := by
  unfold newResultGroupOpt at h
  cases hg : parseGroupString o.group with
  | error e => rw [hg] at h; cases h
  | ok g =>
    have hn := parseGroupString_name _ _ hg
    rw [hg] at h
    simp only at h
    split at h
    · cases h
    · cases ha : asTypes env t o.as with
      | error e => rw [ha] at h; cases h
      | ok as =>
        rw [ha] at h
        simp only at h
        split at h
        · cases h
        · split at h
          · split at h
            · cases h
            · injection h with h; subst h; exact resWF_grouped _ _ _ _ _ _ hn
          · injection h with h; subst h; exact resWF_grouped _ _ _ _ _ _ hn

theorem newResultGrouped_wf (env : TyEnv) (slot : Nat) (m : FieldMeta) (t : GoT) (r : Result)
    (h : newResultGrouped env slot m t = .ok r) : ResWF r := by
  unfold newResultGrouped at h
  cases hg : parseGroupString m.tags.group with
  | error e => rw [hg] at h; cases h
  | ok g =>
    have hn := parseGroupString_name _ _ hg
    rw [hg] at h
    simp only at h
    split at h
    · cases h
    · split at h
      · cases h
      · split at h
        · cases h
        · split at h
          · cases h
          · injection h with h; subst h; exact resWF_grouped _ _ _ _ _ _ hn

mutual
theorem newResult_wf (env : TyEnv) : ∀ (o : ResultOpts) (slot : Nat) (t : GoT) (r : Result), newResult env o slot t = .ok r → ResWF r
  | o, slot, .univ i, r, h => by
    simp only [newResult] at h
    split at h
    · cases h
    · split at h
      · cases h
      · split at h
        · split at h
          · cases h
          · split at h <;> cases h
        · split at h
          · cases h
          · split at h
            · cases h
            · split at h
              · exact newResultGroupOpt_wf env slot _ o r h
              · exact newResultSingle_wf env slot _ o r h
  | o, slot, .ptr i inner, r, h => by
    simp only [newResult] at h
    split at h
    · cases h
    · split at h
      · cases h
      · split at h
        · exact newResultGroupOpt_wf env slot _ o r h
        · exact newResultSingle_wf env slot _ o r h
  | o, slot, .strct i fs, r, h => by
    simp only [newResult] at h
    split at h
    · cases h
    · split at h
      · split at h
        · cases h
        · split at h
          · cases h
          · cases hf : newResultFields env o slot fs with
            | error e => rw [hf] at h; cases h
            | ok rs =>
              rw [hf] at h
              simp only at h
              injection h with h; subst h
              have := newResultFields_wf env o slot fs rs hf
              intro x hx
              simp only [groupLeaves] at hx
              exact this x hx
      · split at h
        · cases h
        · split at h
          · exact newResultGroupOpt_wf env slot _ o r h
          · exact newResultSingle_wf env slot _ o r h
theorem newResultFields_wf (env : TyEnv) : ∀ (o : ResultOpts) (slot : Nat) (fs : List (FieldMeta × GoT)) (rs : List Result),
    newResultFields env o slot fs = .ok rs → RessWF rs
  | o, slot, [], rs, h => by
    simp only [newResultFields] at h
    injection h with h; subst h
    intro x hx; simp [groupLeavesL] at hx
  | o, slot, f :: rest, rs, h => by
    simp only [newResultFields] at h
    split at h
    · exact newResultFields_wf env o (slot + 1) rest rs h
    · cases hf : newResultField env o slot f with
      | error e => rw [hf] at h; cases h
      | ok r =>
        rw [hf] at h
        simp only at h
        cases hr : newResultFields env o (slot + leafCountField f) rest with
        | error e => rw [hr] at h; cases h
        | ok rs' =>
          rw [hr] at h
          simp only at h
          injection h with h; subst h
          exact ressWF_cons (newResultField_wf env o slot f r hf) (newResultFields_wf env o _ rest rs' hr)
theorem newResultField_wf (env : TyEnv) : ∀ (o : ResultOpts) (slot : Nat) (f : FieldMeta × GoT) (r : Result),
    newResultField env o slot f = .ok r → ResWF r
  | o, slot, (m, t), r, h => by
    simp only [newResultField] at h
    split at h
    · cases h
    · split at h
      · exact newResultGrouped_wf env slot m t r h
      · exact newResult_wf env _ slot t r h
end

def SlotsWF (slots : List RSlot) : Prop := ∀ x ∈ slotGroupLeaves slots, x.1.group ≠ ""

theorem newResultListAux_wf (env : TyEnv) (o : ResultOpts) : ∀ (slot : Nat) (ts : List GoT) (rs : List RSlot),
    newResultListAux env o slot ts = .ok rs → SlotsWF rs
  | slot, [], rs, h => by
    simp only [newResultListAux] at h
    injection h with h; subst h
    intro x hx; simp [slotGroupLeaves] at hx
  | slot, t :: rest, rs, h => by
    simp only [newResultListAux] at h
    split at h
    · cases hr : newResultListAux env o (slot + leafCount t) rest with
      | error e => rw [hr] at h; cases h
      | ok rs' =>
        rw [hr] at h
        simp only at h
        injection h with h; subst h
        intro x hx
        simp only [slotGroupLeaves] at hx
        exact newResultListAux_wf env o _ rest rs' hr x hx
    · cases hn : newResult env o slot t with
      | error e => rw [hn] at h; cases h
      | ok r =>
        rw [hn] at h
        simp only at h
        cases hr : newResultListAux env o (slot + leafCount t) rest with
        | error e => rw [hr] at h; cases h
        | ok rs' =>
          rw [hr] at h
          simp only at h
          injection h with h; subst h
          intro x hx
          simp only [slotGroupLeaves, List.mem_append] at hx
          rcases hx with h1 | h1
          · exact newResult_wf env o slot t r hn x h1
          · exact newResultListAux_wf env o _ rest rs' hr x h1

theorem newResultList_wf (env : TyEnv) (o : ResultOpts) (fn : Fn) (rs : List RSlot) (h : newResultList env o fn = .ok rs) :
    SlotsWF rs := newResultListAux_wf env o 0 fn.outs rs h

end Dig
