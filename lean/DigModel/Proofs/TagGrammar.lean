import DigModel.Reflect
namespace Dig

theorem parseGroupOpts_spec : ∀ (opts : List String) (g : GroupSpec),
    (∀ g', parseGroupOpts opts g = .ok g' ↔
      (∀ o ∈ opts, o = "flatten" ∨ o = "soft") ∧
      g' = { name := g.name, flatten := g.flatten || opts.contains "flatten", soft := g.soft || opts.contains "soft" }) ∧
    (∀ e, parseGroupOpts opts g = .error e → e = .groupOpt ∧ ∃ o ∈ opts, o ≠ "flatten" ∧ o ≠ "soft") := by
  intro opts
  induction opts with
  | nil =>
    intro g
    refine ⟨fun g' => ?_, fun e h => by simp [parseGroupOpts] at h⟩
    simp only [parseGroupOpts, List.not_mem_nil, false_implies, implies_true, true_and, List.contains_nil, Bool.or_false]
    constructor
    · intro h; injection h with h; rw [← h]
    · intro h; rw [h]
  | cons c cs ih =>
    intro g
    simp only [parseGroupOpts]
    by_cases h1 : c = "flatten"
    · subst h1
      simp only [beq_self_eq_true, if_true]
      obtain ⟨i1, i2⟩ := ih { g with flatten := true }
      refine ⟨fun g' => ?_, fun e he => ?_⟩
      · rw [i1 g']
        constructor
        · rintro ⟨ha, hg⟩
          refine ⟨fun o ho => ?_, ?_⟩
          · rcases List.mem_cons.mp ho with rfl | h
            · exact Or.inl rfl
            · exact ha o h
          · rw [hg]; simp [List.contains_cons]
        · rintro ⟨ha, hg⟩
          refine ⟨fun o ho => ha o (by simp [ho]), ?_⟩
          rw [hg]; simp [List.contains_cons]
      · obtain ⟨e1, o, ho, hne⟩ := i2 e he
        exact ⟨e1, o, by simp [ho], hne⟩
    · have h1' : (c == "flatten") = false := by simpa using h1
      simp only [h1', Bool.false_eq_true, if_false]
      by_cases h2 : c = "soft"
      · subst h2
        simp only [beq_self_eq_true, if_true]
        obtain ⟨i1, i2⟩ := ih { g with soft := true }
        refine ⟨fun g' => ?_, fun e he => ?_⟩
        · rw [i1 g']
          constructor
          · rintro ⟨ha, hg⟩
            refine ⟨fun o ho => ?_, ?_⟩
            · rcases List.mem_cons.mp ho with rfl | h
              · exact Or.inr rfl
              · exact ha o h
            · rw [hg]; simp [List.contains_cons]
          · rintro ⟨ha, hg⟩
            refine ⟨fun o ho => ha o (by simp [ho]), ?_⟩
            rw [hg]; simp [List.contains_cons]
        · obtain ⟨e1, o, ho, hne⟩ := i2 e he
          exact ⟨e1, o, by simp [ho], hne⟩
      · have h2' : (c == "soft") = false := by simpa using h2
        simp only [h2', Bool.false_eq_true, if_false]
        refine ⟨fun g' => ?_, fun e he => ?_⟩
        · constructor
          · intro h; cases h
          · rintro ⟨ha, _⟩
            rcases ha c (by simp) with h | h
            · exact absurd h h1
            · exact absurd h h2
        · injection he with he
          exact ⟨he.symm, c, by simp, h1, h2⟩



/-- **the grammar of a group tag / `dig.Group` value**: it is accepted exactly when its first comma-separated component
    (the group's name) is not empty and every further component is `flatten` or `soft`; the name is that first component,
    verbatim (blanks included), the flags say whether the word occurs -/
theorem parseGroupString_ok_iff (s : String) (g : GroupSpec) :
    parseGroupString s = .ok g ↔
      ∃ name opts, s.splitOn "," = name :: opts ∧ name ≠ "" ∧ (∀ o ∈ opts, o = "flatten" ∨ o = "soft") ∧
        g = { name := name, flatten := opts.contains "flatten", soft := opts.contains "soft" } := by
  unfold parseGroupString
  cases hs : s.splitOn "," with
  | nil => simp
  | cons name opts =>
    simp only
    by_cases hn : name = ""
    · subst hn
      simp
    · have hn' : (name == "") = false := by simpa using hn
      simp only [hn', Bool.false_eq_true, if_false]
      rw [(parseGroupOpts_spec opts { name := name, flatten := false, soft := false }).1 g]
      simp only [Bool.false_or, List.cons.injEq]
      constructor
      · rintro ⟨ha, hg⟩; exact ⟨name, opts, ⟨rfl, rfl⟩, hn, ha, hg⟩
      · rintro ⟨n, o, ⟨rfl, rfl⟩, _, ha, hg⟩; exact ⟨ha, hg⟩

/-- a rejected group string is rejected for an empty name (invalid input) or for an unknown option -/
theorem parseGroupString_error (s : String) (e : DErr) (h : parseGroupString s = .error e) : e = .invalid0 ∨ e = .groupOpt := by
  unfold parseGroupString at h
  cases hs : s.splitOn "," with
  | nil => rw [hs] at h; injection h with h; exact Or.inl h.symm
  | cons name opts =>
    rw [hs] at h
    simp only at h
    split at h
    · injection h with h; exact Or.inl h.symm
    · exact Or.inr ((parseGroupOpts_spec opts _).2 e h).1

/-- **the boolean struct tags** (`optional`, `ignore-unexported`): absent means false; otherwise exactly the twelve
    spellings `strconv.ParseBool` knows are accepted, anything else is invalid input -/
theorem boolTag_spec (tag : String) :
    boolTag tag =
      if tag = "" then .ok false
      else if tag ∈ ["1", "t", "T", "TRUE", "true", "True"] then .ok true
      else if tag ∈ ["0", "f", "F", "FALSE", "false", "False"] then .ok false
      else .error .invalid0 := by
  unfold boolTag parseBool
  by_cases h0 : tag = ""
  · simp [h0]
  · have h0' : (tag == "") = false := by simpa using h0
    simp only [h0', h0, Bool.false_eq_true, if_false]
    by_cases h1 : tag ∈ ["1", "t", "T", "TRUE", "true", "True"]
    · simp only [h1, if_true]
      simp only [List.mem_cons, List.not_mem_nil, or_false] at h1
      rcases h1 with rfl | rfl | rfl | rfl | rfl | rfl <;> rfl
    · simp only [h1, if_false]
      have h1' : (tag == "1" || tag == "t" || tag == "T" || tag == "TRUE" || tag == "true" || tag == "True") = false := by
        simp only [List.mem_cons, List.not_mem_nil, or_false, not_or] at h1
        simp [h1]
      simp only [h1', Bool.false_eq_true, if_false]
      by_cases h2 : tag ∈ ["0", "f", "F", "FALSE", "false", "False"]
      · simp only [h2, if_true]
        simp only [List.mem_cons, List.not_mem_nil, or_false] at h2
        rcases h2 with rfl | rfl | rfl | rfl | rfl | rfl <;> rfl
      · simp only [h2, if_false]
        have h2' : (tag == "0" || tag == "f" || tag == "F" || tag == "FALSE" || tag == "false" || tag == "False") = false := by
          simp only [List.mem_cons, List.not_mem_nil, or_false, not_or] at h2
          simp [h2]
        simp only [h2', Bool.false_eq_true, if_false]

end Dig
