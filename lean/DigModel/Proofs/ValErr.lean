import DigModel.Api
import DigModel.Proofs.Body
/-
  Value-typed error results (`Ctx.forced`): a function one of whose declared results is of a value type that
  implements `error` never completes successfully — whatever its script says.
-/
namespace Dig

theorem isValErrT_isErrorT (env : TyEnv) (t : GoT) (h : isValErrT env t = true) : isErrorT env t = true := by
  cases t with
  | univ i =>
    simp only [isValErrT] at h
    simp only [isErrorT]
    cases hi : env.info i with
    | none => rw [hi] at h; cases h
    | some ti => rw [hi] at h; simp only [Bool.and_eq_true] at h; exact h.1
  | ptr _ _ => cases h
  | strct _ _ => cases h

theorem forcedOf_id (env : TyEnv) (fn : Fn) (e : Nat × Nat × Bool) (h : forcedOf env fn = some e) : e.1 = fn.id := by
  unfold forcedOf at h
  simp only at h
  split at h
  · cases h; rfl
  · split at h
    · cases h; rfl
    · cases h

/-- a function with a value-typed error result has an error result -/
theorem forcedOf_errOuts (env : TyEnv) (fn : Fn) (e : Nat × Nat × Bool) (h : forcedOf env fn = some e) :
    (errOuts env fn).isEmpty = false := by
  unfold forcedOf at h
  simp only at h
  split at h
  · rename_i hc
    simp only [Bool.and_eq_true, bne_iff_ne, ne_eq] at hc
    obtain ⟨hv, hl⟩ := hc
    have hmem : fn.outs.length - 1 ∈ errOuts env fn := by
      unfold errOuts
      simp only [List.mem_filter, List.mem_range]
      exact ⟨by omega, isValErrT_isErrorT env _ hv⟩
    cases he : errOuts env fn with
    | nil => rw [he] at hmem; cases hmem
    | cons a l => rfl
  · split at h
    · rename_i j hj
      cases he : errOuts env fn with
      | nil => rw [he] at hj; simp at hj
      | cons a l => rfl
    · cases h

/-- the entry of `fn` is the one `Ctx.beh` finds, when ids name functions uniquely -/
theorem find_forced (env : TyEnv) (fn : Fn) (e : Nat × Nat × Bool) (h : forcedOf env fn = some e) :
    ∀ (fns : List Fn), fn ∈ fns → (∀ g ∈ fns, g.id = fn.id → g = fn) →
      (fns.filterMap (forcedOf env)).find? (·.1 == fn.id) = some e
  | [], hm, _ => by cases hm
  | g :: rest, hm, hu => by
    by_cases hg : g = fn
    · subst hg
      simp only [List.filterMap_cons, h, List.find?_cons]
      rw [forcedOf_id env g e h]; simp
    · have hm' : fn ∈ rest := by
        rcases List.mem_cons.mp hm with h1 | h1
        · exact absurd h1.symm hg
        · exact h1
      have ih := find_forced env fn e h rest hm' (fun x hx => hu x (List.mem_cons_of_mem _ hx))
      cases hf : forcedOf env g with
      | none => simp only [List.filterMap_cons, hf]; exact ih
      | some e' =>
        simp only [List.filterMap_cons, hf, List.find?_cons]
        have hne : (e'.1 == fn.id) = false := by
          rw [forcedOf_id env g e' hf]
          simp only [beq_eq_false_iff_ne, ne_eq]
          intro hid
          exact hg (hu g (by simp) hid)
        rw [hne]; exact ih

/-- an execution of a function with a forced entry is never scripted `ok` -/
theorem beh_forced (ctx : Ctx) (f : Nat) (e : Nat × Nat × Bool) (h : ctx.forced.find? (·.1 == f) = some e) (x : Nat) :
    (ctx.beh f x).k ≠ .ok := by
  unfold Ctx.beh
  simp only [h]
  split
  · rename_i hp; simp only [beq_iff_eq] at hp; rw [hp]; intro hc; cases hc
  · split
    · rename_i hp; simp only [Bool.and_eq_true, beq_iff_eq] at hp; rw [hp.1]; intro hc; cases hc
    · intro hc; cases hc

/-- **a function with a value-typed error result never completes successfully**: its body never returns `ok` and its
    exit event never says `ok` -/
theorem valErr_never_ok (p : Program) (fn : Fn) (hmem : fn ∈ p.fns) (huniq : ∀ g ∈ p.fns, g.id = fn.id → g = fn)
    (hv : (forcedOf p.types fn).isSome = true) (st : St) :
    (∀ x len, bodyRes p.ctx fn st ≠ .ok x len) ∧ exitKind p.ctx fn (p.ctx.beh fn.id (st.execCount fn.id)) ≠ .ok := by
  obtain ⟨e, he⟩ := Option.isSome_iff_exists.mp hv
  have hfind : p.ctx.forced.find? (·.1 == fn.id) = some e := find_forced p.types fn e he p.fns hmem huniq
  have hk := beh_forced p.ctx fn.id e hfind (st.execCount fn.id)
  have heo : (errOuts p.ctx.env fn).isEmpty = false := forcedOf_errOuts p.types fn e he
  constructor
  · intro x len
    unfold bodyRes
    simp only
    cases hb : (p.ctx.beh fn.id (st.execCount fn.id)).k with
    | ok => exact absurd hb hk
    | err => simp [heo]
    | panic => simp
  · unfold exitKind
    cases hb : (p.ctx.beh fn.id (st.execCount fn.id)).k with
    | ok => exact absurd hb hk
    | err => simp [heo]
    | panic => simp


/-- a constructor whose function has a value-typed error result is never marked as called, and writes to no cache:
    running it changes the constructor table and the scopes not at all -/
theorem valErr_ctorTail_writes_nothing (p : Program) (fn : Fn) (hmem : fn ∈ p.fns)
    (huniq : ∀ g ∈ p.fns, g.id = fn.id → g = fn) (hv : (forcedOf p.types fn).isSome = true) (hnd : p.cfg.dry = false)
    (n : Nat) (node : CtorNode) (hfn : node.fn = fn) (args : List Val) (st : St) :
    (ctorTail p.ctx n node args st).2.ctors = st.ctors ∧ (ctorTail p.ctx n node args st).2.scopes = st.scopes ∧
    ∃ e, (ctorTail p.ctx n node args st).1 = .error e := by
  have hnd' : p.ctx.cfg.dry = false := hnd
  have hno := (valErr_never_ok p fn hmem huniq hv st).1
  unfold ctorTail
  simp only
  rw [callBody_spec p.ctx hnd', hfn]
  have hcf := runCallback_fields node.cb (.ctor n) fn.id st.clock (ctorOutcome p.ctx fn.id (bodyRes p.ctx fn st)).2
    (ctorCommit p.ctx n node (bodyRes p.ctx fn st) (afterBody p.ctx (.ctor n) fn args st))
  have haf := afterBody_fields p.ctx (.ctor n) fn args st
  cases hb : bodyRes p.ctx fn st with
  | ok x len => exact absurd hb (hno x len)
  | dry => exact absurd hb (bodyRes_ne_dry p.ctx fn st)
  | err x o =>
    rw [hb] at hcf
    refine ⟨?_, ?_, ?_⟩
    · rw [hcf.2.1]; simp only [ctorCommit]; exact haf.2.1
    · rw [hcf.1]; simp only [ctorCommit]; exact haf.1
    · simp only [ctorOutcome]; exact ⟨_, rfl⟩
  | panic x =>
    rw [hb] at hcf
    refine ⟨?_, ?_, ?_⟩
    · rw [hcf.2.1]; simp only [ctorCommit]; exact haf.2.1
    · rw [hcf.1]; simp only [ctorCommit]; exact haf.1
    · simp only [ctorOutcome]; split <;> exact ⟨_, rfl⟩

/-- likewise a decorator whose function has a value-typed error result always fails, is never marked as called and
    writes no decorated value -/
theorem valErr_decoTail_writes_nothing (p : Program) (fn : Fn) (hmem : fn ∈ p.fns)
    (huniq : ∀ g ∈ p.fns, g.id = fn.id → g = fn) (hv : (forcedOf p.types fn).isSome = true) (hnd : p.cfg.dry = false)
    (d : Nat) (node : DecoNode) (hfn : node.fn = fn) (args : List Val) (st : St) :
    (decoTail p.ctx d node args st).2.decos = st.decos ∧ (decoTail p.ctx d node args st).2.scopes = st.scopes ∧
    ∃ e, (decoTail p.ctx d node args st).1 = .error e := by
  have hnd' : p.ctx.cfg.dry = false := hnd
  have hno := (valErr_never_ok p fn hmem huniq hv st).1
  unfold decoTail
  simp only
  rw [callBody_spec p.ctx hnd', hfn]
  have hcf := runCallback_fields node.cb (.deco d) fn.id st.clock (decoOutcome p.ctx fn.id (bodyRes p.ctx fn st)).2
    (decoCommit p.ctx d node (bodyRes p.ctx fn st) (afterBody p.ctx (.deco d) fn args st))
  have haf := afterBody_fields p.ctx (.deco d) fn args st
  cases hb : bodyRes p.ctx fn st with
  | ok x len => exact absurd hb (hno x len)
  | dry => exact absurd hb (bodyRes_ne_dry p.ctx fn st)
  | err x o =>
    rw [hb] at hcf
    refine ⟨?_, ?_, ?_⟩
    · rw [hcf.2.2.1]; simp only [decoCommit]; exact haf.2.2.1
    · rw [hcf.1]; simp only [decoCommit]; exact haf.1
    · simp only [decoOutcome]; exact ⟨_, rfl⟩
  | panic x =>
    rw [hb] at hcf
    refine ⟨?_, ?_, ?_⟩
    · rw [hcf.2.2.1]; simp only [decoCommit]; exact haf.2.2.1
    · rw [hcf.1]; simp only [decoCommit]; exact haf.1
    · simp only [decoOutcome]; split <;> exact ⟨_, rfl⟩
end Dig
