import DigModel.Proofs.JustApi
import DigModel.Proofs.Views
/-
  The provider tables are consistent with the constructor table, in every reachable container:
  a constructor is listed under every single key its results declare, in its home scope (`RegOK`);
  two constructors listed under one key of one scope cannot both declare it as a single key
  (`UniqP`: duplicates are rejected); a constructor's single keys are pairwise distinct (`LeavesNodup`).
-/
namespace Dig

/-! ### what a successful duplicate check says -/

theorem chk_ok (target : ScopeSt) : ∀ (ks seen seen' : List Key), visitKeys.chk target ks seen = .ok seen' →
    seen' = seen ++ ks ∧ (∀ k ∈ ks, agetL target.providers k = [] ∧ k ∉ seen) ∧ ks.Nodup := by
  intro ks
  induction ks with
  | nil => intro seen seen' h; simp only [visitKeys.chk] at h; injection h with h; subst h; simp
  | cons k more ih =>
    intro seen seen' h
    simp only [visitKeys.chk] at h
    split at h
    · cases h
    · rename_i hnc
      split at h
      · cases h
      · rename_i hne
        obtain ⟨e, h1, h2⟩ := ih _ _ h
        have hk : k ∉ seen := by simpa using hnc
        have hp : agetL target.providers k = [] := by simpa using hne
        refine ⟨by rw [e]; simp, ?_, ?_⟩
        · intro k' hk'
          rcases List.mem_cons.mp hk' with rfl | hm
          · exact ⟨hp, hk⟩
          · exact ⟨(h1 k' hm).1, fun hin => (h1 k' hm).2 (by simp [hin])⟩
        · refine List.nodup_cons.mpr ⟨?_, h2⟩
          intro hin
          exact (h1 k hin).2 (by simp)

/-- the single keys of a result list, in order -/
def singleKeysL (rs : List Result) : List Key := (singleLeavesL rs).map (·.1)

theorem singleKeys_single (slot decl ty : Nat) (name : String) (as : List Nat) :
    (singleLeaves (.single slot decl ty name as)).map (·.1) =
      (ty :: as).map fun t => ({ ty := t, name := name, group := "" } : Key) := by
  simp only [singleLeaves, List.map_map]
  rfl

/-- a successful `findAndValidateResults`: every single key of the results is among the keys returned, none of them
    was provided in the target scope or seen before, and they are pairwise distinct -/
theorem visitKeys_ok (target : ScopeSt) : ∀ (rs : List Result) (seen keys : List Key),
    visitKeys target rs seen = .ok keys →
    (∀ k ∈ seen, k ∈ keys) ∧ (∀ k ∈ singleKeysL rs, k ∈ keys ∧ agetL target.providers k = [] ∧ k ∉ seen) ∧
    (singleKeysL rs).Nodup := by
  apply visitKeys.induct target (fun rs seen => ∀ keys, visitKeys target rs seen = .ok keys →
    (∀ k ∈ seen, k ∈ keys) ∧ (∀ k ∈ singleKeysL rs, k ∈ keys ∧ agetL target.providers k = [] ∧ k ∉ seen) ∧
    (singleKeysL rs).Nodup)
  · intro seen keys h
    simp only [visitKeys] at h; injection h with h; subst h
    simp [singleKeysL, singleLeavesL]
  · intro slot decl ty name as rest seen ks e hc keys h
    simp only [visitKeys] at h
    simp only [ks] at hc
    rw [hc] at h; cases h
  · intro slot decl ty name as rest seen ks seen' hc ih keys h
    simp only [visitKeys] at h
    simp only [ks] at hc
    rw [hc] at h
    simp only at h
    obtain ⟨i1, i2, i3⟩ := ih keys h
    obtain ⟨e, c1, c2⟩ := chk_ok target _ _ _ hc
    subst e
    have hks : singleKeysL (.single slot decl ty name as :: rest) =
        ((ty :: as).map fun t => ({ ty := t, name := name, group := "" } : Key)) ++ singleKeysL rest := by
      simp only [singleKeysL, singleLeavesL, List.map_append, singleKeys_single]
    rw [hks]
    refine ⟨fun k hk => i1 k (by simp [hk]), ?_, ?_⟩
    · intro k hk
      rcases List.mem_append.mp hk with h1 | h1
      · exact ⟨i1 k (by simp only [List.mem_append]; exact Or.inr h1), (c1 k h1).1, (c1 k h1).2⟩
      · obtain ⟨a1, a2, a3⟩ := i2 k h1
        exact ⟨a1, a2, fun hin => a3 (by simp [hin])⟩
    · refine List.nodup_append.mpr ⟨c2, i3, ?_⟩
      intro a ha b hb hab
      subst hab
      exact (i2 a hb).2.2 (by simp only [List.mem_append]; exact Or.inr ha)
  · intro slot decl ty group flatten as rest seen ks ih keys h
    simp only [visitKeys] at h
    obtain ⟨i1, i2, i3⟩ := ih keys h
    have hks : singleKeysL (.grouped slot decl ty group flatten as :: rest) = singleKeysL rest := by
      simp [singleKeysL, singleLeavesL, singleLeaves]
    rw [hks]
    have hsub : ∀ (l : List Key) (acc : List Key) (k : Key), k ∈ acc →
        k ∈ l.foldl (fun acc k => if acc.contains k then acc else acc ++ [k]) acc := by
      intro l
      induction l with
      | nil => intro acc k hk; exact hk
      | cons x xs ihx =>
        intro acc k hk
        simp only [List.foldl_cons]
        apply ihx
        split
        · exact hk
        · simp [hk]
    refine ⟨fun k hk => i1 k (hsub _ _ k hk), ?_, i3⟩
    intro k hk
    obtain ⟨a1, a2, a3⟩ := i2 k hk
    exact ⟨a1, a2, fun hin => a3 (hsub _ _ k hin)⟩
  · intro ty fs rest seen e he ih keys h
    simp only [visitKeys] at h
    rw [he] at h; cases h
  · intro ty fs rest seen seen' hs ih1 ih2 keys h
    simp only [visitKeys] at h
    rw [hs] at h
    simp only at h
    obtain ⟨j1, j2, j3⟩ := ih1 seen' hs
    obtain ⟨i1, i2, i3⟩ := ih2 keys h
    have hks : singleKeysL (.object ty fs :: rest) = singleKeysL fs ++ singleKeysL rest := by
      simp [singleKeysL, singleLeavesL, singleLeaves]
    rw [hks]
    refine ⟨fun k hk => i1 k (j1 k hk), ?_, ?_⟩
    · intro k hk
      rcases List.mem_append.mp hk with h1 | h1
      · obtain ⟨a1, a2, a3⟩ := j2 k h1
        exact ⟨i1 k a1, a2, a3⟩
      · obtain ⟨a1, a2, a3⟩ := i2 k h1
        exact ⟨a1, a2, fun hin => a3 (j1 k hin)⟩
    · refine List.nodup_append.mpr ⟨j3, i3, ?_⟩
      intro a ha b hb hab
      subst hab
      exact (i2 a hb).2.2 (j2 a ha).1

end Dig

namespace Dig

/-- static description of a constructor node -/
def CtorDesc (a b : CtorNode) : Prop := a.fn = b.fn ∧ a.results = b.results ∧ a.s = b.s

theorem ghStep_ctorDesc (node : GNode) (w : St) (sc : Nat) : (ghStep node w sc).ctors.length = w.ctors.length ∧
    ∀ j, CtorDesc ((ghStep node w sc).ctor j) (w.ctor j) := by
  unfold ghStep
  cases node with
  | ctor n =>
    simp only
    refine ⟨by simp [St.modCtor, St.modScope], fun j => ?_⟩
    rw [ctor_modCtor]
    split <;> exact ⟨rfl, rfl, rfl⟩
  | pg i => exact ⟨rfl, fun j => ⟨rfl, rfl, rfl⟩⟩

theorem newGraphNode_ctorDesc (w : St) (s : Nat) (node : GNode) : (w.newGraphNode s node).ctors.length = w.ctors.length ∧
    ∀ j, CtorDesc ((w.newGraphNode s node).ctor j) (w.ctor j) := by
  rw [newGraphNode_eq]
  generalize w.subscopes s = l
  induction l generalizing w with
  | nil => exact ⟨rfl, fun j => ⟨rfl, rfl, rfl⟩⟩
  | cons x xs ih =>
    simp only [List.foldl_cons]
    obtain ⟨i1, i2⟩ := ih (ghStep node w x)
    obtain ⟨g1, g2⟩ := ghStep_ctorDesc node w x
    exact ⟨i1.trans g1, fun j => ⟨(i2 j).1.trans (g2 j).1, (i2 j).2.1.trans (g2 j).2.1, (i2 j).2.2.trans (g2 j).2.2⟩⟩

/-- the accepted outcome of a Provide (and the model's "dig panics" answers): what was added -/
structure Added (st st' : St) (target : Nat) (results : List RSlot) (keys : List Key) : Prop where
  chk : ∃ X : ScopeSt, X.providers = (st.scope target).providers ∧ visitKeys X (slotResults results) [] = .ok keys
  len : st'.ctors.length = st.ctors.length + 1
  node : (st'.ctor st.ctors.length).results = results ∧ (st'.ctor st.ctors.length).s = target
  keep : CtorsKeep st st'
  others : ∀ j, j ≠ target → (st'.scope j).providers = (st.scope j).providers
  prov : target < st.scopes.length → (st'.scope target).providers =
    keys.foldl (fun m k => aset m k (agetL m k ++ [st.ctors.length])) (st.scope target).providers
  scopesLen : st'.scopes.length = st.scopes.length

theorem apiProvide_reg (ctx : Ctx) (fn : Fn) (st : St) (i s : Nat) (o : ProvideOpts) :
    EqButVerified st (apiProvide ctx fn st i s o).1 ∨
    ∃ results keys, Added st (apiProvide ctx fn st i s o).1 (if o.export_ then St.root else s) results keys := by
  have hrefl : EqButVerified st st :=
    ⟨rfl, rfl, rfl, rfl, rfl, rfl, rfl, rfl, fun _ => ⟨rfl, rfl, rfl, rfl, rfl, rfl, rfl, rfl, rfl, rfl⟩⟩
  unfold apiProvide
  cases fn.nonfunc with
  | some _ => exact Or.inl hrefl
  | none =>
    simp only
    cases validateOpts ctx.env o with
    | error e' => exact Or.inl hrefl
    | ok as =>
      simp only
      generalize (if o.export_ then St.root else s) = target
      have hw1 := work_parseParams (Work.refl st target) ctx.env fn
      have hg1 := ghOnly_parseParams ctx.env st target fn
      cases hpp : parseParams ctx.env st target fn with
      | mk r w1 =>
        rw [hpp] at hw1 hg1
        simp only at hw1 hg1
        cases r with
        | error e1 => exact Or.inl (rollback_restores hw1)
        | ok params =>
          simp only
          cases newResultList ctx.env { name := o.name, group := o.group, as := as } fn with
          | error e2 => exact Or.inl (rollback_restores hw1)
          | ok results =>
            simp only
            let node : CtorNode := { fn := fn, params := params, results := results, s := target, origS := s, cb := if o.cb then some i else none }
            have hlen1 : w1.ctors.length = st.ctors.length := by rw [hg1.1]
            have hw3 := work_newGraphNode (work_addCtor hw1 node) (.ctor w1.ctors.length)
              (by show st.ctors.length ≤ w1.ctors.length; exact hw1.ctorsLen)
            obtain ⟨hd1, hd2⟩ := newGraphNode_ctorDesc { w1 with ctors := w1.ctors ++ [node] } target (.ctor w1.ctors.length)
            have hp3 : ∀ j, ((St.newGraphNode { w1 with ctors := w1.ctors ++ [node] } target (.ctor w1.ctors.length)).scope j).providers =
                (st.scope j).providers := by
              intro j
              rw [← (newGraphNode_scopes _ target (.ctor w1.ctors.length) j).2.2.1]
              show (w1.scope j).providers = _
              exact ((hg1.2.2.2.2.2.2.2 j).2.2.1).symm
            have hnode3 : CtorDesc ((St.newGraphNode { w1 with ctors := w1.ctors ++ [node] } target (.ctor w1.ctors.length)).ctor st.ctors.length) node := by
              have := hd2 st.ctors.length
              have e : ({ w1 with ctors := w1.ctors ++ [node] } : St).ctor st.ctors.length = node := by
                show (w1.ctors ++ [node]).getD st.ctors.length default = node
                rw [← hlen1, getD_append_one]; simp
              rw [e] at this; exact this
            have hlen3 : (St.newGraphNode { w1 with ctors := w1.ctors ++ [node] } target (.ctor w1.ctors.length)).ctors.length = st.ctors.length + 1 := by
              rw [hd1]; simp [hlen1]
            generalize (St.newGraphNode { w1 with ctors := w1.ctors ++ [node] } target (.ctor w1.ctors.length)) = w3 at hw3 hp3 hnode3 hlen3
            cases hvk : visitKeys (w3.scope target) (slotResults results) [] with
            | error e3 => exact Or.inl (rollback_restores hw3)
            | ok keys =>
              cases keys with
              | nil => exact Or.inl (rollback_restores hw3)
              | cons k0 ks =>
                simp only
                -- the state after the provider update
                have hsame : (w3.modScope target fun x =>
                    { x with providers := (k0 :: ks).foldl (fun m k => aset m k (agetL m k ++ [w1.ctors.length])) x.providers }) =
                    (w3.modScope target fun x =>
                    { x with providers := (k0 :: ks).foldl (fun m k => aset m k (agetL m k ++ [w1.ctors.length])) (w3.scope target).providers }) := by
                  unfold St.modScope
                  congr 1
                  apply List.ext_getElem?
                  intro j
                  simp only [List.getElem?_modify]
                  by_cases hj : target = j
                  · subst hj
                    cases hg : w3.scopes[target]? with
                    | none => rfl
                    | some x =>
                      have : w3.scope target = x := by
                        unfold St.scope; rw [List.getD_eq_getElem?_getD, hg]; rfl
                      simp [this]
                  · simp [hj]
                rw [hsame]
                have hw4 := work_modScope_providers hw3
                  ((k0 :: ks).foldl (fun m k => aset m k (agetL m k ++ [w1.ctors.length])) (w3.scope target).providers)
                have hp4 : ∀ j, ((w3.modScope target fun x =>
                    { x with providers := (k0 :: ks).foldl (fun m k => aset m k (agetL m k ++ [w1.ctors.length])) (w3.scope target).providers }).scope j).providers =
                    if target = j ∧ j < w3.scopes.length then
                      (k0 :: ks).foldl (fun m k => aset m k (agetL m k ++ [st.ctors.length])) (st.scope target).providers
                    else (st.scope j).providers := by
                  intro j
                  rw [scope_modScope]
                  split
                  · simp only [hp3 target, hlen1]
                  · exact hp3 j
                have hgs := graphSame_verifyScopes ctx.cfg (st.subscopes target) (w3.modScope target fun x =>
                    { x with providers := (k0 :: ks).foldl (fun m k => aset m k (agetL m k ++ [w1.ctors.length])) (w3.scope target).providers })
                have hw5 := work_verifyScopes (target := target) ctx.cfg (st.subscopes target) _ hw4
                have hlen3s : w3.scopes.length = st.scopes.length := hw3.len
                cases hvs : verifyScopes ctx.cfg (st.subscopes target) (w3.modScope target fun x =>
                    { x with providers := (k0 :: ks).foldl (fun m k => aset m k (agetL m k ++ [w1.ctors.length])) (w3.scope target).providers }) with
                | mk r5 w5 =>
                  rw [hvs] at hgs hw5
                  simp only at hgs hw5
                  have hc5 : w5.ctors = w3.ctors := hgs.1.symm
                  have hp5 : ∀ j, (w5.scope j).providers =
                      if target = j ∧ j < w3.scopes.length then
                        (k0 :: ks).foldl (fun m k => aset m k (agetL m k ++ [st.ctors.length])) (st.scope target).providers
                      else (st.scope j).providers := by
                    intro j; rw [← (hgs.2.2.2 j).2.1]; exact hp4 j
                  have hadded : ∀ w6 : St, w6.ctors = w5.ctors → w6.scopes.length = w5.scopes.length →
                      (∀ j, (w6.scope j).providers = (w5.scope j).providers) →
                      Added st w6 target results (k0 :: ks) := by
                    intro w6 h61 h62 h63
                    refine ⟨⟨w3.scope target, hp3 target, hvk⟩, by rw [h61, hc5]; exact hlen3, ?_, ?_, ?_, ?_, by rw [h62, hw5.len]⟩
                    · have : w6.ctor st.ctors.length = w3.ctor st.ctors.length := by simp [St.ctor, h61, hc5]
                      rw [this]; exact ⟨hnode3.2.1, hnode3.2.2⟩
                    · have hk5 := ctorsKeep_work hw5
                      intro n hn
                      have : w6.ctor n = w5.ctor n := by simp [St.ctor, h61]
                      obtain ⟨a1, a2, a3, a4, a5⟩ := hk5 n hn
                      exact ⟨by rw [h61]; exact a1, by rw [this]; exact a2, by rw [this]; exact a3, by rw [this]; exact a4,
                        fun hc => by rw [this]; exact a5 hc⟩
                    · intro j hj
                      rw [h63, hp5]
                      have : ¬ (target = j ∧ j < w3.scopes.length) := fun hc => hj hc.1.symm
                      rw [if_neg this]
                    · intro ht
                      rw [h63, hp5, if_pos ⟨rfl, by rw [hlen3s]; exact ht⟩]
                  cases r5 with
                  | ok u =>
                    simp only
                    refine Or.inr ⟨results, k0 :: ks, hadded _ rfl (by simp [St.modScope]) ?_⟩
                    intro j; rw [scope_modScope]; split <;> rfl
                  | error ec =>
                    obtain ⟨sc, cr⟩ := ec
                    cases cr with
                    | cycle p => exact Or.inl (rollback_restores hw5)
                    | acyclic => exact Or.inr ⟨results, k0 :: ks, hadded w5 rfl rfl (fun _ => rfl)⟩
                    | outOfRange => exact Or.inr ⟨results, k0 :: ks, hadded w5 rfl rfl (fun _ => rfl)⟩
                    | fuel => exact Or.inr ⟨results, k0 :: ks, hadded w5 rfl rfl (fun _ => rfl)⟩

end Dig

namespace Dig

theorem slotLeaves_eq : ∀ (slots : List RSlot), slotLeaves slots = singleLeavesL (slotResults slots)
  | [] => rfl
  | .err :: rest => by simp only [slotLeaves, slotResults]; exact slotLeaves_eq rest
  | .val r :: rest => by simp only [slotLeaves, slotResults, singleLeavesL]; rw [slotLeaves_eq rest]

/-- the single keys constructor `n` declares -/
def ctorKeys (st : St) (n : Nat) : List Key := (slotLeaves (st.ctor n).results).map (·.1)

theorem foldl_aset_append_keep (keys : List Key) (n : Nat) : ∀ (m : List (Key × List Nat)) (k : Key) (x : Nat),
    x ∈ agetL m k → x ∈ agetL (keys.foldl (fun m k => aset m k (agetL m k ++ [n])) m) k := by
  induction keys with
  | nil => intro m k x h; exact h
  | cons k0 ks ih =>
    intro m k x h
    simp only [List.foldl_cons]
    apply ih
    unfold agetL
    rw [aget_aset]
    split
    · rename_i hk; subst hk
      simp only [Option.getD_some, List.mem_append]
      exact Or.inl h
    · exact h

theorem foldl_aset_append_new (keys : List Key) (n : Nat) : ∀ (m : List (Key × List Nat)) (k : Key),
    k ∈ keys → n ∈ agetL (keys.foldl (fun m k => aset m k (agetL m k ++ [n])) m) k := by
  induction keys with
  | nil => intro m k h; cases h
  | cons k0 ks ih =>
    intro m k h
    simp only [List.foldl_cons]
    rcases List.mem_cons.mp h with rfl | hm
    · apply foldl_aset_append_keep
      unfold agetL
      rw [aget_aset_self]
      simp
    · exact ih _ k hm

structure RegInv (st : St) : Prop where
  nonempty : 0 < st.scopes.length
  bound : ∀ S k n, n ∈ agetL (st.scope S).providers k → n < st.ctors.length
  regOK : ∀ n, n < st.ctors.length → ∀ k ∈ ctorKeys st n, n ∈ agetL (st.scope (st.ctor n).s).providers k
  uniq : ∀ S k n n', n ∈ agetL (st.scope S).providers k → n' ∈ agetL (st.scope S).providers k →
    k ∈ ctorKeys st n → k ∈ ctorKeys st n' → n = n'
  nodup : ∀ n, n < st.ctors.length → (ctorKeys st n).Nodup

theorem RegInv.init : RegInv ({} : St) where
  nonempty := by decide
  bound S k n h := by cases S <;> simp [St.scope, agetL, aget] at h
  regOK n h := by simp at h
  uniq S k n n' h := by cases S <;> simp [St.scope, agetL, aget] at h
  nodup n h := by simp at h

/-- same constructors (descriptions), same provider tables -/
theorem RegInv.transfer {a b : St} (h : RegInv a) (hl : b.ctors.length = a.ctors.length)
    (hk : ∀ n, n < a.ctors.length → (b.ctor n).results = (a.ctor n).results ∧ (b.ctor n).s = (a.ctor n).s)
    (hs : a.scopes.length ≤ b.scopes.length) (hp : ∀ j, (b.scope j).providers = (a.scope j).providers) : RegInv b := by
  have hkeys : ∀ n, ctorKeys b n = ctorKeys a n := by
    intro n
    unfold ctorKeys
    by_cases hn : n < a.ctors.length
    · rw [(hk n hn).1]
    · have e1 : a.ctor n = default := by
        simp only [St.ctor, List.getD_eq_getElem?_getD]; rw [List.getElem?_eq_none (Nat.le_of_not_lt hn)]; rfl
      have e2 : b.ctor n = default := by
        simp only [St.ctor, List.getD_eq_getElem?_getD]; rw [List.getElem?_eq_none (by omega)]; rfl
      rw [e1, e2]
  refine ⟨Nat.lt_of_lt_of_le h.nonempty hs, ?_, ?_, ?_, ?_⟩
  · intro S k n hn; rw [hp] at hn; rw [hl]; exact h.bound S k n hn
  · intro n hn k hkk
    rw [hl] at hn
    rw [hkeys] at hkk
    rw [(hk n hn).2, hp]
    exact h.regOK n hn k hkk
  · intro S k n n' h1 h2 h3 h4
    rw [hp] at h1 h2
    rw [hkeys] at h3 h4
    exact h.uniq S k n n' h1 h2 h3 h4
  · intro n hn; rw [hkeys]; exact h.nodup n (by omega)

theorem RegInv.of_regFrame {a b : St} (h : RegInv a) (hf : RegFrame a b) : RegInv b :=
  h.transfer hf.2.2.2.1.symm (fun n _ => ⟨(hf.2.2.2.2.1 n).2.2.1.symm, (hf.2.2.2.2.1 n).2.2.2.1.symm⟩)
    (by rw [hf.1]; exact Nat.le_refl _) (fun j => ((hf.2.1 j).2.2.1).symm)

theorem RegInv.of_keep {a b : St} (h : RegInv a) (hl : b.ctors.length = a.ctors.length) (hk : CtorsKeep a b)
    (hs : a.scopes.length ≤ b.scopes.length) (hp : ∀ j, (b.scope j).providers = (a.scope j).providers) : RegInv b :=
  h.transfer hl (fun n hn => ⟨(hk n hn).2.2.1, (hk n hn).2.2.2.1⟩) hs hp

end Dig
