import DigModel.Proofs.DrySim
import DigModel.Proofs.Termination
import DigModel.Proofs.InvokeShape
/-
  Registrations and `Scope` read and write only the core of a container; `Invoke` runs the resolver.
  Hence a DryRun history and the same history on a normal container whose functions all succeed give
  the same verdicts, operation by operation.
-/
namespace Dig

theorem CoreEq.graphSame {a b : St} (h : CoreEq a b) : GraphSame a b :=
  ⟨h.ctors, h.pgs, h.len, fun j => ⟨(h.scope j).parent, (h.scope j).providers, (h.scope j).gh⟩⟩

theorem CoreEq.subscopes {a b : St} (h : CoreEq a b) (s : Nat) : a.subscopes s = b.subscopes s := by
  unfold St.subscopes
  rw [h.len]
  exact subscopesAux_congr _ _ h.len (fun j => (h.scope j).children) _ _

theorem CoreEq.trans {a b c : St} (h1 : CoreEq a b) (h2 : CoreEq b c) : CoreEq a c :=
  ⟨h1.ctors.trans h2.ctors, h1.decos.trans h2.decos, h1.pgs.trans h2.pgs, h1.len.trans h2.len, fun j =>
    (blankEq_iff _ _).mp (((blankEq_iff _ _).mpr (h1.scope j)).trans ((blankEq_iff _ _).mpr (h2.scope j)))⟩

theorem CoreEq.symm {a b : St} (h : CoreEq a b) : CoreEq b a :=
  ⟨h.ctors.symm, h.decos.symm, h.pgs.symm, h.len.symm, fun j =>
    (blankEq_iff _ _).mp ((blankEq_iff _ _).mpr (h.scope j)).symm⟩

/-- a scope update that only rewrites non-cache fields, reading non-cache fields -/
theorem CoreEq.modScopeSame {a b : St} (h : CoreEq a b) (s : Nat) (f : ScopeSt → ScopeSt)
    (hf : ∀ x y, BlankEq x y → BlankEq (f x) (f y)) : CoreEq (a.modScope s f) (b.modScope s f) :=
  h.modScope s f f hf

theorem CoreEq.withPgs {a b : St} (h : CoreEq a b) (f : List PGNode → List PGNode) :
    CoreEq { a with pgs := f a.pgs } { b with pgs := f b.pgs } :=
  ⟨h.ctors, h.decos, by simp [h.pgs], h.len, h.scope⟩

theorem CoreEq.withCtors {a b : St} (h : CoreEq a b) (f : List CtorNode → List CtorNode) :
    CoreEq { a with ctors := f a.ctors } { b with ctors := f b.ctors } :=
  ⟨by simp [h.ctors], h.decos, h.pgs, h.len, h.scope⟩

theorem CoreEq.withDecos {a b : St} (h : CoreEq a b) (f : List DecoNode → List DecoNode) :
    CoreEq { a with decos := f a.decos } { b with decos := f b.decos } :=
  ⟨h.ctors, by simp [h.decos], h.pgs, h.len, h.scope⟩

theorem CoreEq.resetLog {a b : St} (h : CoreEq a b) : CoreEq { a with log := [] } { b with log := [] } :=
  ⟨h.ctors, h.decos, h.pgs, h.len, h.scope⟩

/-! ### graph nodes -/

theorem coreEq_ghStep {a b : St} (h : CoreEq a b) (node : GNode) (sc : Nat) : CoreEq (ghStep node a sc) (ghStep node b sc) := by
  unfold ghStep
  simp only
  rw [(h.scope sc).gh]
  have h1 : CoreEq (a.modScope sc fun x => { x with gh := x.gh ++ [node] }) (b.modScope sc fun x => { x with gh := x.gh ++ [node] }) :=
    h.modScopeSame sc _ (fun x y hxy => { hxy with gh := by simp [hxy.gh] })
  cases node with
  | ctor n => exact h1.modCtor n _
  | pg i => exact h1.withPgs _

theorem coreEq_newGraphNode {a b : St} (h : CoreEq a b) (s : Nat) (node : GNode) :
    CoreEq (a.newGraphNode s node) (b.newGraphNode s node) := by
  rw [newGraphNode_eq, newGraphNode_eq, h.subscopes s]
  generalize b.subscopes s = l
  induction l generalizing a b with
  | nil => exact h
  | cons x xs ih => simp only [List.foldl_cons]; exact ih (coreEq_ghStep h node x)

theorem coreEq_addPGNodes {a b : St} (h : CoreEq a b) (s oldLen : Nat) (descs : List PGDesc) :
    CoreEq (addPGNodes a s oldLen descs) (addPGNodes b s oldLen descs) := by
  unfold addPGNodes
  simp only
  have h0 : CoreEq { a with pgs := a.pgs ++ (descs.drop oldLen).map fun d => ({ desc := d } : PGNode) }
      { b with pgs := b.pgs ++ (descs.drop oldLen).map fun d => ({ desc := d } : PGNode) } :=
    h.withPgs (fun l => l ++ (descs.drop oldLen).map fun d => ({ desc := d } : PGNode))
  generalize (List.range (descs.length - oldLen)) = l
  generalize ({ a with pgs := a.pgs ++ (descs.drop oldLen).map fun d => ({ desc := d } : PGNode) } : St) = a1 at h0
  generalize ({ b with pgs := b.pgs ++ (descs.drop oldLen).map fun d => ({ desc := d } : PGNode) } : St) = b1 at h0
  induction l generalizing a1 b1 with
  | nil => exact h0
  | cons x xs ih => simp only [List.foldl_cons]; exact ih _ _ (coreEq_newGraphNode h0 s _)

theorem coreEq_parseParams {a b : St} (h : CoreEq a b) (env : TyEnv) (s : Nat) (fn : Fn) :
    (parseParams env a s fn).1 = (parseParams env b s fn).1 ∧
    CoreEq (parseParams env a s fn).2 (parseParams env b s fn).2 := by
  unfold parseParams
  rw [h.pgs]
  exact ⟨rfl, coreEq_addPGNodes h s _ _⟩

/-! ### undo and verification -/

theorem coreEq_rollback {a b wa wb : St} (h0 : CoreEq a b) (h : CoreEq wa wb) (target : Nat) (l : List Nat) :
    CoreEq (rollbackProvide a wa target l) (rollbackProvide b wb target l) := by
  unfold rollbackProvide
  simp only
  have h1 : ∀ (l : List Nat) (wa wb : St), CoreEq wa wb → CoreEq
      (l.foldl (fun w sc => w.modScope sc fun x => { x with gh := x.gh.take (a.scope sc).gh.length }) wa)
      (l.foldl (fun w sc => w.modScope sc fun x => { x with gh := x.gh.take (b.scope sc).gh.length }) wb) := by
    intro l
    induction l with
    | nil => intro wa wb h; exact h
    | cons sc rest ih =>
      intro wa wb h
      simp only [List.foldl_cons]
      apply ih
      rw [(h0.scope sc).gh]
      exact h.modScopeSame sc _ (fun x y hxy => { hxy with gh := by simp [hxy.gh] })
  have h2 := h1 l wa wb h
  have h3 := h2.modScope target (fun x => { x with providers := (a.scope target).providers })
    (fun x => { x with providers := (b.scope target).providers })
    (fun x y hxy => { hxy with providers := (h0.scope target).providers })
  exact ⟨by simp [h3.ctors, h0.ctors], h3.decos, by simp [h3.pgs, h0.pgs], h3.len, h3.scope⟩

theorem coreEq_verifyScopes (cfg : Cfg) : ∀ (l : List Nat) (a b : St), CoreEq a b →
    (verifyScopes cfg l a).1 = (verifyScopes cfg l b).1 ∧ CoreEq (verifyScopes cfg l a).2 (verifyScopes cfg l b).2 := by
  intro l
  induction l with
  | nil => intro a b h; exact ⟨rfl, h⟩
  | cons sc rest ih =>
    intro a b h
    simp only [verifyScopes]
    have h1 : CoreEq (a.modScope sc fun x => { x with verified := false }) (b.modScope sc fun x => { x with verified := false }) :=
      h.modScopeSame sc _ (fun x y hxy => { hxy with verified := rfl })
    split
    · exact ih _ _ h1
    · rw [h1.graphSame.checkAcyclic sc]
      cases Dig.checkAcyclic (b.modScope sc fun x => { x with verified := false }) sc with
      | acyclic =>
        simp only
        exact ih _ _ (h1.modScopeSame sc _ (fun x y hxy => { hxy with verified := rfl }))
      | cycle p => exact ⟨rfl, h1⟩
      | outOfRange => exact ⟨rfl, h1⟩
      | fuel => exact ⟨rfl, h1⟩

/-! ### Provide -/

theorem chk_congr (x y : ScopeSt) (h : x.providers = y.providers) :
    ∀ ks seen, visitKeys.chk x ks seen = visitKeys.chk y ks seen := by
  intro ks
  induction ks with
  | nil => intro seen; simp [visitKeys.chk]
  | cons k more ih => intro seen; simp only [visitKeys.chk, h, ih]

theorem visitKeys_congr (x y : ScopeSt) (h : x.providers = y.providers) :
    ∀ rs seen, visitKeys x rs seen = visitKeys y rs seen := by
  apply visitKeys.induct x (fun rs seen => visitKeys x rs seen = visitKeys y rs seen)
  · intro seen; simp only [visitKeys]
  · intro slot decl ty name as rest seen ks e hc
    simp only [visitKeys]
    rw [← chk_congr x y h]
    simp only [ks] at hc
    rw [hc]
  · intro slot decl ty name as rest seen ks seen' hc ih
    simp only [visitKeys]
    rw [← chk_congr x y h]
    simp only [ks] at hc
    rw [hc]
    exact ih
  · intro slot decl ty group flatten as rest seen ks ih
    simp only [visitKeys]
    exact ih
  · intro ty fs rest seen e he ih
    simp only [visitKeys]
    rw [← ih, he]
  · intro ty fs rest seen seen' hs ih1 ih2
    simp only [visitKeys]
    rw [← ih1, hs]
    exact ih2

/-- results of a registration agree: same verdict, same Info -/
def RegSame (r1 r2 : St × RegRes) : Prop := CoreEq r1.1 r2.1 ∧ r1.2 = r2.2

theorem coreEq_apiProvide (ctx : Ctx) (fn : Fn) {a b : St} (h : CoreEq a b) (i s : Nat) (o : ProvideOpts) :
    RegSame (apiProvide (dryOf ctx) fn a i s o) (apiProvide ctx fn b i s o) := by
  unfold apiProvide
  cases fn.nonfunc with
  | some _ => exact ⟨h, rfl⟩
  | none =>
    simp only [dryOf_env]
    cases validateOpts ctx.env o with
    | error e' => exact ⟨h, rfl⟩
    | ok as =>
      simp only
      generalize (if o.export_ then St.root else s) = target
      obtain ⟨hp1, hp2⟩ := coreEq_parseParams h ctx.env target fn
      rw [h.subscopes target]
      cases hpa : parseParams ctx.env a target fn with
      | mk ra wa =>
        cases hpb : parseParams ctx.env b target fn with
        | mk rb wb =>
          rw [hpa, hpb] at hp1 hp2
          simp only at hp1 hp2
          subst hp1
          cases ra with
          | error e1 => exact ⟨coreEq_rollback h hp2 _ _, rfl⟩
          | ok params =>
            simp only
            cases newResultList ctx.env { name := o.name, group := o.group, as := as } fn with
            | error e2 => exact ⟨coreEq_rollback h hp2 _ _, rfl⟩
            | ok results =>
              simp only
              have hlen : wa.ctors.length = wb.ctors.length := by rw [hp2.ctors]
              rw [hlen]
              have h3 := coreEq_newGraphNode (hp2.withCtors (fun l => l ++ [({ fn := fn, params := params, results := results, s := target, origS := s, cb := if o.cb then some i else none } : CtorNode)])) target (.ctor wb.ctors.length)
              generalize (St.newGraphNode { wa with ctors := wa.ctors ++ [({ fn := fn, params := params, results := results, s := target, origS := s, cb := if o.cb then some i else none } : CtorNode)] } target (.ctor wb.ctors.length)) = a3 at h3
              generalize (St.newGraphNode { wb with ctors := wb.ctors ++ [({ fn := fn, params := params, results := results, s := target, origS := s, cb := if o.cb then some i else none } : CtorNode)] } target (.ctor wb.ctors.length)) = b3 at h3
              rw [visitKeys_congr (a3.scope target) (b3.scope target) (h3.scope target).providers]
              cases visitKeys (b3.scope target) (slotResults results) [] with
              | error e3 => exact ⟨coreEq_rollback h h3 _ _, rfl⟩
              | ok keys =>
                cases keys with
                | nil => exact ⟨coreEq_rollback h h3 _ _, rfl⟩
                | cons k0 ks =>
                  simp only
                  have h4 := h3.modScopeSame target (fun x =>
                    { x with providers := (k0 :: ks).foldl (fun m k => aset m k (agetL m k ++ [wb.ctors.length])) x.providers })
                    (fun x y hxy => { hxy with providers := by simp [hxy.providers] })
                  obtain ⟨v1, v2⟩ := coreEq_verifyScopes (dryOf ctx).cfg (b.subscopes target) _ _ h4
                  have hcfg : (dryOf ctx).cfg.deferAcyclic = ctx.cfg.deferAcyclic := rfl
                  have hvs : ∀ l w, verifyScopes (dryOf ctx).cfg l w = verifyScopes ctx.cfg l w := by
                    intro l
                    induction l with
                    | nil => intro w; rfl
                    | cons x xs ih => intro w; simp only [verifyScopes, hcfg, ih]
                  simp only [hvs] at v1 v2 ⊢
                  cases hva : verifyScopes ctx.cfg (b.subscopes target) (a3.modScope target fun x =>
                      { x with providers := (k0 :: ks).foldl (fun m k => aset m k (agetL m k ++ [wb.ctors.length])) x.providers }) with
                  | mk r5a w5a =>
                    cases hvb : verifyScopes ctx.cfg (b.subscopes target) (b3.modScope target fun x =>
                        { x with providers := (k0 :: ks).foldl (fun m k => aset m k (agetL m k ++ [wb.ctors.length])) x.providers }) with
                    | mk r5b w5b =>
                      rw [hva, hvb] at v1 v2
                      simp only at v1 v2
                      subst v1
                      cases r5a with
                      | ok u =>
                        simp only
                        exact ⟨v2.modScopeSame target _ (fun x y hxy => { hxy with nodes := by simp [hxy.nodes] }), rfl⟩
                      | error ec =>
                        obtain ⟨sc, cr⟩ := ec
                        cases cr with
                        | cycle p =>
                          simp only
                          refine ⟨coreEq_rollback h v2 _ _, ?_⟩
                          have : cyclePath w5a sc p = cyclePath w5b sc p := by
                            unfold cyclePath; rw [(v2.scope sc).gh]
                          rw [this]
                        | acyclic => exact ⟨v2, rfl⟩
                        | outOfRange => exact ⟨v2, rfl⟩
                        | fuel => exact ⟨v2, rfl⟩

/-! ### Decorate -/

theorem coreEq_apiDecorate (ctx : Ctx) (fn : Fn) {a b : St} (h : CoreEq a b) (i s : Nat) (cb info : Bool) :
    RegSame (apiDecorate (dryOf ctx) fn a i s cb info) (apiDecorate ctx fn b i s cb info) := by
  unfold apiDecorate
  cases fn.nonfunc with
  | some _ => exact ⟨h, rfl⟩
  | none =>
    simp only [dryOf_env]
    obtain ⟨hp1, hp2⟩ := coreEq_parseParams h ctx.env s fn
    rw [h.subscopes s]
    cases hpa : parseParams ctx.env a s fn with
    | mk ra wa =>
      cases hpb : parseParams ctx.env b s fn with
      | mk rb wb =>
        rw [hpa, hpb] at hp1 hp2
        simp only at hp1 hp2
        subst hp1
        cases ra with
        | error e1 => exact ⟨coreEq_rollback h hp2 _ _, rfl⟩
        | ok params =>
          simp only
          cases newResultList ctx.env {} fn with
          | error e2 => exact ⟨coreEq_rollback h hp2 _ _, rfl⟩
          | ok results =>
            simp only
            cases resultKeys ctx.env (slotResults results) with
            | error e3 => exact ⟨coreEq_rollback h hp2 _ _, rfl⟩
            | ok keys =>
              simp only
              rw [(hp2.scope s).decorators]
              split
              · exact ⟨coreEq_rollback h hp2 _ _, rfl⟩
              · have hlen : wa.decos.length = wb.decos.length := by rw [hp2.decos]
                rw [hlen]
                refine ⟨?_, rfl⟩
                have h1 := hp2.withDecos (fun l => l ++ [({ fn := fn, params := params, results := results, s := s, cb := if cb then some i else none } : DecoNode)])
                exact h1.modScopeSame s _ (fun x y hxy => { hxy with decorators := by simp [hxy.decorators] })

/-! ### Scope -/

theorem coreEq_copyOrder {a b : St} (h : CoreEq a b) (child parent : Nat) (g : GNode) :
    CoreEq (copyOrder child parent a g) (copyOrder child parent b g) := by
  cases g with
  | ctor n => exact h.modCtor n _
  | pg i => exact h.withPgs _

theorem coreEq_fold_copyOrder (child parent : Nat) : ∀ (l : List GNode) (a2 b2 : St), CoreEq a2 b2 →
    CoreEq (l.foldl (copyOrder child parent) a2) (l.foldl (copyOrder child parent) b2) := by
  intro l
  induction l with
  | nil => intro a2 b2 h2; exact h2
  | cons g gs ih => intro a2 b2 h2; simp only [List.foldl_cons]; exact ih _ _ (coreEq_copyOrder h2 _ _ g)

theorem coreEq_apiScope {a b : St} (h : CoreEq a b) (parent : Nat) : CoreEq (apiScope a parent) (apiScope b parent) := by
  unfold apiScope
  simp only
  rw [(h.scope parent).gh, h.len]
  have h1 : CoreEq { a with scopes := a.scopes ++ [({ parent := some parent, gh := (b.scope parent).gh } : ScopeSt)] }
      { b with scopes := b.scopes ++ [({ parent := some parent, gh := (b.scope parent).gh } : ScopeSt)] } := by
    refine ⟨h.ctors, h.decos, h.pgs, by simp [h.len], fun j => ?_⟩
    show BlankEq ((a.scopes ++ [_]).getD j { parent := none }) ((b.scopes ++ [_]).getD j { parent := none })
    rw [getD_append_one, getD_append_one, h.len]
    split
    · exact h.scope j
    · split
      · exact BlankEq.refl _
      · exact BlankEq.refl _
  have h2 := h1.modScopeSame parent (fun x => { x with children := x.children ++ [b.scopes.length] })
    (fun x y hxy => { hxy with children := by simp [hxy.children] })
  exact coreEq_fold_copyOrder _ _ _ _ _ h2

/-! ### Invoke -/

/-- verdicts agree: the same verdict, except that nothing is said about the events -/
def SameVerdict (r1 r2 : St × OpRes) : Prop := CoreEq r1.1 r2.1 ∧ r1.2.v = r2.2.v ∧ r1.2.info = r2.2.info

theorem engineFuel_core {a b : St} (h : CoreEq a b) (ps : List Param) : engineFuel a ps = engineFuel b ps := by
  unfold engineFuel maxDepth
  rw [h.ctors, h.decos]

theorem coreEq_invokeCheck {a b : St} (h : CoreEq a b) (s : Nat) :
    match invokeCheck a s, invokeCheck b s with
    | .ok x, .ok y => CoreEq x y
    | .error v, .error v' => v = v'
    | _, _ => False := by
  unfold invokeCheck
  rw [(h.scope s).verified, h.graphSame.checkAcyclic s]
  by_cases hv : (b.scope s).verified = true
  · simp only [hv, if_true]; exact h
  · have hv' : (b.scope s).verified = false := by simpa using hv
    simp only [hv', Bool.false_eq_true, if_false]
    cases Dig.checkAcyclic b s with
    | acyclic => exact h.modScopeSame s _ (fun x y hxy => { hxy with verified := rfl })
    | cycle p =>
      have : cyclePath a s p = cyclePath b s p := by unfold cyclePath; rw [(h.scope s).gh]
      simp only [this]
    | outOfRange => rfl
    | fuel => rfl

theorem coreEq_invokeRun (ctx : Ctx) (hnd : ctx.cfg.dry = false) (hok : AllOk ctx) (fn : Fn) (params : List Param) (s : Nat)
    (info : Bool) {x y : St} (hrel : CoreEq x y) :
    SameVerdict (invokeRun (dryOf ctx) fn params s info x) (invokeRun ctx fn params s info y) := by
  unfold invokeRun
  rw [engineFuel_core hrel params]
  have hb := simR_wrapErr DErr.argsFailed ((engine_drysim ctx hnd hok (engineFuel y params)).2.2.2.2.2 params s x y hrel)
  cases hba : EM.wrapErr (buildList (dryOf ctx) (engineFuel y params) params s) DErr.argsFailed x with
  | mk r4a w4a =>
    cases hbb : EM.wrapErr (buildList ctx (engineFuel y params) params s) DErr.argsFailed y with
    | mk r4b w4b =>
      rw [hba, hbb] at hb
      obtain ⟨hc4, ho4⟩ := hb
      simp only at hc4 ho4
      cases r4a with
      | error f =>
        cases r4b with
        | ok args => simp [RelOut] at ho4
        | error f' =>
          have : f = f' := ho4
          subst this
          exact ⟨hc4, rfl, rfl⟩
      | ok args =>
        cases r4b with
        | error f' => simp [RelOut] at ho4
        | ok args' =>
          simp only
          obtain ⟨x0, len0, hbr⟩ := bodyRes_allOk ctx hok fn w4b
          rw [callBody_dry (dryOf ctx) rfl, callBody_spec ctx hnd, hbr]
          simp only
          obtain ⟨f1, f2, f3, f4⟩ := afterBody_fields ctx .invoked fn args' w4b
          exact ⟨hc4.right f2 f3 f4 f1, rfl, rfl⟩

theorem coreEq_apiInvoke (ctx : Ctx) (hnd : ctx.cfg.dry = false) (hok : AllOk ctx) (fn : Fn) {a b : St} (h : CoreEq a b)
    (s : Nat) (info : Bool) : SameVerdict (apiInvoke (dryOf ctx) fn a s info) (apiInvoke ctx fn b s info) := by
  rw [apiInvoke_eq, apiInvoke_eq]
  unfold apiInvoke'
  cases fn.nonfunc with
  | some _ => exact ⟨h, rfl, rfl⟩
  | none =>
    simp only [dryOf_env]
    obtain ⟨hp1, hp2⟩ := coreEq_parseParams h ctx.env s fn
    rw [h.subscopes s]
    cases hpa : parseParams ctx.env a s fn with
    | mk ra wa =>
      cases hpb : parseParams ctx.env b s fn with
      | mk rb wb =>
        rw [hpa, hpb] at hp1 hp2
        simp only at hp1 hp2
        subst hp1
        cases ra with
        | error e1 => exact ⟨coreEq_rollback h hp2 _ _, rfl, rfl⟩
        | ok params =>
          simp only
          obtain ⟨hs1, hs2⟩ := sim_shallowCheck hp2 s params
          cases hsa : shallowCheck s params wa with
          | mk r2a w2a =>
            cases hsb : shallowCheck s params wb with
            | mk r2b w2b =>
              rw [hsa, hsb] at hs1 hs2
              simp only at hs1 hs2
              cases r2a with
              | error f =>
                cases r2b with
                | ok u => simp [RelOut] at hs2
                | error f' =>
                  have : f = f' := hs2
                  subst this
                  exact ⟨hs1, rfl, rfl⟩
              | ok u =>
                cases r2b with
                | error f' => simp [RelOut] at hs2
                | ok u' =>
                  simp only
                  have hck := coreEq_invokeCheck hs1 s
                  cases hca : invokeCheck w2a s with
                  | error v =>
                    cases hcb : invokeCheck w2b s with
                    | ok y => rw [hca, hcb] at hck; exact absurd hck (by simp)
                    | error v' =>
                      rw [hca, hcb] at hck
                      simp only at hck ⊢
                      subst hck
                      exact ⟨hs1, rfl, rfl⟩
                  | ok x =>
                    cases hcb : invokeCheck w2b s with
                    | error v' => rw [hca, hcb] at hck; exact absurd hck (by simp)
                    | ok y =>
                      rw [hca, hcb] at hck
                      simp only at hck ⊢
                      exact coreEq_invokeRun ctx hnd hok fn params s info hck

/-! ### whole histories -/

theorem coreEq_step (ctx : Ctx) (hnd : ctx.cfg.dry = false) (hok : AllOk ctx) (fns : List Fn) {a b : St} (h : CoreEq a b)
    (i : Nat) (op : Op) : SameVerdict (Dig.step (dryOf ctx) fns a i op) (Dig.step ctx fns b i op) := by
  have h0 := h.resetLog
  have hl : a.scopes.length = b.scopes.length := h.len
  cases op with
  | scope p =>
    simp only [Dig.step, hl]
    split
    · exact ⟨coreEq_apiScope h0 p, rfl, rfl⟩
    · exact ⟨h0, rfl, rfl⟩
  | provide s f o =>
    simp only [Dig.step, hl]
    split
    · split
      · obtain ⟨c1, c2⟩ := coreEq_apiProvide ctx _ h0 i s o
        exact ⟨c1, by simp only [RegRes.toOpRes, c2], by simp only [RegRes.toOpRes, c2]⟩
      · exact ⟨h0, rfl, rfl⟩
    · exact ⟨h0, rfl, rfl⟩
  | decorate s f cb info =>
    simp only [Dig.step, hl]
    split
    · split
      · obtain ⟨c1, c2⟩ := coreEq_apiDecorate ctx _ h0 i s cb info
        exact ⟨c1, by simp only [RegRes.toOpRes, c2], by simp only [RegRes.toOpRes, c2]⟩
      · exact ⟨h0, rfl, rfl⟩
    · exact ⟨h0, rfl, rfl⟩
  | invoke s f info =>
    simp only [Dig.step, hl]
    split
    · split
      · exact coreEq_apiInvoke ctx hnd hok _ h0 s info
      · exact ⟨h0, rfl, rfl⟩
    · exact ⟨h0, rfl, rfl⟩
  | visualize s e => cases e <;> (simp only [Dig.step]; split <;> exact ⟨h0, rfl, rfl⟩)
  | string s => simp only [Dig.step, hl]; split <;> exact ⟨h0, rfl, rfl⟩

/-- verdict and Info of every operation agree -/
def SameVerdicts : List OpRes → List OpRes → Prop
  | [], [] => True
  | r :: rs, r' :: rs' => r.v = r'.v ∧ r.info = r'.info ∧ SameVerdicts rs rs'
  | _, _ => False

theorem sameVerdicts_reverse_cons : ∀ (acc acc' : List OpRes) (r r' : OpRes), SameVerdicts acc.reverse acc'.reverse →
    r.v = r'.v → r.info = r'.info → SameVerdicts (r :: acc).reverse (r' :: acc').reverse := by
  intro acc acc' r r' h hv hi
  simp only [List.reverse_cons]
  generalize acc.reverse = l at h
  generalize acc'.reverse = l' at h
  induction l generalizing l' with
  | nil =>
    cases l' with
    | nil => exact ⟨hv, hi, trivial⟩
    | cons x xs => exact absurd h (by simp [SameVerdicts])
  | cons y ys ih =>
    cases l' with
    | nil => exact absurd h (by simp [SameVerdicts])
    | cons x xs =>
      obtain ⟨h1, h2, h3⟩ := h
      exact ⟨h1, h2, ih xs h3⟩

theorem coreEq_runOps (ctx : Ctx) (hnd : ctx.cfg.dry = false) (hok : AllOk ctx) (fns : List Fn) :
    ∀ (ops : List Op) (i : Nat) (a b : St) (acc acc' : List OpRes), CoreEq a b → SameVerdicts acc.reverse acc'.reverse →
      SameVerdicts (Dig.runOps (dryOf ctx) fns ops i a acc).2 (Dig.runOps ctx fns ops i b acc').2 := by
  intro ops
  induction ops with
  | nil => intro i a b acc acc' _ hacc; exact hacc
  | cons op rest ih =>
    intro i a b acc acc' h hacc
    simp only [Dig.runOps]
    obtain ⟨c1, c2, c3⟩ := coreEq_step ctx hnd hok fns h i op
    cases hsa : Dig.step (dryOf ctx) fns a i op with
    | mk a' ra =>
      cases hsb : Dig.step ctx fns b i op with
      | mk b' rb =>
        rw [hsa, hsb] at c1 c2 c3
        exact ih _ _ _ _ _ c1 (sameVerdicts_reverse_cons acc acc' ra rb hacc c2 c3)

/-- **DryRun validates the same**: for every program whose scripted functions all succeed, running it on a
    DryRun container yields, operation by operation, the same verdict and the same Info as running it normally -/
theorem dryRun_same_verdicts (p : Program) (hnd : p.cfg.dry = false) (hok : AllOk p.ctx) :
    SameVerdicts (runProgram { p with cfg := { p.cfg with dry := true } }).2 (runProgram p).2 := by
  have : ({ p with cfg := { p.cfg with dry := true } } : Program).ctx = dryOf p.ctx := rfl
  unfold runProgram
  rw [this]
  exact coreEq_runOps p.ctx hnd hok p.fns p.ops 0 {} {} [] [] (CoreEq.refl _) trivial

end Dig
