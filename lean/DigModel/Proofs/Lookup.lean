import DigModel.Proofs.Flags
/-
  What the look-ups along the path to the root return (param.go: buildWithDecorators,
  getDecoratedValue, the provider loop of paramSingle.Build), stated declaratively.
-/
namespace Dig

/-- `findDeco` returns the first scope of the path holding a decorator for `k` that is not on the stack -/
theorem findDeco_spec (st : St) (k : Key) (anc : List Nat) (d ds : Nat) (h : findDeco st k anc = some (d, ds)) :
    ∃ pre post, anc = pre ++ ds :: post ∧
      aget (st.scope ds).decorators k = some d ∧ (st.deco d).state ≠ .onStack ∧
      ∀ s ∈ pre, ∀ d', aget (st.scope s).decorators k = some d' → (st.deco d').state = .onStack := by
  induction anc with
  | nil => simp [findDeco] at h
  | cons s rest ih =>
    simp only [findDeco] at h
    split at h
    · rename_i d' hd'
      split at h
      · rename_i hon
        obtain ⟨pre, post, e, h1, h2, h3⟩ := ih h
        refine ⟨s :: pre, post, by rw [e]; rfl, h1, h2, ?_⟩
        intro s' hs' d'' hd''
        rcases List.mem_cons.mp hs' with rfl | hm
        · rw [hd'] at hd''; injection hd'' with e'; subst e'; simpa using hon
        · exact h3 s' hm d'' hd''
      · rename_i hne
        injection h with h; injection h with e1 e2; subst e1; subst e2
        exact ⟨[], rest, rfl, hd', by intro hc; apply hne; simp [hc], by simp⟩
    · rename_i hnone
      obtain ⟨pre, post, e, h1, h2, h3⟩ := ih h
      refine ⟨s :: pre, post, by rw [e]; rfl, h1, h2, ?_⟩
      intro s' hs' d'' hd''
      rcases List.mem_cons.mp hs' with rfl | hm
      · rw [hnone] at hd''; cases hd''
      · exact h3 s' hm d'' hd''

/-- `findDeco` finds nothing exactly when every decorator for `k` on the path is on the stack -/
theorem findDeco_none (st : St) (k : Key) (anc : List Nat) (h : findDeco st k anc = none) :
    ∀ s ∈ anc, ∀ d, aget (st.scope s).decorators k = some d → (st.deco d).state = .onStack := by
  induction anc with
  | nil => simp
  | cons s rest ih =>
    simp only [findDeco] at h
    intro s' hs' d hd
    split at h
    · rename_i d' hd'
      split at h
      · rename_i hon
        rcases List.mem_cons.mp hs' with rfl | hm
        · rw [hd'] at hd; injection hd with e; subst e; simpa using hon
        · exact ih h s' hm d hd
      · cases h
    · rename_i hnone
      rcases List.mem_cons.mp hs' with rfl | hm
      · rw [hnone] at hd; cases hd
      · exact ih h s' hm d hd

/-- unfold one step of the provider search -/
theorem findProviders_cons (st : St) (k : Key) (s : Nat) (rest : List Nat) :
    findProviders st k (s :: rest) =
      match aget (st.scope s).values k with
      | some v => .value v
      | none => if agetL (st.scope s).providers k = [] then findProviders st k rest
                else .providers s (agetL (st.scope s).providers k) := by
  simp only [findProviders]
  cases aget (st.scope s).values k with
  | some v => rfl
  | none =>
    simp only
    cases h : agetL (st.scope s).providers k with
    | nil => simp
    | cons a l => simp

/-- the provider search: the first scope of the path that has a cached value or a provider for `k`;
    a cached value wins over the providers of the same scope -/
theorem findProviders_value (st : St) (k : Key) (anc : List Nat) (v : Val) (h : findProviders st k anc = .value v) :
    ∃ pre s post, anc = pre ++ s :: post ∧ aget (st.scope s).values k = some v ∧
      ∀ s' ∈ pre, aget (st.scope s').values k = none ∧ agetL (st.scope s').providers k = [] := by
  induction anc with
  | nil => simp [findProviders] at h
  | cons s rest ih =>
    rw [findProviders_cons] at h
    cases hv : aget (st.scope s).values k with
    | some v' =>
      rw [hv] at h; simp only at h; injection h with e; subst e
      exact ⟨[], s, rest, rfl, hv, by simp⟩
    | none =>
      rw [hv] at h; simp only at h
      by_cases hp : agetL (st.scope s).providers k = []
      · rw [if_pos hp] at h
        obtain ⟨pre, s2, post, e, h1, h2⟩ := ih h
        refine ⟨s :: pre, s2, post, by rw [e]; rfl, h1, ?_⟩
        intro s' hs'
        rcases List.mem_cons.mp hs' with rfl | hm
        · exact ⟨hv, hp⟩
        · exact h2 s' hm
      · rw [if_neg hp] at h; cases h

theorem findProviders_provs (st : St) (k : Key) (anc : List Nat) (pc : Nat) (ns : List Nat)
    (h : findProviders st k anc = .providers pc ns) :
    ∃ pre post, anc = pre ++ pc :: post ∧ ns = agetL (st.scope pc).providers k ∧ ns ≠ [] ∧
      aget (st.scope pc).values k = none ∧
      ∀ s' ∈ pre, aget (st.scope s').values k = none ∧ agetL (st.scope s').providers k = [] := by
  induction anc with
  | nil => simp [findProviders] at h
  | cons s rest ih =>
    rw [findProviders_cons] at h
    cases hv : aget (st.scope s).values k with
    | some v' => rw [hv] at h; cases h
    | none =>
      rw [hv] at h; simp only at h
      by_cases hp : agetL (st.scope s).providers k = []
      · rw [if_pos hp] at h
        obtain ⟨pre, post, e, h1, h2, h3, h4⟩ := ih h
        refine ⟨s :: pre, post, by rw [e]; rfl, h1, h2, h3, ?_⟩
        intro s' hs'
        rcases List.mem_cons.mp hs' with rfl | hm
        · exact ⟨hv, hp⟩
        · exact h4 s' hm
      · rw [if_neg hp] at h
        injection h with e1 e2; subst e1; subst e2
        exact ⟨[], rest, rfl, rfl, hp, hv, by simp⟩

theorem findProviders_none (st : St) (k : Key) (anc : List Nat) (h : findProviders st k anc = .none) :
    ∀ s ∈ anc, aget (st.scope s).values k = none ∧ agetL (st.scope s).providers k = [] := by
  induction anc with
  | nil => simp
  | cons s rest ih =>
    rw [findProviders_cons] at h
    cases hv : aget (st.scope s).values k with
    | some v' => rw [hv] at h; cases h
    | none =>
      rw [hv] at h; simp only at h
      by_cases hp : agetL (st.scope s).providers k = []
      · rw [if_pos hp] at h
        intro s' hs'
        rcases List.mem_cons.mp hs' with rfl | hm
        · exact ⟨hv, hp⟩
        · exact ih h s' hm
      · rw [if_neg hp] at h; cases h

theorem findDecoratedValue_none (st : St) (k : Key) (anc : List Nat) (h : findDecoratedValue st k anc = none) :
    ∀ s ∈ anc, aget (st.scope s).decoratedValues k = none := by
  induction anc with
  | nil => simp
  | cons s rest ih =>
    simp only [findDecoratedValue] at h
    intro s' hs'
    cases hv : aget (st.scope s).decoratedValues k with
    | some v => rw [hv] at h; cases h
    | none =>
      rw [hv] at h
      rcases List.mem_cons.mp hs' with rfl | hm
      · exact hv
      · exact ih h s' hm

theorem findDecoratedValue_some (st : St) (k : Key) (anc : List Nat) (v : Val) (h : findDecoratedValue st k anc = some v) :
    ∃ pre s post, anc = pre ++ s :: post ∧ aget (st.scope s).decoratedValues k = some v ∧
      ∀ s' ∈ pre, aget (st.scope s').decoratedValues k = none := by
  induction anc with
  | nil => simp [findDecoratedValue] at h
  | cons s rest ih =>
    simp only [findDecoratedValue] at h
    cases hv : aget (st.scope s).decoratedValues k with
    | some v' =>
      rw [hv] at h; injection h with e; subst e
      exact ⟨[], s, rest, rfl, hv, by simp⟩
    | none =>
      rw [hv] at h
      obtain ⟨pre, s2, post, e, h1, h2⟩ := ih h
      refine ⟨s :: pre, s2, post, by rw [e]; rfl, h1, ?_⟩
      intro s' hs'
      rcases List.mem_cons.mp hs' with rfl | hm
      · exact hv
      · exact h2 s' hm

end Dig
