import DigModel.Proofs.Tree
import DigModel.Proofs.GhBound
/-
  What a graph holder means: the order recorded for a node in a scope points at that node in the scope's holder, and
  every constructor that provides something visible from a scope has its node in that scope's holder.  With these the
  edges `graphHolder.EdgesFrom` reads off the orders are the dependencies between constructors as seen from the scope.
-/
namespace Dig

def nodeOrder (st : St) : GNode → Nat → Nat
  | .ctor m, s => orderOf (st.ctor m).orders s
  | .pg i, s => orderOf (st.pgs.getD i default).orders s

def NodeValid (st : St) : GNode → Prop
  | .ctor m => m < st.ctors.length
  | .pg i => i < st.pgs.length

instance (st : St) (x : GNode) : Decidable (NodeValid st x) := by
  cases x <;> simp only [NodeValid] <;> infer_instance

structure GM0 (st : St) : Prop where
  /-- the recorded order of a node of the holder points at the node -/
  pos : ∀ s node, node ∈ (st.scope s).gh → (st.scope s).gh[nodeOrder st node s]? = some node
  /-- a constructor visible from `s` is a node of `s`'s holder -/
  prov : ∀ s k m, s < st.scopes.length → m ∈ st.allProviders s k → GNode.ctor m ∈ (st.scope s).gh
  /-- nodes of holders exist -/
  bnd : ∀ s node, node ∈ (st.scope s).gh → NodeValid st node

theorem GM0.init : GM0 ({} : St) where
  pos s node h := by cases s <;> simp [St.scope] at h
  prov s k m hs h := by
    have : s = 0 := by simp at hs; omega
    subst this
    simp [St.allProviders, St.ancestors, ancestorsAux, St.scope, agetL, aget] at h
  bnd s node h := by cases s <;> simp [St.scope] at h

/-- same holders, same orders, same tree and providers -/
theorem GM0.transfer {a b : St} (h : GM0 a) (hl : b.scopes.length = a.scopes.length)
    (hg : ∀ s, (b.scope s).gh = (a.scope s).gh)
    (ho : ∀ node s, nodeOrder b node s = nodeOrder a node s)
    (hp : ∀ s k, b.allProviders s k = a.allProviders s k)
    (hv : ∀ node, NodeValid a node → NodeValid b node) : GM0 b where
  pos s node hn := by rw [hg s] at hn ⊢; rw [ho]; exact h.pos s node hn
  prov s k m hs hm := by rw [hg s]; rw [hp] at hm; exact h.prov s k m (by rw [← hl]; exact hs) hm
  bnd s node hn := by rw [hg s] at hn; exact hv node (h.bnd s node hn)

theorem allProviders_congr {a b : St} (hl : a.scopes.length = b.scopes.length)
    (hs : ∀ j, (a.scope j).parent = (b.scope j).parent ∧ (a.scope j).providers = (b.scope j).providers) (s : Nat) (k : Key) :
    a.allProviders s k = b.allProviders s k := by
  unfold St.allProviders
  have : a.ancestors s = b.ancestors s := by
    unfold St.ancestors
    rw [hl]
    exact ancestorsAux_congr _ _ hl (fun j => (hs j).1) _ _
  rw [this]
  exact flatMap_congr' _ _ _ (fun x _ => by rw [(hs x).2])

theorem GM0.graphSame {a b : St} (h : GM0 a) (hg : GraphSame a b) : GM0 b :=
  h.transfer hg.2.2.1.symm (fun s => ((hg.2.2.2 s).2.2).symm)
    (fun node s => by cases node <;> simp [nodeOrder, St.ctor, hg.1, hg.2.1])
    (fun s k => (hg.allProviders s k).symm)
    (fun node hv => by
      cases node with
      | ctor m => simp only [NodeValid] at hv ⊢; rw [← hg.1]; exact hv
      | pg i => simp only [NodeValid] at hv ⊢; rw [← hg.2.1]; exact hv)

theorem GM0.regFrame {a b : St} (h : GM0 a) (hf : RegFrame a b) : GM0 b :=
  h.transfer hf.1.symm (fun s => ((hf.2.1 s).2.2.2.2.2.1).symm)
    (fun node s => by
      cases node with
      | ctor m => simp only [nodeOrder]; rw [(hf.2.2.2.2.1 m).2.2.2.2.2.2]
      | pg i => simp only [nodeOrder]; rw [hf.2.2.1])
    (fun s k => (allProviders_congr hf.1 (fun j => ⟨(hf.2.1 j).1, (hf.2.1 j).2.2.1⟩) s k).symm)
    (fun node hv => by
      cases node with
      | ctor m => simp only [NodeValid] at hv ⊢; rw [← hf.2.2.2.1]; exact hv
      | pg i => simp only [NodeValid] at hv ⊢; rw [← hf.2.2.1]; exact hv)

theorem GM0.eqButVerified {a b : St} (h : GM0 a) (he : EqButVerified a b) : GM0 b :=
  h.transfer he.2.2.2.2.2.2.2.1.symm (fun s => ((he.2.2.2.2.2.2.2.2 s).2.2.2.2.2.2.2.2.2).symm)
    (fun node s => by cases node <;> simp [nodeOrder, St.ctor, he.1, he.2.2.1])
    (fun s k => (allProviders_congr he.2.2.2.2.2.2.2.1
      (fun j => ⟨(he.2.2.2.2.2.2.2.2 j).1, (he.2.2.2.2.2.2.2.2 j).2.2.1⟩) s k).symm)
    (fun node hv => by
      cases node with
      | ctor m => simp only [NodeValid] at hv ⊢; rw [← he.1]; exact hv
      | pg i => simp only [NodeValid] at hv ⊢; rw [← he.2.2.1]; exact hv)

end Dig

namespace Dig

theorem ghStep_scope (node : GNode) (w : St) (sc j : Nat) : (ghStep node w sc).scope j =
    if sc = j ∧ j < w.scopes.length then { w.scope j with gh := (w.scope j).gh ++ [node] } else w.scope j := by
  unfold Dig.ghStep
  cases node with
  | ctor n => simp only; show ((w.modScope sc _).scope j) = _; rw [scope_modScope]
  | pg i => simp only; show ((w.modScope sc _).scope j) = _; rw [scope_modScope]

theorem ghStep_gh_mono (node : GNode) (w : St) (sc j : Nat) : ∀ x ∈ (w.scope j).gh, x ∈ ((ghStep node w sc).scope j).gh := by
  intro x hx
  rw [ghStep_scope]
  split
  · simp [hx]
  · exact hx

theorem ghStep_len (node : GNode) (w : St) (sc : Nat) : (ghStep node w sc).scopes.length = w.scopes.length ∧
    (ghStep node w sc).ctors.length = w.ctors.length ∧ (ghStep node w sc).pgs.length = w.pgs.length := by
  unfold Dig.ghStep; cases node <;> simp [St.modScope, St.modCtor]

theorem ghStep_nodeOrder (node : GNode) (w : St) (sc : Nat) (hv : NodeValid w node) (x : GNode) (s : Nat) :
    nodeOrder (ghStep node w sc) x s = if x = node ∧ s = sc then (w.scope sc).gh.length else nodeOrder w x s := by
  unfold Dig.ghStep
  cases node with
  | ctor n =>
    simp only
    cases x with
    | ctor m =>
      show orderOf ((St.modCtor (w.modScope sc _) n _).ctor m).orders s = _
      rw [ctor_modCtor]
      by_cases hnm : n = m
      · subst hnm
        have : n = n ∧ n < (w.modScope sc fun x => { x with gh := x.gh ++ [GNode.ctor n] }).ctors.length := ⟨rfl, hv⟩
        rw [if_pos this]
        simp only [orderOf_setOrder]
        by_cases hs : s = sc
        · simp [hs]
        · simp [hs]; rfl
      · have : ¬ (n = m ∧ m < (w.modScope sc fun x => { x with gh := x.gh ++ [GNode.ctor n] }).ctors.length) := fun h => hnm h.1
        rw [if_neg this]
        have : ¬ (GNode.ctor m = GNode.ctor n ∧ s = sc) := fun h => hnm (by injection h.1 with e; exact e.symm)
        rw [if_neg this]; rfl
    | pg i =>
      have : ¬ (GNode.pg i = GNode.ctor n ∧ s = sc) := fun h => by cases h.1
      rw [if_neg this]; rfl
  | pg j =>
    simp only
    cases x with
    | ctor m =>
      have : ¬ (GNode.ctor m = GNode.pg j ∧ s = sc) := fun h => by cases h.1
      rw [if_neg this]; rfl
    | pg i =>
      show orderOf (((w.modScope sc _).pgs.modify j _).getD i default).orders s = _
      rw [getD_modify]
      by_cases hji : j = i
      · subst hji
        have : j = j ∧ j < (w.modScope sc fun x => { x with gh := x.gh ++ [GNode.pg j] }).pgs.length := ⟨rfl, hv⟩
        rw [if_pos this]
        simp only [orderOf_setOrder]
        by_cases hs : s = sc
        · simp [hs]
        · simp [hs]; rfl
      · have : ¬ (j = i ∧ i < (w.modScope sc fun x => { x with gh := x.gh ++ [GNode.pg j] }).pgs.length) := fun h => hji h.1
        rw [if_neg this]
        have : ¬ (GNode.pg i = GNode.pg j ∧ s = sc) := fun h => hji (by injection h.1 with e; exact e.symm)
        rw [if_neg this]; rfl

theorem ghStep_allProviders (node : GNode) (w : St) (sc s : Nat) (k : Key) :
    (ghStep node w sc).allProviders s k = w.allProviders s k := by
  apply allProviders_congr (ghStep_len node w sc).1
  intro j
  rw [ghStep_scope]
  split <;> exact ⟨rfl, rfl⟩

theorem GM0.ghStep {w : St} (h : GM0 w) (node : GNode) (hv : NodeValid w node) (sc : Nat) : GM0 (Dig.ghStep node w sc) := by
  refine ⟨?_, ?_, ?_⟩
  · intro s x hx
    rw [ghStep_nodeOrder node w sc hv, ghStep_scope]
    rw [ghStep_scope] at hx
    by_cases hc : sc = s ∧ s < w.scopes.length
    · obtain ⟨rfl, hs⟩ := hc
      rw [if_pos ⟨rfl, hs⟩] at hx ⊢
      simp only [List.mem_append, List.mem_singleton] at hx
      by_cases hxn : x = node
      · subst hxn
        rw [if_pos ⟨rfl, rfl⟩]
        simp
      · have : ¬ (x = node ∧ sc = sc) := fun h => hxn h.1
        rw [if_neg this]
        rcases hx with hx | hx
        · have := h.pos sc x hx
          simp only
          rw [List.getElem?_append_left]
          · exact this
          · rcases Nat.lt_or_ge (nodeOrder w x sc) (w.scope sc).gh.length with h1 | h1
            · exact h1
            · have hnone : (w.scope sc).gh[nodeOrder w x sc]? = none := by simp; omega
              rw [hnone] at this; cases this
        · exact absurd hx hxn
    · rw [if_neg hc] at hx ⊢
      have hne : ¬ (x = node ∧ s = sc) ∨ (w.scope sc).gh.length = nodeOrder w x s := by
        by_cases h1 : s = sc
        · subst h1
          -- s = sc but s is not a valid scope: its holder is empty
          have hs : ¬ s < w.scopes.length := fun h2 => hc ⟨rfl, h2⟩
          have : w.scope s = { parent := none } := by
            unfold St.scope
            rw [List.getD_eq_getElem?_getD]
            have : w.scopes[s]? = none := by simp; omega
            simp [this]
          rw [this] at hx; cases hx
        · exact Or.inl (fun h2 => h1 h2.2)
      rcases hne with hne | hne
      · rw [if_neg hne]; exact h.pos s x hx
      · by_cases h2 : x = node ∧ s = sc
        · rw [if_pos h2, hne]; exact h.pos s x hx
        · rw [if_neg h2]; exact h.pos s x hx
  · intro s k m hs hm
    rw [ghStep_allProviders] at hm
    exact ghStep_gh_mono node w sc s _ (h.prov s k m (by rw [← (ghStep_len node w sc).1]; exact hs) hm)
  · intro s x hx
    rw [ghStep_scope] at hx
    have hvalid : ∀ y, NodeValid w y → NodeValid (Dig.ghStep node w sc) y := by
      intro y hy
      cases y with
      | ctor m => simp only [NodeValid] at hy ⊢; rw [(ghStep_len node w sc).2.1]; exact hy
      | pg i => simp only [NodeValid] at hy ⊢; rw [(ghStep_len node w sc).2.2]; exact hy
    split at hx
    · simp only [List.mem_append, List.mem_singleton] at hx
      rcases hx with hx | hx
      · exact hvalid x (h.bnd s x hx)
      · subst hx; exact hvalid x hv
    · exact hvalid x (h.bnd s x hx)

end Dig

namespace Dig

theorem nodeValid_ghStep (node : GNode) (w : St) (sc : Nat) (y : GNode) (hy : NodeValid w y) : NodeValid (ghStep node w sc) y := by
  cases y with
  | ctor m => simp only [NodeValid] at hy ⊢; rw [(ghStep_len node w sc).2.1]; exact hy
  | pg i => simp only [NodeValid] at hy ⊢; rw [(ghStep_len node w sc).2.2]; exact hy

theorem GM0.foldGhStep (node : GNode) : ∀ (l : List Nat) (w : St), GM0 w → NodeValid w node →
    GM0 (l.foldl (Dig.ghStep node) w) ∧ NodeValid (l.foldl (Dig.ghStep node) w) node := by
  intro l
  induction l with
  | nil => intro w h hv; exact ⟨h, hv⟩
  | cons x xs ih => intro w h hv; exact ih _ (h.ghStep node hv x) (nodeValid_ghStep node w x node hv)

theorem GM0.newGraphNode {w : St} (h : GM0 w) (s : Nat) (node : GNode) (hv : NodeValid w node) :
    GM0 (w.newGraphNode s node) := by
  rw [newGraphNode_eq]; exact (GM0.foldGhStep node _ w h hv).1

/-- the fold keeps what is in the holders and the tree -/
theorem foldGhStep_facts (node : GNode) : ∀ (l : List Nat) (w : St),
    (l.foldl (Dig.ghStep node) w).scopes.length = w.scopes.length ∧
    (∀ j, ((l.foldl (Dig.ghStep node) w).scope j).parent = (w.scope j).parent ∧
          ((l.foldl (Dig.ghStep node) w).scope j).children = (w.scope j).children ∧
          ((l.foldl (Dig.ghStep node) w).scope j).providers = (w.scope j).providers) ∧
    (∀ j x, x ∈ (w.scope j).gh → x ∈ ((l.foldl (Dig.ghStep node) w).scope j).gh) ∧
    (∀ sc ∈ l, sc < w.scopes.length → node ∈ ((l.foldl (Dig.ghStep node) w).scope sc).gh) := by
  intro l
  induction l with
  | nil => intro w; exact ⟨rfl, fun _ => ⟨rfl, rfl, rfl⟩, fun _ _ h => h, fun _ h => by cases h⟩
  | cons x xs ih =>
    intro w
    simp only [List.foldl_cons]
    obtain ⟨a1, a2, a3, a4⟩ := ih (Dig.ghStep node w x)
    have hl := (ghStep_len node w x).1
    have hsc : ∀ j, ((Dig.ghStep node w x).scope j).parent = (w.scope j).parent ∧
        ((Dig.ghStep node w x).scope j).children = (w.scope j).children ∧
        ((Dig.ghStep node w x).scope j).providers = (w.scope j).providers := by
      intro j; rw [ghStep_scope]; split <;> exact ⟨rfl, rfl, rfl⟩
    refine ⟨a1.trans hl, fun j => ⟨(a2 j).1.trans (hsc j).1, (a2 j).2.1.trans (hsc j).2.1, (a2 j).2.2.trans (hsc j).2.2⟩,
      fun j y hy => a3 j y (ghStep_gh_mono node w x j y hy), ?_⟩
    intro sc hsc' hlt
    rcases List.mem_cons.mp hsc' with rfl | hm
    · apply a3
      rw [ghStep_scope, if_pos ⟨rfl, hlt⟩]
      simp
    · exact a4 sc hm (by rw [hl]; exact hlt)

/-- `newGraphNode` puts the node into the holder of every scope of the subtree -/
theorem newGraphNode_mem (w : St) (s : Nat) (node : GNode) (sc : Nat) (hsc : sc ∈ w.subscopes s) (hlt : sc < w.scopes.length) :
    node ∈ ((w.newGraphNode s node).scope sc).gh := by
  rw [newGraphNode_eq]
  exact (foldGhStep_facts node (w.subscopes s) w).2.2.2 sc hsc hlt

theorem TreeInv.newGraphNode {w : St} (h : TreeInv w) (s : Nat) (node : GNode) : TreeInv (w.newGraphNode s node) := by
  rw [newGraphNode_eq]
  obtain ⟨a1, a2, _, _⟩ := foldGhStep_facts node (w.subscopes s) w
  exact h.transfer a1 (fun j => ⟨(a2 j).1, (a2 j).2.1⟩)

theorem GM0.addCtor {w : St} (h : GM0 w) (node : CtorNode) : GM0 { w with ctors := w.ctors ++ [node] } where
  pos s x hx := by
    have hxv := h.bnd s x hx
    have : nodeOrder { w with ctors := w.ctors ++ [node] } x s = nodeOrder w x s := by
      cases x with
      | ctor m =>
        simp only [NodeValid] at hxv
        show orderOf ((w.ctors ++ [node]).getD m default).orders s = orderOf (w.ctors.getD m default).orders s
        rw [getD_append_fresh, if_pos hxv]
      | pg i => rfl
    rw [this]
    exact h.pos s x hx
  prov s k m hs hm := h.prov s k m hs hm
  bnd s x hx := by
    have hxv := h.bnd s x hx
    cases x with
    | ctor m => simp only [NodeValid, List.length_append, List.length_singleton] at hxv ⊢; omega
    | pg i => exact hxv

theorem GM0.addPgs {w : St} (h : GM0 w) (l : List PGNode) : GM0 { w with pgs := w.pgs ++ l } where
  pos s x hx := by
    have hxv := h.bnd s x hx
    have : nodeOrder { w with pgs := w.pgs ++ l } x s = nodeOrder w x s := by
      cases x with
      | ctor m => rfl
      | pg i =>
        simp only [NodeValid] at hxv
        show orderOf ((w.pgs ++ l).getD i default).orders s = orderOf (w.pgs.getD i default).orders s
        rw [getD_append_fresh, if_pos hxv]
    rw [this]
    exact h.pos s x hx
  prov s k m hs hm := h.prov s k m hs hm
  bnd s x hx := by
    have hxv := h.bnd s x hx
    cases x with
    | ctor m => exact hxv
    | pg i => simp only [NodeValid, List.length_append] at hxv ⊢; omega

theorem GM0.addDecos {w : St} (h : GM0 w) (l : List DecoNode) : GM0 { w with decos := l } :=
  ⟨h.pos, h.prov, h.bnd⟩

/-- a change of one scope that keeps its holder, its parent and its providers -/
theorem GM0.modScope {w : St} (h : GM0 w) (s : Nat) (f : ScopeSt → ScopeSt)
    (hf : ∀ x, (f x).gh = x.gh ∧ (f x).parent = x.parent ∧ (f x).providers = x.providers) : GM0 (w.modScope s f) :=
  h.transfer (by simp [St.modScope]) (fun j => by rw [scope_modScope]; split <;> simp [hf])
    (fun node j => by cases node <;> rfl)
    (fun j k => allProviders_congr (by simp [St.modScope])
      (fun i => by rw [scope_modScope]; split <;> simp [hf]) j k)
    (fun node hv => by cases node <;> exact hv)

end Dig

namespace Dig

theorem agetL_aset (m : List (Key × List Nat)) (k k' : Key) (v : List Nat) :
    agetL (aset m k v) k' = if k' = k then v else agetL m k' := by
  unfold agetL
  rw [aget_aset]
  split <;> rfl

theorem foldl_append_mem (keys : List Key) (n : Nat) : ∀ (m : List (Key × List Nat)) (k : Key) (x : Nat),
    x ∈ agetL (keys.foldl (fun m k => aset m k (agetL m k ++ [n])) m) k → x = n ∨ x ∈ agetL m k := by
  induction keys with
  | nil => intro m k x h; exact Or.inr h
  | cons k0 ks ih =>
    intro m k x h
    simp only [List.foldl_cons] at h
    rcases ih _ k x h with h1 | h1
    · exact Or.inl h1
    · rw [agetL_aset] at h1
      split at h1
      · rename_i hk; subst hk
        simp only [List.mem_append, List.mem_singleton] at h1
        rcases h1 with h1 | h1
        · exact Or.inr h1
        · exact Or.inl h1
      · exact Or.inr h1

/-- registering constructor `n` under `keys` in `target`, after its node was put into the holders of the subtree -/
theorem GM0.addProviders {w : St} (h : GM0 w) (ht : TreeInv w) (target n : Nat) (keys : List Key)
    (hin : ∀ sc ∈ w.subscopes target, sc < w.scopes.length → GNode.ctor n ∈ (w.scope sc).gh) :
    GM0 (w.modScope target fun x =>
      { x with providers := keys.foldl (fun m k => aset m k (agetL m k ++ [n])) (w.scope target).providers }) := by
  have hscope : ∀ j, ((w.modScope target fun x =>
      { x with providers := keys.foldl (fun m k => aset m k (agetL m k ++ [n])) (w.scope target).providers }).scope j) =
      if target = j ∧ j < w.scopes.length then
        { w.scope j with providers := keys.foldl (fun m k => aset m k (agetL m k ++ [n])) (w.scope target).providers }
      else w.scope j := fun j => scope_modScope w target j _
  have hanc : ∀ s, (w.modScope target fun x =>
      { x with providers := keys.foldl (fun m k => aset m k (agetL m k ++ [n])) (w.scope target).providers }).ancestors s =
      w.ancestors s := by
    intro s
    unfold St.ancestors
    have hl : (w.modScope target fun x =>
      { x with providers := keys.foldl (fun m k => aset m k (agetL m k ++ [n])) (w.scope target).providers }).scopes.length =
        w.scopes.length := by simp [St.modScope]
    rw [hl]
    exact ancestorsAux_congr _ _ hl (fun j => by
      show ((w.modScope target _).scope j).parent = (w.scope j).parent
      rw [hscope j]
      split <;> rfl) _ _
  refine ⟨?_, ?_, ?_⟩
  · intro s x hx
    rw [hscope s] at hx ⊢
    have e : nodeOrder (w.modScope target fun x =>
      { x with providers := keys.foldl (fun m k => aset m k (agetL m k ++ [n])) (w.scope target).providers }) x s = nodeOrder w x s := by
      cases x <;> rfl
    rw [e]
    by_cases hc : target = s ∧ s < w.scopes.length
    · rw [if_pos hc] at hx ⊢; exact h.pos s x hx
    · rw [if_neg hc] at hx ⊢; exact h.pos s x hx
  · intro s k m hs hm
    have hs' : s < w.scopes.length := by simpa [St.modScope] using hs
    have hgh : ((w.modScope target fun x =>
      { x with providers := keys.foldl (fun m k => aset m k (agetL m k ++ [n])) (w.scope target).providers }).scope s).gh =
        (w.scope s).gh := by rw [hscope s]; split <;> rfl
    rw [hgh]
    simp only [St.allProviders, List.mem_flatMap] at hm
    obtain ⟨a, ha, hma⟩ := hm
    rw [hanc s] at ha
    rw [hscope a] at hma
    split at hma
    · rename_i hc
      obtain ⟨rfl, _⟩ := hc
      rcases foldl_append_mem keys n _ k m hma with h1 | h1
      · subst h1
        exact hin s (mem_subscopes_of_mem_ancestors ht ha) hs'
      · exact h.prov s k m hs' (by simp only [St.allProviders, List.mem_flatMap]; exact ⟨target, ha, h1⟩)
    · exact h.prov s k m hs' (by simp only [St.allProviders, List.mem_flatMap]; exact ⟨a, ha, hma⟩)
  · intro s x hx
    rw [hscope s] at hx
    have : NodeValid w x := by
      split at hx
      · exact h.bnd s x hx
      · exact h.bnd s x hx
    cases x <;> exact this

end Dig

namespace Dig

/-! ### paths to the root, when scopes are appended -/

def WFParents (a : List ScopeSt) : Prop := ∀ (j : Nat) (sc : ScopeSt), a[j]? = some sc → ∀ p, sc.parent = some p → p < j

theorem TreeInv.wfParents {st : St} (h : TreeInv st) : WFParents st.scopes := by
  intro j sc hj p hp
  obtain ⟨hl, e⟩ := scope_of_getElem? hj
  subst e
  exact (h.up j hl p hp).1

theorem ancestorsAux_prefix (a b : List ScopeSt) (n : Nat) (hwf : WFParents a)
    (hsame : ∀ j, j < n → ∃ x y : ScopeSt, a[j]? = some x ∧ b[j]? = some y ∧ x.parent = y.parent) :
    ∀ fuel s, s < n → ancestorsAux b fuel s = ancestorsAux a fuel s := by
  intro fuel
  induction fuel with
  | zero => intro s _; rfl
  | succ fuel ih =>
    intro s hs
    obtain ⟨x, y, hx, hy, hp⟩ := hsame s hs
    simp only [ancestorsAux, hx, hy]
    congr 1
    rw [← hp]
    cases hpar : x.parent with
    | none => rfl
    | some p =>
      simp only
      exact ih p (by have := hwf s x hx p hpar; omega)

theorem ancestorsAux_fuel (a : List ScopeSt) (hwf : WFParents a) : ∀ fuel s, s < fuel →
    ancestorsAux a (fuel + 1) s = ancestorsAux a fuel s := by
  intro fuel
  induction fuel with
  | zero => intro s hs; omega
  | succ fuel ih =>
    intro s hs
    rw [ancestorsAux, ancestorsAux]
    cases hx : a[s]? with
    | none => rfl
    | some x =>
      simp only
      congr 1
      cases hpar : x.parent with
      | none => rfl
      | some p =>
        simp only
        exact ih p (by have := hwf s x hx p hpar; omega)

/-- the paths after `Scope.Scope(name)`: old scopes keep theirs, the child's is itself followed by its parent's -/
theorem apiScope_ancestors {st : St} (ht : TreeInv st) (parent : Nat) (hp : parent < st.scopes.length) :
    (∀ s, s < st.scopes.length → (apiScope st parent).ancestors s = st.ancestors s) ∧
    (apiScope st parent).ancestors st.scopes.length = st.scopes.length :: st.ancestors parent := by
  obtain ⟨hlen, hsc⟩ := apiScope_scope st parent hp
  have hsame : ∀ j, j < st.scopes.length → ∃ x y : ScopeSt, st.scopes[j]? = some x ∧ (apiScope st parent).scopes[j]? = some y ∧
      x.parent = y.parent := by
    intro j hj
    refine ⟨st.scope j, (apiScope st parent).scope j, getElem?_scope hj, getElem?_scope (by rw [hlen]; omega), ?_⟩
    rw [hsc j, if_neg (by omega)]
    split
    · rename_i h1; rw [h1]
    · rfl
  have hwf := ht.wfParents
  have hold : ∀ s, s < st.scopes.length → (apiScope st parent).ancestors s = st.ancestors s := by
    intro s hs
    unfold St.ancestors
    rw [hlen, ancestorsAux_prefix st.scopes _ st.scopes.length hwf hsame _ s hs]
    exact ancestorsAux_fuel st.scopes hwf st.scopes.length s hs
  refine ⟨hold, ?_⟩
  have hchild : (apiScope st parent).scopes[st.scopes.length]? = some ((apiScope st parent).scope st.scopes.length) :=
    getElem?_scope (by rw [hlen]; omega)
  have hcs : (apiScope st parent).scope st.scopes.length = ({ parent := some parent, gh := (st.scope parent).gh } : ScopeSt) := by
    rw [hsc, if_pos rfl]
  unfold St.ancestors
  rw [hlen]
  rw [ancestorsAux, hchild, hcs]
  simp only
  congr 1
  exact ancestorsAux_prefix st.scopes _ st.scopes.length hwf hsame _ parent hp

theorem apiScope_allProviders {st : St} (ht : TreeInv st) (parent : Nat) (hp : parent < st.scopes.length) (k : Key) :
    (∀ s, s < st.scopes.length → (apiScope st parent).allProviders s k = st.allProviders s k) ∧
    (apiScope st parent).allProviders st.scopes.length k = st.allProviders parent k := by
  obtain ⟨hlen, hsc⟩ := apiScope_scope st parent hp
  obtain ⟨hold, hchild⟩ := apiScope_ancestors ht parent hp
  have hprov : ∀ a, a < st.scopes.length → ((apiScope st parent).scope a).providers = (st.scope a).providers := by
    intro a ha
    rw [hsc a, if_neg (by omega)]
    split
    · rename_i h1; rw [h1]
    · rfl
  have hanc_lt : ∀ s a, a ∈ st.ancestors s → a < st.scopes.length := by
    intro s a ha
    have := desc_of_ancestorsAux ht _ s a ha
    cases this with
    | self h => exact h
    | child hd hps hc =>
      have := (desc_of_ancestorsAux ht _ s a ha).mem_aux ht
      omega
  have hflat : ∀ s, (st.ancestors s).flatMap (fun a => agetL ((apiScope st parent).scope a).providers k) =
      (st.ancestors s).flatMap (fun a => agetL (st.scope a).providers k) := by
    intro s
    exact flatMap_congr' _ _ _ (fun a ha => by rw [hprov a (hanc_lt s a ha)])
  refine ⟨?_, ?_⟩
  · intro s hs
    unfold St.allProviders
    rw [hold s hs]
    exact hflat s
  · unfold St.allProviders
    rw [hchild, List.flatMap_cons, hflat parent]
    have : agetL ((apiScope st parent).scope st.scopes.length).providers k = [] := by
      rw [hsc, if_pos rfl]; rfl
    rw [this, List.nil_append]

end Dig

namespace Dig

theorem copyOrder_nodeOrder (child parent : Nat) (w : St) (y x : GNode) (s : Nat) :
    nodeOrder (copyOrder child parent w y) x s =
      if s = child ∧ x = y ∧ NodeValid w x then nodeOrder w x parent else nodeOrder w x s := by
  cases y with
  | ctor n =>
    cases x with
    | ctor m =>
      show orderOf ((w.modCtor n _).ctor m).orders s = _
      rw [ctor_modCtor]
      by_cases hnm : n = m
      · subst hnm
        by_cases hv : n < w.ctors.length
        · by_cases hs : s = child
          · simp [hv, hs, orderOf_setOrder, NodeValid, nodeOrder]
          · simp [hv, hs, orderOf_setOrder, NodeValid, nodeOrder]
        · simp [hv, NodeValid, nodeOrder]
      · have h1 : ¬ (GNode.ctor m = GNode.ctor n) := fun h => hnm (by injection h with e; exact e.symm)
        simp [hnm, h1, nodeOrder]
    | pg i =>
      have h1 : ¬ (GNode.pg i = GNode.ctor n) := fun h => by cases h
      simp only [h1, false_and, and_false, if_false]
      rfl
  | pg j =>
    cases x with
    | ctor m =>
      have h1 : ¬ (GNode.ctor m = GNode.pg j) := fun h => by cases h
      simp only [h1, false_and, and_false, if_false]
      rfl
    | pg i =>
      show orderOf ((w.pgs.modify j _).getD i default).orders s = _
      rw [getD_modify]
      by_cases hji : j = i
      · subst hji
        by_cases hv : j < w.pgs.length
        · by_cases hs : s = child
          · simp [hv, hs, orderOf_setOrder, NodeValid, nodeOrder]
          · simp [hv, hs, orderOf_setOrder, NodeValid, nodeOrder]
        · simp [hv, NodeValid, nodeOrder]
      · have h1 : ¬ (GNode.pg i = GNode.pg j) := fun h => hji (by injection h with e; exact e.symm)
        simp [hji, h1, nodeOrder]

theorem copyOrder_valid (child parent : Nat) (w : St) (y x : GNode) : NodeValid (copyOrder child parent w y) x ↔ NodeValid w x := by
  cases y <;> cases x <;> simp [copyOrder, NodeValid, St.modCtor]

theorem copyOrderFold_nodeOrder (child parent : Nat) (hne : child ≠ parent) : ∀ (l : List GNode) (w : St) (x : GNode) (s : Nat),
    nodeOrder (l.foldl (copyOrder child parent) w) x s =
      if s = child ∧ x ∈ l ∧ NodeValid w x then nodeOrder w x parent else nodeOrder w x s := by
  intro l
  induction l with
  | nil => intro w x s; simp
  | cons y ys ih =>
    intro w x s
    simp only [List.foldl_cons]
    rw [ih]
    have hpar : nodeOrder (copyOrder child parent w y) x parent = nodeOrder w x parent := by
      rw [copyOrder_nodeOrder, if_neg (fun h => hne h.1.symm)]
    by_cases hs : s = child
    · subst hs
      by_cases hv : NodeValid w x
      · have hv' : NodeValid (copyOrder s parent w y) x := (copyOrder_valid s parent w y x).mpr hv
        by_cases hxy : x = y
        · subst hxy
          by_cases hin : x ∈ ys
          · simp [hin, hv, hv', hpar]
          · simp [hin, hv, copyOrder_nodeOrder]
        · by_cases hin : x ∈ ys
          · simp [hin, hv, hv', hpar]
          · simp [hin, hv, hxy, copyOrder_nodeOrder]
      · have hv' : ¬ NodeValid (copyOrder s parent w y) x := fun h => hv ((copyOrder_valid s parent w y x).mp h)
        simp [hv, hv', copyOrder_nodeOrder]
    · simp [hs, copyOrder_nodeOrder]

theorem copyOrderFold_lens (child parent : Nat) : ∀ (l : List GNode) (w : St),
    (l.foldl (copyOrder child parent) w).ctors.length = w.ctors.length ∧
    (l.foldl (copyOrder child parent) w).pgs.length = w.pgs.length := by
  intro l
  induction l with
  | nil => intro w; exact ⟨rfl, rfl⟩
  | cons y ys ih =>
    intro w
    simp only [List.foldl_cons]
    obtain ⟨a, b⟩ := ih (copyOrder child parent w y)
    cases y <;> simp_all [copyOrder, St.modCtor]

theorem GM0.scope {st : St} (h : GM0 st) (ht : TreeInv st) (parent : Nat) (hp : parent < st.scopes.length) :
    GM0 (apiScope st parent) := by
  obtain ⟨hlen, hsc⟩ := apiScope_scope st parent hp
  let c : ScopeSt := { parent := some parent, gh := (st.scope parent).gh }
  let st1 : St := { st with scopes := st.scopes ++ [c] }
  let st2 : St := st1.modScope parent fun x => { x with children := x.children ++ [st.scopes.length] }
  have hdef : apiScope st parent = (st.scope parent).gh.foldl (copyOrder st.scopes.length parent) st2 := rfl
  have hne : st.scopes.length ≠ parent := by omega
  have hord : ∀ x s, nodeOrder (apiScope st parent) x s =
      if s = st.scopes.length ∧ x ∈ (st.scope parent).gh ∧ NodeValid st x then nodeOrder st x parent else nodeOrder st x s := by
    intro x s
    rw [hdef, copyOrderFold_nodeOrder _ _ hne]
    have e1 : ∀ s', nodeOrder st2 x s' = nodeOrder st x s' := fun s' => by cases x <;> rfl
    have e2 : NodeValid st2 x ↔ NodeValid st x := by cases x <;> exact Iff.rfl
    simp only [e1, e2]
  have hgh : ∀ s, ((apiScope st parent).scope s).gh = if s = st.scopes.length then (st.scope parent).gh else (st.scope s).gh := by
    intro s
    rw [hsc s]
    by_cases h1 : s = st.scopes.length
    · rw [if_pos h1, if_pos h1]
    · rw [if_neg h1, if_neg h1]
      split
      · rename_i h2; rw [h2]
      · rfl
  have hvalid : ∀ x, NodeValid st x → NodeValid (apiScope st parent) x := by
    intro x hx
    obtain ⟨a, b⟩ := copyOrderFold_lens st.scopes.length parent (st.scope parent).gh st2
    rw [← hdef] at a b
    cases x with
    | ctor m => simp only [NodeValid] at hx ⊢; rw [a]; exact hx
    | pg i => simp only [NodeValid] at hx ⊢; rw [b]; exact hx
  have hempty : (st.scope st.scopes.length).gh = [] := by
    have : st.scope st.scopes.length = { parent := none } := by
      unfold St.scope
      rw [List.getD_eq_getElem?_getD]
      have : st.scopes[st.scopes.length]? = none := by simp
      simp [this]
    rw [this]
  refine ⟨?_, ?_, ?_⟩
  · intro s x hx
    rw [hgh s] at hx ⊢
    rw [hord]
    by_cases h1 : s = st.scopes.length
    · rw [if_pos h1] at hx ⊢
      rw [if_pos ⟨h1, hx, h.bnd parent x hx⟩]
      exact h.pos parent x hx
    · rw [if_neg h1] at hx ⊢
      rw [if_neg (fun hh => h1 hh.1)]
      exact h.pos s x hx
  · intro s k m hs hm
    rw [hlen] at hs
    obtain ⟨hold, hchild⟩ := apiScope_allProviders ht parent hp k
    rw [hgh s]
    by_cases h1 : s = st.scopes.length
    · subst h1
      rw [if_pos rfl]
      rw [hchild] at hm
      exact h.prov parent k m hp hm
    · rw [if_neg h1]
      have hs' : s < st.scopes.length := by omega
      rw [hold s hs'] at hm
      exact h.prov s k m hs' hm
  · intro s x hx
    rw [hgh s] at hx
    by_cases h1 : s = st.scopes.length
    · rw [if_pos h1] at hx; exact hvalid x (h.bnd parent x hx)
    · rw [if_neg h1] at hx; exact hvalid x (h.bnd s x hx)

end Dig
