import DigModel.Proofs.GraphMeaningThm
/-
  `apiProvide` with its stages named: *register* (validate, parse, append the node, put it into the graph holders,
  check the keys, enter it into the provider table) and *verify* (the acyclicity loop over the target scope and its
  descendants, then accept or roll back).  Definitionally the same function (`apiProvide_eq`).
-/
namespace Dig

/-- everything `Provide` does before the acyclicity loop.  `.error` = the call is over (rejected, rolled back);
    `.ok (target, params, results, n, w)` = constructor `n` is registered in container `w` -/
def provideRegister (ctx : Ctx) (fn : Fn) (st : St) (i s : Nat) (o : ProvideOpts) :
    Except (St × RegRes) (Nat × List Param × List RSlot × Nat × St) :=
  match fn.nonfunc with
  | some _ => .error (st, { v := .err .invalid0 })
  | none =>
  match validateOpts ctx.env o with
  | .error e => .error (st, { v := .err e })
  | .ok as =>
    let target := if o.export_ then St.root else s
    let scopes := st.subscopes target
    let reject (w : St) (e : DErr) : St × RegRes :=
      (rollbackProvide st w target scopes, { v := .err (.provide e) })
    match parseParams ctx.env st target fn with
    | (.error e, w) => .error (reject w e)
    | (.ok params, w) =>
      match newResultList ctx.env { name := o.name, group := o.group, as := as } fn with
      | .error e => .error (reject w e)
      | .ok results =>
        let n := w.ctors.length
        let node : CtorNode :=
          { fn := fn, params := params, results := results, s := target, origS := s,
            cb := if o.cb then some i else none }
        let w := { w with ctors := w.ctors ++ [node] }
        let w := w.newGraphNode target (.ctor n)
        match visitKeys (w.scope target) (slotResults results) [] with
        | .error e => .error (reject w e)
        | .ok [] => .error (reject w .invalid0)
        | .ok keys =>
          .ok (target, params, results, n, w.modScope target fun x =>
            { x with providers := keys.foldl (fun m k => aset m k (agetL m k ++ [n])) x.providers })

/-- the acyclicity loop and what follows it -/
def provideVerify (ctx : Ctx) (fn : Fn) (st : St) (o : ProvideOpts) (target : Nat) (params : List Param)
    (results : List RSlot) (n : Nat) (w : St) : St × RegRes :=
  match verifyScopes ctx.cfg (st.subscopes target) w with
  | (.error (sc, .cycle p), w) =>
    (rollbackProvide st w target (st.subscopes target), { v := .err (.provide (.invalid (.cycle (cyclePath w sc p) sc))) })
  | (.error _, w) => (w, { v := .panicDig })
  | (.ok (), w) =>
    let w := w.modScope target fun x => { x with nodes := x.nodes ++ [n] }
    (w, { v := .ok,
          info := if o.info then
            some { id := fn.id, ins := dotParams params, outs := dotSlots results } else none })

def apiProvide' (ctx : Ctx) (fn : Fn) (st : St) (i s : Nat) (o : ProvideOpts) : St × RegRes :=
  match provideRegister ctx fn st i s o with
  | .error r => r
  | .ok (target, params, results, n, w) => provideVerify ctx fn st o target params results n w

theorem apiProvide_eq (ctx : Ctx) (fn : Fn) (st : St) (i s : Nat) (o : ProvideOpts) :
    apiProvide ctx fn st i s o = apiProvide' ctx fn st i s o := by
  unfold apiProvide apiProvide' provideRegister provideVerify
  cases fn.nonfunc with
  | some _ => rfl
  | none =>
    simp only
    cases validateOpts ctx.env o with
    | error e => rfl
    | ok as =>
      simp only
      cases parseParams ctx.env st (if o.export_ then St.root else s) fn with
      | mk r w =>
        cases r with
        | error e => rfl
        | ok params =>
          simp only
          cases newResultList ctx.env { name := o.name, group := o.group, as := as } fn with
          | error e => rfl
          | ok results =>
            simp only
            cases visitKeys ((St.newGraphNode { w with ctors := w.ctors ++ [_] } (if o.export_ then St.root else s) (.ctor w.ctors.length)).scope (if o.export_ then St.root else s)) (slotResults results) [] with
            | error e => rfl
            | ok keys =>
              cases keys with
              | nil => rfl
              | cons k0 ks => rfl

end Dig

namespace Dig

/-- the container with the new constructor registered satisfies the graph invariants -/
theorem provideRegister_inv {st : St} (hg : GT st) (hb : OB st) (ctx : Ctx) (fn : Fn) (i s : Nat) (o : ProvideOpts)
    (target : Nat) (params : List Param) (results : List RSlot) (n : Nat) (w : St)
    (h : provideRegister ctx fn st i s o = .ok (target, params, results, n, w)) :
    GT w ∧ OB w ∧ target = (if o.export_ then St.root else s) ∧ w.scopes.length = st.scopes.length ∧
    w.subscopes target = st.subscopes target ∧
    n = st.ctors.length ∧ w.ctors.length = st.ctors.length + 1 ∧ (w.ctor n).s = target ∧ (w.ctor n).fn = fn ∧
    Work st w target := by
  unfold provideRegister at h
  cases hnf : fn.nonfunc with
  | some _ => rw [hnf] at h; cases h
  | none =>
    rw [hnf] at h
    simp only at h
    cases hv : validateOpts ctx.env o with
    | error e' => rw [hv] at h; cases h
    | ok as =>
      rw [hv] at h
      simp only at h
      generalize htg : (if o.export_ then St.root else s) = tg at h
      have hw1 := work_parseParams (Work.refl st tg) ctx.env fn
      have hg1 := hg.parseParams ctx.env tg fn
      have hb1 := hb.parseParams ctx.env tg fn
      cases hpp : Dig.parseParams ctx.env st tg fn with
      | mk r w1 =>
        rw [hpp] at h hw1 hg1 hb1
        simp only at hw1 hg1 hb1
        cases r with
        | error e1 => cases h
        | ok ps =>
          simp only at h
          cases hr : newResultList ctx.env { name := o.name, group := o.group, as := as } fn with
          | error e2 => rw [hr] at h; cases h
          | ok rs =>
            rw [hr] at h
            simp only at h
            let node : CtorNode := { fn := fn, params := ps, results := rs, s := tg, origS := s, cb := if o.cb then some i else none }
            have hw3 := work_newGraphNode (work_addCtor hw1 node) (.ctor w1.ctors.length)
              (by show st.ctors.length ≤ w1.ctors.length; exact hw1.ctorsLen)
            have hg2 := hg1.addCtor node
            have hg3 := hg2.newGraphNode tg (.ctor w1.ctors.length) (by show w1.ctors.length < (w1.ctors ++ [node]).length; simp)
            have hb3 := (hb1.addCtor node rfl).newGraphNode tg (.ctor w1.ctors.length)
            have hmem : ∀ sc ∈ ({ w1 with ctors := w1.ctors ++ [node] } : St).subscopes tg, sc < w1.scopes.length →
                GNode.ctor w1.ctors.length ∈ ((St.newGraphNode { w1 with ctors := w1.ctors ++ [node] } tg (.ctor w1.ctors.length)).scope sc).gh :=
              fun sc hsc hlt => newGraphNode_mem _ tg _ sc hsc hlt
            have hsub : (St.newGraphNode { w1 with ctors := w1.ctors ++ [node] } tg (.ctor w1.ctors.length)).subscopes tg =
                ({ w1 with ctors := w1.ctors ++ [node] } : St).subscopes tg := by
              rw [newGraphNode_eq]
              obtain ⟨a1, a2, _, _⟩ := foldGhStep_facts (.ctor w1.ctors.length) (({ w1 with ctors := w1.ctors ++ [node] } : St).subscopes tg)
                { w1 with ctors := w1.ctors ++ [node] }
              exact subscopes_congr a1 (fun j => (a2 j).2.1) tg
            have hlen3 : (St.newGraphNode { w1 with ctors := w1.ctors ++ [node] } tg (.ctor w1.ctors.length)).scopes.length = w1.scopes.length := by
              rw [newGraphNode_eq]
              exact (foldGhStep_facts (.ctor w1.ctors.length) _ { w1 with ctors := w1.ctors ++ [node] }).1
            have hc1 : w1.ctors = st.ctors := by
              have := ghOnly_parseParams ctx.env st tg fn
              rw [hpp] at this; exact this.1.symm
            obtain ⟨hd1, hd2⟩ := newGraphNode_ctorDesc { w1 with ctors := w1.ctors ++ [node] } tg (.ctor w1.ctors.length)
            have hnode0 : ({ w1 with ctors := w1.ctors ++ [node] } : St).ctor w1.ctors.length = node := by
              show (w1.ctors ++ [node]).getD w1.ctors.length default = node
              rw [getD_append_fresh]; simp
            have hdesc3 := hd2 w1.ctors.length
            rw [hnode0] at hdesc3
            have hcl3 : (St.newGraphNode { w1 with ctors := w1.ctors ++ [node] } tg (.ctor w1.ctors.length)).ctors.length = st.ctors.length + 1 := by
              rw [hd1]; simp [hc1]
            generalize (St.newGraphNode { w1 with ctors := w1.ctors ++ [node] } tg (.ctor w1.ctors.length)) = w3 at h hw3 hg3 hb3 hmem hsub hlen3 hdesc3 hcl3
            cases hvk : visitKeys (w3.scope tg) (slotResults rs) [] with
            | error e3 => rw [hvk] at h; cases h
            | ok keys =>
              rw [hvk] at h
              cases keys with
              | nil => cases h
              | cons k0 ks =>
                simp only at h
                injection h with h
                injection h with e1 h
                injection h with e2 h
                injection h with e3 h
                injection h with e4 e5
                subst e1; subst e2; subst e3; subst e4
                have hsame : (w3.modScope tg fun x =>
                    { x with providers := (k0 :: ks).foldl (fun m k => aset m k (agetL m k ++ [w1.ctors.length])) x.providers }) =
                    (w3.modScope tg fun x =>
                    { x with providers := (k0 :: ks).foldl (fun m k => aset m k (agetL m k ++ [w1.ctors.length])) (w3.scope tg).providers }) := by
                  unfold St.modScope
                  congr 1
                  apply List.ext_getElem?
                  intro j
                  simp only [List.getElem?_modify]
                  by_cases hj : tg = j
                  · subst hj
                    cases hgj : w3.scopes[tg]? with
                    | none => rfl
                    | some x =>
                      have : w3.scope tg = x := by
                        unfold St.scope; rw [List.getD_eq_getElem?_getD, hgj]; rfl
                      simp [this]
                  · simp [hj]
                rw [hsame] at e5
                subst e5
                have hw4 := work_modScope_providers hw3
                  ((k0 :: ks).foldl (fun m k => aset m k (agetL m k ++ [w1.ctors.length])) (w3.scope tg).providers)
                refine ⟨⟨hg3.gm.addProviders hg3.tree tg w1.ctors.length (k0 :: ks)
                      (fun sc hsc hlt => hmem sc (by rw [← hsub]; exact hsc) (by rw [← hlen3]; exact hlt)),
                   hg3.tree.transfer (by simp [St.modScope]) (fun j => by rw [scope_modScope]; split <;> exact ⟨rfl, rfl⟩)⟩,
                  hb3.modScope tg _ (fun _ => rfl), rfl, hw4.len, hw4.subscopes, by rw [hc1], by simpa [St.modScope] using hcl3,
                  hdesc3.2.2, hdesc3.1, hw4⟩

end Dig

namespace Dig

/-- **Without DeferAcyclicVerification, a Provide that closes a dependency cycle among constructors, as seen from the
    target scope or any of its descendants, fails at once** with a cycle error (`IsCycleDetected`), and the container
    is rolled back.  `w` is the container with the new constructor registered (`provideRegister`). -/
theorem provide_rejects_dependency_cycle {st : St} (hg : GT st) (hb : OB st) (ctx : Ctx) (hd : ctx.cfg.deferAcyclic = false)
    (fn : Fn) (i s : Nat) (o : ProvideOpts) (target : Nat) (params : List Param) (results : List RSlot) (n : Nat) (w : St)
    (hreg : provideRegister ctx fn st i s o = .ok (target, params, results, n, w))
    (sc : Nat) (hsc : sc ∈ st.subscopes target) (hlt : sc < st.scopes.length)
    (a : Nat) (l : List Nat) (hl : l ≠ []) (hin : ∀ m ∈ a :: l, GNode.ctor m ∈ (w.scope sc).gh)
    (hc : DepChain w sc (a :: l)) (hclosed : (a :: l).getLast (by simp) = a) :
    ∃ e, (apiProvide ctx fn st i s o).2.v = .err e ∧ e.isCycleDetected = true ∧
      EqButVerified st (apiProvide ctx fn st i s o).1 := by
  obtain ⟨hgw, hbw, htg, hlen, hsub, _, _, _, _, _⟩ := provideRegister_inv hg hb ctx fn i s o target params results n w hreg
  obtain ⟨path, hcyc⟩ := cycle_is_found hgw.gm hbw sc (by rw [hlen]; exact hlt) a l hl hin hc hclosed
  rw [apiProvide_eq]
  unfold apiProvide'
  rw [hreg]
  simp only
  unfold provideVerify
  have hgs := graphSame_verifyScopes ctx.cfg (st.subscopes target) w
  have hok := verifyScopes_ok_acyclic ctx.cfg hd (st.subscopes target) w
  have herr := verifyScopes_err_cycle hbw ctx.cfg (st.subscopes target)
  -- the work done so far is undone by the roll-back
  have hwork : ∀ w', GraphSame w w' → True := fun _ _ => trivial
  cases hvs : Dig.verifyScopes ctx.cfg (st.subscopes target) w with
  | mk r w5 =>
    rw [hvs] at hgs hok herr
    simp only at hgs hok herr
    cases r with
    | ok u =>
      exfalso
      have h1 := hok rfl sc hsc
      rw [← hgs.checkAcyclic sc, hcyc] at h1
      cases h1
    | error ec =>
      obtain ⟨sc', r⟩ := ec
      obtain ⟨p, rfl⟩ := herr sc' r rfl
      simp only
      refine ⟨_, rfl, by simp [DErr.isCycleDetected, DErr.chain], ?_⟩
      -- roll-back: from the `Work` relation of the registered container
      have hres := apiProvide_reg ctx fn st i s o
      rw [apiProvide_eq] at hres
      unfold apiProvide' at hres
      rw [hreg] at hres
      simp only at hres
      unfold provideVerify at hres
      rw [hvs] at hres
      simp only at hres
      rcases hres with he | ⟨rs, ks, hadd⟩
      · exact he
      · -- an `Added` outcome would have one more constructor; the roll-back truncates the table
        exfalso
        have h1 := hadd.len
        simp only [rollbackProvide, List.length_take] at h1
        omega

end Dig

namespace Dig

/-- **An Invoke from a scope whose graph is not verified yet (DeferAcyclicVerification) and that sees a dependency cycle
    among constructors fails with a cycle error before anything is built or run.** -/
theorem invoke_rejects_dependency_cycle {st : St} (hg : GT st) (hb : OB st) (ctx : Ctx) (fn : Fn) (s : Nat) (info : Bool)
    (hnf : fn.nonfunc = none) (params : List Param) (w : St) (hpp : Dig.parseParams ctx.env st s fn = (.ok params, w))
    (hsh : (shallowCheck s params w).1 = .ok ()) (hunv : (w.scope s).verified = false) (hs : s < st.scopes.length)
    (a : Nat) (l : List Nat) (hl : l ≠ []) (hin : ∀ m ∈ a :: l, GNode.ctor m ∈ (w.scope s).gh)
    (hc : DepChain w s (a :: l)) (hclosed : (a :: l).getLast (by simp) = a) :
    ∃ e, (apiInvoke ctx fn st s info).2.v = .err e ∧ e.isCycleDetected = true ∧ (apiInvoke ctx fn st s info).2.ev = [] := by
  have hgw := hg.parseParams ctx.env s fn
  have hbw := hb.parseParams ctx.env s fn
  have hlen := (ghOnly_parseParams ctx.env st s fn).2.2.2.2.2.2.1
  rw [hpp] at hgw hbw hlen
  simp only at hgw hbw hlen
  obtain ⟨path, hcyc⟩ := cycle_is_found hgw.gm hbw s (by rw [← hlen]; exact hs) a l hl hin hc hclosed
  rw [apiInvoke_eq]
  unfold apiInvoke'
  rw [hnf]
  simp only
  rw [hpp]
  simp only
  have hst := shallowCheck_state s params w
  cases hsc : shallowCheck s params w with
  | mk r2 w2 =>
    rw [hsc] at hst hsh; simp only at hst hsh; subst hst; subst hsh
    simp only
    unfold invokeCheck
    rw [if_neg (by rw [hunv]; simp), hcyc]
    exact ⟨_, rfl, by simp [DErr.isCycleDetected, DErr.chain], rfl⟩

end Dig

namespace Dig

theorem provideRegister_error_verdict (ctx : Ctx) (fn : Fn) (st : St) (i s : Nat) (o : ProvideOpts) (r : St × RegRes)
    (h : provideRegister ctx fn st i s o = .error r) : ∃ e, r.2.v = .err e := by
  unfold provideRegister at h
  cases hnf : fn.nonfunc with
  | some _ => rw [hnf] at h; simp only at h; injection h with h; subst h; exact ⟨_, rfl⟩
  | none =>
    rw [hnf] at h
    simp only at h
    cases hv : validateOpts ctx.env o with
    | error e' => rw [hv] at h; simp only at h; injection h with h; subst h; exact ⟨_, rfl⟩
    | ok as =>
      rw [hv] at h
      simp only at h
      cases hpp : Dig.parseParams ctx.env st (if o.export_ then St.root else s) fn with
      | mk r1 w1 =>
        rw [hpp] at h
        cases r1 with
        | error e1 => simp only at h; injection h with h; subst h; exact ⟨_, rfl⟩
        | ok ps =>
          simp only at h
          cases hr : newResultList ctx.env { name := o.name, group := o.group, as := as } fn with
          | error e2 => rw [hr] at h; simp only at h; injection h with h; subst h; exact ⟨_, rfl⟩
          | ok rs =>
            rw [hr] at h
            simp only at h
            split at h
            · injection h with h; subst h; exact ⟨_, rfl⟩
            · injection h with h; subst h; exact ⟨_, rfl⟩
            · cases h

/-- an accepted Provide: the registration stage succeeded, the verification loop passed, and the container is the
    verified one with the constructor entered into `nodes` -/
theorem apiProvide_ok_shape (ctx : Ctx) (fn : Fn) (st : St) (i s : Nat) (o : ProvideOpts)
    (hok : (apiProvide ctx fn st i s o).2.v = .ok) :
    ∃ target params results n w w5, provideRegister ctx fn st i s o = .ok (target, params, results, n, w) ∧
      Dig.verifyScopes ctx.cfg (st.subscopes target) w = (.ok (), w5) ∧
      (apiProvide ctx fn st i s o).1 = w5.modScope target fun x => { x with nodes := x.nodes ++ [n] } := by
  rw [apiProvide_eq] at hok ⊢
  unfold apiProvide' at hok ⊢
  cases hreg : provideRegister ctx fn st i s o with
  | error r =>
    rw [hreg] at hok
    obtain ⟨e, he⟩ := provideRegister_error_verdict ctx fn st i s o r hreg
    simp only at hok
    rw [he] at hok; cases hok
  | ok t =>
    obtain ⟨target, params, results, n, w⟩ := t
    rw [hreg] at hok
    simp only at hok ⊢
    unfold provideVerify at hok ⊢
    cases hvs : Dig.verifyScopes ctx.cfg (st.subscopes target) w with
    | mk r5 w5 =>
      rw [hvs] at hok
      cases r5 with
      | ok u => exact ⟨target, params, results, n, w, w5, rfl, hvs, rfl⟩
      | error ec =>
        obtain ⟨sc, r⟩ := ec
        cases r <;> (simp only at hok; cases hok)

/-- **the constructor of an accepted Provide is registered in the scope it was provided to, or in the root if it was
    provided with `Export(true)`**, whatever scope the call was made on; its dependencies are resolved from the scope of
    the call (`origS`) -/
theorem apiProvide_ok_home {st : St} (hg : GT st) (hb : OB st) (ctx : Ctx) (fn : Fn) (i s : Nat) (o : ProvideOpts)
    (hok : (apiProvide ctx fn st i s o).2.v = .ok) :
    (apiProvide ctx fn st i s o).1.ctors.length = st.ctors.length + 1 ∧
    ((apiProvide ctx fn st i s o).1.ctor st.ctors.length).s = (if o.export_ then St.root else s) ∧
    ((apiProvide ctx fn st i s o).1.ctor st.ctors.length).fn = fn := by
  obtain ⟨target, params, results, n, w, w5, hreg, hvs, hfin⟩ := apiProvide_ok_shape ctx fn st i s o hok
  obtain ⟨_, _, htg, _, _, hn, hcl, hs, hfn, _⟩ := provideRegister_inv hg hb ctx fn i s o target params results n w hreg
  have hgs := graphSame_verifyScopes ctx.cfg (st.subscopes target) w
  rw [hvs] at hgs
  simp only at hgs
  rw [hfin]
  have e : ∀ j, (w5.modScope target fun x => { x with nodes := x.nodes ++ [n] }).ctor j = w.ctor j := by
    intro j; show w5.ctors.getD j default = w.ctors.getD j default; rw [← hgs.1]
  subst hn
  refine ⟨by show w5.ctors.length = _; rw [← hgs.1]; exact hcl, by rw [e, hs, htg], by rw [e, hfn]⟩

end Dig

namespace Dig

theorem provideRegister_error_len (ctx : Ctx) (fn : Fn) (st : St) (i s : Nat) (o : ProvideOpts) (r : St × RegRes)
    (h : provideRegister ctx fn st i s o = .error r) : r.1.ctors.length ≤ st.ctors.length := by
  unfold provideRegister at h
  cases hnf : fn.nonfunc with
  | some _ => rw [hnf] at h; simp only at h; injection h with h; subst h; exact Nat.le_refl _
  | none =>
    rw [hnf] at h
    simp only at h
    cases hv : validateOpts ctx.env o with
    | error e' => rw [hv] at h; simp only at h; injection h with h; subst h; exact Nat.le_refl _
    | ok as =>
      rw [hv] at h
      simp only at h
      cases hpp : Dig.parseParams ctx.env st (if o.export_ then St.root else s) fn with
      | mk r1 w1 =>
        rw [hpp] at h
        cases r1 with
        | error e1 => simp only at h; injection h with h; subst h; simp [rollbackProvide, List.length_take]; exact Nat.min_le_left _ _
        | ok ps =>
          simp only at h
          cases hr : newResultList ctx.env { name := o.name, group := o.group, as := as } fn with
          | error e2 => rw [hr] at h; simp only at h; injection h with h; subst h; simp [rollbackProvide, List.length_take]; exact Nat.min_le_left _ _
          | ok rs =>
            rw [hr] at h
            simp only at h
            split at h
            · injection h with h; subst h; simp [rollbackProvide, List.length_take]; exact Nat.min_le_left _ _
            · injection h with h; subst h; simp [rollbackProvide, List.length_take]; exact Nat.min_le_left _ _
            · cases h

end Dig
