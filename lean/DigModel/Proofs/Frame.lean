import DigModel.Proofs.EngineRel
import DigModel.Proofs.Body
/-
  Frame properties of the resolver: it never touches the registry (scope tree,
  providers, decorators, graph holders, node descriptions), it only appends to
  the log, and in a DryRun container it appends nothing but callback events.
-/
namespace Dig

/-! ### list / state access lemmas -/

theorem getD_modify {α : Type} (l : List α) (i j : Nat) (f : α → α) (d : α) :
    (l.modify i f).getD j d = if i = j ∧ j < l.length then f (l.getD j d) else l.getD j d := by
  simp only [List.getD_eq_getElem?_getD, List.getElem?_modify]
  by_cases hj : j < l.length
  · simp [List.getElem?_eq_getElem hj]
    split <;> simp_all
  · have : l[j]? = none := by simp; omega
    simp [this, hj]

theorem scope_modScope (st : St) (s j : Nat) (f : ScopeSt → ScopeSt) :
    (st.modScope s f).scope j = if s = j ∧ j < st.scopes.length then f (st.scope j) else st.scope j := by
  unfold St.modScope St.scope
  exact getD_modify _ _ _ _ _

theorem ctor_modCtor (st : St) (n j : Nat) (f : CtorNode → CtorNode) :
    (st.modCtor n f).ctor j = if n = j ∧ j < st.ctors.length then f (st.ctor j) else st.ctor j := by
  unfold St.modCtor St.ctor
  exact getD_modify _ _ _ _ _

theorem deco_modDeco (st : St) (d j : Nat) (f : DecoNode → DecoNode) :
    (st.modDeco d f).deco j = if d = j ∧ j < st.decos.length then f (st.deco j) else st.deco j := by
  unfold St.modDeco St.deco
  exact getD_modify _ _ _ _ _

/-! ### the registry -/

/-- registry part of a scope -/
def ScopeReg (a b : ScopeSt) : Prop :=
  a.parent = b.parent ∧ a.children = b.children ∧ a.providers = b.providers ∧ a.decorators = b.decorators ∧
  a.nodes = b.nodes ∧ a.gh = b.gh ∧ a.verified = b.verified

/-- static part of a constructor node -/
def CtorStatic (a b : CtorNode) : Prop :=
  a.fn = b.fn ∧ a.params = b.params ∧ a.results = b.results ∧ a.s = b.s ∧ a.origS = b.origS ∧ a.cb = b.cb ∧ a.orders = b.orders

def DecoStatic (a b : DecoNode) : Prop :=
  a.fn = b.fn ∧ a.params = b.params ∧ a.results = b.results ∧ a.s = b.s ∧ a.cb = b.cb

/-- the resolver's view of "nothing was registered or unregistered" -/
def RegFrame (a b : St) : Prop :=
  a.scopes.length = b.scopes.length ∧ (∀ i, ScopeReg (a.scope i) (b.scope i)) ∧
  a.pgs = b.pgs ∧
  a.ctors.length = b.ctors.length ∧ (∀ n, CtorStatic (a.ctor n) (b.ctor n)) ∧
  a.decos.length = b.decos.length ∧ (∀ d, DecoStatic (a.deco d) (b.deco d))

theorem ScopeReg.refl (a : ScopeSt) : ScopeReg a a := ⟨rfl, rfl, rfl, rfl, rfl, rfl, rfl⟩
theorem ScopeReg.trans {a b c : ScopeSt} (h1 : ScopeReg a b) (h2 : ScopeReg b c) : ScopeReg a c := by
  obtain ⟨a1, a2, a3, a4, a5, a6, a7⟩ := h1
  obtain ⟨b1, b2, b3, b4, b5, b6, b7⟩ := h2
  exact ⟨a1.trans b1, a2.trans b2, a3.trans b3, a4.trans b4, a5.trans b5, a6.trans b6, a7.trans b7⟩
theorem CtorStatic.refl (a : CtorNode) : CtorStatic a a := ⟨rfl, rfl, rfl, rfl, rfl, rfl, rfl⟩
theorem CtorStatic.trans {a b c : CtorNode} (h1 : CtorStatic a b) (h2 : CtorStatic b c) : CtorStatic a c := by
  obtain ⟨a1, a2, a3, a4, a5, a6, a7⟩ := h1
  obtain ⟨b1, b2, b3, b4, b5, b6, b7⟩ := h2
  exact ⟨a1.trans b1, a2.trans b2, a3.trans b3, a4.trans b4, a5.trans b5, a6.trans b6, a7.trans b7⟩
theorem DecoStatic.refl (a : DecoNode) : DecoStatic a a := ⟨rfl, rfl, rfl, rfl, rfl⟩
theorem DecoStatic.trans {a b c : DecoNode} (h1 : DecoStatic a b) (h2 : DecoStatic b c) : DecoStatic a c := by
  obtain ⟨a1, a2, a3, a4, a5⟩ := h1
  obtain ⟨b1, b2, b3, b4, b5⟩ := h2
  exact ⟨a1.trans b1, a2.trans b2, a3.trans b3, a4.trans b4, a5.trans b5⟩

theorem RegFrame.refl (a : St) : RegFrame a a :=
  ⟨rfl, fun _ => ScopeReg.refl _, rfl, rfl, fun _ => CtorStatic.refl _, rfl, fun _ => DecoStatic.refl _⟩

theorem RegFrame.trans {a b c : St} (h1 : RegFrame a b) (h2 : RegFrame b c) : RegFrame a c := by
  obtain ⟨a1, a2, a3, a4, a5, a6, a7⟩ := h1
  obtain ⟨b1, b2, b3, b4, b5, b6, b7⟩ := h2
  exact ⟨a1.trans b1, fun i => (a2 i).trans (b2 i), a3.trans b3, a4.trans b4, fun n => (a5 n).trans (b5 n),
    a6.trans b6, fun d => (a7 d).trans (b7 d)⟩

theorem regFrame_modCtor (st : St) (n : Nat) (f : CtorNode → CtorNode) (hf : ∀ x, CtorStatic x (f x)) :
    RegFrame st (st.modCtor n f) := by
  refine ⟨rfl, fun _ => ScopeReg.refl _, rfl, ?_, ?_, rfl, fun _ => DecoStatic.refl _⟩
  · simp [St.modCtor]
  · intro j
    rw [ctor_modCtor]
    split
    · exact hf _
    · exact CtorStatic.refl _

theorem regFrame_modDeco (st : St) (d : Nat) (f : DecoNode → DecoNode) (hf : ∀ x, DecoStatic x (f x)) :
    RegFrame st (st.modDeco d f) := by
  refine ⟨rfl, fun _ => ScopeReg.refl _, rfl, rfl, fun _ => CtorStatic.refl _, ?_, ?_⟩
  · simp [St.modDeco]
  · intro j
    rw [deco_modDeco]
    split
    · exact hf _
    · exact DecoStatic.refl _

theorem regFrame_modScope (st : St) (s : Nat) (f : ScopeSt → ScopeSt) (hf : ∀ x, ScopeReg x (f x)) :
    RegFrame st (st.modScope s f) := by
  refine ⟨?_, ?_, rfl, rfl, fun _ => CtorStatic.refl _, rfl, fun _ => DecoStatic.refl _⟩
  · simp [St.modScope]
  · intro j
    rw [scope_modScope]
    split
    · exact hf _
    · exact ScopeReg.refl _

/-- a change of log, clock and execution counters only -/
theorem regFrame_of_same (a b : St) (h1 : a.scopes = b.scopes) (h2 : a.ctors = b.ctors) (h3 : a.decos = b.decos)
    (h4 : a.pgs = b.pgs) : RegFrame a b := by
  refine ⟨by rw [h1], ?_, h4, by rw [h2], ?_, by rw [h3], ?_⟩
  · intro i; simp only [St.scope, h1]; exact ScopeReg.refl _
  · intro i; simp only [St.ctor, h2]; exact CtorStatic.refl _
  · intro i; simp only [St.deco, h3]; exact DecoStatic.refl _

/-! ### extraction only writes values and groups -/

theorem extractResult_reg (env : TyEnv) (r : Ret) (sc : ScopeSt) (x : Result) :
    ScopeReg sc (extractResult env r sc x) := by
  apply extractResult.induct env r (fun sc x => ScopeReg sc (extractResult env r sc x))
    (fun sc xs => ScopeReg sc (extractResults env r sc xs))
  · intro sc slot decl ty name as; simp only [extractResult]; exact ScopeReg.refl _
  · intro sc slot decl ty group as; simp only [extractResult]; exact ⟨rfl, rfl, rfl, rfl, rfl, rfl, rfl⟩
  · intro sc slot decl ty group flatten as hf
    simp only [extractResult, hf]
    exact ⟨rfl, rfl, rfl, rfl, rfl, rfl, rfl⟩
  · intro sc ty fs ih; simp only [extractResult]; exact ih
  · intro sc; simp only [extractResults]; exact ScopeReg.refl _
  · intro sc x xs ih1 ih2; simp only [extractResults]; exact ih1.trans ih2

theorem extractDeco_reg (env : TyEnv) (r : Ret) (sc : ScopeSt) (x : Result) :
    ScopeReg sc (extractDeco env r sc x) := by
  apply extractDeco.induct env r (fun sc x => ScopeReg sc (extractDeco env r sc x))
    (fun sc xs => ScopeReg sc (extractDecos env r sc xs))
  · intro sc slot decl ty name as; simp only [extractDeco]; exact ⟨rfl, rfl, rfl, rfl, rfl, rfl, rfl⟩
  · intro sc slot decl ty group f as; simp only [extractDeco]; exact ⟨rfl, rfl, rfl, rfl, rfl, rfl, rfl⟩
  · intro sc ty fs ih; simp only [extractDeco]; exact ih
  · intro sc; simp only [extractDecos]; exact ScopeReg.refl _
  · intro sc x xs ih1 ih2; simp only [extractDecos]; exact ih1.trans ih2

theorem extractSlots_reg (env : TyEnv) (deco : Bool) (r : Ret) (slots : List RSlot) :
    ∀ sc, ScopeReg sc (extractSlots env deco r sc slots) := by
  induction slots with
  | nil => intro sc; simp only [extractSlots]; exact ScopeReg.refl _
  | cons s rest ih =>
    intro sc
    cases s with
    | err => simp only [extractSlots]; exact ih sc
    | val x =>
      simp only [extractSlots]
      split
      · exact (extractDeco_reg env r sc x).trans (ih _)
      · exact (extractResult_reg env r sc x).trans (ih _)

/-! ### leaf steps -/

theorem regFrame_emit (st : St) (e : Event) : RegFrame st (st.emit e) :=
  regFrame_of_same _ _ rfl rfl rfl rfl

theorem regFrame_runCallback (cb : Option Nat) (who : Who) (fn start : Nat) (err : Option DErr) (st : St) :
    RegFrame st (runCallback cb who fn start err st) := by
  unfold runCallback
  split
  · exact regFrame_emit _ _
  · exact RegFrame.refl _

theorem regFrame_callBody (ctx : Ctx) (who : Who) (fn : Fn) (args : List Val) (st : St) :
    RegFrame st (callBody ctx who fn args st).2 := by
  unfold callBody
  obtain ⟨h1, h2, h3, h4, _, _, _⟩ := bumpExec_fields st fn.id
  split
  · exact RegFrame.refl _
  · simp only
    split
    · exact regFrame_of_same _ _ (by simp [St.emit, h1]) (by simp [St.emit, h2]) (by simp [St.emit, h3]) (by simp [St.emit, h4])
    · split <;>
        exact regFrame_of_same _ _ (by simp [St.emit, h1]) (by simp [St.emit, h2]) (by simp [St.emit, h3]) (by simp [St.emit, h4])
    · exact regFrame_of_same _ _ (by simp [St.emit, h1]) (by simp [St.emit, h2]) (by simp [St.emit, h3]) (by simp [St.emit, h4])

theorem regFrame_ctorCommit (ctx : Ctx) (n : Nat) (node : CtorNode) (r : BodyRes) (st : St) :
    RegFrame st (ctorCommit ctx n node r st) := by
  have hc : ∀ ret : Ret, RegFrame st
      ((st.modScope node.s fun sc => extractSlots ctx.env false ret sc node.results).modCtor n
        fun y => { y with called := true }) := fun ret =>
    RegFrame.trans (regFrame_modScope _ _ _ (fun x => extractSlots_reg _ _ _ _ x))
      (regFrame_modCtor _ _ _ (fun x => ⟨rfl, rfl, rfl, rfl, rfl, rfl, rfl⟩))
  unfold ctorCommit
  cases r with
  | dry => exact hc _
  | ok x len => exact hc _
  | err x out => exact RegFrame.refl _
  | panic x => exact RegFrame.refl _

theorem regFrame_decoCommit (ctx : Ctx) (d : Nat) (node : DecoNode) (r : BodyRes) (st : St) :
    RegFrame st (decoCommit ctx d node r st) := by
  have hc : ∀ ret : Ret, RegFrame st
      ((st.modScope node.s fun sc => extractSlots ctx.env true ret sc node.results).modDeco d
        fun y => { y with state := .called }) := fun ret =>
    RegFrame.trans (regFrame_modScope _ _ _ (fun x => extractSlots_reg _ _ _ _ x))
      (regFrame_modDeco _ _ _ (fun x => ⟨rfl, rfl, rfl, rfl, rfl⟩))
  unfold decoCommit
  cases r with
  | dry => exact hc _
  | ok x len => exact hc _
  | err x out => exact RegFrame.refl _
  | panic x => exact RegFrame.refl _

theorem regFrame_ctorTail (ctx : Ctx) (st : St) (n : Nat) (node : CtorNode) (args : List Val) :
    RegFrame st (ctorTail ctx n node args st).2 := by
  unfold ctorTail
  exact (regFrame_callBody ctx (.ctor n) node.fn args st).trans
    ((regFrame_ctorCommit ctx n node _ _).trans (regFrame_runCallback _ _ _ _ _ _))

theorem regFrame_decoTail (ctx : Ctx) (st : St) (d : Nat) (node : DecoNode) (args : List Val) :
    RegFrame st (decoTail ctx d node args st).2 := by
  unfold decoTail
  exact (regFrame_callBody ctx (.deco d) node.fn args st).trans
    ((regFrame_decoCommit ctx d node _ _).trans (regFrame_runCallback _ _ _ _ _ _))

theorem regFrame_leaf (ctx : Ctx) : LeafRel ctx RegFrame where
  refl := RegFrame.refl
  trans := RegFrame.trans
  setOnStack st n := regFrame_modCtor st n _ (fun _ => ⟨rfl, rfl, rfl, rfl, rfl, rfl, rfl⟩)
  clearOnStack st n := regFrame_modCtor st n _ (fun _ => ⟨rfl, rfl, rfl, rfl, rfl, rfl, rfl⟩)
  ctorTail st n node args := regFrame_ctorTail ctx st n node args
  decoOnStack st d := regFrame_modDeco st d _ (fun _ => ⟨rfl, rfl, rfl, rfl, rfl⟩)
  decoFinally st d := regFrame_modDeco st d _ (fun x => by split <;> exact ⟨rfl, rfl, rfl, rfl, rfl⟩)
  decoTail st d node args := regFrame_decoTail ctx st d node args

/-- **the resolver never changes the registry**, whatever it is asked to build and however it ends -/
theorem buildList_regFrame (ctx : Ctx) (fuel : Nat) (ps : List Param) (c : Nat) (st : St) :
    RegFrame st (buildList ctx fuel ps c st).2 :=
  (engine_pres ctx (regFrame_leaf ctx) fuel).2.2.2.2.2 ps c st

/-! ### the log -/

def isCb : Event → Bool
  | .cb _ _ _ _ _ => true
  | _ => false

/-- the log is extended by events satisfying `P` -/
def LogExt (P : Event → Bool) (a b : St) : Prop := ∃ l, b.log = a.log ++ l ∧ ∀ e ∈ l, P e = true

theorem LogExt.refl (P : Event → Bool) (a : St) : LogExt P a a := ⟨[], by simp, by simp⟩
theorem LogExt.trans {P : Event → Bool} {a b c : St} (h1 : LogExt P a b) (h2 : LogExt P b c) : LogExt P a c := by
  obtain ⟨l1, e1, p1⟩ := h1
  obtain ⟨l2, e2, p2⟩ := h2
  refine ⟨l1 ++ l2, by rw [e2, e1, List.append_assoc], ?_⟩
  intro e he
  rcases List.mem_append.mp he with h | h
  · exact p1 e h
  · exact p2 e h

theorem logExt_of_log_eq {P : Event → Bool} (a b : St) (h : b.log = a.log) : LogExt P a b := ⟨[], by simp [h], by simp⟩

theorem logExt_emit {P : Event → Bool} (a : St) (e : Event) (h : P e = true) : LogExt P a (a.emit e) :=
  ⟨[e], rfl, by simp [h]⟩

theorem logExt_runCallback {P : Event → Bool} (hP : ∀ op who fn err rt, P (.cb op who fn err rt) = true)
    (cb : Option Nat) (who : Who) (fn start : Nat) (err : Option DErr) (st : St) :
    LogExt P st (runCallback cb who fn start err st) := by
  unfold runCallback
  split
  · exact logExt_emit _ _ (hP _ _ _ _ _)
  · exact LogExt.refl _ _

theorem modScope_log (st : St) (s : Nat) (f : ScopeSt → ScopeSt) : (st.modScope s f).log = st.log := rfl
theorem modCtor_log (st : St) (s : Nat) (f : CtorNode → CtorNode) : (st.modCtor s f).log = st.log := rfl
theorem modDeco_log (st : St) (s : Nat) (f : DecoNode → DecoNode) : (st.modDeco s f).log = st.log := rfl

theorem dryLog_ctorTail (ctx : Ctx) (h : ctx.cfg.dry = true) (st : St) (n : Nat) (node : CtorNode) (args : List Val) :
    LogExt isCb st (ctorTail ctx n node args st).2 := by
  simp only [ctorTail, callBody_dry ctx h]
  exact LogExt.trans (logExt_of_log_eq _ _ (ctorCommit_fields ctx n node _ st).1)
    (logExt_runCallback (fun _ _ _ _ _ => rfl) _ _ _ _ _ _)

theorem dryLog_decoTail (ctx : Ctx) (h : ctx.cfg.dry = true) (st : St) (d : Nat) (node : DecoNode) (args : List Val) :
    LogExt isCb st (decoTail ctx d node args st).2 := by
  simp only [decoTail, callBody_dry ctx h]
  exact LogExt.trans (logExt_of_log_eq _ _ (decoCommit_fields ctx d node _ st).1)
    (logExt_runCallback (fun _ _ _ _ _ => rfl) _ _ _ _ _ _)

theorem dryLog_leaf (ctx : Ctx) (h : ctx.cfg.dry = true) : LeafRel ctx (LogExt isCb) where
  refl := LogExt.refl _
  trans := LogExt.trans
  setOnStack st n := logExt_of_log_eq _ _ rfl
  clearOnStack st n := logExt_of_log_eq _ _ rfl
  ctorTail st n node args := dryLog_ctorTail ctx h st n node args
  decoOnStack st d := logExt_of_log_eq _ _ rfl
  decoFinally st d := logExt_of_log_eq _ _ rfl
  decoTail st d node args := dryLog_decoTail ctx h st d node args

/-- **in a DryRun container the resolver executes no user function**: it appends callback events only -/
theorem buildList_dry (ctx : Ctx) (h : ctx.cfg.dry = true) (fuel : Nat) (ps : List Param) (c : Nat) (st : St) :
    LogExt isCb st (buildList ctx fuel ps c st).2 :=
  (engine_pres ctx (dryLog_leaf ctx h) fuel).2.2.2.2.2 ps c st

end Dig
