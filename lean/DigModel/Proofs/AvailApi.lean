import DigModel.Proofs.AvailEngine
import DigModel.Proofs.ReachApi
import DigModel.Proofs.RootCauseProgram
import DigModel.Proofs.AcycInv
import DigModel.Proofs.GhBoundApi
import DigModel.Proofs.Termination
/-
  `Invoke` on the container as it was when called: a "missing type" or "cycle" failure is real (`apiInvoke_real`),
  and an Invoke whose closure has every required dependency available and no dependency cycle, with no failing user
  function, succeeds (`apiInvoke_available`).
-/
namespace Dig

/-- the nodes an Invoke from scope `s` with parameters `params` may run -/
def InvokeClosure (st : St) (s : Nat) (params : List Param) (w : Who) : Prop := ∃ l ∈ leavesL params, Reach st s l w

/-- the invoked function's own required single keys -/
def InvokeReq (s : Nat) (params : List Param) (c : Nat) (k : Key) : Prop := c = s ∧ k ∈ reqSinglesL params

/-! ### the same view, the same meaning -/

theorem nodeParams_view {a b : St} (h : SameView a b) (w : Who) : nodeParams a w = nodeParams b w := by
  cases w with
  | ctor n => exact (h.ctor n).1
  | deco d => exact (h.deco d).1
  | invoked => rfl

theorem nodeView_view {a b : St} (h : SameView a b) (w : Who) : nodeView a w = nodeView b w := by
  cases w with
  | ctor n => exact (h.ctor n).2
  | deco d => exact (h.deco d).2
  | invoked => rfl

theorem below_view {a b : St} (h : SameView a b) {w w' : Who} (hb : Below a w w') : Below b w w' := by
  obtain ⟨l, hl, hr⟩ := hb
  refine ⟨l, by rw [← nodeParams_view h]; exact hl, ?_⟩
  rw [← nodeView_view h]
  exact reach_view h hr

theorem checkedFrom_view {a b : St} (h : SameView a b) {w : Who} {c : Nat} (hc : CheckedFrom a w c) : CheckedFrom b w c := by
  cases w with
  | ctor n => exact hc.trans (h.ctor n).2
  | deco d =>
    rcases hc with hc | ⟨k, hk⟩
    · exact Or.inl (hc.trans (h.deco d).2)
    · exact Or.inr ⟨k, by rw [← (h.scope c).1]; exact hk⟩
  | invoked => exact hc

theorem reqNode_view {a b : St} (h : SameView a b) {w : Who} {c : Nat} {k : Key} (hr : ReqNode a w c k) : ReqNode b w c k :=
  ⟨by rw [← nodeParams_view h]; exact hr.1, checkedFrom_view h hr.2⟩

theorem allProviders_view {a b : St} (h : SameView a b) (c : Nat) (k : Key) : a.allProviders c k = b.allProviders c k := by
  unfold St.allProviders
  rw [h.anc c]
  congr 1
  funext s
  rw [(h.scope s).2]

theorem RealRoot.view {a b : St} (h : SameView a b) {T T' : Who → Prop} {D : Nat → Key → Prop} {r : DErr}
    (hr : RealRoot a T D r) (hT : ∀ w, T w → T' w) : RealRoot b T' D r where
  cyc p s he := by
    obtain ⟨w, hw, hb⟩ := hr.cyc p s he
    exact ⟨w, hT w hw, below_view h hb⟩
  mis ks he := by
    obtain ⟨hne, hall⟩ := hr.mis ks he
    refine ⟨hne, fun k hk => ?_⟩
    obtain ⟨c, hp, hd⟩ := hall k hk
    refine ⟨c, by rw [← allProviders_view h]; exact hp, ?_⟩
    rcases hd with hd | ⟨w, hw, hq⟩
    · exact Or.inl hd
    · exact Or.inr ⟨w, hT w hw, reqNode_view h hq⟩

/-! ### the resolution-and-call stage -/

theorem invokeRun_real (ctx : Ctx) (fn : Fn) (params : List Param) (s : Nat) (info : Bool) (w : St)
    (hidle : ∀ n, (w.ctor n).onStack = false) (e : DErr) (h : (invokeRun ctx fn params s info w).2.v = .err e) :
    RealRoot w (InvokeClosure w s params) (InvokeReq s params) e.rootCause := by
  have hstk : Stk w w (fun x => ∃ l ∈ leavesL params, Reach w s l x) := by
    intro m hm; rw [hidle m] at hm; cases hm
  have hb := avp_wrapErr (st0 := w) DErr.argsFailed rootCause_argsFailed hmd_argsFailed w
    ((engine_avail ctx w (engineFuel w params)).2.2.2.2.2 params s w (RegFrame.refl w) hstk)
  unfold invokeRun at h
  cases hbl : EM.wrapErr (buildList ctx (engineFuel w params) params s) DErr.argsFailed w with
  | mk r w' =>
    rw [hbl] at h hb
    cases r with
    | error f =>
      simp only at h
      cases f with
      | err e' =>
        simp only [failToVerdict, Verdict.err.injEq] at h
        subst h
        exact (hb.2.2 e' rfl).1
      | panic f x => simp [failToVerdict] at h
      | bug => simp [failToVerdict] at h
      | fuel => simp [failToVerdict] at h
    | ok args =>
      simp only at h
      cases hcb : callBody ctx .invoked fn args w' with
      | mk rb w'' =>
        rw [hcb] at h
        simp only at h
        cases rb with
        | dry => simp at h
        | ok x l => simp at h
        | err x out =>
          simp only at h
          split at h
          · simp only [Verdict.err.injEq] at h; subst h
            exact realRoot_other (fun p s hh => by simp [DErr.rootCause] at hh) (fun ks hh => by simp [DErr.rootCause] at hh)
          · cases h
        | panic x =>
          simp only at h
          split at h
          · simp only [Verdict.err.injEq] at h; subst h
            exact realRoot_other (fun p s hh => by simp [DErr.rootCause] at hh) (fun ks hh => by simp [DErr.rootCause] at hh)
          · cases h

theorem invokeRun_ne_badop (ctx : Ctx) (fn : Fn) (params : List Param) (s : Nat) (info : Bool) (w : St) :
    (invokeRun ctx fn params s info w).2.v ≠ .badop := by
  intro h
  unfold invokeRun at h
  cases hbl : EM.wrapErr (buildList ctx (engineFuel w params) params s) DErr.argsFailed w with
  | mk r w' =>
    rw [hbl] at h
    cases r with
    | error f => cases f <;> simp [failToVerdict] at h
    | ok args =>
      simp only at h
      cases hcb : callBody ctx .invoked fn args w' with
      | mk rb w'' =>
        rw [hcb] at h
        simp only at h
        cases rb with
        | dry => simp at h
        | ok x l => simp at h
        | err x out => simp only at h; split at h <;> cases h
        | panic x => simp only at h; split at h <;> cases h

/-! ### what an optional parameter absorbs -/

/-- the provider loop of `paramSingle.Build` turns a failure of constructor `n` into the zero value of an optional
    parameter only if that failure is a "missing type": some required single key in the closure of `n` — of `n` itself
    or of a constructor or decorator reachable from it — has no constructor visible from where it is looked up -/
theorem optional_absorbs_real_missing (ctx : Ctx) (st0 : St) (fuel n : Nat) (st : St) (h0 : RegFrame st0 st)
    (hstk : Stk st0 st (ReachC st0 n (st0.ctor n).origS)) (env : TyEnv) (k : Key) (opt : Bool) (cid : Nat) (z : Val) (s2 : St)
    (h : providerStep env k opt cid (callCtor ctx fuel n (st0.ctor n).origS st) = (.ok (some z), s2)) :
    opt = true ∧ ∃ e ks, (callCtor ctx fuel n (st0.ctor n).origS st).1 = .error (.err e) ∧
      e.rootCause = .missingTypes ks ∧ ks ≠ [] ∧
      ∀ k' ∈ ks, ∃ c, st0.allProviders c k' = [] ∧ ∃ w, ReachC st0 n (st0.ctor n).origS w ∧ ReqNode st0 w c k' := by
  have hp := (engine_avail ctx st0 fuel).1 n st h0 hstk
  cases hr : callCtor ctx fuel n (st0.ctor n).origS st with
  | mk x s =>
    rw [hr] at h hp
    cases x with
    | ok u => simp [providerStep] at h
    | error f =>
      cases f with
      | err e =>
        simp only [providerStep] at h
        split at h
        · rename_i hc
          simp only [Bool.and_eq_true] at hc
          obtain ⟨hreal, hmd⟩ := hp.2.2 e rfl
          obtain ⟨ks, hks⟩ := hmd hc.1
          obtain ⟨hne, hall⟩ := hreal.mis ks hks
          refine ⟨hc.2, e, ks, rfl, hks, hne, fun k' hk' => ?_⟩
          obtain ⟨c, hpv, hd⟩ := hall k' hk'
          rcases hd with hd | hd
          · exact hd.elim
          · exact ⟨c, hpv, hd⟩
        · simp at h
      | panic f x => simp [providerStep] at h
      | bug => simp [providerStep] at h
      | fuel => simp [providerStep] at h

/-! ### the stages of Invoke -/

theorem apiInvoke_stages (ctx : Ctx) (fn : Fn) (st : St) (s : Nat) (info : Bool) (hnf : fn.nonfunc = none)
    (params : List Param) (w : St) (hpp : parseParams ctx.env st s fn = (.ok params, w)) :
    (∃ k ks, missingOfList w s params = k :: ks ∧
      (apiInvoke ctx fn st s info).2.v = .err (.missingDeps (.missingTypes (k :: ks)))) ∨
    (missingOfList w s params = [] ∧
      ((∃ v, invokeCheck w s = .error v ∧ (apiInvoke ctx fn st s info).2.v = v) ∨
       ∃ w3, invokeCheck w s = .ok w3 ∧ apiInvoke ctx fn st s info = invokeRun ctx fn params s info w3)) := by
  rw [apiInvoke_eq]
  unfold apiInvoke'
  simp only [hnf, hpp]
  unfold shallowCheck
  cases hm : missingOfList w s params with
  | cons k ks => left; exact ⟨k, ks, rfl, rfl⟩
  | nil =>
    right
    refine ⟨rfl, ?_⟩
    simp only
    cases hck : invokeCheck w s with
    | error v => left; exact ⟨v, rfl, rfl⟩
    | ok w3 => right; exact ⟨w3, rfl, rfl⟩

theorem invokeCheck_view (w w3 : St) (s : Nat) (h : invokeCheck w s = .ok w3) :
    SameView w w3 ∧ w3.ctors = w.ctors ∧ w3.log = w.log := by
  unfold invokeCheck at h
  split at h
  · injection h with e; subst e; exact ⟨sameView_regFrame (RegFrame.refl _), rfl, rfl⟩
  · split at h
    · injection h with e; subst e; exact ⟨sameView_modVerified _ _ _, rfl, rfl⟩
    · cases h
    · cases h

theorem invokeCheck_error (w : St) (s : Nat) (v : Verdict) (h : invokeCheck w s = .error v) :
    (∃ p, v = .err (.invalid (.cycle p s)) ∧ ∃ q, checkAcyclic w s = .cycle q) ∨ v = .panicDig := by
  unfold invokeCheck at h
  split at h
  · cases h
  · split at h
    · cases h
    · rename_i q hq
      injection h with e; subst e; exact Or.inl ⟨_, rfl, q, hq⟩
    · injection h with e; subst e; exact Or.inr rfl

/-- **a failure of Invoke is real** (see the head of `Avail.lean`) -/
theorem apiInvoke_real (ctx : Ctx) (fn : Fn) (st : St) (s : Nat) (info : Bool) (hnf : fn.nonfunc = none)
    (hidle : ∀ n, (st.ctor n).onStack = false)
    (params : List Param) (w : St) (hpp : parseParams ctx.env st s fn = (.ok params, w))
    (e : DErr) (h : (apiInvoke ctx fn st s info).2.v = .err e) :
    (∃ p, e = .invalid (.cycle p s) ∧ ∃ q, checkAcyclic w s = .cycle q) ∨
    RealRoot st (InvokeClosure st s params) (InvokeReq s params) e.rootCause := by
  have hg : GhOnly st w := by have := ghOnly_parseParams ctx.env st s fn; rw [hpp] at this; exact this
  have hview : SameView w st := (sameView_ghOnly hg).symm
  have hT : ∀ w0 x, SameView w0 st → InvokeClosure w0 s params x → InvokeClosure st s params x :=
    fun w0 x hv ⟨l, hl, hr⟩ => ⟨l, hl, reach_view hv hr⟩
  rcases apiInvoke_stages ctx fn st s info hnf params w hpp with ⟨k, ks, hm, hv⟩ | ⟨hm, ⟨v, hck, hv⟩ | ⟨w3, hck, hv⟩⟩
  · right
    rw [hv] at h
    simp only [Verdict.err.injEq] at h
    subst h
    have : RealRoot w (InvokeClosure w s params) (InvokeReq s params) (DErr.missingTypes (k :: ks)) := by
      constructor
      · intro p s' hh; cases hh
      · intro ks' hh
        simp only [DErr.missingTypes.injEq] at hh
        subst hh
        refine ⟨by simp, fun k' hk' => ?_⟩
        rw [← hm] at hk'
        obtain ⟨h1, h2⟩ := mem_missingOfList w s k' params hk'
        exact ⟨s, h2, Or.inl ⟨rfl, h1⟩⟩
    exact this.view hview (fun x hx => hT w x hview hx)
  · rw [hv] at h
    rcases invokeCheck_error w s v hck with ⟨p, hp, hq⟩ | hp
    · left
      rw [hp] at h
      simp only [Verdict.err.injEq] at h
      exact ⟨p, h.symm, hq⟩
    · rw [hp] at h; cases h
  · right
    obtain ⟨hv3, hc3, _⟩ := invokeCheck_view w w3 s hck
    have hidle3 : ∀ n, (w3.ctor n).onStack = false := by
      intro n
      have : w3.ctor n = st.ctor n := by simp [St.ctor, hc3, hg.1]
      rw [this]; exact hidle n
    rw [hv] at h
    have hr := invokeRun_real ctx fn params s info w3 hidle3 e h
    have hview3 : SameView w3 st := sameView_trans hv3.symm hview
    exact hr.view hview3 (fun x hx => hT w3 x hview3 hx)

/-- **available ⇒ succeeds**: no user function is scripted to fail, every required single key in the closure of the
    Invoke — the invoked function's own and those of every reachable constructor and decorator — has a constructor
    visible from where it is looked up, and no reachable node is needed for its own arguments: then Invoke answers
    `ok`, unless the acyclicity check of the scope's graph itself reports a cycle (or the model gives up, which whole
    programs never do: `C14_never_panics`, `C05_invoke_total`) -/
theorem apiInvoke_available (ctx : Ctx) (hok : AllOk ctx) (fn : Fn) (st : St) (s : Nat) (info : Bool) (hnf : fn.nonfunc = none)
    (hlog : st.log = []) (hidle : ∀ n, (st.ctor n).onStack = false)
    (params : List Param) (w : St) (hpp : parseParams ctx.env st s fn = (.ok params, w))
    (havail : ∀ c k, (InvokeReq s params c k ∨ ∃ x, InvokeClosure st s params x ∧ ReqNode st x c k) → st.allProviders c k ≠ [])
    (hnocyc : ∀ x, InvokeClosure st s params x → ¬ Below st x x) :
    (apiInvoke ctx fn st s info).2.v = .ok ∨ (apiInvoke ctx fn st s info).2.v = .panicDig ∨
    (apiInvoke ctx fn st s info).2.v = .fuel ∨
    ∃ p, (apiInvoke ctx fn st s info).2.v = .err (.invalid (.cycle p s)) ∧ ∃ q, checkAcyclic w s = .cycle q := by
  cases hv : (apiInvoke ctx fn st s info).2.v with
  | ok => exact Or.inl rfl
  | panicDig => exact Or.inr (Or.inl rfl)
  | fuel => exact Or.inr (Or.inr (Or.inl rfl))
  | badop =>
    exfalso
    rcases apiInvoke_stages ctx fn st s info hnf params w hpp with ⟨k, ks, _, h1⟩ | ⟨_, ⟨v, hck, h1⟩ | ⟨w3, _, h1⟩⟩
    · rw [h1] at hv; cases hv
    · rw [h1] at hv
      rcases invokeCheck_error w s v hck with ⟨p, hp, _⟩ | hp <;> (rw [hp] at hv; cases hv)
    · rw [h1] at hv
      exact invokeRun_ne_badop ctx fn params s info w3 hv
  | panicUser f x =>
    exfalso
    have hg := apiInvoke_invGood ctx fn st s info hlog
    rw [hv] at hg
    have := hg.2.1
    rw [hok f x] at this
    cases this
  | err e =>
    rcases apiInvoke_real ctx fn st s info hnf hidle params w hpp e hv with ⟨p, hp, hq⟩ | hr
    · right; right; right
      exact ⟨p, by rw [hp], hq⟩
    · exfalso
      -- the root cause is dig's own: "missing type" or "cycle"
      have hroot : EngRoot e := by
        rcases apiInvoke_stages ctx fn st s info hnf params w hpp with ⟨k, ks, _, h1⟩ | ⟨_, ⟨v, hck, h1⟩ | ⟨w3, _, h1⟩⟩
        · rw [h1] at hv
          simp only [Verdict.err.injEq] at hv
          subst hv
          exact Or.inl ⟨k :: ks, rfl⟩
        · rw [h1] at hv
          rcases invokeCheck_error w s v hck with ⟨p, hp, _⟩ | hp
          · rw [hp] at hv
            simp only [Verdict.err.injEq] at hv
            subst hv
            exact Or.inr ⟨p, s, rfl⟩
          · rw [hp] at hv; cases hv
        · rw [h1] at hv
          exact invokeRun_allOk ctx hok fn params s info w3 e hv
      rcases hroot with ⟨ks, hks⟩ | ⟨p, s', hc⟩
      · obtain ⟨hne, hall⟩ := hr.mis ks hks
        cases ks with
        | nil => exact hne rfl
        | cons k ks =>
          obtain ⟨c, hp, hd⟩ := hall k (by simp)
          exact havail c k hd hp
      · obtain ⟨x, hx, hb⟩ := hr.cyc p s' hc
        exact hnocyc x hx hb

end Dig
