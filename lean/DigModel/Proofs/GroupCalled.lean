import DigModel.Proofs.Group
import DigModel.Proofs.Retry
import DigModel.Proofs.Termination
/-
  A group parameter is only assembled after every provider of the group on the path to the root has been
  built: a successful `constructorNode.Call` leaves the node `called`, `called` is never taken back, and the
  provider loops of `paramGroupedSlice.Build` stop at the first failure.
-/
namespace Dig

/-- a `constructorNode.Call` that returns normally leaves the constructor built -/
theorem callCtor_ok_called (ctx : Ctx) (L L' : Nat) : ∀ (fuel n c : Nat), n < L → ∀ (st : St), VL L L' st →
    ∀ (u : Unit) (st' : St), callCtor ctx fuel n c st = (.ok u, st') → (st'.ctor n).called = true := by
  intro fuel n c hn st hv u st' h
  cases fuel with
  | zero => simp [callCtor, EM.fail] at h
  | succ fuel =>
    simp only [callCtor] at h
    split at h
    · rename_i hc
      injection h with _ e2
      rw [← e2]; exact hc
    · rename_i hcalled
      split at h
      · injection h with e1 _; cases e1
      · rename_i hon
        have hv1 : VL L L' (st.modCtor n fun x => { x with onStack := true }) :=
          ⟨hv.1.of_frame (regFrame_modCtor st n _ (fun _ => ⟨rfl, rfl, rfl, rfl, rfl, rfl, rfl⟩)),
           by simp [St.modCtor, hv.2.1], hv.2.2⟩
        simp only [EM.finally_, EM.bind] at h
        have hs := shallowCheck_state' c (st.ctor n).params (st.modCtor n fun x => { x with onStack := true })
        cases hsc : shallowCheck c (st.ctor n).params (st.modCtor n fun x => { x with onStack := true }) with
        | mk r1 s1 =>
          rw [hsc] at h hs
          simp only at hs
          subst hs
          cases r1 with
          | error e => simp only at h; injection h with e1 _; cases e1
          | ok _ =>
            simp only at h
            have hb := (engine_flags ctx L L' fuel).2.2.2.2.2 (st.ctor n).params c _ hv1
            rw [← wrapErr_state'' _ DErr.argsFailed] at hb
            cases hbl : EM.wrapErr (buildList ctx fuel (st.ctor n).params c) DErr.argsFailed
                (st.modCtor n fun x => { x with onStack := true }) with
            | mk r2 s3 =>
              rw [hbl] at h hb
              cases r2 with
              | error e => simp only at h; injection h with e1 _; cases e1
              | ok args =>
                simp only at h
                injection h with e1 e2
                have hlen3 : n < s3.ctors.length := by
                  have := (VL.step hv1 hb).2.1
                  simp only at this
                  omega
                have hcm : (callBody ctx (.ctor n) (st.ctor n).fn args s3).1.commits = true := by
                  apply (ctorOutcome_ok_iff ctx (st.ctor n).fn.id _).mp
                  exact ⟨u, by simpa [ctorTail] using e1⟩
                have h4 := ctorTail_ctor ctx n (st.ctor n) args s3 n
                simp only [hcm, hlen3, and_self, if_true] at h4
                rw [← e2, ctor_modCtor]
                split
                · simp [h4]
                · rw [h4]

section
variable (V : St → Prop)

/-- after a loop that ran to its end, what each step established — and later steps keep — holds for every element -/
theorem forEachM_all {α : Type} (P : α → St → Prop) (xs : List α) (f : α → EM Unit)
    (hV : ∀ a, a ∈ xs → ∀ st, V st → V (f a st).2)
    (hP : ∀ a, a ∈ xs → ∀ st st', V st → f a st = (.ok (), st') → P a st')
    (hM : ∀ a b, b ∈ xs → ∀ st, V st → P a st → P a (f b st).2) :
    ∀ st st', V st → forEachM xs f st = (.ok (), st') → ∀ a ∈ xs, P a st' := by
  induction xs with
  | nil => intro st st' _ _ a ha; cases ha
  | cons x rest ih =>
    intro st st' hv h a ha
    simp only [forEachM, EM.bind] at h
    have hv1 := hV x (by simp) st hv
    cases hfx : f x st with
    | mk r s1 =>
      rw [hfx] at h hv1
      cases r with
      | error e => simp only at h; injection h with e1 _; cases e1
      | ok _ =>
        simp only at h
        rcases List.mem_cons.mp ha with e | hr
        · subst e
          have hp1 : P a s1 := hP a (by simp) st s1 hv hfx
          have := inv_forEachM (fun s => V s ∧ P a s) rest f
            (fun b hb s hs => ⟨hV b (by simp [hb]) s hs.1, hM a b (by simp [hb]) s hs.1 hs.2⟩) s1 ⟨hv1, hp1⟩
          rw [h] at this
          exact this.2
        · exact ih (fun b hb => hV b (by simp [hb])) (fun b hb => hP b (by simp [hb]))
            (fun a' b hb => hM a' b (by simp [hb])) s1 st' hv1 h a hr
end

/-- the two nested provider loops of `paramGroupedSlice.Build` -/
theorem groupProviders_called (ctx : Ctx) (L L' fuel : Nat) (k : Key) (anc : List Nat) (st st' : St) (hv : VL L L' st)
    (h : forEachM anc (fun s => fun st3 =>
          forEachM (agetL (st3.scope s).providers k)
            (fun n => fun st4 => EM.wrapErr (callCtor ctx fuel n (st4.ctor n).origS)
              (.paramGroup k (ctorId ctx.sameIds (st4.ctor n).fn)) st4) st3) st = (.ok (), st')) :
    ∀ s ∈ anc, ∀ n ∈ agetL (st.scope s).providers k, (st'.ctor n).called = true := by
  have hR := flags_stepRel
  have hVL : ∀ {a b : St}, VL L L' a → Flags a b → VL L L' b := fun h1 h2 => VL.step h1 h2
  -- invariant: valid registry of the same size, same provider tables as at the start
  let V : St → Prop := fun s => VL L L' s ∧ Flags st s
  have hinner : ∀ s st3, V st3 → Flags st3 (forEachM (agetL (st3.scope s).providers k)
      (fun n => fun st4 => EM.wrapErr (callCtor ctx fuel n (st4.ctor n).origS)
        (.paramGroup k (ctorId ctx.sameIds (st4.ctor n).fn)) st4) st3).2 := by
    intro s st3 hv3
    apply presV_forEachM_mem hR hVL _ ?_ st3 hv3.1
    intro n hn st4 hv4
    rw [wrapErr_state'']
    exact (engine_flags ctx L L' fuel).1 n _ (by rw [← hv3.1.2.1]; exact hv3.1.1.1 s k n hn) st4 hv4
  have hprov : ∀ s st3, V st3 → agetL (st3.scope s).providers k = agetL (st.scope s).providers k := by
    intro s st3 hv3
    rw [← (hv3.2.reg.2.1 s).2.2.1]
  refine forEachM_all V (fun s s' => ∀ n ∈ agetL (st.scope s).providers k, (s'.ctor n).called = true)
    anc _ ?_ ?_ ?_ st st' ⟨hv, Flags.refl st⟩ h
  · intro s _ st3 hv3
    have := hinner s st3 hv3
    exact ⟨hVL hv3.1 this, Flags.trans hv3.2 this⟩
  · intro s _ st3 st3' hv3 hrun
    rw [hprov s st3 hv3] at hrun
    have hmemL : ∀ n ∈ agetL (st.scope s).providers k, n < L := by
      intro n hn
      rw [← hprov s st3 hv3] at hn
      rw [← hv3.1.2.1]; exact hv3.1.1.1 s k n hn
    refine forEachM_all (VL L L') (fun n s' => (s'.ctor n).called = true) _ _ ?_ ?_ ?_ st3 st3' hv3.1 hrun
    · intro n hn st4 hv4
      rw [wrapErr_state'']
      exact hVL hv4 ((engine_flags ctx L L' fuel).1 n _ (hmemL n hn) st4 hv4)
    · intro n hn st4 st4' hv4 hc
      exact callCtor_ok_called ctx L L' fuel n _ (hmemL n hn) st4 hv4 () st4' (wrapErr_ok _ hc)
    · intro a n hn st4 hv4 ha
      rw [wrapErr_state'']
      exact ((engine_flags ctx L L' fuel).1 n _ (hmemL n hn) st4 hv4).ctorMono a ha
  · intro s s2 _ st3 hv3 hp n hn
    exact (hinner s2 st3 hv3).ctorMono n (hp n hn)

end Dig
