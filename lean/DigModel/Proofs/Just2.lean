import DigModel.Proofs.JustApi
/-
  Cache justification for the three other caches of a scope: value-group members, decorated single
  values and decorated groups.  Same shape as `Just`: whatever sits in a cache of scope `S` was
  written by a successful execution of a node of `S` whose results declare that key.
-/
namespace Dig

/-! ### what result trees declare -/

mutual
/-- group keys fed by a result tree: key, slot, declared type, flatten -/
def groupLeaves : Result → List (Key × Nat × Nat × Bool)
  | .single _ _ _ _ _ => []
  | .grouped slot decl ty group flatten as =>
    if flatten then [(({ ty := ty, name := "", group := group } : Key), slot, decl, true)]
    else (ty :: as).map fun t => (({ ty := t, name := "", group := group } : Key), slot, decl, false)
  | .object _ fs => groupLeavesL fs
def groupLeavesL : List Result → List (Key × Nat × Nat × Bool)
  | [] => []
  | r :: rs => groupLeaves r ++ groupLeavesL rs
end

def slotGroupLeaves : List RSlot → List (Key × Nat × Nat × Bool)
  | [] => []
  | .err :: rest => slotGroupLeaves rest
  | .val r :: rest => groupLeaves r ++ slotGroupLeaves rest

mutual
/-- what a decorator's results replace: single keys (first component `false`) and group keys (`true`) -/
def decoLeaves (env : TyEnv) : Result → List (Bool × Key × Nat × Nat)
  | .single slot decl ty name _ => [(false, ({ ty := ty, name := name, group := "" } : Key), slot, decl)]
  | .grouped slot decl ty group _ _ => [(true, ({ ty := (elemOfId env ty).getD 0, name := "", group := group } : Key), slot, decl)]
  | .object _ fs => decoLeavesL env fs
def decoLeavesL (env : TyEnv) : List Result → List (Bool × Key × Nat × Nat)
  | [] => []
  | r :: rs => decoLeaves env r ++ decoLeavesL env rs
end

def slotDecoLeaves (env : TyEnv) : List RSlot → List (Bool × Key × Nat × Nat)
  | [] => []
  | .err :: rest => slotDecoLeaves env rest
  | .val r :: rest => decoLeaves env r ++ slotDecoLeaves env rest

/-! ### what extraction writes -/

/-- a member written for a grouped leaf -/
def memberOf (env : TyEnv) (r : Ret) (slot decl : Nat) (fl : Bool) (v : Val) : Prop :=
  if fl then v ∈ elemsOf (r.val env slot decl) else v = r.val env slot decl

theorem mem_agetL_aset' {β : Type} (m : List (Key × List β)) (k k' : Key) (vs : List β) (v : β)
    (h : v ∈ agetL (aset m k vs) k') : (k' = k ∧ v ∈ vs) ∨ v ∈ agetL m k' := by
  unfold agetL at h ⊢
  rw [aget_aset] at h
  split at h
  · rename_i hk; left; exact ⟨hk, by simpa using h⟩
  · right; exact h

theorem foldl_submit_mem (group : String) (v : Val) : ∀ (tys : List Nat) (m : List (Key × List Val)) (k : Key) (w : Val),
    w ∈ agetL (tys.foldl (fun m t => submitAll m { ty := t, name := "", group := group } [v]) m) k →
      w ∈ agetL m k ∨ (∃ t ∈ tys, k = { ty := t, name := "", group := group } ∧ w = v) := by
  intro tys
  induction tys with
  | nil => intro m k w h; exact Or.inl h
  | cons t ts ih =>
    intro m k w h
    simp only [List.foldl_cons] at h
    rcases ih _ k w h with h1 | ⟨t', ht', hk, hw⟩
    · unfold submitAll at h1
      rcases mem_agetL_aset' _ _ _ _ _ h1 with ⟨hk, hm⟩ | hm
      · rcases List.mem_append.mp hm with h2 | h2
        · left; rw [hk]; exact h2
        · right; exact ⟨t, by simp, hk, by simpa using h2⟩
      · exact Or.inl hm
    · right; exact ⟨t', by simp [ht'], hk, hw⟩

theorem extractResult_groups (env : TyEnv) (r : Ret) (sc : ScopeSt) (x : Result) :
    ∀ k v, v ∈ agetL (extractResult env r sc x).groups k →
      v ∈ agetL sc.groups k ∨ ∃ slot decl fl, (k, slot, decl, fl) ∈ groupLeaves x ∧ memberOf env r slot decl fl v := by
  apply extractResult.induct env r
    (fun sc x => ∀ k v, v ∈ agetL (extractResult env r sc x).groups k →
      v ∈ agetL sc.groups k ∨ ∃ slot decl fl, (k, slot, decl, fl) ∈ groupLeaves x ∧ memberOf env r slot decl fl v)
    (fun sc xs => ∀ k v, v ∈ agetL (extractResults env r sc xs).groups k →
      v ∈ agetL sc.groups k ∨ ∃ slot decl fl, (k, slot, decl, fl) ∈ groupLeavesL xs ∧ memberOf env r slot decl fl v)
  · intro sc slot decl ty name as k v h
    simp only [extractResult] at h
    exact Or.inl h
  · intro sc slot decl ty group as k v h
    simp only [extractResult, if_true] at h
    unfold submitAll at h
    rcases mem_agetL_aset' _ _ _ _ _ h with ⟨hk, hm⟩ | hm
    · rcases List.mem_append.mp hm with h2 | h2
      · left; rw [hk]; exact h2
      · right
        refine ⟨slot, decl, true, ?_, ?_⟩
        · simp only [groupLeaves, if_true, List.mem_singleton]; rw [hk]
        · simp only [memberOf, if_true]; exact h2
    · exact Or.inl hm
  · intro sc slot decl ty group flatten as hf k v h
    simp only [extractResult, hf] at h
    rcases foldl_submit_mem group _ _ _ k v h with h1 | ⟨t, ht, hk, hw⟩
    · exact Or.inl h1
    · right
      refine ⟨slot, decl, false, ?_, ?_⟩
      · have hff : flatten = false := by simpa using hf
        simp only [groupLeaves, hff, Bool.false_eq_true, if_false, List.mem_map]
        exact ⟨t, ht, by rw [hk]⟩
      · simp only [memberOf, Bool.false_eq_true, if_false]; exact hw
  · intro sc ty fs ih k v h
    simp only [extractResult] at h
    simp only [groupLeaves]
    exact ih k v h
  · intro sc k v h
    simp only [extractResults] at h
    exact Or.inl h
  · intro sc x xs ih1 ih2 k v h
    simp only [extractResults] at h
    rcases ih2 k v h with h1 | ⟨slot, decl, fl, hm, hv⟩
    · rcases ih1 k v h1 with h2 | ⟨slot, decl, fl, hm, hv⟩
      · exact Or.inl h2
      · right; exact ⟨slot, decl, fl, by simp [groupLeavesL, hm], hv⟩
    · right; exact ⟨slot, decl, fl, by simp [groupLeavesL, hm], hv⟩

theorem extractSlots_groups (env : TyEnv) (r : Ret) : ∀ (slots : List RSlot) (sc : ScopeSt) (k : Key) (v : Val),
    v ∈ agetL (extractSlots env false r sc slots).groups k →
      v ∈ agetL sc.groups k ∨ ∃ slot decl fl, (k, slot, decl, fl) ∈ slotGroupLeaves slots ∧ memberOf env r slot decl fl v := by
  intro slots
  induction slots with
  | nil => intro sc k v h; exact Or.inl h
  | cons s rest ih =>
    intro sc k v h
    cases s with
    | err => simp only [extractSlots] at h; simp only [slotGroupLeaves]; exact ih sc k v h
    | val x =>
      simp only [extractSlots, Bool.false_eq_true, if_false] at h
      rcases ih _ k v h with h1 | ⟨slot, decl, fl, hm, hv⟩
      · rcases extractResult_groups env r sc x k v h1 with h2 | ⟨slot, decl, fl, hm, hv⟩
        · exact Or.inl h2
        · right; exact ⟨slot, decl, fl, by simp [slotGroupLeaves, hm], hv⟩
      · right; exact ⟨slot, decl, fl, by simp [slotGroupLeaves, hm], hv⟩

/-- a decorator's extraction: decorated values and decorated groups -/
theorem extractDeco_writes (env : TyEnv) (r : Ret) (sc : ScopeSt) (x : Result) :
    (∀ k v, aget (extractDeco env r sc x).decoratedValues k = some v →
      aget sc.decoratedValues k = some v ∨ ∃ slot decl, (false, k, slot, decl) ∈ decoLeaves env x ∧ v = r.val env slot decl) ∧
    (∀ k v, aget (extractDeco env r sc x).decoratedGroups k = some v →
      aget sc.decoratedGroups k = some v ∨ ∃ slot decl, (true, k, slot, decl) ∈ decoLeaves env x ∧ v = r.val env slot decl) ∧
    (extractDeco env r sc x).groups = sc.groups := by
  apply extractDeco.induct env r
    (fun sc x =>
      (∀ k v, aget (extractDeco env r sc x).decoratedValues k = some v →
        aget sc.decoratedValues k = some v ∨ ∃ slot decl, (false, k, slot, decl) ∈ decoLeaves env x ∧ v = r.val env slot decl) ∧
      (∀ k v, aget (extractDeco env r sc x).decoratedGroups k = some v →
        aget sc.decoratedGroups k = some v ∨ ∃ slot decl, (true, k, slot, decl) ∈ decoLeaves env x ∧ v = r.val env slot decl) ∧
      (extractDeco env r sc x).groups = sc.groups)
    (fun sc xs =>
      (∀ k v, aget (extractDecos env r sc xs).decoratedValues k = some v →
        aget sc.decoratedValues k = some v ∨ ∃ slot decl, (false, k, slot, decl) ∈ decoLeavesL env xs ∧ v = r.val env slot decl) ∧
      (∀ k v, aget (extractDecos env r sc xs).decoratedGroups k = some v →
        aget sc.decoratedGroups k = some v ∨ ∃ slot decl, (true, k, slot, decl) ∈ decoLeavesL env xs ∧ v = r.val env slot decl) ∧
      (extractDecos env r sc xs).groups = sc.groups)
  · intro sc slot decl ty name as
    simp only [extractDeco, decoLeaves]
    refine ⟨?_, fun k v h => Or.inl h, by first | rfl | trivial⟩
    intro k v h
    rw [aget_aset] at h
    split at h
    · rename_i hk; right; exact ⟨slot, decl, by simp [hk], by cases h; rfl⟩
    · exact Or.inl h
  · intro sc slot decl ty group f as
    simp only [extractDeco, decoLeaves]
    refine ⟨fun k v h => Or.inl h, ?_, by first | rfl | trivial⟩
    intro k v h
    rw [aget_aset] at h
    split at h
    · rename_i hk; right; exact ⟨slot, decl, by simp [hk], by cases h; rfl⟩
    · exact Or.inl h
  · intro sc ty fs ih; simp only [extractDeco, decoLeaves]; exact ih
  · intro sc; simp only [extractDecos]; exact ⟨fun k v h => Or.inl h, fun k v h => Or.inl h, by first | rfl | trivial⟩
  · intro sc x xs ih1 ih2
    simp only [extractDecos]
    obtain ⟨a1, a2, a3⟩ := ih1
    obtain ⟨b1, b2, b3⟩ := ih2
    refine ⟨?_, ?_, b3.trans a3⟩
    · intro k v h
      rcases b1 k v h with h1 | ⟨slot, decl, hm, hv⟩
      · rcases a1 k v h1 with h2 | ⟨slot, decl, hm, hv⟩
        · exact Or.inl h2
        · right; exact ⟨slot, decl, by simp [decoLeavesL, hm], hv⟩
      · right; exact ⟨slot, decl, by simp [decoLeavesL, hm], hv⟩
    · intro k v h
      rcases b2 k v h with h1 | ⟨slot, decl, hm, hv⟩
      · rcases a2 k v h1 with h2 | ⟨slot, decl, hm, hv⟩
        · exact Or.inl h2
        · right; exact ⟨slot, decl, by simp [decoLeavesL, hm], hv⟩
      · right; exact ⟨slot, decl, by simp [decoLeavesL, hm], hv⟩

theorem extractSlots_deco_writes (env : TyEnv) (r : Ret) : ∀ (slots : List RSlot) (sc : ScopeSt),
    (∀ k v, aget (extractSlots env true r sc slots).decoratedValues k = some v →
      aget sc.decoratedValues k = some v ∨ ∃ slot decl, (false, k, slot, decl) ∈ slotDecoLeaves env slots ∧ v = r.val env slot decl) ∧
    (∀ k v, aget (extractSlots env true r sc slots).decoratedGroups k = some v →
      aget sc.decoratedGroups k = some v ∨ ∃ slot decl, (true, k, slot, decl) ∈ slotDecoLeaves env slots ∧ v = r.val env slot decl) ∧
    (extractSlots env true r sc slots).groups = sc.groups := by
  intro slots
  induction slots with
  | nil => intro sc; exact ⟨fun k v h => Or.inl h, fun k v h => Or.inl h, rfl⟩
  | cons s rest ih =>
    intro sc
    cases s with
    | err => simp only [extractSlots, slotDecoLeaves]; exact ih sc
    | val x =>
      simp only [extractSlots, if_true, slotDecoLeaves]
      obtain ⟨a1, a2, a3⟩ := extractDeco_writes env r sc x
      obtain ⟨b1, b2, b3⟩ := ih (extractDeco env r sc x)
      refine ⟨?_, ?_, b3.trans a3⟩
      · intro k v h
        rcases b1 k v h with h1 | ⟨slot, decl, hm, hv⟩
        · rcases a1 k v h1 with h2 | ⟨slot, decl, hm, hv⟩
          · exact Or.inl h2
          · right; exact ⟨slot, decl, by simp [hm], hv⟩
        · right; exact ⟨slot, decl, by simp [hm], hv⟩
      · intro k v h
        rcases b2 k v h with h1 | ⟨slot, decl, hm, hv⟩
        · rcases a2 k v h1 with h2 | ⟨slot, decl, hm, hv⟩
          · exact Or.inl h2
          · right; exact ⟨slot, decl, by simp [hm], hv⟩
        · right; exact ⟨slot, decl, by simp [hm], hv⟩

/-- a constructor's extraction leaves the decorated caches alone -/
theorem extractResult_decoCaches (env : TyEnv) (r : Ret) (sc : ScopeSt) (x : Result) :
    (extractResult env r sc x).decoratedValues = sc.decoratedValues ∧ (extractResult env r sc x).decoratedGroups = sc.decoratedGroups := by
  apply extractResult.induct env r
    (fun sc x => (extractResult env r sc x).decoratedValues = sc.decoratedValues ∧ (extractResult env r sc x).decoratedGroups = sc.decoratedGroups)
    (fun sc xs => (extractResults env r sc xs).decoratedValues = sc.decoratedValues ∧ (extractResults env r sc xs).decoratedGroups = sc.decoratedGroups)
  · intro sc slot decl ty name as; simp only [extractResult]; exact ⟨by first | rfl | trivial, by first | rfl | trivial⟩
  · intro sc slot decl ty group as; simp only [extractResult, if_true]; exact ⟨by first | rfl | trivial, by first | rfl | trivial⟩
  · intro sc slot decl ty group flatten as hf; simp only [extractResult, hf]; exact ⟨by first | rfl | trivial, by first | rfl | trivial⟩
  · intro sc ty fs ih; simp only [extractResult]; exact ih
  · intro sc; simp only [extractResults]; exact ⟨by first | rfl | trivial, by first | rfl | trivial⟩
  · intro sc x xs ih1 ih2; simp only [extractResults]; exact ⟨ih2.1.trans ih1.1, ih2.2.trans ih1.2⟩

theorem extractSlots_decoCaches (env : TyEnv) (r : Ret) : ∀ (slots : List RSlot) (sc : ScopeSt),
    (extractSlots env false r sc slots).decoratedValues = sc.decoratedValues ∧
    (extractSlots env false r sc slots).decoratedGroups = sc.decoratedGroups := by
  intro slots
  induction slots with
  | nil => intro sc; exact ⟨rfl, rfl⟩
  | cons s rest ih =>
    intro sc
    cases s with
    | err => simp only [extractSlots]; exact ih sc
    | val x =>
      simp only [extractSlots, Bool.false_eq_true, if_false]
      obtain ⟨a1, a2⟩ := extractResult_decoCaches env r sc x
      obtain ⟨b1, b2⟩ := ih (extractResult env r sc x)
      exact ⟨b1.trans a1, b2.trans a2⟩

end Dig

namespace Dig

/-! ### the invariant -/

def GJ (env : TyEnv) (st : St) (S : Nat) (k : Key) (v : Val) : Prop :=
  ∃ n slot decl fl, n < st.ctors.length ∧ (st.ctor n).s = S ∧ (st.ctor n).called = true ∧
    (k, slot, decl, fl) ∈ slotGroupLeaves (st.ctor n).results ∧
    ∃ ret : Ret, memberOf env ret slot decl fl v ∧
      (ret.dry = false → ret.f = (st.ctor n).fn.id ∧ Event.exit (.ctor n) ret.f ret.x .ok ∈ st.hist)

def DJ (env : TyEnv) (st : St) (grp : Bool) (S : Nat) (k : Key) (v : Val) : Prop :=
  ∃ d slot decl, d < st.decos.length ∧ (st.deco d).s = S ∧
    (grp, k, slot, decl) ∈ slotDecoLeaves env (st.deco d).results ∧
    ∃ ret : Ret, v = ret.val env slot decl ∧
      (ret.dry = false → ret.f = (st.deco d).fn.id ∧ Event.exit (.deco d) ret.f ret.x .ok ∈ st.hist)

structure Just2 (env : TyEnv) (st : St) : Prop where
  groups : ∀ S k v, v ∈ agetL (st.scope S).groups k → GJ env st S k v
  dvalues : ∀ S k v, aget (st.scope S).decoratedValues k = some v → DJ env st false S k v
  dgroups : ∀ S k v, aget (st.scope S).decoratedGroups k = some v → DJ env st true S k v

def DecosKeep (a b : St) : Prop :=
  ∀ d, d < a.decos.length → d < b.decos.length ∧ (b.deco d).fn = (a.deco d).fn ∧
    (b.deco d).results = (a.deco d).results ∧ (b.deco d).s = (a.deco d).s

theorem DecosKeep.refl (a : St) : DecosKeep a a := fun _ h => ⟨h, rfl, rfl, rfl⟩
theorem DecosKeep.trans {a b c : St} (h1 : DecosKeep a b) (h2 : DecosKeep b c) : DecosKeep a c := by
  intro d hd
  obtain ⟨a1, a2, a3, a4⟩ := h1 d hd
  obtain ⟨b1, b2, b3, b4⟩ := h2 d a1
  exact ⟨b1, b2.trans a2, b3.trans a3, b4.trans a4⟩

theorem GJ.transfer {env : TyEnv} {a b : St} {S : Nat} {k : Key} {v : Val} (h : GJ env a S k v)
    (hk : CtorsKeep a b) (hh : HistExt a b) : GJ env b S k v := by
  obtain ⟨n, slot, decl, fl, hn, hs, hc, hm, ret, hv, hr⟩ := h
  obtain ⟨k1, k2, k3, k4, k5⟩ := hk n hn
  obtain ⟨l, hl⟩ := hh
  refine ⟨n, slot, decl, fl, k1, by rw [k4]; exact hs, k5 hc, by rw [k3]; exact hm, ret, hv, ?_⟩
  intro hd
  obtain ⟨r1, r2⟩ := hr hd
  exact ⟨by rw [k2]; exact r1, by rw [hl]; exact List.mem_append_left _ r2⟩

theorem DJ.transfer {env : TyEnv} {a b : St} {g : Bool} {S : Nat} {k : Key} {v : Val} (h : DJ env a g S k v)
    (hk : DecosKeep a b) (hh : HistExt a b) : DJ env b g S k v := by
  obtain ⟨d, slot, decl, hn, hs, hm, ret, hv, hr⟩ := h
  obtain ⟨k1, k2, k3, k4⟩ := hk d hn
  obtain ⟨l, hl⟩ := hh
  refine ⟨d, slot, decl, k1, by rw [k4]; exact hs, by rw [k3]; exact hm, ret, hv, ?_⟩
  intro hd
  obtain ⟨r1, r2⟩ := hr hd
  exact ⟨by rw [k2]; exact r1, by rw [hl]; exact List.mem_append_left _ r2⟩

theorem Just2.transfer {env : TyEnv} {a b : St} (h : Just2 env a) (hk : CtorsKeep a b) (hd : DecosKeep a b)
    (hh : HistExt a b)
    (hs : ∀ j, (b.scope j).groups = (a.scope j).groups ∧ (b.scope j).decoratedValues = (a.scope j).decoratedValues ∧
      (b.scope j).decoratedGroups = (a.scope j).decoratedGroups) : Just2 env b where
  groups S k v hv := by rw [(hs S).1] at hv; exact (h.groups S k v hv).transfer hk hh
  dvalues S k v hv := by rw [(hs S).2.1] at hv; exact (h.dvalues S k v hv).transfer hd hh
  dgroups S k v hv := by rw [(hs S).2.2] at hv; exact (h.dgroups S k v hv).transfer hd hh

theorem Just2.init (env : TyEnv) : Just2 env ({} : St) where
  groups S k v hv := by cases S <;> simp [St.scope, agetL, aget] at hv
  dvalues S k v hv := by cases S <;> simp [St.scope, aget] at hv
  dgroups S k v hv := by cases S <;> simp [St.scope, aget] at hv

theorem decosKeep_of_regFrame {a b : St} (h : RegFrame a b) : DecosKeep a b := by
  intro d hd
  obtain ⟨c1, c2, c3, c4, _⟩ := h.2.2.2.2.2.2 d
  exact ⟨by rw [← h.2.2.2.2.2.1]; exact hd, c1.symm, c3.symm, c4.symm⟩

theorem decosKeep_of_decos_eq {a b : St} (h : b.decos = a.decos) : DecosKeep a b := by
  intro d hd
  have : b.deco d = a.deco d := by simp [St.deco, h]
  exact ⟨by rw [h]; exact hd, by rw [this], by rw [this], by rw [this]⟩

/-! ### the resolver -/

theorem decoTail_scope (ctx : Ctx) (d : Nat) (node : DecoNode) (args : List Val) (st : St) (j : Nat) :
    (decoTail ctx d node args st).2.scope j =
      match retOf node.fn.id (callBody ctx (.deco d) node.fn args st).1 with
      | some ret => if node.s = j ∧ j < st.scopes.length then extractSlots ctx.env true ret (st.scope j) node.results
                    else st.scope j
      | none => st.scope j := by
  have hb := (callBody_fields ctx (.deco d) node.fn args st).1
  simp only [decoTail]
  rw [scope_of_scopes_eq (runCallback_fields _ _ _ _ _ _).1 j]
  unfold decoCommit
  cases hr : (callBody ctx (.deco d) node.fn args st).1 with
  | ok x len =>
    simp only [retOf]
    show ((St.modScope _ node.s _).scope j) = _
    rw [scope_modScope, hb, scope_of_scopes_eq hb j]
  | dry =>
    simp only [retOf]
    show ((St.modScope _ node.s _).scope j) = _
    rw [scope_modScope, hb, scope_of_scopes_eq hb j]
  | err x o => simp only [retOf]; exact scope_of_scopes_eq hb j
  | panic x => simp only [retOf]; exact scope_of_scopes_eq hb j

theorem decoTail_hist_body (ctx : Ctx) (d : Nat) (node : DecoNode) (args : List Val) (st : St) (e : Event)
    (h : e ∈ (callBody ctx (.deco d) node.fn args st).2.hist) : e ∈ (decoTail ctx d node args st).2.hist := by
  simp only [decoTail]
  obtain ⟨l, _, h2, _⟩ := runCallback_log node.cb (.deco d) node.fn.id st.clock
    (decoOutcome ctx node.fn.id (callBody ctx (.deco d) node.fn args st).1).2
    (decoCommit ctx d node (callBody ctx (.deco d) node.fn args st).1 (callBody ctx (.deco d) node.fn args st).2)
  rw [h2, (decoCommit_fields ctx d node _ _).2.1]
  exact List.mem_append_left _ h

def JR2 (env : TyEnv) (a b : St) : Prop :=
  RegFrame a b ∧ HistExt a b ∧ (∀ n, (a.ctor n).called = true → (b.ctor n).called = true) ∧
  (Just2 env a → Just2 env b)

theorem JR2.refl (env : TyEnv) (a : St) : JR2 env a a :=
  ⟨RegFrame.refl a, HistExt.refl a, fun _ h => h, fun h => h⟩
theorem JR2.trans {env : TyEnv} {a b c : St} (h1 : JR2 env a b) (h2 : JR2 env b c) : JR2 env a c :=
  ⟨h1.1.trans h2.1, h1.2.1.trans h2.2.1, fun n h => h2.2.2.1 n (h1.2.2.1 n h), fun h => h2.2.2.2 (h1.2.2.2 h)⟩

theorem jr2_flags (env : TyEnv) (a b : St) (hr : RegFrame a b) (hh : b.hist = a.hist) (hs : b.scopes = a.scopes)
    (hc : ∀ n, (b.ctor n).called = (a.ctor n).called) : JR2 env a b := by
  refine ⟨hr, HistExt.of_eq hh, fun n h => by rw [hc n]; exact h, ?_⟩
  intro hj
  exact hj.transfer (ctorsKeep_of_regFrame hr (fun n h => by rw [hc n]; exact h)) (decosKeep_of_regFrame hr)
    (HistExt.of_eq hh) (fun j => by rw [scope_of_scopes_eq hs j]; exact ⟨rfl, rfl, rfl⟩)

theorem jr2_ctorTail (ctx : Ctx) (st : St) (n : Nat) (node : CtorNode) (args : List Val)
    (hst : CtorStatic node (st.ctor n)) : JR2 ctx.env st (ctorTail ctx n node args st).2 := by
  have hreg := regFrame_ctorTail ctx st n node args
  have hext := ctorTail_histExt ctx n node args st
  have hmono : ∀ m, (st.ctor m).called = true → ((ctorTail ctx n node args st).2.ctor m).called = true := by
    intro m h
    rw [ctorTail_ctor]; split
    · rfl
    · exact h
  have hkeep := ctorsKeep_of_regFrame hreg hmono
  have hdkeep := decosKeep_of_regFrame hreg
  refine ⟨hreg, hext, hmono, ?_⟩
  intro hj
  -- the decorated caches are untouched by a constructor
  have hdc : ∀ S, ((ctorTail ctx n node args st).2.scope S).decoratedValues = (st.scope S).decoratedValues ∧
      ((ctorTail ctx n node args st).2.scope S).decoratedGroups = (st.scope S).decoratedGroups := by
    intro S
    rw [ctorTail_scope]
    cases retOf node.fn.id (callBody ctx (.ctor n) node.fn args st).1 with
    | none => exact ⟨rfl, rfl⟩
    | some ret =>
      simp only
      split
      · exact extractSlots_decoCaches ctx.env ret node.results _
      · exact ⟨rfl, rfl⟩
  refine ⟨?_, ?_, ?_⟩
  · intro S k v hv
    rw [ctorTail_scope] at hv
    cases hret : retOf node.fn.id (callBody ctx (.ctor n) node.fn args st).1 with
    | none => rw [hret] at hv; exact (hj.groups S k v hv).transfer hkeep hext
    | some ret =>
      rw [hret] at hv
      simp only at hv
      split at hv
      · rename_i hc
        obtain ⟨hs, _⟩ := hc
        rcases extractSlots_groups ctx.env ret node.results (st.scope S) k v hv with h1 | ⟨slot, decl, fl, hm, hval⟩
        · exact (hj.groups S k v h1).transfer hkeep hext
        · obtain ⟨s1, s2, s3, s4, _, _, _⟩ := hst
          have hn : n < st.ctors.length := by
            by_cases h : n < st.ctors.length
            · exact h
            · exfalso
              have : st.ctor n = default := by
                simp only [St.ctor, List.getD_eq_getElem?_getD]
                rw [List.getElem?_eq_none (Nat.le_of_not_lt h)]; rfl
              have hd : (default : CtorNode).results = [] := rfl
              rw [s3, this, hd] at hm
              simp [slotGroupLeaves] at hm
          have hcommits : (callBody ctx (.ctor n) node.fn args st).1.commits = true := by
            cases hb : (callBody ctx (.ctor n) node.fn args st).1 <;> simp [hb, retOf, BodyRes.commits] at hret ⊢
          obtain ⟨r1, r2, r3, r4, _, _, _⟩ := hreg.2.2.2.2.1 n
          refine ⟨n, slot, decl, fl, by rw [← hreg.2.2.2.1]; exact hn, by rw [← r4, ← s4]; exact hs, ?_,
            by rw [← r3, ← s3]; exact hm, ret, hval, ?_⟩
          · rw [ctorTail_ctor]; simp [hcommits, hn]
          · intro hd
            cases hb : (callBody ctx (.ctor n) node.fn args st).1 with
            | ok x len =>
              rw [hb] at hret; simp only [retOf, Option.some.injEq] at hret
              subst hret
              refine ⟨by show node.fn.id = _; rw [← r1, ← s1], ?_⟩
              exact ctorTail_hist_body ctx n node args st _ (callBody_ok_exit ctx (.ctor n) node.fn args st x len hb)
            | dry => rw [hb] at hret; simp only [retOf, Option.some.injEq] at hret; subst hret; cases hd
            | err x o => rw [hb] at hret; cases hret
            | panic x => rw [hb] at hret; cases hret
      · exact (hj.groups S k v hv).transfer hkeep hext
  · intro S k v hv
    rw [(hdc S).1] at hv
    exact (hj.dvalues S k v hv).transfer hdkeep hext
  · intro S k v hv
    rw [(hdc S).2] at hv
    exact (hj.dgroups S k v hv).transfer hdkeep hext

theorem jr2_decoTail (ctx : Ctx) (st : St) (d : Nat) (node : DecoNode) (args : List Val)
    (hst : DecoStatic node (st.deco d)) : JR2 ctx.env st (decoTail ctx d node args st).2 := by
  have hreg := regFrame_decoTail ctx st d node args
  have hext := decoTail_histExt ctx d node args st
  have hc : (decoTail ctx d node args st).2.ctors = st.ctors := decoTail_ctors ctx d node args st
  have hmono : ∀ m, (st.ctor m).called = true → ((decoTail ctx d node args st).2.ctor m).called = true := by
    intro m h; simp only [St.ctor, hc]; exact h
  have hkeep := ctorsKeep_of_regFrame hreg hmono
  have hdkeep := decosKeep_of_regFrame hreg
  refine ⟨hreg, hext, hmono, ?_⟩
  intro hj
  -- a fresh entry of a decorated cache: written by this execution of decorator `d`
  have fresh : ∀ (g : Bool) (S : Nat) (k : Key) (v : Val) (ret : Ret) (slot decl : Nat),
      retOf node.fn.id (callBody ctx (.deco d) node.fn args st).1 = some ret → node.s = S →
      (g, k, slot, decl) ∈ slotDecoLeaves ctx.env node.results → v = ret.val ctx.env slot decl →
      DJ ctx.env (decoTail ctx d node args st).2 g S k v := by
    intro g S k v ret slot decl hret hs hm hval
    obtain ⟨s1, s2, s3, s4, _⟩ := hst
    have hd : d < st.decos.length := by
      by_cases h : d < st.decos.length
      · exact h
      · exfalso
        have : st.deco d = default := by
          simp only [St.deco, List.getD_eq_getElem?_getD]
          rw [List.getElem?_eq_none (Nat.le_of_not_lt h)]; rfl
        have hdd : (default : DecoNode).results = [] := rfl
        rw [s3, this, hdd] at hm
        simp [slotDecoLeaves] at hm
    have hcommits : (callBody ctx (.deco d) node.fn args st).1.commits = true := by
      cases hb : (callBody ctx (.deco d) node.fn args st).1 <;> simp [hb, retOf, BodyRes.commits] at hret ⊢
    obtain ⟨r1, r2, r3, r4, _⟩ := hreg.2.2.2.2.2.2 d
    refine ⟨d, slot, decl, by rw [← hreg.2.2.2.2.2.1]; exact hd, by rw [← r4, ← s4]; exact hs,
      by rw [← r3, ← s3]; exact hm, ret, hval, ?_⟩
    · intro hdry
      cases hb : (callBody ctx (.deco d) node.fn args st).1 with
      | ok x len =>
        rw [hb] at hret; simp only [retOf, Option.some.injEq] at hret
        subst hret
        refine ⟨by show node.fn.id = _; rw [← r1, ← s1], ?_⟩
        exact decoTail_hist_body ctx d node args st _ (callBody_ok_exit ctx (.deco d) node.fn args st x len hb)
      | dry => rw [hb] at hret; simp only [retOf, Option.some.injEq] at hret; subst hret; cases hdry
      | err x o => rw [hb] at hret; cases hret
      | panic x => rw [hb] at hret; cases hret
  refine ⟨?_, ?_, ?_⟩
  · intro S k v hv
    rw [decoTail_scope] at hv
    cases hret : retOf node.fn.id (callBody ctx (.deco d) node.fn args st).1 with
    | none => rw [hret] at hv; exact (hj.groups S k v hv).transfer hkeep hext
    | some ret =>
      rw [hret] at hv
      simp only at hv
      split at hv
      · rw [(extractSlots_deco_writes ctx.env ret node.results _).2.2] at hv
        exact (hj.groups S k v hv).transfer hkeep hext
      · exact (hj.groups S k v hv).transfer hkeep hext
  · intro S k v hv
    rw [decoTail_scope] at hv
    cases hret : retOf node.fn.id (callBody ctx (.deco d) node.fn args st).1 with
    | none => rw [hret] at hv; exact (hj.dvalues S k v hv).transfer hdkeep hext
    | some ret =>
      rw [hret] at hv
      simp only at hv
      split at hv
      · rename_i hc
        rcases (extractSlots_deco_writes ctx.env ret node.results _).1 k v hv with h1 | ⟨slot, decl, hm, hval⟩
        · exact (hj.dvalues S k v h1).transfer hdkeep hext
        · exact fresh false S k v ret slot decl hret hc.1 hm hval
      · exact (hj.dvalues S k v hv).transfer hdkeep hext
  · intro S k v hv
    rw [decoTail_scope] at hv
    cases hret : retOf node.fn.id (callBody ctx (.deco d) node.fn args st).1 with
    | none => rw [hret] at hv; exact (hj.dgroups S k v hv).transfer hdkeep hext
    | some ret =>
      rw [hret] at hv
      simp only at hv
      split at hv
      · rename_i hc
        rcases (extractSlots_deco_writes ctx.env ret node.results _).2.1 k v hv with h1 | ⟨slot, decl, hm, hval⟩
        · exact (hj.dgroups S k v h1).transfer hdkeep hext
        · exact fresh true S k v ret slot decl hret hc.1 hm hval
      · exact (hj.dgroups S k v hv).transfer hdkeep hext

theorem jr2_leaf (ctx : Ctx) : LeafRel2 ctx (JR2 ctx.env) where
  refl := JR2.refl ctx.env
  trans := JR2.trans
  toReg h := h.1
  setOnStack st n := jr2_flags ctx.env _ _ (regFrame_modCtor st n _ (fun _ => ⟨rfl, rfl, rfl, rfl, rfl, rfl, rfl⟩)) rfl rfl
    (fun m => by rw [ctor_modCtor]; split <;> rfl)
  clearOnStack st n := jr2_flags ctx.env _ _ (regFrame_modCtor st n _ (fun _ => ⟨rfl, rfl, rfl, rfl, rfl, rfl, rfl⟩)) rfl rfl
    (fun m => by rw [ctor_modCtor]; split <;> rfl)
  ctorTail st n node args hst := jr2_ctorTail ctx st n node args hst
  decoOnStack st d := jr2_flags ctx.env _ _ (regFrame_modDeco st d _ (fun _ => ⟨rfl, rfl, rfl, rfl, rfl⟩)) rfl rfl (fun _ => rfl)
  decoFinally st d := jr2_flags ctx.env _ _ (regFrame_modDeco st d _ (fun x => by split <;> exact ⟨rfl, rfl, rfl, rfl, rfl⟩)) rfl rfl
    (fun _ => rfl)
  decoTail st d node args hst := jr2_decoTail ctx st d node args hst

theorem Just2.buildList {ctx : Ctx} {st : St} (h : Just2 ctx.env st) (fuel : Nat) (ps : List Param) (c : Nat) :
    Just2 ctx.env (buildList ctx fuel ps c st).2 :=
  ((engine_pres2 ctx (jr2_leaf ctx) fuel).2.2.2.2.2 ps c st).2.2.2 h

end Dig
