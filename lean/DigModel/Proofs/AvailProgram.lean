import DigModel.Proofs.AvailApi
import DigModel.Proofs.DeferSim
/-
  `Avail` for whole programs: the Invoke that follows any program.
-/
namespace Dig

theorem sameView_resetLog (st : St) : SameView { st with log := [] } st :=
  ⟨fun _ => rfl, fun _ => ⟨rfl, rfl⟩, fun _ => ⟨rfl, rfl⟩, fun _ => ⟨rfl, rfl⟩⟩

theorem step_invoke_eq (ctx : Ctx) (fns : List Fn) (st : St) (i s f : Nat) (info : Bool) (fn : Fn)
    (hf : fnOf fns f = some fn) (hs : s < st.scopes.length) :
    step ctx fns st i (.invoke s f info) = apiInvoke ctx fn { st with log := [] } s info := by
  simp only [step, hf]
  rw [if_pos hs]

theorem step_invoke_err (ctx : Ctx) (fns : List Fn) (st : St) (i s f : Nat) (info : Bool) (fn : Fn)
    (hf : fnOf fns f = some fn) (e : DErr) (h : (step ctx fns st i (.invoke s f info)).2.v = .err e) :
    s < st.scopes.length := by
  simp only [step, hf] at h
  split at h
  · assumption
  · cases h

/-- a failure of the Invoke that follows a program is real -/
theorem program_invoke_real (p : Program) (i s f : Nat) (info : Bool) (fn : Fn) (params : List Param) (w0 : St)
    (hf : fnOf p.fns f = some fn) (hnf : fn.nonfunc = none)
    (hpp : parseParams p.types { (runProgram p).1 with log := [] } s fn = (.ok params, w0)) (e : DErr)
    (hv : (step p.ctx p.fns (runProgram p).1 i (.invoke s f info)).2.v = .err e) :
    (∃ path, e = .invalid (.cycle path s) ∧ ∃ q, checkAcyclic w0 s = .cycle q) ∨
    RealRoot (runProgram p).1 (InvokeClosure (runProgram p).1 s params) (InvokeReq s params) e.rootCause := by
  have hidle : ∀ n, ((runProgram p).1.ctor n).onStack = false := (program_safeInv p).nb.h.ctorIdle
  have hs := step_invoke_err p.ctx p.fns _ i s f info fn hf e hv
  rw [step_invoke_eq p.ctx p.fns _ i s f info fn hf hs] at hv
  generalize (runProgram p).1 = st at hidle hpp hv ⊢
  rcases apiInvoke_real p.ctx fn { st with log := [] } s info hnf hidle params w0 hpp e hv with h | h
  · exact Or.inl h
  · right
    exact h.view (sameView_resetLog st) (fun x ⟨l, hl, hr⟩ => ⟨l, hl, reach_view (sameView_resetLog st) hr⟩)

/-- **available ⇒ the Invoke that follows a program succeeds**, unless the scope's graph check reports a cycle -/
theorem program_invoke_available (p : Program) (hok : AllOk p.ctx) (i s f : Nat) (info : Bool) (fn : Fn)
    (params : List Param) (w0 : St) (hf : fnOf p.fns f = some fn) (hnf : fn.nonfunc = none)
    (hs : s < (runProgram p).1.scopes.length)
    (hpp : parseParams p.types { (runProgram p).1 with log := [] } s fn = (.ok params, w0))
    (havail : ∀ c k, (InvokeReq s params c k ∨ ∃ x, InvokeClosure (runProgram p).1 s params x ∧ ReqNode (runProgram p).1 x c k) →
      (runProgram p).1.allProviders c k ≠ [])
    (hnocyc : ∀ x, InvokeClosure (runProgram p).1 s params x → ¬ Below (runProgram p).1 x x) :
    (step p.ctx p.fns (runProgram p).1 i (.invoke s f info)).2.v = .ok ∨
    ∃ path, (step p.ctx p.fns (runProgram p).1 i (.invoke s f info)).2.v = .err (.invalid (.cycle path s)) ∧
      ∃ q, checkAcyclic w0 s = .cycle q := by
  have hsafe := program_safeInv p
  have hidle : ∀ n, ((runProgram p).1.ctor n).onStack = false := hsafe.nb.h.ctorIdle
  have hnp := (hsafe.step p.ctx p.fns i (.invoke s f info)).2
  have hnf' := step_nofuel hsafe.nb.h p.ctx p.fns i (.invoke s f info)
  rw [step_invoke_eq p.ctx p.fns _ i s f info fn hf hs] at hnp hnf' ⊢
  generalize (runProgram p).1 = st at hidle hpp havail hnocyc hnp hnf' ⊢
  have hview := sameView_resetLog st
  have h1 : ∀ c k, (InvokeReq s params c k ∨ ∃ x, InvokeClosure { st with log := [] } s params x ∧
      ReqNode { st with log := [] } x c k) → ({ st with log := [] } : St).allProviders c k ≠ [] := by
    intro c k hck
    rw [allProviders_view hview]
    refine havail c k ?_
    rcases hck with h | ⟨x, ⟨l, hl, hr⟩, hq⟩
    · exact Or.inl h
    · exact Or.inr ⟨x, ⟨l, hl, reach_view hview hr⟩, reqNode_view hview hq⟩
  have h2 : ∀ x, InvokeClosure { st with log := [] } s params x → ¬ Below { st with log := [] } x x := by
    intro x ⟨l, hl, hr⟩ hb
    exact hnocyc x ⟨l, hl, reach_view hview hr⟩ (below_view hview hb)
  rcases apiInvoke_available p.ctx hok fn { st with log := [] } s info hnf rfl hidle params w0 hpp h1 h2 with h | h | h | h
  · exact Or.inl h
  · exact absurd h hnp
  · exact absurd h hnf'
  · exact Or.inr h

/-- without DeferAcyclicVerification the scope's graph check never reports a cycle: available ⇒ `ok` -/
theorem program_invoke_available_eager (p : Program) (hok : AllOk p.ctx) (hd : p.cfg.deferAcyclic = false)
    (i s f : Nat) (info : Bool) (fn : Fn)
    (params : List Param) (w0 : St) (hf : fnOf p.fns f = some fn) (hnf : fn.nonfunc = none)
    (hs : s < (runProgram p).1.scopes.length)
    (hpp : parseParams p.types { (runProgram p).1 with log := [] } s fn = (.ok params, w0))
    (havail : ∀ c k, (InvokeReq s params c k ∨ ∃ x, InvokeClosure (runProgram p).1 s params x ∧ ReqNode (runProgram p).1 x c k) →
      (runProgram p).1.allProviders c k ≠ [])
    (hnocyc : ∀ x, InvokeClosure (runProgram p).1 s params x → ¬ Below (runProgram p).1 x x) :
    (step p.ctx p.fns (runProgram p).1 i (.invoke s f info)).2.v = .ok := by
  rcases program_invoke_available p hok i s f info fn params w0 hf hnf hs hpp havail hnocyc with h | ⟨path, _, q, hq⟩
  · exact h
  · exfalso
    have he : EagerInv (runProgram p).1 := EagerInv.runOps p.ctx hd p.fns p.ops 0 {} [] EagerInv.init
    have he0 := he.resetLog
    have hea := he0.ea.parseParams he0.gt he0.pg he0.ob p.types s fn
    rw [hpp] at hea
    have hl : w0.scopes.length = (runProgram p).1.scopes.length := by
      have := (grow_parseParams p.types { (runProgram p).1 with log := [] } s fn).len
      rw [hpp] at this
      exact this
    rw [hea s (by rw [hl]; exact hs)] at hq
    cases hq

end Dig
