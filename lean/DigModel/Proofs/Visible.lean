import DigModel.Proofs.GraphMeaningApi
/-
  Who sees a constructor: exactly the scopes that have the constructor's home scope on their path to the root.
-/
namespace Dig

/-- the root is on every scope's path -/
theorem root_mem_ancestors {st : St} (ht : TreeInv st) : ∀ s, s < st.scopes.length → 0 ∈ st.ancestors s := by
  have hwf := ht.wfParents
  have key : ∀ n s, s ≤ n → s < st.scopes.length → 0 ∈ ancestorsAux st.scopes (s + 1) s := by
    intro n
    induction n with
    | zero =>
      intro s hs hl
      have : s = 0 := by omega
      subst this
      simp only [ancestorsAux, getElem?_scope hl, List.mem_cons, true_or]
    | succ n ih =>
      intro s hs hl
      by_cases h0 : s = 0
      · subst h0; simp only [ancestorsAux, getElem?_scope hl, List.mem_cons, true_or]
      · simp only [ancestorsAux, getElem?_scope hl, List.mem_cons]
        right
        cases hp : (st.scope s).parent with
        | none => exact absurd ((ht.root.2 s hl).mp hp) h0
        | some p =>
          simp only
          obtain ⟨hlt, _⟩ := ht.up s hl p hp
          have hpl : p < st.scopes.length := by omega
          have := ih p (by omega) hpl
          -- more fuel does not change the path
          have hf : ∀ k, ancestorsAux st.scopes (p + 1 + k) p = ancestorsAux st.scopes (p + 1) p := by
            intro k
            induction k with
            | zero => rfl
            | succ k ihk => rw [← ihk]; exact ancestorsAux_fuel st.scopes hwf (p + 1 + k) p (by omega)
          have hs' : s = p + 1 + (s - p - 1) := by omega
          rw [hs', hf]; exact this
  intro s hl
  unfold St.ancestors
  have hf : ∀ k, ancestorsAux st.scopes (s + 1 + k) s = ancestorsAux st.scopes (s + 1) s := by
    intro k
    induction k with
    | zero => rfl
    | succ k ihk => rw [← ihk]; exact ancestorsAux_fuel st.scopes hwf (s + 1 + k) s (by omega)
  have hs' : st.scopes.length = s + 1 + (st.scopes.length - s - 1) := by omega
  rw [hs', hf]
  exact key s s (Nat.le_refl _) hl

/-- **a constructor is usable for a plain key it declares exactly from the scopes that have its home scope on their
    path to the root** (its own scope and every descendant, whenever created; never an ancestor or a sibling) -/
theorem visible_iff {env : TyEnv} {st : St} (hr : RegInv st) (hw : RegWF env st) (m : Nat) (hm : m < st.ctors.length) (k : Key)
    (hk : k ∈ ctorKeys st m) (hg : k.group = "") (s : Nat) :
    m ∈ st.allProviders s k ↔ (st.ctor m).s ∈ st.ancestors s := by
  constructor
  · intro h
    simp only [St.allProviders, List.mem_flatMap] at h
    obtain ⟨a, ha, hma⟩ := h
    rw [(hw.provPlain a k m hma hg).1]; exact ha
  · intro h
    simp only [St.allProviders, List.mem_flatMap]
    exact ⟨(st.ctor m).s, h, hr.regOK m hm k hk⟩

/-- a constructor whose home is the root (provided there, or anywhere with `Export(true)`) is usable from every scope -/
theorem root_visible_everywhere {st : St} (hr : RegInv st) (ht : TreeInv st) (m : Nat) (hm : m < st.ctors.length)
    (hhome : (st.ctor m).s = 0) (k : Key) (hk : k ∈ ctorKeys st m) (s : Nat) (hs : s < st.scopes.length) :
    m ∈ st.allProviders s k := by
  simp only [St.allProviders, List.mem_flatMap]
  exact ⟨0, root_mem_ancestors ht s hs, by have := hr.regOK m hm k hk; rw [hhome] at this; exact this⟩

end Dig
