import DigModel.Engine
/-
  A generic preservation principle for the resolver: any reflexive, transitive
  relation on states that is respected by the leaf steps of the engine
  (on-stack marking, the two "tails" that run a user function and commit its
  results) is respected by every engine function, whatever the outcome
  (value, error, panic, out of fuel).
-/
namespace Dig

/-- `m` relates every start state to its end state -/
def Pres (R : St → St → Prop) {α : Type} (m : EM α) : Prop := ∀ st, R st (m st).2

structure StepRel (R : St → St → Prop) : Prop where
  refl : ∀ s, R s s
  trans : ∀ {a b c}, R a b → R b c → R a c

section
variable {R : St → St → Prop} (hR : StepRel R)
include hR

theorem pres_pure {α : Type} (a : α) : Pres R (EM.pure a) := fun st => hR.refl st

theorem pres_fail {α : Type} (e : Fail) : Pres R (EM.fail e : EM α) := fun st => hR.refl st

theorem pres_bind {α β : Type} {m : EM α} {f : α → EM β} (hm : Pres R m) (hf : ∀ a, Pres R (f a)) :
    Pres R (EM.bind m f) := by
  intro st
  unfold EM.bind
  have h1 := hm st
  cases h : m st with
  | mk r s' =>
    rw [h] at h1
    cases r with
    | ok a => exact hR.trans h1 (hf a s')
    | error e => exact h1

theorem pres_wrapErr {α : Type} {m : EM α} (w : DErr → DErr) (hm : Pres R m) : Pres R (EM.wrapErr m w) := by
  intro st
  unfold EM.wrapErr
  have h1 := hm st
  cases h : m st with
  | mk r s' =>
    rw [h] at h1
    cases r with
    | ok a => exact h1
    | error e => cases e <;> exact h1

theorem pres_finally {α : Type} {m : EM α} {fin : St → St} (hm : Pres R m) (hfin : ∀ st, R st (fin st)) :
    Pres R (EM.finally_ m fin) := by
  intro st
  unfold EM.finally_
  have h1 := hm st
  cases h : m st with
  | mk r s' =>
    rw [h] at h1
    exact hR.trans h1 (hfin s')

theorem pres_forEachM {α : Type} (xs : List α) {f : α → EM Unit} (hf : ∀ a, Pres R (f a)) :
    Pres R (forEachM xs f) := by
  induction xs with
  | nil => unfold forEachM; exact pres_pure hR ()
  | cons x rest ih => unfold forEachM; exact pres_bind hR (hf x) (fun _ => ih)

theorem pres_firstM {α β : Type} (xs : List α) {f : α → EM (Option β)} (hf : ∀ a, Pres R (f a)) :
    Pres R (firstM xs f) := by
  induction xs with
  | nil => unfold firstM; exact pres_pure hR none
  | cons x rest ih =>
    unfold firstM
    apply pres_bind hR (hf x)
    intro r
    cases r with
    | none => exact ih
    | some b => exact pres_pure hR (some b)

theorem pres_mapM {α β : Type} (xs : List α) {f : α → EM β} (hf : ∀ a, Pres R (f a)) :
    Pres R (mapM' xs f) := by
  induction xs with
  | nil => unfold mapM'; exact pres_pure hR []
  | cons x rest ih =>
    unfold mapM'
    exact pres_bind hR (hf x) (fun b => pres_bind hR ih (fun bs => pres_pure hR (b :: bs)))

theorem pres_shallowCheck (c : Nat) (ps : List Param) : Pres R (shallowCheck c ps) := by
  intro st
  unfold shallowCheck
  split <;> exact hR.refl st

end

/-- the leaf steps of the engine -/
structure LeafRel (ctx : Ctx) (R : St → St → Prop) : Prop extends StepRel R where
  setOnStack : ∀ st n, R st (st.modCtor n fun x => { x with onStack := true })
  clearOnStack : ∀ st n, R st (st.modCtor n fun x => { x with onStack := false })
  ctorTail : ∀ st n node args, R st (ctorTail ctx n node args st).2
  decoOnStack : ∀ st d, R st (st.modDeco d fun x => { x with state := .onStack })
  decoFinally : ∀ st d, R st (st.modDeco d fun x => if x.state == .called then x else { x with state := .ready })
  decoTail : ∀ st d node args, R st (decoTail ctx d node args st).2

theorem providerStep_state (env : TyEnv) (k : Key) (opt : Bool) (n : Nat) (r : Except Fail Unit × St) :
    (providerStep env k opt n r).2 = r.2 := by
  unfold providerStep
  rcases r with ⟨r, s⟩
  cases r with
  | ok u => rfl
  | error e =>
    cases e with
    | err e => simp only; split <;> rfl
    | panic f x => rfl
    | bug => rfl
    | fuel => rfl

/-- every engine function respects a relation respected by the leaf steps -/
theorem engine_pres (ctx : Ctx) {R : St → St → Prop} (h : LeafRel ctx R) :
    ∀ fuel,
      (∀ n c, Pres R (callCtor ctx fuel n c)) ∧
      (∀ d s, Pres R (callDeco ctx fuel d s)) ∧
      (∀ k opt c, Pres R (buildSingle ctx fuel k opt c)) ∧
      (∀ k soft c, Pres R (buildGroup ctx fuel k soft c)) ∧
      (∀ p c, Pres R (buildParam ctx fuel p c)) ∧
      (∀ ps c, Pres R (buildList ctx fuel ps c)) := by
  have hR : StepRel R := h.toStepRel
  intro fuel
  induction fuel with
  | zero =>
    refine ⟨?_, ?_, ?_, ?_, ?_, ?_⟩ <;> intros <;> intro st
    · simp only [callCtor]; exact hR.refl st
    · simp only [callDeco]; exact hR.refl st
    · simp only [buildSingle]; exact hR.refl st
    · simp only [buildGroup]; exact hR.refl st
    · simp only [buildParam]; exact hR.refl st
    · simp only [buildList]; exact hR.refl st
  | succ fuel ih =>
    obtain ⟨ihC, ihD, ihS, ihG, ihP, ihL⟩ := ih
    refine ⟨?_, ?_, ?_, ?_, ?_, ?_⟩
    · -- callCtor
      intro n c st
      simp only [callCtor]
      split
      · exact hR.refl st
      · split
        · exact hR.refl st
        · refine hR.trans (h.setOnStack st n) ?_
          apply pres_finally hR _ (fun s => h.clearOnStack s n)
          apply pres_bind hR (pres_shallowCheck hR _ _)
          intro _
          apply pres_bind hR (pres_wrapErr hR _ (ihL _ _))
          intro args s
          exact h.ctorTail s n _ args
    · -- callDeco
      intro d s st
      simp only [callDeco]
      split
      · exact hR.refl st
      · refine hR.trans (h.decoOnStack st d) ?_
        apply pres_finally hR _ (fun s => h.decoFinally s d)
        apply pres_bind hR (pres_shallowCheck hR _ _)
        intro _
        apply pres_bind hR (pres_wrapErr hR _ (ihL _ _))
        intro args s'
        exact h.decoTail s' d _ args
    · -- buildSingle
      intro k opt c st
      simp only [buildSingle]
      split
      · apply pres_bind hR (pres_wrapErr hR _ (ihD _ _))
        intro _ s'
        simp only
        split <;> exact hR.refl s'
      · split
        · exact hR.refl st
        · split
          · exact hR.refl st
          · split <;> exact hR.refl st
          · apply pres_bind hR
            · apply pres_firstM hR
              intro n s1
              rw [providerStep_state]
              exact ihC _ _ s1
            · intro early s'
              simp only
              split
              · exact hR.refl s'
              · split <;> exact hR.refl s'
    · -- buildGroup
      intro k soft c st
      simp only [buildGroup]
      apply pres_bind hR
      · apply pres_forEachM hR
        intro s s1
        simp only
        split
        · split
          · exact hR.refl s1
          · exact pres_wrapErr hR _ (ihD _ _) s1
        · exact hR.refl s1
      · intro _ s2
        simp only
        split
        · exact hR.refl s2
        · apply pres_bind hR
          · split
            · exact pres_pure hR ()
            · apply pres_forEachM hR
              intro s s3
              apply pres_forEachM hR
              intro n s4
              exact pres_wrapErr hR _ (ihC _ _) s4
          · intro _ s5
            exact hR.refl s5
    · -- buildParam
      intro p c
      cases p with
      | single k opt => simp only [buildParam]; exact ihS k opt c
      | grouped ty k soft pg => simp only [buildParam]; exact ihG k soft c
      | object ty fs =>
        simp only [buildParam]
        apply pres_bind hR (pres_mapM hR _ (fun f => ihP f c))
        intro hard
        apply pres_bind hR (pres_mapM hR _ (fun f => ihP f c))
        intro soft
        exact pres_pure hR _
    · -- buildList
      intro ps c
      simp only [buildList]
      exact pres_mapM hR _ (fun p => ihP p c)

end Dig
