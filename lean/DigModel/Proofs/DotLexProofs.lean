import DigModel.DotRender
/-
  The lexer reads a list of items back as its tokens, whenever the tokens are well-formed (identifiers made of identifier
  characters, quoted strings closed by their own last quote, HTML strings balanced) and two identifiers are never
  adjacent without white space.
-/
namespace Dig.DotRender
open Dig.DotSyntax Dig.DotText

/-- the quoted string is closed by the quote that follows it and by no earlier one -/
def QClosed (s : List Char) : Prop := ∀ r acc, lexQuoted acc (s ++ '"' :: r) = some (acc ++ s, r)

/-- the HTML string is closed by the `>` that follows it and by no earlier one -/
def HClosed (s : List Char) : Prop := ∀ r, scan 1 [] (s ++ '>' :: r) = some (s, r)

def WfTok : Tok → Prop
  | .bare s => s ≠ [] ∧ ∀ c ∈ s, isIdChar c = true
  | .quoted s => QClosed s
  | .html s => HClosed s
  | _ => True

def isBare : Tok → Bool
  | .bare _ => true
  | _ => false

/-- `pb`: the last thing written was an identifier -/
def OkItems : Bool → List Item → Prop
  | _, [] => True
  | pb, .ws s :: rest => (∀ c ∈ s, isWs c = true) ∧ OkItems (pb && s.isEmpty) rest
  | pb, .tk t :: rest => WfTok t ∧ (isBare t = true → pb = false) ∧ OkItems (isBare t) rest

theorem OkItems.weaken : ∀ (is : List Item) (pb : Bool), OkItems true is → OkItems pb is
  | [], _, _ => trivial
  | .ws s :: rest, pb, h => by
    obtain ⟨h1, h2⟩ := h
    refine ⟨h1, ?_⟩
    cases hs : s.isEmpty with
    | true => rw [hs] at h2; simp only [Bool.and_true] at h2 ⊢; exact OkItems.weaken rest pb h2
    | false => rw [hs] at h2; simpa using h2
  | .tk t :: rest, pb, h => by
    obtain ⟨h1, h2, h3⟩ := h
    exact ⟨h1, fun hb => absurd (h2 hb) (by simp), h3⟩

theorem OkItems.append : ∀ (a b : List Item) (pb : Bool), OkItems pb a → OkItems true b → OkItems pb (a ++ b)
  | [], b, pb, _, hb => OkItems.weaken b pb hb
  | .ws s :: rest, b, pb, ha, hb => ⟨ha.1, OkItems.append rest b _ ha.2 hb⟩
  | .tk t :: rest, b, pb, ha, hb => ⟨ha.1, ha.2.1, OkItems.append rest b _ ha.2.2 hb⟩

theorem OkItems.flatMap {α : Type} (f : α → List Item) : ∀ (xs : List α), (∀ x ∈ xs, OkItems true (f x)) →
    OkItems true (xs.flatMap f)
  | [], _ => trivial
  | x :: rest, h => by
    rw [List.flatMap_cons]
    exact OkItems.append _ _ _ (h x (by simp)) (OkItems.flatMap f rest (fun y hy => h y (by simp [hy])))

/-! ### characters -/

theorem ws_not_id (c : Char) (h : isWs c = true) : isIdChar c = false := by
  unfold isWs at h
  simp only [Bool.or_eq_true, beq_iff_eq] at h
  rcases h with ((rfl | rfl) | rfl) | rfl <;> decide

theorem id_not (c d : Char) (h : isIdChar c = true) (hd : isIdChar d = false) : c ≠ d := by
  intro e; rw [e, hd] at h; cases h

theorem id_not_ws (c : Char) (h : isIdChar c = true) : isWs c = false := by
  cases hw : isWs c with
  | false => rfl
  | true => rw [ws_not_id c hw] at h; cases h

/-! ### the pieces of the lexer -/

theorem text_cons (i : Item) (rest : List Item) : text (i :: rest) = i.text ++ text rest := by
  simp [text]

theorem lex_ws : ∀ (s : List Char), (∀ c ∈ s, isWs c = true) → ∀ (fuel : Nat) (T : List Char),
    lex (fuel + s.length) (s ++ T) = lex fuel T
  | [], _, fuel, T => by simp
  | c :: s, h, fuel, T => by
    have hc : isWs c = true := h c (by simp)
    have : fuel + (c :: s).length = (fuel + s.length) + 1 := by simp; omega
    rw [this, List.cons_append]
    simp only [lex, hc, if_true]
    exact lex_ws s (fun d hd => h d (by simp [hd])) fuel T

theorem spanId_append : ∀ (a T : List Char), (∀ c ∈ a, isIdChar c = true) →
    (T = [] ∨ ∃ c r, T = c :: r ∧ isIdChar c = false) → spanId (a ++ T) = (a, T)
  | [], T, _, hT => by
    rcases hT with rfl | ⟨c, r, rfl, hc⟩
    · rfl
    · simp [spanId, hc]
  | c :: a, T, ha, hT => by
    have hc : isIdChar c = true := ha c (by simp)
    rw [List.cons_append]
    simp only [spanId, hc, if_true]
    rw [spanId_append a T (fun d hd => ha d (by simp [hd])) hT]

/-- after an identifier, what follows does not continue it -/
theorem startsNonId : ∀ (is : List Item), OkItems true is →
    text is = [] ∨ ∃ c r, text is = c :: r ∧ isIdChar c = false
  | [], _ => Or.inl rfl
  | .ws [] :: rest, h => by
    rw [text_cons]
    simpa [Item.text] using startsNonId rest (by simpa [OkItems] using h.2)
  | .ws (c :: s) :: rest, h => by
    rw [text_cons]
    exact Or.inr ⟨c, s ++ text rest, rfl, ws_not_id c (h.1 c (by simp))⟩
  | .tk t :: rest, h => by
    rw [text_cons]
    obtain ⟨_, h2, _⟩ := h
    right
    cases t with
    | bare s => exact absurd (h2 rfl) (by simp)
    | lbrace => exact ⟨_, _, rfl, by decide⟩
    | rbrace => exact ⟨_, _, rfl, by decide⟩
    | lbrack => exact ⟨_, _, rfl, by decide⟩
    | rbrack => exact ⟨_, _, rfl, by decide⟩
    | semi => exact ⟨_, _, rfl, by decide⟩
    | comma => exact ⟨_, _, rfl, by decide⟩
    | eq => exact ⟨_, _, rfl, by decide⟩
    | arrow => exact ⟨_, _, rfl, by decide⟩
    | quoted s => exact ⟨_, _, rfl, by decide⟩
    | html s => exact ⟨_, _, rfl, by decide⟩

/-- **the lexer reads the items back** -/
theorem lex_items : ∀ (is : List Item) (pb : Bool), OkItems pb is → ∀ fuel, (text is).length < fuel →
    lex fuel (text is) = some (toks is)
  | [], _, _, fuel, hf => by
    cases fuel with
    | zero => simp [text] at hf
    | succ f => simp [text, lex, toks]
  | .ws s :: rest, pb, h, fuel, hf => by
    rw [text_cons] at hf ⊢
    simp only [Item.text, List.length_append] at hf ⊢
    obtain ⟨k, rfl⟩ : ∃ k, fuel = k + s.length := ⟨fuel - s.length, by omega⟩
    rw [lex_ws s h.1 k (text rest)]
    simp only [toks]
    exact lex_items rest _ h.2 k (by omega)
  | .tk t :: rest, pb, h, fuel, hf => by
    rw [text_cons] at hf ⊢
    obtain ⟨hw, _, hr⟩ := h
    cases fuel with
    | zero => simp at hf
    | succ f =>
      have ih : ∀ (T : List Char), T = text rest → T.length < f → lex f T = some (toks rest) :=
        fun T e hl => by subst e; exact lex_items rest _ hr f hl
      simp only [toks]
      cases t with
      | lbrace =>
        simp only [Item.text, tokText, List.cons_append, List.nil_append, List.length_cons] at hf ⊢
        simp [lex, isWs, ih _ rfl (by omega)]
      | rbrace =>
        simp only [Item.text, tokText, List.cons_append, List.nil_append, List.length_cons] at hf ⊢
        simp [lex, isWs, ih _ rfl (by omega)]
      | lbrack =>
        simp only [Item.text, tokText, List.cons_append, List.nil_append, List.length_cons] at hf ⊢
        simp [lex, isWs, ih _ rfl (by omega)]
      | rbrack =>
        simp only [Item.text, tokText, List.cons_append, List.nil_append, List.length_cons] at hf ⊢
        simp [lex, isWs, ih _ rfl (by omega)]
      | semi =>
        simp only [Item.text, tokText, List.cons_append, List.nil_append, List.length_cons] at hf ⊢
        simp [lex, isWs, ih _ rfl (by omega)]
      | comma =>
        simp only [Item.text, tokText, List.cons_append, List.nil_append, List.length_cons] at hf ⊢
        simp [lex, isWs, ih _ rfl (by omega)]
      | eq =>
        simp only [Item.text, tokText, List.cons_append, List.nil_append, List.length_cons] at hf ⊢
        simp [lex, isWs, ih _ rfl (by omega)]
      | arrow =>
        simp only [Item.text, tokText, List.cons_append, List.nil_append, List.length_cons] at hf ⊢
        simp [lex, isWs, ih _ rfl (by omega)]
      | quoted s =>
        simp only [Item.text, tokText, List.cons_append, List.length_cons, List.length_append] at hf ⊢
        have hq := hw (text rest) []
        simp only [List.nil_append] at hq
        simp only [lex, isWs]
        simp [hq, ih _ rfl (by simp at hf; omega)]
      | html s =>
        simp only [Item.text, tokText, List.cons_append, List.length_cons, List.length_append] at hf ⊢
        have hq := hw (text rest)
        have hq' : lexHtml 1 [] (s ++ '>' :: text rest) = some (s, text rest) := hq
        simp only [lex, isWs]
        simp [hq', ih _ rfl (by simp at hf; omega)]
      | bare s =>
        obtain ⟨hne, hall⟩ := hw
        cases s with
        | nil => exact absurd rfl hne
        | cons c a =>
          have hc : isIdChar c = true := hall c (by simp)
          simp only [Item.text, tokText, List.cons_append, List.length_cons, List.length_append] at hf ⊢
          have hsp := spanId_append a (text rest) (fun d hd => hall d (by simp [hd])) (startsNonId rest hr)
          simp only [lex, id_not_ws c hc, Bool.false_eq_true, if_false,
            id_not c '{' hc (by decide), id_not c '}' hc (by decide), id_not c '[' hc (by decide),
            id_not c ']' hc (by decide), id_not c ';' hc (by decide), id_not c ',' hc (by decide),
            id_not c '=' hc (by decide), id_not c '-' hc (by decide), id_not c '"' hc (by decide),
            id_not c '<' hc (by decide), hc, if_true, hsp]
          simp [ih _ rfl (by omega)]

theorem lexDot_items (is : List Item) (h : OkItems false is) : lexDot (text is) = some (toks is) :=
  lex_items is false h _ (by omega)

end Dig.DotRender
