import DigModel.Proofs.ApiLemmas
import DigModel.Proofs.AList
/-
  Parsing a signature for a scope (`newParamList(ftype, s)`) only adds value-group nodes to graph
  holders: every other part of the container is untouched.
-/
namespace Dig

/-- two scopes that differ at most in their graph holder -/
def ScopeButGh (a b : ScopeSt) : Prop :=
  a.parent = b.parent ∧ a.children = b.children ∧ a.providers = b.providers ∧ a.decorators = b.decorators ∧
  a.values = b.values ∧ a.decoratedValues = b.decoratedValues ∧ a.groups = b.groups ∧
  a.decoratedGroups = b.decoratedGroups ∧ a.nodes = b.nodes ∧ a.verified = b.verified

/-- two states that differ at most in graph holders and the group-node table -/
def GhOnly (a b : St) : Prop :=
  a.ctors = b.ctors ∧ a.decos = b.decos ∧ a.hist = b.hist ∧ a.log = b.log ∧ a.execs = b.execs ∧ a.clock = b.clock ∧
  a.scopes.length = b.scopes.length ∧ ∀ j, ScopeButGh (a.scope j) (b.scope j)

theorem ScopeButGh.refl (a : ScopeSt) : ScopeButGh a a := ⟨rfl, rfl, rfl, rfl, rfl, rfl, rfl, rfl, rfl, rfl⟩
theorem ScopeButGh.trans {a b c : ScopeSt} (h1 : ScopeButGh a b) (h2 : ScopeButGh b c) : ScopeButGh a c := by
  obtain ⟨a1, a2, a3, a4, a5, a6, a7, a8, a9, a10⟩ := h1
  obtain ⟨b1, b2, b3, b4, b5, b6, b7, b8, b9, b10⟩ := h2
  exact ⟨a1.trans b1, a2.trans b2, a3.trans b3, a4.trans b4, a5.trans b5, a6.trans b6, a7.trans b7, a8.trans b8,
    a9.trans b9, a10.trans b10⟩

theorem GhOnly.refl (a : St) : GhOnly a a := ⟨rfl, rfl, rfl, rfl, rfl, rfl, rfl, fun _ => ScopeButGh.refl _⟩
theorem GhOnly.trans {a b c : St} (h1 : GhOnly a b) (h2 : GhOnly b c) : GhOnly a c := by
  obtain ⟨a1, a2, a3, a4, a5, a6, a7, a8⟩ := h1
  obtain ⟨b1, b2, b3, b4, b5, b6, b7, b8⟩ := h2
  exact ⟨a1.trans b1, a2.trans b2, a3.trans b3, a4.trans b4, a5.trans b5, a6.trans b6, a7.trans b7,
    fun j => (a8 j).trans (b8 j)⟩

theorem ghOnly_newPG (st : St) (s i : Nat) : GhOnly st (st.newGraphNode s (.pg i)) := by
  unfold St.newGraphNode
  generalize st.subscopes s = l
  induction l generalizing st with
  | nil => exact GhOnly.refl st
  | cons x xs ih =>
    simp only [List.foldl_cons]
    refine GhOnly.trans ?_ (ih _)
    refine ⟨rfl, rfl, rfl, rfl, rfl, rfl, ?_, ?_⟩
    · simp [St.modScope]
    · intro j
      show ScopeButGh (st.scope j) ((st.modScope x _).scope j)
      rw [scope_modScope]
      split
      · exact ⟨rfl, rfl, rfl, rfl, rfl, rfl, rfl, rfl, rfl, rfl⟩
      · exact ScopeButGh.refl _

theorem ghOnly_addPGNodes (st : St) (s oldLen : Nat) (descs : List PGDesc) : GhOnly st (addPGNodes st s oldLen descs) := by
  unfold addPGNodes
  simp only
  generalize (List.range (descs.length - oldLen)) = l
  have h0 : GhOnly st { st with pgs := st.pgs ++ List.map (fun d => ({ desc := d } : PGNode)) (List.drop oldLen descs) } :=
    ⟨rfl, rfl, rfl, rfl, rfl, rfl, rfl, fun _ => ScopeButGh.refl _⟩
  refine GhOnly.trans h0 ?_
  generalize ({ st with pgs := st.pgs ++ List.map (fun d => ({ desc := d } : PGNode)) (List.drop oldLen descs) } : St) = st1
  induction l generalizing st1 with
  | nil => exact GhOnly.refl _
  | cons x xs ih =>
    simp only [List.foldl_cons]
    exact GhOnly.trans (ghOnly_newPG st1 s _) (ih _)

theorem ghOnly_parseParams (env : TyEnv) (st : St) (s : Nat) (fn : Fn) : GhOnly st (parseParams env st s fn).2 := by
  unfold parseParams
  exact ghOnly_addPGNodes _ _ _ _

end Dig
