import DigModel.Proofs.NoBugApi
import DigModel.Proofs.Stable
import DigModel.Proofs.Reach
/-
  "Every dependency is there": a required single dependency that has been delivered sits in a cache on the path
  (`HasKey`), caches never lose a key (`KK`), and — an invariant of every operation of every program (`Deps`) — every
  built constructor and every decorator that has run has all its required single dependencies available from its own
  scope.  Together with `Just` (a cached value was produced by a built constructor of that scope) this is the
  "must-run" half of laziness: what a successful Invoke needed has run, transitively.
-/
namespace Dig

/-- a value for `k` can be had from scope `c` without running anything: a decorated value or a value is cached in a
    scope on the path to the root -/
def HasKey (st : St) (c : Nat) (k : Key) : Prop :=
  ∃ s ∈ st.ancestors c, (aget (st.scope s).decoratedValues k).isSome = true ∨ (aget (st.scope s).values k).isSome = true

/-- the registry is the same and no cache loses a key -/
def KK (a b : St) : Prop :=
  RegFrame a b ∧
  (∀ S k, (aget (a.scope S).values k).isSome = true → (aget (b.scope S).values k).isSome = true) ∧
  (∀ S k, (aget (a.scope S).decoratedValues k).isSome = true → (aget (b.scope S).decoratedValues k).isSome = true)

theorem KK.refl (a : St) : KK a a := ⟨RegFrame.refl a, fun _ _ h => h, fun _ _ h => h⟩
theorem KK.trans {a b c : St} (h1 : KK a b) (h2 : KK b c) : KK a c :=
  ⟨h1.1.trans h2.1, fun S k h => h2.2.1 S k (h1.2.1 S k h), fun S k h => h2.2.2 S k (h1.2.2 S k h)⟩

theorem HasKey.mono {a b : St} (h : KK a b) {c : Nat} {k : Key} (hk : HasKey a c k) : HasKey b c k := by
  obtain ⟨s, hs, hv⟩ := hk
  refine ⟨s, by rw [← regFrame_ancestors h.1 c]; exact hs, ?_⟩
  rcases hv with hv | hv
  · exact Or.inl (h.2.2 s k hv)
  · exact Or.inr (h.2.1 s k hv)

theorem kk_same (a b : St) (hr : RegFrame a b) (hs : b.scopes = a.scopes) : KK a b :=
  ⟨hr, fun S k h => by rw [scope_of_scopes_eq hs S]; exact h, fun S k h => by rw [scope_of_scopes_eq hs S]; exact h⟩

theorem kk_ctorTail (ctx : Ctx) (st : St) (n : Nat) (node : CtorNode) (args : List Val) : KK st (ctorTail ctx n node args st).2 := by
  refine ⟨regFrame_ctorTail ctx st n node args, ?_, ?_⟩
  · intro S k h
    rw [ctorTail_scope]
    cases retOf node.fn.id (callBody ctx (.ctor n) node.fn args st).1 with
    | none => exact h
    | some ret =>
      simp only
      split
      · exact extractSlots_keeps ctx.env ret node.results _ k h
      · exact h
  · intro S k h
    rw [ctorTail_scope]
    cases retOf node.fn.id (callBody ctx (.ctor n) node.fn args st).1 with
    | none => exact h
    | some ret =>
      simp only
      split
      · rw [(extractSlots_decoCaches ctx.env ret node.results _).1]; exact h
      · exact h

theorem kk_decoTail (ctx : Ctx) (st : St) (d : Nat) (node : DecoNode) (args : List Val) : KK st (decoTail ctx d node args st).2 := by
  refine ⟨regFrame_decoTail ctx st d node args, ?_, ?_⟩
  · intro S k h
    rw [decoTail_scope]
    cases retOf node.fn.id (callBody ctx (.deco d) node.fn args st).1 with
    | none => exact h
    | some ret =>
      simp only
      split
      · rw [extractSlots_deco_values]; exact h
      · exact h
  · intro S k h
    rw [decoTail_scope]
    cases retOf node.fn.id (callBody ctx (.deco d) node.fn args st).1 with
    | none => exact h
    | some ret =>
      simp only
      split
      · exact (extractSlots_dv ctx.env ret node.results _).1 k h
      · exact h

theorem kk_leaf (ctx : Ctx) : LeafRel2 ctx KK where
  refl := KK.refl
  trans := KK.trans
  toReg h := h.1
  setOnStack st n := kk_same _ _ (regFrame_modCtor st n _ (fun _ => ⟨rfl, rfl, rfl, rfl, rfl, rfl, rfl⟩)) rfl
  clearOnStack st n := kk_same _ _ (regFrame_modCtor st n _ (fun _ => ⟨rfl, rfl, rfl, rfl, rfl, rfl, rfl⟩)) rfl
  ctorTail st n node args _ := kk_ctorTail ctx st n node args
  decoOnStack st d := kk_same _ _ (regFrame_modDeco st d _ (fun _ => ⟨rfl, rfl, rfl, rfl, rfl⟩)) rfl
  decoFinally st d := kk_same _ _ (regFrame_modDeco st d _ (fun x => by split <;> exact ⟨rfl, rfl, rfl, rfl, rfl⟩)) rfl
  decoTail st d node args _ := kk_decoTail ctx st d node args

theorem kk_engine (ctx : Ctx) (fuel : Nat) :
    (∀ n c st, KK st (callCtor ctx fuel n c st).2) ∧ (∀ d s st, KK st (callDeco ctx fuel d s st).2) ∧
    (∀ k opt c st, KK st (buildSingle ctx fuel k opt c st).2) ∧ (∀ k soft c st, KK st (buildGroup ctx fuel k soft c st).2) ∧
    (∀ p c st, KK st (buildParam ctx fuel p c st).2) ∧ (∀ ps c st, KK st (buildList ctx fuel ps c st).2) :=
  engine_pres2 ctx (kk_leaf ctx) fuel

end Dig

namespace Dig

theorem firstM_some {α β : Type} (f : α → EM (Option β)) (z : β) : ∀ (xs : List α) (st st' : St),
    firstM xs f st = (.ok (some z), st') → ∃ x ∈ xs, ∃ s1 s2, f x s1 = (.ok (some z), s2) := by
  intro xs
  induction xs with
  | nil => intro st st' h; simp [firstM, EM.pure] at h
  | cons x rest ih =>
    intro st st' h
    simp only [firstM, EM.bind] at h
    cases hx : f x st with
    | mk r s1 =>
      rw [hx] at h
      cases r with
      | error e => simp at h
      | ok o =>
        cases o with
        | some b =>
          simp only [EM.pure] at h
          injection h with h1 h2
          injection h1 with h1; injection h1 with h1
          subst h1
          exact ⟨x, by simp, st, s1, hx⟩
        | none =>
          simp only at h
          obtain ⟨y, hy, s3, s4, hf⟩ := ih s1 st' h
          exact ⟨y, by simp [hy], s3, s4, hf⟩

theorem providerStep_some (env : TyEnv) (k : Key) (opt : Bool) (cid : Nat) (r : Except Fail Unit × St) (z : Val) (s : St)
    (h : providerStep env k opt cid r = (.ok (some z), s)) : opt = true := by
  obtain ⟨r1, r2⟩ := r
  cases r1 with
  | ok u => simp [providerStep] at h
  | error f =>
    cases f with
    | err e =>
      simp only [providerStep] at h
      split at h
      · rename_i hc; simp at hc; exact hc.2
      · simp at h
    | panic a b => simp [providerStep] at h
    | bug => simp [providerStep] at h
    | fuel => simp [providerStep] at h

/-- **a required single dependency that was delivered is cached on the path** (the resolver hands out nothing else) -/
theorem buildSingle_ok_has (ctx : Ctx) (fuel : Nat) (k : Key) (opt : Bool) (c : Nat) (st : St) (v : Val) (st' : St)
    (h : buildSingle ctx (fuel + 1) k opt c st = (.ok v, st')) : opt = true ∨ HasKey st' c k := by
  have hkk : KK st st' := by
    have := (kk_engine ctx (fuel + 1)).2.2.1 k opt c st
    rw [h] at this; exact this
  have hanc : st'.ancestors c = st.ancestors c := (regFrame_ancestors hkk.1 c).symm
  simp only [buildSingle] at h
  cases hfd : findDeco st k (st.ancestors c) with
  | some p =>
    obtain ⟨d, ds⟩ := p
    rw [hfd] at h
    simp only [EM.bind] at h
    obtain ⟨pre, post, hsplit, _, _, _⟩ := findDeco_spec st k _ d ds hfd
    cases hcd : EM.wrapErr (callDeco ctx fuel d ds) (DErr.paramSingle k 1) st with
    | mk r s1 =>
      rw [hcd] at h
      cases r with
      | error e => simp at h
      | ok u =>
        simp only at h
        cases hdv : aget (s1.scope ds).decoratedValues k with
        | none => rw [hdv] at h; simp at h
        | some w =>
          rw [hdv] at h
          injection h with h1 h2
          subst h2
          right
          exact ⟨ds, by rw [hanc, hsplit]; simp, Or.inl (by rw [hdv]; rfl)⟩
  | none =>
    rw [hfd] at h
    simp only at h
    cases hdv : findDecoratedValue st k (st.ancestors c) with
    | some w =>
      rw [hdv] at h
      simp only at h
      injection h with h1 h2
      subst h2
      obtain ⟨pre, s, post, hsplit, hs, _⟩ := findDecoratedValue_some st k _ w hdv
      right
      exact ⟨s, by rw [hsplit]; simp, Or.inl (by rw [hs]; rfl)⟩
    | none =>
      rw [hdv] at h
      simp only at h
      cases hfp : findProviders st k (st.ancestors c) with
      | value w =>
        rw [hfp] at h
        simp only at h
        injection h with h1 h2
        subst h2
        obtain ⟨pre, s, post, hsplit, hs, _⟩ := findProviders_value st k _ w hfp
        right
        exact ⟨s, by rw [hsplit]; simp, Or.inr (by rw [hs]; rfl)⟩
      | none =>
        rw [hfp] at h
        simp only at h
        split at h
        · rename_i ho; exact Or.inl ho
        · simp at h
      | providers pc ns =>
        rw [hfp] at h
        simp only [EM.bind] at h
        obtain ⟨pre, post, hsplit, _⟩ := findProviders_provs st k _ pc ns hfp
        cases hfm : firstM ns (fun n st1 =>
            providerStep ctx.env k opt (ctorId ctx.sameIds (st1.ctor n).fn) (callCtor ctx fuel n (st1.ctor n).origS st1)) st with
        | mk r s1 =>
          rw [hfm] at h
          cases r with
          | error e => simp at h
          | ok early =>
            simp only at h
            cases early with
            | some z =>
              left
              obtain ⟨x, _, s3, s4, hx⟩ := firstM_some _ z ns st s1 hfm
              exact providerStep_some _ _ _ _ _ _ _ hx
            | none =>
              simp only at h
              cases hv : aget (s1.scope pc).values k with
              | none => rw [hv] at h; simp at h
              | some w =>
                rw [hv] at h
                injection h with h1 h2
                subst h2
                right
                exact ⟨pc, by rw [hanc, hsplit]; simp, Or.inr (by rw [hv]; rfl)⟩

end Dig

namespace Dig

/-! ### the invariant -/

mutual
/-- the required (non-optional) single dependencies of a parameter -/
def reqSingles : Param → List Key
  | .single k opt => if opt then [] else [k]
  | .grouped _ _ _ _ => []
  | .object _ fs => reqSinglesL fs
def reqSinglesL : List Param → List Key
  | [] => []
  | p :: ps => reqSingles p ++ reqSinglesL ps
end

theorem mem_reqSinglesL {k : Key} : ∀ {ps : List Param}, k ∈ reqSinglesL ps ↔ ∃ p ∈ ps, k ∈ reqSingles p
  | [] => by simp [reqSinglesL]
  | p :: ps => by
    simp only [reqSinglesL, List.mem_append, List.mem_cons, exists_eq_or_imp, mem_reqSinglesL (ps := ps)]

/-- every built constructor, and every decorator that has run, has its required single dependencies available from
    the scope it was built from -/
structure Deps (st : St) : Prop where
  ctor : ∀ n, (st.ctor n).called = true → ∀ k ∈ reqSinglesL (st.ctor n).params, HasKey st (st.ctor n).origS k
  deco : ∀ d, (st.deco d).state = .called → ∀ k ∈ reqSinglesL (st.deco d).params, HasKey st (st.deco d).s k

theorem Deps.step {a b : St} (h : Deps a) (hk : KK a b)
    (hc : ∀ n, (b.ctor n).called = true → (a.ctor n).called = true)
    (hd : ∀ d, (b.deco d).state = .called → (a.deco d).state = .called) : Deps b where
  ctor n hn k hkm := by
    obtain ⟨_, c2, _, _, c5, _, _⟩ := hk.1.2.2.2.2.1 n
    rw [← c2] at hkm; rw [← c5]
    exact (h.ctor n (hc n hn) k hkm).mono hk
  deco d hn k hkm := by
    obtain ⟨_, c2, _, c4, _⟩ := hk.1.2.2.2.2.2.2 d
    rw [← c2] at hkm; rw [← c4]
    exact (h.deco d (hd d hn) k hkm).mono hk

section loops2
variable (V : St → Prop)

/-- a list built element by element: the invariant is kept, and on success every element's post-condition — kept by the
    later steps — holds at the end -/
theorem inv_mapM_post {α β : Type} (Q : α → St → Prop) (xs : List α) (f : α → EM β)
    (hV : ∀ a, a ∈ xs → ∀ st, V st → V (f a st).2 ∧ ((∃ b, (f a st).1 = .ok b) → Q a (f a st).2))
    (hM : ∀ a b, b ∈ xs → ∀ st, Q a st → Q a (f b st).2) :
    ∀ st, V st → V (mapM' xs f st).2 ∧ ((∃ bs, (mapM' xs f st).1 = .ok bs) → ∀ a ∈ xs, Q a (mapM' xs f st).2) := by
  induction xs with
  | nil => intro st hv; exact ⟨hv, fun _ a ha => by cases ha⟩
  | cons x rest ih =>
    intro st hv
    unfold mapM' EM.bind
    obtain ⟨h1, hq1⟩ := hV x (by simp) st hv
    cases h : f x st with
    | mk r s' =>
      rw [h] at h1 hq1
      cases r with
      | error e => exact ⟨h1, fun ⟨bs, hbs⟩ => by cases hbs⟩
      | ok b =>
        simp only
        have ih' := ih (fun a ha => hV a (by simp [ha])) (fun a b hb => hM a b (by simp [hb])) s' h1
        -- the first element's post-condition survives the rest of the list
        have hsurv : Q x s' → Q x (mapM' rest f s').2 := by
          intro hq
          have := inv_forall_rest Q x rest f (fun b hb st hq => hM x b (by simp [hb]) st hq) s' hq
          exact this
        cases h2 : mapM' rest f s' with
        | mk r2 s'' =>
          rw [h2] at ih' hsurv
          cases r2 with
          | error e => exact ⟨ih'.1, fun ⟨bs, hbs⟩ => by cases hbs⟩
          | ok bs =>
            refine ⟨ih'.1, fun _ a ha => ?_⟩
            rcases List.mem_cons.mp ha with e | hr
            · subst e; exact hsurv (hq1 ⟨b, rfl⟩)
            · exact ih'.2 ⟨bs, rfl⟩ a hr
where
  inv_forall_rest {α β : Type} (Q : α → St → Prop) (x : α) (rest : List α) (f : α → EM β)
      (hM : ∀ b, b ∈ rest → ∀ st, Q x st → Q x (f b st).2) : ∀ st, Q x st → Q x (mapM' rest f st).2 := by
    induction rest with
    | nil => intro st hq; exact hq
    | cons y ys ih =>
      intro st hq
      unfold mapM' EM.bind
      have h1 := hM y (by simp) st hq
      cases h : f y st with
      | mk r s' =>
        rw [h] at h1
        cases r with
        | error e => exact h1
        | ok b =>
          simp only
          have := ih (fun b hb => hM b (by simp [hb])) s' h1
          cases h2 : mapM' ys f s' with
          | mk r2 s'' =>
            rw [h2] at this
            cases r2 <;> exact this

end loops2

end Dig

namespace Dig

theorem Deps.modCtorStack {st : St} (h : Deps st) (n : Nat) (b : Bool) : Deps (st.modCtor n fun x => { x with onStack := b }) :=
  h.step (kk_same _ _ (regFrame_modCtor st n _ (fun _ => ⟨rfl, rfl, rfl, rfl, rfl, rfl, rfl⟩)) rfl)
    (fun m hm => by rw [ctor_modCtor] at hm; split at hm <;> exact hm) (fun _ hd => hd)

theorem Deps.modDecoStack {st : St} (h : Deps st) (d : Nat) : Deps (st.modDeco d fun x => { x with state := .onStack }) :=
  h.step (kk_same _ _ (regFrame_modDeco st d _ (fun _ => ⟨rfl, rfl, rfl, rfl, rfl⟩)) rfl) (fun _ hc => hc)
    (fun m hm => by
      rw [deco_modDeco] at hm
      split at hm
      · cases hm
      · exact hm)

theorem Deps.modDecoFin {st : St} (h : Deps st) (d : Nat) :
    Deps (st.modDeco d fun x => if x.state == .called then x else { x with state := .ready }) :=
  h.step (kk_same _ _ (regFrame_modDeco st d _ (fun x => by split <;> exact ⟨rfl, rfl, rfl, rfl, rfl⟩)) rfl) (fun _ hc => hc)
    (fun m hm => by
      rw [deco_modDeco] at hm
      split at hm
      · split at hm
        · exact hm
        · cases hm
      · exact hm)

theorem deps_bind {α β : Type} {m : EM α} {f : α → EM β} {st : St} (hm : Deps (m st).2) (hf : ∀ a s, Deps s → Deps (f a s).2) :
    Deps (EM.bind m f st).2 := by
  unfold EM.bind
  cases h : m st with
  | mk r s' =>
    rw [h] at hm
    cases r with
    | ok a => exact hf a s' hm
    | error e => exact hm

/-- the resolver keeps `Deps`, and a parameter that was built has its required single dependencies cached on the path -/
theorem deps_engine (ctx : Ctx) : ∀ fuel,
    (∀ n st, Deps st → Deps (callCtor ctx fuel n (st.ctor n).origS st).2) ∧
    (∀ d s st, Deps st → Deps (callDeco ctx fuel d s st).2) ∧
    (∀ k opt c st, Deps st → Deps (buildSingle ctx fuel k opt c st).2) ∧
    (∀ k soft c st, Deps st → Deps (buildGroup ctx fuel k soft c st).2) ∧
    (∀ p c st, Deps st → Deps (buildParam ctx fuel p c st).2 ∧
      ((∃ v, (buildParam ctx fuel p c st).1 = .ok v) → ∀ k ∈ reqSingles p, HasKey (buildParam ctx fuel p c st).2 c k)) ∧
    (∀ ps c st, Deps st → Deps (buildList ctx fuel ps c st).2 ∧
      ((∃ v, (buildList ctx fuel ps c st).1 = .ok v) → ∀ k ∈ reqSinglesL ps, HasKey (buildList ctx fuel ps c st).2 c k)) := by
  intro fuel
  induction fuel with
  | zero =>
    refine ⟨?_, ?_, ?_, ?_, ?_, ?_⟩
    · intro n st h; simp only [callCtor]; exact h
    · intro d s st h; simp only [callDeco]; exact h
    · intro k opt c st h; simp only [buildSingle]; exact h
    · intro k soft c st h; simp only [buildGroup]; exact h
    · intro p c st h; simp only [buildParam]; exact ⟨h, fun ⟨v, hv⟩ => by cases hv⟩
    · intro ps c st h; simp only [buildList]; exact ⟨h, fun ⟨v, hv⟩ => by cases hv⟩
  | succ fuel ih =>
    obtain ⟨ihC, ihD, ihS, ihG, ihP, ihL⟩ := ih
    refine ⟨?_, ?_, ?_, ?_, ?_, ?_⟩
    · -- callCtor
      intro n st h
      simp only [callCtor]
      split
      · exact h
      · split
        · exact h
        · have h0 := h.modCtorStack n true
          generalize hst0 : (st.modCtor n fun x => { x with onStack := true }) = st0 at h0
          unfold EM.finally_ EM.bind
          have hsc := shallowCheck_state (st.ctor n).origS (st.ctor n).params st0
          cases hs : shallowCheck (st.ctor n).origS (st.ctor n).params st0 with
          | mk r1 s1 =>
            rw [hs] at hsc; simp only at hsc; subst hsc
            cases r1 with
            | error e => exact h0.modCtorStack n false
            | ok u =>
              simp only
              obtain ⟨hL, hpost⟩ := ihL (st.ctor n).params (st.ctor n).origS s1 h0
              have hws := wrapErr_state (buildList ctx fuel (st.ctor n).params (st.ctor n).origS) DErr.argsFailed s1
              cases hb : EM.wrapErr (buildList ctx fuel (st.ctor n).params (st.ctor n).origS) DErr.argsFailed s1 with
              | mk r2 s2 =>
                rw [hb] at hws; simp only at hws
                rw [← hws] at hL hpost
                cases r2 with
                | error e => exact hL.modCtorStack n false
                | ok args =>
                  simp only
                  have hok : ∃ v, (buildList ctx fuel (st.ctor n).params (st.ctor n).origS s1).1 = .ok v := by
                    unfold EM.wrapErr at hb
                    cases hbl : buildList ctx fuel (st.ctor n).params (st.ctor n).origS s1 with
                    | mk r s =>
                      rw [hbl] at hb
                      cases r with
                      | ok v => exact ⟨v, rfl⟩
                      | error f => cases f <;> simp at hb
                  have hpost' := hpost hok
                  have hkk := kk_ctorTail ctx s2 n (st.ctor n) args
                  have hkk1 : KK st s2 := by
                    have a1 : KK st s1 := by
                      rw [← hst0]
                      exact kk_same _ _ (regFrame_modCtor st n _ (fun _ => ⟨rfl, rfl, rfl, rfl, rfl, rfl, rfl⟩)) rfl
                    have a2 : KK s1 s2 := by
                      rw [hws]; exact (kk_engine ctx fuel).2.2.2.2.2 _ _ s1
                    exact a1.trans a2
                  have h3 : Deps (ctorTail ctx n (st.ctor n) args s2).2 := by
                    constructor
                    · intro m hm k hk
                      rw [ctorTail_ctor] at hm hk ⊢
                      by_cases hc : (callBody ctx (.ctor n) (st.ctor n).fn args s2).1.commits = true ∧ n = m ∧ m < s2.ctors.length
                      · rw [if_pos hc] at hk ⊢
                        obtain ⟨_, hnm, _⟩ := hc
                        subst hnm
                        obtain ⟨_, c2, _, _, c5, _, _⟩ := hkk1.1.2.2.2.2.1 n
                        simp only at hk ⊢
                        rw [← c2] at hk; rw [← c5]
                        exact (hpost' k hk).mono hkk
                      · rw [if_neg hc] at hm hk ⊢
                        exact (hL.ctor m hm k hk).mono hkk
                    · intro d hd k hk
                      have hdec : (ctorTail ctx n (st.ctor n) args s2).2.deco d = s2.deco d := by
                        simp only [St.deco, ctorTail_decos]
                      rw [hdec] at hd hk ⊢
                      exact (hL.deco d hd k hk).mono hkk
                  exact h3.modCtorStack n false
    · -- callDeco
      intro d s st h
      simp only [callDeco]
      split
      · exact h
      · have h0 := h.modDecoStack d
        generalize hst0 : (st.modDeco d fun x => { x with state := DecoState.onStack }) = st0 at h0
        unfold EM.finally_ EM.bind
        have hsc := shallowCheck_state s (st.deco d).params st0
        cases hs : shallowCheck s (st.deco d).params st0 with
        | mk r1 s1 =>
          rw [hs] at hsc; simp only at hsc; subst hsc
          cases r1 with
          | error e => exact h0.modDecoFin d
          | ok u =>
            simp only
            obtain ⟨hL, hpost⟩ := ihL (st.deco d).params (st.deco d).s s1 h0
            have hws := wrapErr_state (buildList ctx fuel (st.deco d).params (st.deco d).s) DErr.argsFailed s1
            cases hb : EM.wrapErr (buildList ctx fuel (st.deco d).params (st.deco d).s) DErr.argsFailed s1 with
            | mk r2 s2 =>
              rw [hb] at hws; simp only at hws
              rw [← hws] at hL hpost
              cases r2 with
              | error e => exact hL.modDecoFin d
              | ok args =>
                simp only
                have hok : ∃ v, (buildList ctx fuel (st.deco d).params (st.deco d).s s1).1 = .ok v := by
                  unfold EM.wrapErr at hb
                  cases hbl : buildList ctx fuel (st.deco d).params (st.deco d).s s1 with
                  | mk r s =>
                    rw [hbl] at hb
                    cases r with
                    | ok v => exact ⟨v, rfl⟩
                    | error f => cases f <;> simp at hb
                have hpost' := hpost hok
                have hkk := kk_decoTail ctx s2 d (st.deco d) args
                have hkk1 : KK st s2 := by
                  have a1 : KK st s1 := by
                    rw [← hst0]
                    exact kk_same _ _ (regFrame_modDeco st d _ (fun _ => ⟨rfl, rfl, rfl, rfl, rfl⟩)) rfl
                  have a2 : KK s1 s2 := by
                    rw [hws]; exact (kk_engine ctx fuel).2.2.2.2.2 _ _ s1
                  exact a1.trans a2
                have h3 : Deps (decoTail ctx d (st.deco d) args s2).2 := by
                  constructor
                  · intro m hm k hk
                    have hct : (decoTail ctx d (st.deco d) args s2).2.ctor m = s2.ctor m := by
                      simp only [St.ctor, decoTail_ctors]
                    rw [hct] at hm hk ⊢
                    exact (hL.ctor m hm k hk).mono hkk
                  · intro m hm k hk
                    rw [decoTail_deco] at hm hk ⊢
                    by_cases hc : (callBody ctx (.deco d) (st.deco d).fn args s2).1.commits = true ∧ d = m ∧ m < s2.decos.length
                    · rw [if_pos hc] at hk ⊢
                      obtain ⟨_, hdm, _⟩ := hc
                      subst hdm
                      obtain ⟨_, c2, _, c4, _⟩ := hkk1.1.2.2.2.2.2.2 d
                      simp only at hk ⊢
                      rw [← c2] at hk; rw [← c4]
                      exact (hpost' k hk).mono hkk
                    · rw [if_neg hc] at hm hk ⊢
                      exact (hL.deco m hm k hk).mono hkk
                exact h3.modDecoFin d
    · -- buildSingle
      intro k opt c st h
      simp only [buildSingle]
      split
      · rename_i d ds _
        apply deps_bind
        · rw [wrapErr_state]; exact ihD d ds st h
        · intro _ s hs
          split <;> exact hs
      · split
        · exact h
        · split
          · exact h
          · split <;> exact h
          · rename_i pc ns _
            apply deps_bind
            · exact inv_firstM Deps ns _ (fun n _ s1 hs1 => by
                rw [providerStep_state]
                exact ihC n s1 hs1) st h
            · intro early s hs
              split
              · exact hs
              · split <;> exact hs
    · -- buildGroup
      intro k soft c st h
      simp only [buildGroup]
      apply deps_bind
      · exact inv_forEachM Deps _ _ (fun s _ s1 hs1 => by
          split
          · split
            · exact hs1
            · rw [wrapErr_state]; exact ihD _ _ s1 hs1
          · exact hs1) st h
      · intro _ s2 hs2
        split
        · exact hs2
        · apply deps_bind
          · split
            · exact hs2
            · exact inv_forEachM Deps _ _ (fun s _ s3 hs3 => by
                exact inv_forEachM Deps _ _ (fun n _ s4 hs4 => by
                  rw [wrapErr_state]; exact ihC n s4 hs4) s3 hs3) s2 hs2
          · intro _ s5 hs5; exact hs5
    · -- buildParam
      intro p c st h
      cases p with
      | single k opt =>
        simp only [buildParam]
        refine ⟨ihS k opt c st h, ?_⟩
        intro ⟨v, hv⟩ k' hk'
        cases opt with
        | true => simp [reqSingles] at hk'
        | false =>
          simp only [reqSingles, Bool.false_eq_true, if_false, List.mem_singleton] at hk'
          subst hk'
          cases fuel with
          | zero => simp [buildSingle, EM.fail] at hv
          | succ f =>
            cases hbs : buildSingle ctx (f + 1) k' false c st with
            | mk r s' =>
              rw [hbs] at hv
              simp only at hv
              subst hv
              rcases buildSingle_ok_has ctx f k' false c st v s' hbs with h1 | h1
              · cases h1
              · exact h1
      | grouped ty k soft fl =>
        simp only [buildParam]
        exact ⟨ihG k soft c st h, fun _ k' hk' => by simp [reqSingles] at hk'⟩
      | object ty fs =>
        simp only [buildParam]
        -- the non-soft fields, then the soft ones
        have hstep : ∀ (l : List Param) (st : St), Deps st →
            Deps (mapM' l (fun f => buildParam ctx fuel f c) st).2 ∧
            ((∃ bs, (mapM' l (fun f => buildParam ctx fuel f c) st).1 = .ok bs) →
              ∀ f ∈ l, ∀ k ∈ reqSingles f, HasKey (mapM' l (fun f => buildParam ctx fuel f c) st).2 c k) :=
          fun l st hst => inv_mapM_post Deps (fun f s => ∀ k ∈ reqSingles f, HasKey s c k) l _
            (fun f _ s hs => ihP f c s hs)
            (fun f g _ s hq k hk => (hq k hk).mono ((kk_engine ctx fuel).2.2.2.2.1 g c s)) st hst
        unfold EM.bind
        obtain ⟨hd1, hp1⟩ := hstep (fs.filter fun f => !isSoft f) st h
        cases h1 : mapM' (fs.filter fun f => !isSoft f) (fun f => buildParam ctx fuel f c) st with
        | mk r1 s1 =>
          rw [h1] at hd1 hp1
          cases r1 with
          | error e => exact ⟨hd1, fun ⟨v, hv⟩ => by cases hv⟩
          | ok hard =>
            simp only
            obtain ⟨hd2, _⟩ := hstep (fs.filter isSoft) s1 hd1
            have hkk2 : KK s1 (mapM' (fs.filter isSoft) (fun f => buildParam ctx fuel f c) s1).2 := by
              have := (kk_engine ctx (fuel + 1)).2.2.2.2.2 (fs.filter isSoft) c s1
              simpa [buildList] using this
            cases h2 : mapM' (fs.filter isSoft) (fun f => buildParam ctx fuel f c) s1 with
            | mk r2 s2 =>
              rw [h2] at hd2 hkk2
              cases r2 with
              | error e => exact ⟨hd2, fun ⟨v, hv⟩ => by cases hv⟩
              | ok soft =>
                refine ⟨hd2, fun _ k hk => ?_⟩
                simp only [reqSingles] at hk
                obtain ⟨f, hf, hkf⟩ := mem_reqSinglesL.mp hk
                have hns : (!isSoft f) = true := by
                  cases f with
                  | single _ _ => rfl
                  | grouped _ _ _ _ => simp [reqSingles] at hkf
                  | object _ _ => rfl
                exact (hp1 ⟨hard, rfl⟩ f (List.mem_filter.mpr ⟨hf, hns⟩) k hkf).mono hkk2
    · -- buildList
      intro ps c st h
      simp only [buildList]
      obtain ⟨hd, hp⟩ := inv_mapM_post Deps (fun f s => ∀ k ∈ reqSingles f, HasKey s c k) ps _
        (fun f _ s hs => ihP f c s hs)
        (fun f g _ s hq k hk => (hq k hk).mono ((kk_engine ctx fuel).2.2.2.2.1 g c s)) st h
      refine ⟨hd, fun hok k hk => ?_⟩
      obtain ⟨f, hf, hkf⟩ := mem_reqSinglesL.mp hk
      exact hp hok f hf k hkf

end Dig

namespace Dig

/-! ### the API -/

theorem ancestors_mem_lt {st : St} {c s : Nat} (h : s ∈ st.ancestors c) : c < st.scopes.length := by
  by_cases hc : c < st.scopes.length
  · exact hc
  · exfalso
    unfold St.ancestors at h
    have hnone : st.scopes[c]? = none := List.getElem?_eq_none (Nat.le_of_not_lt hc)
    cases hl : st.scopes.length with
    | zero => rw [hl] at h; simp [ancestorsAux] at h
    | succ f => rw [hl] at h; simp [ancestorsAux, hnone] at h

/-- what `Deps` needs to survive an operation -/
structure Fr (a b : St) : Prop where
  anc : ∀ c, c < a.scopes.length → b.ancestors c = a.ancestors c
  vals : ∀ S k, (aget (a.scope S).values k).isSome = true → (aget (b.scope S).values k).isSome = true
  dvals : ∀ S k, (aget (a.scope S).decoratedValues k).isSome = true → (aget (b.scope S).decoratedValues k).isSome = true
  ctor : ∀ n, (b.ctor n).called = true →
    (a.ctor n).called = true ∧ (b.ctor n).params = (a.ctor n).params ∧ (b.ctor n).origS = (a.ctor n).origS
  deco : ∀ d, (b.deco d).state = .called →
    (a.deco d).state = .called ∧ (b.deco d).params = (a.deco d).params ∧ (b.deco d).s = (a.deco d).s

theorem HasKey.frame {a b : St} (hf : Fr a b) {c : Nat} {k : Key} (h : HasKey a c k) : HasKey b c k := by
  obtain ⟨s, hs, hv⟩ := h
  refine ⟨s, by rw [hf.anc c (ancestors_mem_lt hs)]; exact hs, ?_⟩
  rcases hv with hv | hv
  · exact Or.inl (hf.dvals s k hv)
  · exact Or.inr (hf.vals s k hv)

theorem Deps.frame {a b : St} (h : Deps a) (hf : Fr a b) : Deps b where
  ctor n hn k hk := by
    obtain ⟨h1, h2, h3⟩ := hf.ctor n hn
    rw [h2] at hk; rw [h3]
    exact (h.ctor n h1 k hk).frame hf
  deco d hd k hk := by
    obtain ⟨h1, h2, h3⟩ := hf.deco d hd
    rw [h2] at hk; rw [h3]
    exact (h.deco d h1 k hk).frame hf

theorem Fr.trans {a b c : St} (h1 : Fr a b) (h2 : Fr b c) (hl : a.scopes.length ≤ b.scopes.length) : Fr a c where
  anc x hx := by rw [h2.anc x (by omega), h1.anc x hx]
  vals S k h := h2.vals S k (h1.vals S k h)
  dvals S k h := h2.dvals S k (h1.dvals S k h)
  ctor n hn := by
    obtain ⟨a1, a2, a3⟩ := h2.ctor n hn
    obtain ⟨b1, b2, b3⟩ := h1.ctor n a1
    exact ⟨b1, a2.trans b2, a3.trans b3⟩
  deco d hd := by
    obtain ⟨a1, a2, a3⟩ := h2.deco d hd
    obtain ⟨b1, b2, b3⟩ := h1.deco d a1
    exact ⟨b1, a2.trans b2, a3.trans b3⟩

theorem ancestors_of_parents {a b : St} (hl : b.scopes.length = a.scopes.length)
    (hp : ∀ j, (b.scope j).parent = (a.scope j).parent) (c : Nat) : b.ancestors c = a.ancestors c := by
  unfold St.ancestors
  rw [hl]
  exact ancestorsAux_congr _ _ hl (fun j => hp j) _ _

/-- same tree, same caches, same nodes -/
theorem fr_of_same {a b : St} (hl : b.scopes.length = a.scopes.length)
    (hs : ∀ j, (b.scope j).parent = (a.scope j).parent ∧ (b.scope j).values = (a.scope j).values ∧
      (b.scope j).decoratedValues = (a.scope j).decoratedValues)
    (hc : b.ctors = a.ctors) (hd : b.decos = a.decos) : Fr a b where
  anc c _ := ancestors_of_parents hl (fun j => (hs j).1) c
  vals S k h := by rw [(hs S).2.1]; exact h
  dvals S k h := by rw [(hs S).2.2]; exact h
  ctor n hn := by
    have : b.ctor n = a.ctor n := by simp only [St.ctor, hc]
    rw [this] at hn ⊢; exact ⟨hn, rfl, rfl⟩
  deco d hn := by
    have : b.deco d = a.deco d := by simp only [St.deco, hd]
    rw [this] at hn ⊢; exact ⟨hn, rfl, rfl⟩

end Dig

