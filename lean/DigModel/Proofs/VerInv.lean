import DigModel.Proofs.DeferSim
/-
  The `isVerifiedAcyclic` flags mean what they say, with or without DeferAcyclicVerification: in every reachable
  container a scope flagged as verified has an acyclic graph (`VA`).  Provide clears the flag of the target scope and
  of every descendant — the only scopes whose graph it can change — and a parse only adds nodes without incoming
  edges.
-/
namespace Dig

def flagsOf (st : St) : Nat → Bool := fun j => (st.scope j).verified

theorem vset_self (st : St) : vset (flagsOf st) st = st := by
  have h : EqButVerified st st :=
    ⟨rfl, rfl, rfl, rfl, rfl, rfl, rfl, rfl, fun _ => ⟨rfl, rfl, rfl, rfl, rfl, rfl, rfl, rfl, rfl, rfl⟩⟩
  exact (eqV_vset h).symm

theorem vset_verified (g : Nat → Bool) (st : St) (j : Nat) (hj : j < st.scopes.length) : ((vset g st).scope j).verified = g j := by
  rw [vset_scope, if_pos hj]

/-- an operation that commutes with the reassignment of flags keeps the flags -/
theorem flags_of_comm {F : St → St} (st : St) (hF : F (vset (flagsOf st) st) = vset (flagsOf st) (F st)) (j : Nat)
    (hj : j < (F st).scopes.length) : ((F st).scope j).verified = (st.scope j).verified := by
  rw [vset_self] at hF
  have := vset_verified (flagsOf st) (F st) j hj
  rw [← hF] at this
  exact this

theorem parseParams_verified (env : TyEnv) (st : St) (s : Nat) (fn : Fn) (j : Nat) (hj : j < st.scopes.length) :
    (((Dig.parseParams env st s fn).2).scope j).verified = (st.scope j).verified := by
  apply flags_of_comm (F := fun x => (Dig.parseParams env x s fn).2) st
  · show (Dig.parseParams env (vset (flagsOf st) st) s fn).2 = _
    rw [vset_parseParams]
  · show j < (Dig.parseParams env st s fn).2.scopes.length
    rw [(grow_parseParams env st s fn).len]; exact hj

/-- a scope flagged as verified has an acyclic graph -/
def VA (st : St) : Prop := ∀ s, s < st.scopes.length → (st.scope s).verified = true → checkAcyclic st s = .acyclic

theorem VA.init : VA ({} : St) := by
  intro s hs _
  exact EA.init s hs

theorem VA.of_ea {st : St} (h : EA st) : VA st := fun s hs _ => h s hs

/-- graphs as before, no new flag -/
theorem VA.graphSame {a b : St} (h : VA a) (hg : GraphSame a b) (hf : ∀ s, (b.scope s).verified = true → (a.scope s).verified = true) :
    VA b := by
  intro s hs hv
  rw [← hg.checkAcyclic s]
  exact h s (by rw [hg.2.2.1]; exact hs) (hf s hv)

theorem VA.regFrame {a b : St} (h : VA a) (hf : RegFrame a b) : VA b := by
  intro s hs hv
  rw [(localSame_regFrame hf s).checkAcyclic]
  exact h s (by rw [hf.1]; exact hs) (by rw [(hf.2.1 s).2.2.2.2.2.2]; exact hv)

theorem VA.parseParams {st : St} (h : VA st) (hg : GT st) (hp : PG st) (ho : OB st) (env : TyEnv) (sc : Nat) (fn : Fn) :
    VA (Dig.parseParams env st sc fn).2 := by
  intro s hs hv
  have hl := (grow_parseParams env st sc fn).len
  have hs' : s < st.scopes.length := by rw [← hl]; exact hs
  rw [parseParams_verified env st sc fn s hs'] at hv
  exact acyclic_parseParams hg hp ho env sc fn s hs' (h s hs' hv)

theorem VA.scope {st : St} (h : VA st) (hg : GT st) (hp : PG st) (parent : Nat) (hpl : parent < st.scopes.length) :
    VA (apiScope st parent) := by
  intro s hs hv
  obtain ⟨hlen, hsc⟩ := apiScope_scope st parent hpl
  rw [hlen] at hs
  rw [(localSame_scope hg hp parent hpl s hs).checkAcyclic]
  rw [hsc s] at hv
  by_cases h1 : s = st.scopes.length
  · rw [if_pos h1] at hv; cases hv
  · rw [if_neg h1] at hv ⊢
    have hs' : s < st.scopes.length := by omega
    by_cases h2 : s = parent
    · rw [if_pos h2] at hv; subst h2; exact h s hs' hv
    · rw [if_neg h2] at hv; exact h s hs' hv

theorem VA.resetLog {st : St} (h : VA st) : VA { st with log := [] } :=
  h.graphSame ⟨rfl, rfl, rfl, fun _ => ⟨rfl, rfl, rfl⟩⟩ (fun _ hv => hv)

end Dig

namespace Dig

theorem modScope_verified (st : St) (s : Nat) (f : ScopeSt → ScopeSt) (hf : ∀ x, (f x).verified = x.verified) (j : Nat) :
    ((st.modScope s f).scope j).verified = (st.scope j).verified := by
  rw [scope_modScope]
  split
  · exact hf _
  · rfl

theorem rollbackProvide_verified (st0 w : St) (target : Nat) (scopes : List Nat) (j : Nat) :
    ((rollbackProvide st0 w target scopes).scope j).verified = (w.scope j).verified := by
  unfold rollbackProvide
  have hfold : ∀ (l : List Nat) (v : St),
      ((l.foldl (fun w sc => w.modScope sc fun x => { x with gh := x.gh.take (st0.scope sc).gh.length }) v).scope j).verified =
        (v.scope j).verified := by
    intro l
    induction l with
    | nil => intro v; rfl
    | cons x xs ih =>
      intro v
      simp only [List.foldl_cons]
      rw [ih]
      apply modScope_verified; intro _; rfl
  show ((St.modScope _ target _).scope j).verified = _
  refine Eq.trans ?_ (hfold scopes w)
  apply modScope_verified; intro _; rfl

theorem VA.decorate {st : St} (h : VA st) (hg : GT st) (hp : PG st) (ho : OB st) (ctx : Ctx) (fn : Fn) (i s : Nat) (cb info : Bool) :
    VA (apiDecorate ctx fn st i s cb info).1 := by
  unfold apiDecorate
  cases fn.nonfunc with
  | some _ => exact h
  | none =>
    simp only
    have hw1 := work_parseParams (Work.refl st s) ctx.env fn
    have h1 := h.parseParams hg hp ho ctx.env s fn
    have hl := (grow_parseParams ctx.env st s fn).len
    have hfl := parseParams_verified ctx.env st s fn
    have hrej : ∀ e : DErr, VA (rollbackProvide st (Dig.parseParams ctx.env st s fn).2 s (st.subscopes s), ({ v := .err e } : RegRes)).1 := by
      intro e
      have heq := rollback_restores hw1
      refine h.graphSame (graphSame_of_eqButVerified heq) (fun j hv => ?_)
      rw [rollbackProvide_verified] at hv
      by_cases hj : j < st.scopes.length
      · rw [hfl j hj] at hv; exact hv
      · have : (Dig.parseParams ctx.env st s fn).2.scope j = default := by
          unfold St.scope; simp only [List.getD_eq_getElem?_getD]; rw [List.getElem?_eq_none (by rw [hl]; omega)]; rfl
        rw [this] at hv; cases hv
    cases hpp : Dig.parseParams ctx.env st s fn with
    | mk r w1 =>
      rw [hpp] at h1 hrej
      simp only at h1 hrej
      cases r with
      | error e1 => exact hrej .invalid0
      | ok params =>
        simp only
        cases newResultList ctx.env {} fn with
        | error e2 => exact hrej .invalid0
        | ok results =>
          simp only
          cases resultKeys ctx.env (slotResults results) with
          | error e3 => exact hrej .invalid0
          | ok keys =>
            simp only
            split
            · exact hrej .invalid0
            · have e1 : VA ({ w1 with decos := w1.decos ++ [({ fn := fn, params := params, results := results, s := s, cb := if cb then some i else none } : DecoNode)] } : St) :=
                h1.graphSame ⟨rfl, rfl, rfl, fun _ => ⟨rfl, rfl, rfl⟩⟩ (fun _ hv => hv)
              refine e1.graphSame (graphSame_modScope _ s _ (fun _ => ⟨rfl, rfl, rfl⟩)) (fun j hv => ?_)
              refine Eq.trans (Eq.symm ?_) hv
              apply modScope_verified; intro _; rfl

end Dig

namespace Dig

theorem VA.invoke {st : St} (h : VA st) (hg : GT st) (hp : PG st) (ho : OB st) (ctx : Ctx) (fn : Fn) (s : Nat)
    (info : Bool) : VA (apiInvoke ctx fn st s info).1 := by
  rw [apiInvoke_eq]
  unfold apiInvoke'
  cases fn.nonfunc with
  | some _ => exact h
  | none =>
    simp only
    have h1 := h.parseParams hg hp ho ctx.env s fn
    have hrb := parse_rollback_eq ctx.env st s fn
    have hl := (grow_parseParams ctx.env st s fn).len
    cases hpp : Dig.parseParams ctx.env st s fn with
    | mk r w =>
      rw [hpp] at h1 hrb hl
      simp only at h1 hrb hl
      cases r with
      | error e => simp only; rw [hrb]; exact h
      | ok params =>
        simp only
        have hs := shallowCheck_state s params w
        cases hsc : shallowCheck s params w with
        | mk r2 w2 =>
          rw [hsc] at hs; simp only at hs; subst hs
          cases r2 with
          | error f => exact h1
          | ok u =>
            simp only
            cases hck : invokeCheck w2 s with
            | error v => exact h1
            | ok w3 =>
              simp only
              have h3 : VA w3 := by
                unfold invokeCheck at hck
                split at hck
                · injection hck with e; rw [← e]; exact h1
                · cases hca : checkAcyclic w2 s with
                  | acyclic =>
                    rw [hca] at hck
                    simp only at hck
                    injection hck with e; rw [← e]
                    intro j hj hv
                    have hgs : GraphSame w2 (w2.modScope s fun x => { x with verified := true }) :=
                      graphSame_modScope w2 s _ (fun _ => ⟨rfl, rfl, rfl⟩)
                    rw [← hgs.checkAcyclic j]
                    by_cases hjs : j = s
                    · rw [hjs]; exact hca
                    · rw [scope_modScope, if_neg (fun hc => hjs hc.1.symm)] at hv
                      exact h1 j (by simpa [St.modScope] using hj) hv
                  | cycle p => rw [hca] at hck; cases hck
                  | outOfRange => rw [hca] at hck; cases hck
                  | fuel => rw [hca] at hck; cases hck
              unfold invokeRun
              have hb : VA (EM.wrapErr (buildList ctx (engineFuel w3 params) params s) DErr.argsFailed w3).2 := by
                rw [wrapErr_state]
                exact h3.regFrame (buildList_regFrame ctx _ params s w3)
              cases hbl : EM.wrapErr (buildList ctx (engineFuel w3 params) params s) DErr.argsFailed w3 with
              | mk r4 w4 =>
                rw [hbl] at hb
                simp only at hb
                cases r4 with
                | error f => exact hb
                | ok args =>
                  simp only
                  have hf := callBody_fields ctx .invoked fn args w4
                  exact hb.regFrame (regFrame_of_same _ _ hf.1.symm hf.2.1.symm hf.2.2.1.symm hf.2.2.2.symm)

/-- with DeferAcyclicVerification the loop clears the flag of every scope it visits and sets none -/
theorem verifyScopes_defer_flags (cfg : Cfg) (hd : cfg.deferAcyclic = true) : ∀ (l : List Nat) (w : St) (j : Nat),
    ((Dig.verifyScopes cfg l w).2.scope j).verified = true → (w.scope j).verified = true ∧ (j ∉ l ∨ w.scopes.length ≤ j) := by
  intro l
  induction l with
  | nil => intro w j hv; exact ⟨hv, Or.inl (by simp)⟩
  | cons sc rest ih =>
    intro w j hv
    simp only [Dig.verifyScopes, hd, if_true] at hv
    obtain ⟨h1, h2⟩ := ih _ j hv
    rw [scope_modScope] at h1
    by_cases hc : sc = j ∧ j < w.scopes.length
    · rw [if_pos hc] at h1; cases h1
    · rw [if_neg hc] at h1
      refine ⟨h1, ?_⟩
      have hlen : (w.modScope sc fun x => { x with verified := false }).scopes.length = w.scopes.length := by simp [St.modScope]
      rw [hlen] at h2
      rcases h2 with h2 | h2
      · by_cases hlt : j < w.scopes.length
        · left
          simp only [List.mem_cons, not_or]
          exact ⟨fun e => hc ⟨e.symm, hlt⟩, h2⟩
        · right; omega
      · right; exact h2

end Dig

namespace Dig

theorem verified_lt {st : St} {j : Nat} (h : (st.scope j).verified = true) : j < st.scopes.length := by
  by_cases hj : j < st.scopes.length
  · exact hj
  · have : st.scope j = default := by
      unfold St.scope; simp only [List.getD_eq_getElem?_getD]; rw [List.getElem?_eq_none (by omega)]; rfl
    rw [this] at h; cases h

theorem provideRegister_flags (ctx : Ctx) (fn : Fn) (st : St) (i s : Nat) (o : ProvideOpts) :
    match provideRegister ctx fn st i s o with
    | .error r => ∀ j, (r.1.scope j).verified = true → (st.scope j).verified = true
    | .ok (_, _, _, _, w) => ∀ j, (w.scope j).verified = true → (st.scope j).verified = true := by
  have h := vset_provideRegister (flagsOf st) ctx fn st i s o
  rw [vset_self] at h
  cases hreg : provideRegister ctx fn st i s o with
  | error r =>
    rw [hreg] at h
    simp only at h ⊢
    injection h with h
    intro j hv
    have hr : r.1 = vset (flagsOf st) r.1 := congrArg Prod.fst h
    have hlt := verified_lt hv
    rw [hr, vset_verified _ _ _ hlt] at hv
    exact hv
  | ok t =>
    obtain ⟨target, params, results, n, w⟩ := t
    rw [hreg] at h
    simp only at h ⊢
    injection h with h
    intro j hv
    have hr : w = vset (flagsOf st) w := by
      have := congrArg (fun x => x.2.2.2.2) h
      exact this
    have hlt := verified_lt hv
    rw [hr, vset_verified _ _ _ hlt] at hv
    exact hv

theorem VA.provide {st : St} (h : VA st) (hg : GT st) (hp : PG st) (ho : OB st) (ctx : Ctx) (hd : ctx.cfg.deferAcyclic = true)
    (fn : Fn) (i s : Nat) (o : ProvideOpts) : VA (apiProvide ctx fn st i s o).1 := by
  have hres := apiProvide_reg ctx fn st i s o
  have hfl := provideRegister_flags ctx fn st i s o
  rw [apiProvide_eq] at hres ⊢
  unfold apiProvide' at hres ⊢
  cases hreg : provideRegister ctx fn st i s o with
  | error r =>
    rw [hreg] at hres hfl
    simp only at hres hfl ⊢
    rcases hres with he | ⟨rs, ks, hadd⟩
    · exact h.graphSame (graphSame_of_eqButVerified he) hfl
    · exfalso
      have h1 := provideRegister_error_len ctx fn st i s o r hreg
      have h2 := hadd.len
      omega
  | ok t =>
    obtain ⟨target, params, results, n, w⟩ := t
    obtain ⟨hgw, hbw, htg, hlen, hsub, hn, hcl, hs, hfn, hw⟩ := provideRegister_inv hg ho ctx fn i s o target params results n w hreg
    rw [hreg] at hfl
    simp only at hfl ⊢
    unfold provideVerify
    have hw5 := work_verifyScopes (target := target) ctx.cfg (st.subscopes target) w hw
    have hok := verifyScopes_defer_ok ctx.cfg hd (st.subscopes target) w
    have hflg := verifyScopes_defer_flags ctx.cfg hd (st.subscopes target) w
    cases hvs : Dig.verifyScopes ctx.cfg (st.subscopes target) w with
    | mk r5 w5 =>
      rw [hvs] at hw5 hok hflg
      simp only at hw5 hok hflg
      subst hok
      simp only
      have hgs : GraphSame w5 (w5.modScope target fun x => { x with nodes := x.nodes ++ [n] }) :=
        graphSame_modScope _ target _ (fun _ => ⟨rfl, rfl, rfl⟩)
      intro j hj hv
      rw [← hgs.checkAcyclic j]
      have hv5 : (w5.scope j).verified = true := by
        refine Eq.trans (Eq.symm ?_) hv
        apply modScope_verified; intro _; rfl
      obtain ⟨hvw, hout⟩ := hflg j hv5
      have hj' : j < st.scopes.length := by rw [← hlen]; exact verified_lt hvw
      have hnin : j ∉ st.subscopes target := by
        rcases hout with h1 | h1
        · exact h1
        · omega
      rw [(localSame_work hw5 hg hp j hj' hnin).checkAcyclic]
      exact h j hj' (hfl j hvw)

end Dig

namespace Dig

/-- the invariants of the graph theorems plus "flagged means acyclic"; without DeferAcyclicVerification every view is
    acyclic anyway -/
structure VInv (cfg : Cfg) (st : St) : Prop where
  gt : GT st
  pg : PG st
  ob : OB st
  va : VA st
  ea : cfg.deferAcyclic = false → EA st

theorem VInv.init (cfg : Cfg) : VInv cfg ({} : St) := ⟨GT.init, PG.init, OB.init, VA.init, fun _ => EA.init⟩

theorem VInv.step {ctx : Ctx} {st : St} (h : VInv ctx.cfg st) (fns : List Fn) (i : Nat) (op : Op) :
    VInv ctx.cfg (Dig.step ctx fns st i op).1 := by
  cases hd : ctx.cfg.deferAcyclic with
  | false =>
    have he := (EagerInv.mk h.gt h.pg h.ob (h.ea hd)).step ctx hd fns i op
    exact ⟨he.gt, he.pg, he.ob, VA.of_ea he.ea, fun _ => he.ea⟩
  | true =>
    have hgt := h.gt.step ctx fns i op
    have hpg := h.pg.step h.gt ctx fns i op
    have h0 := h.va.resetLog
    have g0 := h.gt.resetLog
    have p0 := h.pg.resetLog
    have o0 := h.ob.resetLog
    refine ⟨hgt, hpg, ?_, ?_, fun hc => by rw [hd] at hc; cases hc⟩
    · cases op with
      | scope parent =>
        simp only [Dig.step]
        split
        · rename_i hp; exact o0.scope parent hp
        · exact o0
      | provide s f o =>
        simp only [Dig.step]
        split
        · split
          · exact (o0.provide ctx _ i s o).1
          · exact o0
        · exact o0
      | decorate s f cb info =>
        simp only [Dig.step]
        split
        · split
          · exact (o0.decorate ctx _ i s cb info).1
          · exact o0
        · exact o0
      | invoke s f info =>
        simp only [Dig.step]
        split
        · split
          · exact (o0.invoke ctx _ s info).1
          · exact o0
        · exact o0
      | visualize s e => cases e <;> (simp only [Dig.step]; split <;> exact o0)
      | string s => simp only [Dig.step]; split <;> exact o0
    · cases op with
      | scope parent =>
        simp only [Dig.step]
        split
        · rename_i hp; exact h0.scope g0 p0 parent hp
        · exact h0
      | provide s f o =>
        simp only [Dig.step]
        split
        · split
          · exact h0.provide g0 p0 o0 ctx hd _ i s o
          · exact h0
        · exact h0
      | decorate s f cb info =>
        simp only [Dig.step]
        split
        · split
          · exact h0.decorate g0 p0 o0 ctx _ i s cb info
          · exact h0
        · exact h0
      | invoke s f info =>
        simp only [Dig.step]
        split
        · split
          · exact h0.invoke g0 p0 o0 ctx _ s info
          · exact h0
        · exact h0
      | visualize s e => cases e <;> (simp only [Dig.step]; split <;> exact h0)
      | string s => simp only [Dig.step]; split <;> exact h0

theorem VInv.runOps (ctx : Ctx) (fns : List Fn) : ∀ (ops : List Op) (i : Nat) (st : St)
    (acc : List OpRes), VInv ctx.cfg st → VInv ctx.cfg (Dig.runOps ctx fns ops i st acc).1 := by
  intro ops
  induction ops with
  | nil => intro i st acc h; exact h
  | cons op rest ih =>
    intro i st acc h
    simp only [Dig.runOps]
    exact ih _ _ _ (h.step fns i op)

/-- **in every reachable container, with or without DeferAcyclicVerification, a scope flagged as verified has an
    acyclic graph** -/
theorem verified_means_acyclic (p : Program) (s : Nat) (hv : ((runProgram p).1.scope s).verified = true) :
    checkAcyclic (runProgram p).1 s = .acyclic :=
  (VInv.runOps p.ctx p.fns p.ops 0 {} [] (VInv.init _)).va s (verified_lt hv) hv

end Dig
