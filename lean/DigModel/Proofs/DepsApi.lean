import DigModel.Proofs.Deps
import DigModel.Proofs.GraphMeaningApi
import DigModel.Proofs.CalledExit
/-
  `Deps` through the API, and what a successful Invoke leaves behind.
-/
namespace Dig

theorem copyOrder_fold_origS (child parent : Nat) : ∀ (l : List GNode) (w : St) (j : Nat),
    ((l.foldl (copyOrder child parent) w).ctor j).origS = (w.ctor j).origS := by
  intro l
  induction l with
  | nil => intro w j; rfl
  | cons x xs ih =>
    intro w j
    simp only [List.foldl_cons]
    rw [ih]
    cases x with
    | ctor n =>
      simp only [copyOrder]
      rw [ctor_modCtor]
      split <;> rfl
    | pg i => rfl

theorem fr_apiScope {st : St} (ht : TreeInv st) (parent : Nat) (hp : parent < st.scopes.length) : Fr st (apiScope st parent) := by
  let c : ScopeSt := { parent := some parent, gh := (st.scope parent).gh }
  let st1 : St := { st with scopes := st.scopes ++ [c] }
  let st2 : St := st1.modScope parent fun x => { x with children := x.children ++ [st.scopes.length] }
  have hdef : apiScope st parent = (st.scope parent).gh.foldl (copyOrder st.scopes.length parent) st2 := rfl
  have hcs := cacheSame_apiScope st parent
  have hd2 := apiScope_ctorDesc2 st parent
  have hor : ∀ j, ((apiScope st parent).ctor j).origS = (st.ctor j).origS := by
    intro j; rw [hdef, copyOrder_fold_origS]; rfl
  have hdec : (apiScope st parent).decos = st.decos := by
    rw [hdef]; exact (copyOrder_fold st.scopes.length parent (st.scope parent).gh st2).2.1
  refine ⟨(apiScope_ancestors ht parent hp).1, fun S k h => by rw [(hcs.2.2 S).1]; exact h,
    fun S k h => by rw [(hcs.2.2 S).2.1]; exact h, fun n hn => ?_, fun d hd => ?_⟩
  · obtain ⟨_, _, _, d4, d5⟩ := hd2 n
    exact ⟨by rw [← d5]; exact hn, d4, hor n⟩
  · have : (apiScope st parent).deco d = st.deco d := by simp only [St.deco, hdec]
    rw [this] at hd ⊢; exact ⟨hd, rfl, rfl⟩

end Dig

namespace Dig

theorem fr_of_eqV {a b : St} (h : EqButVerified a b) : Fr a b :=
  fr_of_same h.2.2.2.2.2.2.2.1.symm
    (fun j => ⟨((h.2.2.2.2.2.2.2.2 j).1).symm, ((h.2.2.2.2.2.2.2.2 j).2.2.2.2.1).symm, ((h.2.2.2.2.2.2.2.2 j).2.2.2.2.2.1).symm⟩)
    h.1.symm h.2.1.symm

theorem fr_apiProvide (ctx : Ctx) (fn : Fn) (st : St) (i s : Nat) (o : ProvideOpts) : Fr st (apiProvide ctx fn st i s o).1 := by
  have hcs := cacheSame_apiProvide ctx fn st i s o
  -- the tree
  have htree : (apiProvide ctx fn st i s o).1.scopes.length = st.scopes.length ∧
      ∀ j, ((apiProvide ctx fn st i s o).1.scope j).parent = (st.scope j).parent := by
    rcases apiProvide_work ctx fn st i s o with he | ⟨target, w, hw, hr | ⟨n, hr⟩⟩
    · exact ⟨he.2.2.2.2.2.2.2.1.symm, fun j => ((he.2.2.2.2.2.2.2.2 j).1).symm⟩
    · rw [hr]; exact ⟨hw.len, fun j => (hw.scope j).1⟩
    · rw [hr]
      refine ⟨by simp [St.modScope]; exact hw.len, fun j => ?_⟩
      rw [scope_modScope]
      split
      · exact (hw.scope j).1
      · exact (hw.scope j).1
  refine ⟨fun c _ => ancestors_of_parents htree.1 htree.2 c, fun S k h => by rw [(hcs.2.2 S).1]; exact h,
    fun S k h => by rw [(hcs.2.2 S).2.1]; exact h, ?_, ?_⟩
  · intro n hn
    rcases apiProvide_reg2 ctx fn st i s o with he | ⟨results, keys, hadd⟩
    · have : (apiProvide ctx fn st i s o).1.ctor n = st.ctor n := by simp only [St.ctor, he.1]
      rw [this] at hn ⊢; exact ⟨hn, rfl, rfl⟩
    · by_cases hlt : n < st.ctors.length
      · rw [hadd.pre n hlt] at hn ⊢; exact ⟨hn, rfl, rfl⟩
      · exfalso
        by_cases heq : n = st.ctors.length
        · rw [heq, hadd.fresh] at hn; cases hn
        · rw [default_ctor_of_ge _ n (by rw [hadd.len]; omega)] at hn; cases hn
  · intro d hd
    have hdec : (apiProvide ctx fn st i s o).1.decos = st.decos := by
      rcases apiProvide_reg2 ctx fn st i s o with he | ⟨results, keys, hadd⟩
      · exact he.2.1.symm
      · exact hadd.decos
    have : (apiProvide ctx fn st i s o).1.deco d = st.deco d := by simp only [St.deco, hdec]
    rw [this] at hd ⊢; exact ⟨hd, rfl, rfl⟩

/-- registering a decorator: a new node that has not run, and a scope's decorator table -/
theorem fr_addDeco {st w1 : St} {s : Nat} (hw1 : Work st w1 s) (hc : w1.ctors = st.ctors) (node : DecoNode) (hn : node.state = .ready)
    (f : ScopeSt → ScopeSt) (hf : ∀ x, (f x).parent = x.parent ∧ (f x).values = x.values ∧ (f x).decoratedValues = x.decoratedValues) :
    Fr st (({ w1 with decos := w1.decos ++ [node] } : St).modScope s f) := by
  have hsc : ∀ j, ((({ w1 with decos := w1.decos ++ [node] } : St).modScope s f).scope j).parent = (st.scope j).parent ∧
      ((({ w1 with decos := w1.decos ++ [node] } : St).modScope s f).scope j).values = (st.scope j).values ∧
      ((({ w1 with decos := w1.decos ++ [node] } : St).modScope s f).scope j).decoratedValues = (st.scope j).decoratedValues := by
    intro j
    have hb : (({ w1 with decos := w1.decos ++ [node] } : St).scope j) = w1.scope j := rfl
    rw [scope_modScope]
    split
    · rw [hb]
      exact ⟨(hf _).1.trans (hw1.scope j).1, (hf _).2.1.trans (hw1.scope j).2.2.2.1, (hf _).2.2.trans (hw1.scope j).2.2.2.2.1⟩
    · rw [hb]
      exact ⟨(hw1.scope j).1, (hw1.scope j).2.2.2.1, (hw1.scope j).2.2.2.2.1⟩
  refine ⟨fun c _ => ancestors_of_parents (by simp [St.modScope]; exact hw1.len) (fun j => (hsc j).1) c,
    fun S k h => by rw [(hsc S).2.1]; exact h, fun S k h => by rw [(hsc S).2.2]; exact h, fun n hn' => ?_, fun d hd => ?_⟩
  · have : (({ w1 with decos := w1.decos ++ [node] } : St).modScope s f).ctor n = st.ctor n := by
      show w1.ctors.getD n default = st.ctors.getD n default
      rw [hc]
    rw [this] at hn' ⊢; exact ⟨hn', rfl, rfl⟩
  · have hst : (({ w1 with decos := w1.decos ++ [node] } : St).modScope s f).deco d = (st.decos ++ [node]).getD d default := by
      show (w1.decos ++ [node]).getD d default = _
      rw [hw1.decos]
    by_cases hlt : d < st.decos.length
    · have : (st.decos ++ [node]).getD d default = st.deco d := by
        simp only [St.deco, List.getD_eq_getElem?_getD, List.getElem?_append_left hlt]
      rw [hst, this] at hd ⊢; exact ⟨hd, rfl, rfl⟩
    · exfalso
      rw [hst] at hd
      by_cases heq : d = st.decos.length
      · subst heq
        simp [List.getD_eq_getElem?_getD, hn] at hd
      · have : (st.decos ++ [node])[d]? = none := by
          apply List.getElem?_eq_none; simp; omega
        simp only [List.getD_eq_getElem?_getD, this] at hd
        cases hd

theorem fr_apiDecorate (ctx : Ctx) (fn : Fn) (st : St) (i s : Nat) (cb info : Bool) : Fr st (apiDecorate ctx fn st i s cb info).1 := by
  have hrefl : Fr st st := fr_of_same rfl (fun _ => ⟨rfl, rfl, rfl⟩) rfl rfl
  unfold apiDecorate
  cases fn.nonfunc with
  | some _ => exact hrefl
  | none =>
    simp only
    have hw1 := work_parseParams (Work.refl st s) ctx.env fn
    have hg1 := ghOnly_parseParams ctx.env st s fn
    have hrej : ∀ e : DErr, Fr st (rollbackProvide st (Dig.parseParams ctx.env st s fn).2 s (st.subscopes s), ({ v := .err e } : RegRes)).1 :=
      fun e => fr_of_eqV (rollback_restores hw1)
    cases hpp : Dig.parseParams ctx.env st s fn with
    | mk r w1 =>
      rw [hpp] at hrej hw1 hg1
      simp only at hrej hw1 hg1
      cases r with
      | error e1 => exact hrej .invalid0
      | ok params =>
        simp only
        cases newResultList ctx.env {} fn with
        | error e2 => exact hrej .invalid0
        | ok results =>
          simp only
          cases resultKeys ctx.env (slotResults results) with
          | error e3 => exact hrej .invalid0
          | ok keys =>
            simp only
            split
            · exact hrej .invalid0
            · exact fr_addDeco hw1 hg1.1.symm _ rfl _ (fun _ => ⟨rfl, rfl, rfl⟩)

end Dig

namespace Dig

theorem fr_ghOnly {a b : St} (h : GhOnly a b) : Fr a b :=
  fr_of_same h.2.2.2.2.2.2.1.symm
    (fun j => ⟨((h.2.2.2.2.2.2.2 j).1).symm, ((h.2.2.2.2.2.2.2 j).2.2.2.2.1).symm, ((h.2.2.2.2.2.2.2 j).2.2.2.2.2.1).symm⟩)
    h.1.symm h.2.1.symm

/-- Invoke keeps `Deps`; and when it succeeds, every required single dependency of the invoked function is cached on
    the path from the invoking scope -/
theorem Deps.invoke {st : St} (h : Deps st) (ctx : Ctx) (fn : Fn) (s : Nat) (info : Bool) :
    Deps (apiInvoke ctx fn st s info).1 ∧
    ((apiInvoke ctx fn st s info).2.v = .ok → ∃ params w, parseParams ctx.env st s fn = (.ok params, w) ∧
      ∀ k ∈ reqSinglesL params, HasKey (apiInvoke ctx fn st s info).1 s k) := by
  rw [apiInvoke_eq]
  unfold apiInvoke'
  cases fn.nonfunc with
  | some _ => exact ⟨h, fun hv => by simp at hv⟩
  | none =>
    simp only
    have hg := ghOnly_parseParams ctx.env st s fn
    have hw : Deps (parseParams ctx.env st s fn).2 := h.frame (fr_ghOnly hg)
    have hrb := parse_rollback_eq ctx.env st s fn
    cases hpp : parseParams ctx.env st s fn with
    | mk r w =>
      rw [hpp] at hw hg hrb
      simp only at hw hg hrb
      cases r with
      | error e => simp only; rw [hrb]; exact ⟨h, fun hv => by simp at hv⟩
      | ok params =>
        simp only
        have hs := shallowCheck_state s params w
        cases hsc : shallowCheck s params w with
        | mk r2 w2 =>
          rw [hsc] at hs; simp only at hs; subst hs
          cases r2 with
          | error f => exact ⟨hw, fun hv => by cases f <;> simp [failToVerdict] at hv⟩
          | ok u =>
            simp only
            cases hck : invokeCheck w2 s with
            | error v =>
              refine ⟨hw, fun hv => ?_⟩
              exfalso
              unfold invokeCheck at hck
              split at hck
              · cases hck
              · split at hck
                · cases hck
                · injection hck with e; rw [← e] at hv; cases hv
                · injection hck with e; rw [← e] at hv; cases hv
            | ok w3 =>
              simp only
              have hw3 : Deps w3 := by
                unfold invokeCheck at hck
                split at hck
                · injection hck with e; rw [← e]; exact hw
                · split at hck
                  · injection hck with e; rw [← e]
                    exact hw.frame (fr_of_same (by simp [St.modScope]) (fun j => by
                      rw [scope_modScope]; split <;> exact ⟨rfl, rfl, rfl⟩) rfl rfl)
                  · cases hck
                  · cases hck
              unfold invokeRun
              obtain ⟨hb, hpost⟩ := (deps_engine ctx (engineFuel w3 params)).2.2.2.2.2 params s w3 hw3
              have hws := wrapErr_state (buildList ctx (engineFuel w3 params) params s) DErr.argsFailed w3
              cases hbl : EM.wrapErr (buildList ctx (engineFuel w3 params) params s) DErr.argsFailed w3 with
              | mk r4 w4 =>
                rw [hbl] at hws; simp only at hws
                rw [← hws] at hb hpost
                cases r4 with
                | error f => exact ⟨hb, fun hv => by cases f <;> simp [failToVerdict] at hv⟩
                | ok args =>
                  simp only
                  have hok : ∃ v, (buildList ctx (engineFuel w3 params) params s w3).1 = .ok v := by
                    unfold EM.wrapErr at hbl
                    cases hb2 : buildList ctx (engineFuel w3 params) params s w3 with
                    | mk r s' =>
                      rw [hb2] at hbl
                      cases r with
                      | ok v => exact ⟨v, rfl⟩
                      | error f => cases f <;> simp at hbl
                  have hf := callBody_fields ctx .invoked fn args w4
                  have hfr : Fr w4 (callBody ctx .invoked fn args w4).2 :=
                    fr_of_same (by rw [hf.1]) (fun j => by rw [scope_of_scopes_eq hf.1 j]; exact ⟨rfl, rfl, rfl⟩) hf.2.1 hf.2.2.1
                  exact ⟨hb.frame hfr, fun _ => ⟨params, w2, rfl, fun k hk => (hpost hok k hk).frame hfr⟩⟩

end Dig

namespace Dig

theorem Deps.init : Deps ({} : St) where
  ctor n hn := by
    have : (({} : St).ctor n) = default := by simp [St.ctor]
    rw [this] at hn; cases hn
  deco d hd := by
    have : (({} : St).deco d) = default := by simp [St.deco]
    rw [this] at hd; cases hd

theorem Deps.opStep {st : St} (h : Deps st) (hg : GT st) (ctx : Ctx) (fns : List Fn) (i : Nat) (op : Op) :
    Deps (Dig.step ctx fns st i op).1 := by
  have h0 : Deps { st with log := [] } := h.frame (fr_of_same rfl (fun _ => ⟨rfl, rfl, rfl⟩) rfl rfl)
  have g0 := hg.resetLog
  cases op with
  | scope p =>
    simp only [Dig.step]
    split
    · rename_i hp; exact h0.frame (fr_apiScope g0.tree p hp)
    · exact h0
  | provide s f o =>
    simp only [Dig.step]
    split
    · split
      · exact h0.frame (fr_apiProvide ctx _ _ i s o)
      · exact h0
    · exact h0
  | decorate s f cb info =>
    simp only [Dig.step]
    split
    · split
      · exact h0.frame (fr_apiDecorate ctx _ _ i s cb info)
      · exact h0
    · exact h0
  | invoke s f info =>
    simp only [Dig.step]
    split
    · split
      · exact (h0.invoke ctx _ s info).1
      · exact h0
    · exact h0
  | visualize s e => cases e <;> (simp only [Dig.step]; split <;> exact h0)
  | string s => simp only [Dig.step]; split <;> exact h0

theorem Deps.runOps (ctx : Ctx) (fns : List Fn) : ∀ (ops : List Op) (i : Nat) (st : St) (acc : List OpRes),
    Deps st → GT st → Deps (Dig.runOps ctx fns ops i st acc).1 := by
  intro ops
  induction ops with
  | nil => intro i st acc h _; exact h
  | cons op rest ih =>
    intro i st acc h hg
    simp only [Dig.runOps]
    exact ih _ _ _ (h.opStep hg ctx fns i op) (hg.step ctx fns i op)

/-- **in every reachable container every built constructor and every decorator that has run has all its required single
    dependencies cached on the path from the scope it was built from** -/
theorem deps_program (p : Program) : Deps (runProgram p).1 :=
  Deps.runOps p.ctx p.fns p.ops 0 {} [] Deps.init GT.init

end Dig
