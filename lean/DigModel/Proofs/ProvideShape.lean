import DigModel.Proofs.History
/-
  Every outcome of `Provide` is one of: the container it started from up to `isVerifiedAcyclic` flags
  (rejections), or a container `Work`-related to it (the attempt's additions are all still in place:
  accepted, or the model's "dig panics" answers), possibly with the new constructor appended to `nodes`.
-/
namespace Dig

theorem apiProvide_work (ctx : Ctx) (fn : Fn) (st : St) (i s : Nat) (o : ProvideOpts) :
    EqButVerified st (apiProvide ctx fn st i s o).1 ∨
    ∃ target w, Work st w target ∧
      ((apiProvide ctx fn st i s o).1 = w ∨
       ∃ n, (apiProvide ctx fn st i s o).1 = w.modScope target fun x => { x with nodes := x.nodes ++ [n] }) := by
  have hrefl : EqButVerified st st := rollback_restores (Work.refl st 0) |> fun _ =>
    ⟨rfl, rfl, rfl, rfl, rfl, rfl, rfl, rfl, fun _ => ⟨rfl, rfl, rfl, rfl, rfl, rfl, rfl, rfl, rfl, rfl⟩⟩
  unfold apiProvide
  cases fn.nonfunc with
  | some _ => exact Or.inl hrefl
  | none =>
    simp only
    cases validateOpts ctx.env o with
    | error e' => exact Or.inl hrefl
    | ok as =>
      simp only
      generalize (if o.export_ then St.root else s) = target
      have hw1 := work_parseParams (Work.refl st target) ctx.env fn
      have hg1 := ghOnly_parseParams ctx.env st target fn
      cases hpp : parseParams ctx.env st target fn with
      | mk r w1 =>
        rw [hpp] at hw1 hg1
        simp only at hw1 hg1
        cases r with
        | error e1 => exact Or.inl (rollback_restores hw1)
        | ok params =>
          simp only
          cases newResultList ctx.env { name := o.name, group := o.group, as := as } fn with
          | error e2 => exact Or.inl (rollback_restores hw1)
          | ok results =>
            simp only
            let node : CtorNode := { fn := fn, params := params, results := results, s := target, origS := s, cb := if o.cb then some i else none }
            have hw3 := work_newGraphNode (work_addCtor hw1 node) (.ctor w1.ctors.length)
              (by show st.ctors.length ≤ w1.ctors.length; exact hw1.ctorsLen)
            generalize (St.newGraphNode { w1 with ctors := w1.ctors ++ [node] } target (.ctor w1.ctors.length)) = w3 at hw3
            cases visitKeys (w3.scope target) (slotResults results) [] with
            | error e3 => exact Or.inl (rollback_restores hw3)
            | ok keys =>
              cases keys with
              | nil => exact Or.inl (rollback_restores hw3)
              | cons k0 ks =>
                simp only
                have hsame : (w3.modScope target fun x =>
                    { x with providers := (k0 :: ks).foldl (fun m k => aset m k (agetL m k ++ [w1.ctors.length])) x.providers }) =
                    (w3.modScope target fun x =>
                    { x with providers := (k0 :: ks).foldl (fun m k => aset m k (agetL m k ++ [w1.ctors.length])) (w3.scope target).providers }) := by
                  unfold St.modScope
                  congr 1
                  apply List.ext_getElem?
                  intro j
                  simp only [List.getElem?_modify]
                  by_cases hj : target = j
                  · subst hj
                    cases hg : w3.scopes[target]? with
                    | none => rfl
                    | some x =>
                      have : w3.scope target = x := by
                        unfold St.scope; rw [List.getD_eq_getElem?_getD, hg]; rfl
                      simp [this]
                  · simp [hj]
                rw [hsame]
                have hw4 := work_modScope_providers hw3
                  ((k0 :: ks).foldl (fun m k => aset m k (agetL m k ++ [w1.ctors.length])) (w3.scope target).providers)
                generalize (w3.modScope target fun x =>
                    { x with providers := (k0 :: ks).foldl (fun m k => aset m k (agetL m k ++ [w1.ctors.length])) (w3.scope target).providers }) = w4 at hw4
                have hw5 := work_verifyScopes (target := target) ctx.cfg (st.subscopes target) w4 hw4
                cases hvs : verifyScopes ctx.cfg (st.subscopes target) w4 with
                | mk r5 w5 =>
                  rw [hvs] at hw5
                  simp only at hw5
                  cases r5 with
                  | ok u =>
                    simp only
                    exact Or.inr ⟨target, w5, hw5, Or.inr ⟨_, rfl⟩⟩
                  | error ec =>
                    obtain ⟨sc, cr⟩ := ec
                    cases cr with
                    | cycle p => exact Or.inl (rollback_restores hw5)
                    | acyclic => exact Or.inr ⟨target, w5, hw5, Or.inl rfl⟩
                    | outOfRange => exact Or.inr ⟨target, w5, hw5, Or.inl rfl⟩
                    | fuel => exact Or.inr ⟨target, w5, hw5, Or.inl rfl⟩

end Dig
