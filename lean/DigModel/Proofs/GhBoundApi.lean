import DigModel.Proofs.GhBound
import DigModel.Proofs.NoBugApi
/-
  `OB` in every reachable container; no operation of any program makes the model answer "dig panics".
-/
namespace Dig

theorem OB.verifyScopes {w : St} (h : OB w) (cfg : Cfg) (l : List Nat) : OB (verifyScopes cfg l w).2 :=
  h.graphSame (graphSame_verifyScopes cfg l w)

/-- the verification loop of Provide fails only by naming a cycle -/
theorem verifyScopes_err_cycle {w : St} (h : OB w) (cfg : Cfg) (l : List Nat) (sc : Nat) (r : CycleRes)
    (he : (verifyScopes cfg l w).1 = .error (sc, r)) : ∃ p, r = .cycle p := by
  obtain ⟨_, h2, h3⟩ := verifyScopes_err_check cfg l w sc r he
  have ht := checkAcyclic_total (h.verifyScopes cfg l) sc
  rw [h2] at ht
  cases r with
  | acyclic => exact absurd rfl h3
  | cycle p => exact ⟨p, rfl⟩
  | outOfRange => exact absurd rfl ht.1
  | fuel => exact absurd rfl ht.2

theorem OB.provide {st : St} (h : OB st) (ctx : Ctx) (fn : Fn) (i s : Nat) (o : ProvideOpts) :
    OB (apiProvide ctx fn st i s o).1 ∧ (apiProvide ctx fn st i s o).2.v ≠ .panicDig := by
  unfold apiProvide
  cases fn.nonfunc with
  | some _ => exact ⟨h, by intro hc; cases hc⟩
  | none =>
    simp only
    cases validateOpts ctx.env o with
    | error e' => exact ⟨h, by intro hc; cases hc⟩
    | ok as =>
      simp only
      generalize (if o.export_ then St.root else s) = target
      have hw1 := work_parseParams (Work.refl st target) ctx.env fn
      have ho1 := h.parseParams ctx.env target fn
      cases hpp : Dig.parseParams ctx.env st target fn with
      | mk r w1 =>
        rw [hpp] at hw1 ho1
        simp only at hw1 ho1
        cases r with
        | error e1 => exact ⟨h.eqButVerified (rollback_restores hw1), by intro hc; cases hc⟩
        | ok params =>
          simp only
          cases newResultList ctx.env { name := o.name, group := o.group, as := as } fn with
          | error e2 => exact ⟨h.eqButVerified (rollback_restores hw1), by intro hc; cases hc⟩
          | ok results =>
            simp only
            let node : CtorNode := { fn := fn, params := params, results := results, s := target, origS := s, cb := if o.cb then some i else none }
            have hw3 := work_newGraphNode (work_addCtor hw1 node) (.ctor w1.ctors.length)
              (by show st.ctors.length ≤ w1.ctors.length; exact hw1.ctorsLen)
            have ho3 := (ho1.addCtor node rfl).newGraphNode target (.ctor w1.ctors.length)
            generalize (St.newGraphNode { w1 with ctors := w1.ctors ++ [node] } target (.ctor w1.ctors.length)) = w3 at hw3 ho3
            cases hvk : visitKeys (w3.scope target) (slotResults results) [] with
            | error e3 => exact ⟨h.eqButVerified (rollback_restores hw3), by intro hc; cases hc⟩
            | ok keys =>
              cases keys with
              | nil => exact ⟨h.eqButVerified (rollback_restores hw3), by intro hc; cases hc⟩
              | cons k0 ks =>
                simp only
                have hsame : (w3.modScope target fun x =>
                    { x with providers := (k0 :: ks).foldl (fun m k => aset m k (agetL m k ++ [w1.ctors.length])) x.providers }) =
                    (w3.modScope target fun x =>
                    { x with providers := (k0 :: ks).foldl (fun m k => aset m k (agetL m k ++ [w1.ctors.length])) (w3.scope target).providers }) := by
                  unfold St.modScope
                  congr 1
                  apply List.ext_getElem?
                  intro j
                  simp only [List.getElem?_modify]
                  by_cases hj : target = j
                  · subst hj
                    cases hg : w3.scopes[target]? with
                    | none => rfl
                    | some x =>
                      have : w3.scope target = x := by
                        unfold St.scope; rw [List.getD_eq_getElem?_getD, hg]; rfl
                      simp [this]
                  · simp [hj]
                rw [hsame]
                have hw4 := work_modScope_providers hw3
                  ((k0 :: ks).foldl (fun m k => aset m k (agetL m k ++ [w1.ctors.length])) (w3.scope target).providers)
                have ho4 : OB (w3.modScope target fun x =>
                    { x with providers := (k0 :: ks).foldl (fun m k => aset m k (agetL m k ++ [w1.ctors.length])) (w3.scope target).providers }) :=
                  ho3.modScope target _ (fun _ => rfl)
                have hw5 := work_verifyScopes (target := target) ctx.cfg (st.subscopes target) _ hw4
                have ho5 := ho4.verifyScopes ctx.cfg (st.subscopes target)
                have herr := verifyScopes_err_cycle ho4 ctx.cfg (st.subscopes target)
                cases hvs : Dig.verifyScopes ctx.cfg (st.subscopes target) (w3.modScope target fun x =>
                    { x with providers := (k0 :: ks).foldl (fun m k => aset m k (agetL m k ++ [w1.ctors.length])) (w3.scope target).providers }) with
                | mk r5 w5 =>
                  rw [hvs] at hw5 ho5 herr
                  simp only at hw5 ho5 herr
                  cases r5 with
                  | ok u =>
                    simp only
                    exact ⟨ho5.modScope target _ (fun _ => rfl), by intro hc; cases hc⟩
                  | error ec =>
                    obtain ⟨sc, r⟩ := ec
                    obtain ⟨p, rfl⟩ := herr sc r rfl
                    simp only
                    exact ⟨h.eqButVerified (rollback_restores hw5), by intro hc; cases hc⟩

theorem OB.decorate {st : St} (h : OB st) (ctx : Ctx) (fn : Fn) (i s : Nat) (cb info : Bool) :
    OB (apiDecorate ctx fn st i s cb info).1 ∧ (apiDecorate ctx fn st i s cb info).2.v ≠ .panicDig := by
  unfold apiDecorate
  cases fn.nonfunc with
  | some _ => exact ⟨h, by intro hc; cases hc⟩
  | none =>
    simp only
    have hw1 := work_parseParams (Work.refl st s) ctx.env fn
    have ho1 := h.parseParams ctx.env s fn
    have hrej : ∀ e, OB (rollbackProvide st (Dig.parseParams ctx.env st s fn).2 s (st.subscopes s), ({ v := .err e } : RegRes)).1 ∧
        (rollbackProvide st (Dig.parseParams ctx.env st s fn).2 s (st.subscopes s), ({ v := .err e } : RegRes)).2.v ≠ .panicDig :=
      fun e => ⟨h.eqButVerified (rollback_restores hw1), by intro hc; cases hc⟩
    cases hpp : Dig.parseParams ctx.env st s fn with
    | mk r w1 =>
      rw [hpp] at ho1 hrej
      simp only at ho1 hrej
      cases r with
      | error e1 => exact hrej _
      | ok params =>
        simp only
        cases newResultList ctx.env {} fn with
        | error e2 => exact hrej _
        | ok results =>
          simp only
          cases resultKeys ctx.env (slotResults results) with
          | error e3 => exact hrej _
          | ok keys =>
            simp only
            split
            · exact hrej _
            · exact ⟨(ho1.addDeco _).modScope s _ (fun _ => rfl), by intro hc; cases hc⟩

end Dig

namespace Dig

theorem orderOf_nil (s : Nat) : orderOf [] s = 0 := rfl

theorem OB.copyOrder {w : St} (child parent : Nat) (hgl : (w.scope child).gh.length = (w.scope parent).gh.length)
    (h : OB w) (x : GNode) : OB (Dig.copyOrder child parent w x) ∧
      ∀ s, ((Dig.copyOrder child parent w x).scope s).gh = (w.scope s).gh := by
  cases x with
  | ctor n =>
    simp only [Dig.copyOrder]
    refine ⟨⟨?_, fun s i => h.pg s i⟩, fun _ => rfl⟩
    intro s m
    show Bnd (w.scope s).gh.length (orderOf ((w.modCtor n _).ctor m).orders s)
    rw [ctor_modCtor]
    split
    · simp only
      rw [orderOf_setOrder]
      split
      · rename_i hs; subst hs; rw [hgl]; exact h.ctor parent m
      · exact h.ctor s m
    · exact h.ctor s m
  | pg i =>
    simp only [Dig.copyOrder]
    refine ⟨⟨fun s m => h.ctor s m, ?_⟩, fun _ => rfl⟩
    intro s j
    show Bnd (w.scope s).gh.length (orderOf ((w.pgs.modify i _).getD j default).orders s)
    rw [getD_modify]
    split
    · simp only
      rw [orderOf_setOrder]
      split
      · rename_i hs; subst hs; rw [hgl]; exact h.pg parent j
      · exact h.pg s j
    · exact h.pg s j

theorem OB.copyOrderFold (child parent : Nat) : ∀ (l : List GNode) (w : St),
    (w.scope child).gh.length = (w.scope parent).gh.length → OB w → OB (l.foldl (Dig.copyOrder child parent) w) := by
  intro l
  induction l with
  | nil => intro w _ h; exact h
  | cons x xs ih =>
    intro w hgl h
    simp only [List.foldl_cons]
    obtain ⟨h1, h2⟩ := h.copyOrder child parent hgl x
    exact ih _ (by rw [h2 child, h2 parent]; exact hgl) h1

theorem OB.scope {st : St} (h : OB st) (parent : Nat) (hp : parent < st.scopes.length) : OB (apiScope st parent) := by
  let c : ScopeSt := { parent := some parent, gh := (st.scope parent).gh }
  let st1 : St := { st with scopes := st.scopes ++ [c] }
  let st2 : St := st1.modScope parent fun x => { x with children := x.children ++ [st.scopes.length] }
  have hdef : apiScope st parent = (st.scope parent).gh.foldl (Dig.copyOrder st.scopes.length parent) st2 := rfl
  rw [hdef]
  have hsc1 : ∀ j, st1.scope j = if j = st.scopes.length then c else st.scope j := by
    intro j
    simp only [St.scope, st1]
    rw [getD_append_one]
    by_cases hj : j < st.scopes.length
    · have : j ≠ st.scopes.length := by omega
      simp [hj, this]
    · by_cases hje : j = st.scopes.length
      · simp [hje]
      · have : st.scopes.getD j ({ parent := none } : ScopeSt) = { parent := none } := by
          rw [List.getD_eq_getElem?_getD]
          have : st.scopes[j]? = none := by simp; omega
          simp [this]
        simp [hj, hje, this]
  have hgh2 : ∀ j, (st2.scope j).gh = if j = st.scopes.length then (st.scope parent).gh else (st.scope j).gh := by
    intro j
    show ((st1.modScope parent _).scope j).gh = _
    rw [scope_modScope]
    have : (st1.scope j).gh = if j = st.scopes.length then (st.scope parent).gh else (st.scope j).gh := by
      rw [hsc1 j]; split <;> rfl
    split
    · exact this
    · exact this
  have hob2 : OB st2 := by
    refine ⟨?_, ?_⟩
    · intro s m
      show Bnd (st2.scope s).gh.length (orderOf (st.ctor m).orders s)
      rw [hgh2 s]
      split
      · rename_i hs; subst hs
        have h0 := h.ctor st.scopes.length m
        have hd : (st.scope st.scopes.length).gh = [] := by
          have : st.scope st.scopes.length = { parent := none } := by
            unfold St.scope
            rw [List.getD_eq_getElem?_getD]
            have : st.scopes[st.scopes.length]? = none := by simp
            simp [this]
          rw [this]
        rw [hd] at h0
        rcases h0 with h0 | h0
        · exact Or.inl h0
        · simp at h0
      · exact h.ctor s m
    · intro s i
      show Bnd (st2.scope s).gh.length (orderOf (st.pgs.getD i default).orders s)
      rw [hgh2 s]
      split
      · rename_i hs; subst hs
        have h0 := h.pg st.scopes.length i
        have hd : (st.scope st.scopes.length).gh = [] := by
          have : st.scope st.scopes.length = { parent := none } := by
            unfold St.scope
            rw [List.getD_eq_getElem?_getD]
            have : st.scopes[st.scopes.length]? = none := by simp
            simp [this]
          rw [this]
        rw [hd] at h0
        rcases h0 with h0 | h0
        · exact Or.inl h0
        · simp at h0
      · exact h.pg s i
  apply OB.copyOrderFold _ _ _ _ _ hob2
  rw [hgh2, hgh2, if_pos rfl, if_neg (by omega)]

theorem OB.invoke {st : St} (h : OB st) (ctx : Ctx) (fn : Fn) (s : Nat) (info : Bool) :
    OB (apiInvoke ctx fn st s info).1 ∧
    ∀ params w, Dig.parseParams ctx.env st s fn = (.ok params, w) → invokeCheck w s ≠ .error .panicDig := by
  have hchk : ∀ params w, Dig.parseParams ctx.env st s fn = (.ok params, w) → invokeCheck w s ≠ .error .panicDig := by
    intro params w hpp
    have ho1 := h.parseParams ctx.env s fn
    rw [hpp] at ho1
    simp only at ho1
    have ht := checkAcyclic_total ho1 s
    unfold invokeCheck
    split
    · intro hc; cases hc
    · cases hca : checkAcyclic w s with
      | acyclic => simp
      | cycle p => simp
      | outOfRange => exact absurd hca ht.1
      | fuel => exact absurd hca ht.2
  refine ⟨?_, hchk⟩
  rw [apiInvoke_eq]
  unfold apiInvoke'
  cases fn.nonfunc with
  | some _ => exact h
  | none =>
    simp only
    have ho1 := h.parseParams ctx.env s fn
    have hrb := parse_rollback_eq ctx.env st s fn
    cases hpp : Dig.parseParams ctx.env st s fn with
    | mk r w =>
      rw [hpp] at ho1 hrb
      simp only at ho1 hrb
      cases r with
      | error e => simp only; rw [hrb]; exact h
      | ok params =>
        simp only
        have hs := shallowCheck_state s params w
        cases hsc : shallowCheck s params w with
        | mk r2 w2 =>
          rw [hsc] at hs; simp only at hs; subst hs
          cases r2 with
          | error f => exact ho1
          | ok u =>
            simp only
            cases hck : invokeCheck w2 s with
            | error v => exact ho1
            | ok w3 =>
              simp only
              have ho3 : OB w3 := by
                unfold invokeCheck at hck
                split at hck
                · injection hck with e; rw [← e]; exact ho1
                · split at hck
                  · injection hck with e; rw [← e]; exact ho1.modScope s _ (fun _ => rfl)
                  · cases hck
                  · cases hck
              unfold invokeRun
              have hb : OB (EM.wrapErr (buildList ctx (engineFuel w3 params) params s) DErr.argsFailed w3).2 := by
                rw [wrapErr_state]
                exact ho3.regFrame (buildList_regFrame ctx _ params s w3)
              cases hbl : EM.wrapErr (buildList ctx (engineFuel w3 params) params s) DErr.argsFailed w3 with
              | mk r4 w4 =>
                rw [hbl] at hb
                simp only at hb
                cases r4 with
                | error f => exact hb
                | ok args =>
                  simp only
                  have hf := callBody_fields ctx .invoked fn args w4
                  exact hb.transfer (fun j => by rw [scope_of_scopes_eq hf.1 j]; exact Nat.le_refl _)
                    (fun m => by simp [St.ctor, hf.2.1]) (fun i => by rw [hf.2.2.2])

end Dig

namespace Dig

/-- everything the resolver and the graph check rely on -/
structure SafeInv (env : TyEnv) (st : St) : Prop where
  nb : NBInv env st
  ob : OB st

theorem SafeInv.init (env : TyEnv) : SafeInv env ({} : St) := ⟨NBInv.init env, OB.init⟩

theorem OB.resetLog {st : St} (h : OB st) : OB { st with log := [] } := ⟨h.ctor, h.pg⟩

theorem SafeInv.step {st : St} (ctx : Ctx) (h : SafeInv ctx.env st) (fns : List Fn) (i : Nat) (op : Op) :
    SafeInv ctx.env (Dig.step ctx fns st i op).1 ∧ (Dig.step ctx fns st i op).2.v ≠ .panicDig := by
  refine ⟨⟨h.nb.step ctx fns i op, ?_⟩, ?_⟩
  · have h0 := h.ob.resetLog
    cases op with
    | scope parent =>
      simp only [Dig.step]
      split
      · rename_i hp; exact h0.scope parent hp
      · exact h0
    | provide s f o =>
      simp only [Dig.step]
      split
      · split
        · exact (h0.provide ctx _ i s o).1
        · exact h0
      · exact h0
    | decorate s f cb info =>
      simp only [Dig.step]
      split
      · split
        · exact (h0.decorate ctx _ i s cb info).1
        · exact h0
      · exact h0
    | invoke s f info =>
      simp only [Dig.step]
      split
      · split
        · exact (h0.invoke ctx _ s info).1
        · exact h0
      · exact h0
    | visualize s e => cases e <;> (simp only [Dig.step]; split <;> exact h0)
    | string s => simp only [Dig.step]; split <;> exact h0
  · have h0 := h.ob.resetLog
    have hn0 := h.nb.resetLog
    cases op with
    | scope parent => simp only [Dig.step]; split <;> (intro hc; cases hc)
    | provide s f o =>
      simp only [Dig.step]
      split
      · split
        · exact (h0.provide ctx _ i s o).2
        · intro hc; cases hc
      · intro hc; cases hc
    | decorate s f cb info =>
      simp only [Dig.step]
      split
      · split
        · exact (h0.decorate ctx _ i s cb info).2
        · intro hc; cases hc
      · intro hc; cases hc
    | invoke s f info =>
      simp only [Dig.step]
      split
      · split
        · intro hc
          obtain ⟨params, w, hpp, hck⟩ := apiInvoke_nobug ctx hn0 _ s info hc
          exact (h0.invoke ctx _ s info).2 params w hpp hck
        · intro hc; cases hc
      · intro hc; cases hc
    | visualize s e => cases e <;> (simp only [Dig.step]; split <;> (intro hc; cases hc))
    | string s => simp only [Dig.step]; split <;> (intro hc; cases hc)

theorem runOps_safe (ctx : Ctx) (fns : List Fn) : ∀ (ops : List Op) (i : Nat) (st : St) (acc : List OpRes),
    SafeInv ctx.env st → (∀ r ∈ acc, r.v ≠ .panicDig) →
    SafeInv ctx.env (Dig.runOps ctx fns ops i st acc).1 ∧ ∀ r ∈ (Dig.runOps ctx fns ops i st acc).2, r.v ≠ .panicDig := by
  intro ops
  induction ops with
  | nil =>
    intro i st acc h hacc
    refine ⟨h, ?_⟩
    intro r hr
    simp only [Dig.runOps, List.mem_reverse] at hr
    exact hacc r hr
  | cons op rest ih =>
    intro i st acc h hacc
    simp only [Dig.runOps]
    obtain ⟨h1, h2⟩ := h.step ctx fns i op
    cases hs : Dig.step ctx fns st i op with
    | mk st' r0 =>
      rw [hs] at h1 h2
      apply ih _ _ _ h1
      intro r hr
      rcases List.mem_cons.mp hr with e | hr
      · rw [e]; exact h2
      · exact hacc r hr

/-- **no program makes dig panic by itself**: whatever is registered, in whatever order and scopes, and whatever the
    user functions do, no operation ends with a panic raised by the library's own code paths that the model follows
    (an index outside a graph holder, a recursion the acyclicity check cannot finish, a built value or a decorated
    value missing from the cache it was just stored in, a provider without its declared key) -/
theorem program_never_panics (p : Program) : ∀ r ∈ (runProgram p).2, r.v ≠ .panicDig :=
  (runOps_safe p.ctx p.fns p.ops 0 {} [] (SafeInv.init _) (by intro r hr; cases hr)).2

theorem program_safeInv (p : Program) : SafeInv p.types (runProgram p).1 :=
  (runOps_safe p.ctx p.fns p.ops 0 {} [] (SafeInv.init _) (by intro r hr; cases hr)).1

end Dig
