import DigModel.Proofs.GraphMeaningThm
/-
  Dependencies through value groups: a constructor depends on the graph node of each of its value-group parameters,
  and that node depends on every visible provider of the group.
-/
namespace Dig

mutual
/-- graph nodes of the value-group parameters of a parameter tree -/
def pgsOf : Param → List Nat
  | .single _ _ => []
  | .grouped _ _ _ pg => [pg]
  | .object _ fs => pgsOfL fs
def pgsOfL : List Param → List Nat
  | [] => []
  | p :: ps => pgsOf p ++ pgsOfL ps
end

/-- the key a value-group node stands for -/
def pgKey (st : St) (i : Nat) : Key :=
  { ty := (st.pgs.getD i default).desc.elem, name := "", group := (st.pgs.getD i default).desc.group }

/-- direct dependencies between graph nodes, as seen from scope `s` -/
inductive NodeDep (st : St) (s : Nat) : GNode → GNode → Prop where
  | single {n m : Nat} {k : Key} : k ∈ pSingleKeysL (st.ctor n).params → m ∈ st.allProviders s k →
      NodeDep st s (.ctor n) (.ctor m)
  | toGroup {n i : Nat} : i ∈ pgsOfL (st.ctor n).params → NodeDep st s (.ctor n) (.pg i)
  | fromGroup {i m : Nat} : m ∈ st.allProviders s (pgKey st i) → NodeDep st s (.pg i) (.ctor m)

theorem mem_pOrders_of_group (st : St) (s : Nat) (p : Param) :
    ∀ i ∈ pgsOf p, orderOf (st.pgs.getD i default).orders s ∈ paramOrders st s p := by
  apply paramOrders.induct (motive_2 := fun p => ∀ i ∈ pgsOf p, orderOf (st.pgs.getD i default).orders s ∈ paramOrders st s p)
    (motive_1 := fun ps => ∀ i ∈ pgsOfL ps, orderOf (st.pgs.getD i default).orders s ∈ paramOrders.paramOrdersList st s ps)
  · intro k opt i hi; simp [pgsOf] at hi
  · intro ty g soft pg i hi
    simp only [pgsOf, List.mem_singleton] at hi
    subst hi
    simp [paramOrders]
  · intro ty fs ih i hi
    simp only [pgsOf] at hi
    simp only [paramOrders]
    exact ih i hi
  · intro i hi; simp [pgsOfL] at hi
  · intro p ps ihp ihps i hi
    simp only [pgsOfL, List.mem_append] at hi
    simp only [paramOrders.paramOrdersList, List.mem_append]
    rcases hi with hi | hi
    · exact Or.inl (ihp i hi)
    · exact Or.inr (ihps i hi)

theorem mem_pOrdersList_of_group (st : St) (s : Nat) : ∀ (ps : List Param),
    ∀ i ∈ pgsOfL ps, orderOf (st.pgs.getD i default).orders s ∈ paramOrders.paramOrdersList st s ps := by
  intro ps
  induction ps with
  | nil => intro i hi; simp [pgsOfL] at hi
  | cons p ps ih =>
    intro i hi
    simp only [pgsOfL, List.mem_append] at hi
    simp only [paramOrders.paramOrdersList, List.mem_append]
    rcases hi with hi | hi
    · exact Or.inl (mem_pOrders_of_group st s p i hi)
    · exact Or.inr (ih i hi)

/-- a dependency between nodes of a holder is an edge between their positions -/
theorem nodeDep_edge {st : St} (h : GM0 st) (s : Nat) (x y : GNode) (hx : x ∈ (st.scope s).gh) (hd : NodeDep st s x y) :
    nodeOrder st y s ∈ edgesFrom st s (nodeOrder st x s) := by
  have hp := h.pos s x hx
  unfold edgesFrom
  rw [hp]
  cases hd with
  | single hk hm => exact mem_pOrdersList_of_single st s _ _ hk _ hm
  | toGroup hi => exact mem_pOrdersList_of_group st s _ _ hi
  | fromGroup hm =>
    simp only [List.mem_map]
    exact ⟨_, hm, rfl⟩

def NodeChain (st : St) (s : Nat) : List GNode → Prop
  | [] => True
  | [_] => True
  | a :: b :: rest => NodeDep st s a b ∧ NodeChain st s (b :: rest)

theorem nodeChain_walk {st : St} (h : GM0 st) (s : Nat) : ∀ (l : List GNode),
    (∀ x ∈ l, x ∈ (st.scope s).gh) → NodeChain st s l → Dfs.IsWalk (edgesFrom st s) (l.map fun x => nodeOrder st x s) := by
  intro l
  induction l with
  | nil => intro _ _; trivial
  | cons a rest ih =>
    intro hin hc
    cases rest with
    | nil => trivial
    | cons b rest' =>
      simp only [List.map_cons, Dfs.IsWalk]
      obtain ⟨hd, hc'⟩ := hc
      exact ⟨nodeDep_edge h s a b (hin a (by simp)) hd, ih (fun x hx => hin x (by simp [hx])) hc'⟩

/-- **a dependency cycle among the nodes of a scope's holder — through plain, named, optional, parameter-object or
    value-group edges — is found by that scope's check** -/
theorem node_cycle_is_found {st : St} (h : GM0 st) (ho : OB st) (s : Nat) (a : GNode) (l : List GNode)
    (hl : l ≠ []) (hin : ∀ x ∈ a :: l, x ∈ (st.scope s).gh) (hc : NodeChain st s (a :: l))
    (hclosed : (a :: l).getLast (by simp) = a) : ∃ p, checkAcyclic st s = .cycle p := by
  have hrange : ∀ u, u < (st.scope s).gh.length → ∀ v ∈ edgesFrom st s u, v < (st.scope s).gh.length := by
    intro u hu v hv
    rcases edgesFrom_bnd ho s u v hv with h0 | h1
    · omega
    · exact h1
  have hw := nodeChain_walk h s (a :: l) hin hc
  have hpos : ∀ x ∈ (a :: l).map (fun x => nodeOrder st x s), x < (st.scope s).gh.length := by
    intro x hx
    simp only [List.mem_map] at hx
    obtain ⟨y, hy, rfl⟩ := hx
    have hp := h.pos s y (hin y hy)
    rcases Nat.lt_or_ge (nodeOrder st y s) (st.scope s).gh.length with h1 | h1
    · exact h1
    · have : (st.scope s).gh[nodeOrder st y s]? = none := by
        simp only [List.getElem?_eq_none_iff]; exact h1
      rw [this] at hp; cases hp
  have hlast : ((a :: l).map (fun x => nodeOrder st x s)).getLast (by simp) = nodeOrder st a s := by
    rw [List.getLast_map]
    · rw [hclosed]
  simp only [List.map_cons] at hw hpos hlast
  obtain ⟨p, hp, _⟩ := Dfs.isAcyclic_complete (edgesFrom st s) (st.scope s).gh.length hrange (nodeOrder st a s)
    (l.map fun x => nodeOrder st x s) (by simpa using hl) hpos hw hlast
  refine ⟨p, ?_⟩
  have ht := checkAcyclic_total ho s
  unfold checkAcyclic at ht ⊢
  simp only at ht ⊢
  split
  · rename_i hany; rw [if_pos hany] at ht; exact absurd rfl ht.1
  · rw [hp]

end Dig
