import DigModel.Proofs.RegOK
/-
  `RegInv` is an invariant of the whole API.
-/
namespace Dig

theorem RegInv.added {st st' : St} {target : Nat} {results : List RSlot} {keys : List Key} (h : RegInv st)
    (ha : Added st st' target results keys) (ht : target < st.scopes.length) : RegInv st' := by
  obtain ⟨X, hX, hvk⟩ := ha.chk
  obtain ⟨v0, v1, v3⟩ := visitKeys_ok X _ _ _ hvk
  have hnew : ctorKeys st' st.ctors.length = singleKeysL (slotResults results) := by
    unfold ctorKeys singleKeysL
    rw [ha.node.1, slotLeaves_eq]
  have hold : ∀ n, n < st.ctors.length → ctorKeys st' n = ctorKeys st n := by
    intro n hn; unfold ctorKeys; rw [(ha.keep n hn).2.2.1]
  have hbig : ∀ n, st.ctors.length < n → ctorKeys st' n = [] := by
    intro n hn
    unfold ctorKeys
    have : st'.ctor n = default := by
      simp only [St.ctor, List.getD_eq_getElem?_getD]; rw [List.getElem?_eq_none (by rw [ha.len]; omega)]; rfl
    rw [this]; rfl
  have hprovT := ha.prov ht
  -- members of the new provider lists
  have hmem : ∀ S k x, x ∈ agetL (st'.scope S).providers k →
      x ∈ agetL (st.scope S).providers k ∨ (S = target ∧ x = st.ctors.length) := by
    intro S k x hx
    by_cases hS : S = target
    · subst hS
      rw [hprovT] at hx
      rcases foldl_aset_append_mem _ _ _ k x hx with h1 | h1
      · exact Or.inr ⟨rfl, h1⟩
      · exact Or.inl h1
    · rw [ha.others S hS] at hx; exact Or.inl hx
  have hkeepmem : ∀ S k x, x ∈ agetL (st.scope S).providers k → x ∈ agetL (st'.scope S).providers k := by
    intro S k x hx
    by_cases hS : S = target
    · subst hS; rw [hprovT]; exact foldl_aset_append_keep _ _ _ k x hx
    · rw [ha.others S hS]; exact hx
  refine ⟨by rw [ha.scopesLen]; exact h.nonempty, ?_, ?_, ?_, ?_⟩
  · intro S k n hn
    rcases hmem S k n hn with h1 | ⟨_, h1⟩
    · have := h.bound S k n h1; rw [ha.len]; omega
    · rw [ha.len]; omega
  · intro n hn k hk
    rw [ha.len] at hn
    by_cases hlt : n < st.ctors.length
    · rw [hold n hlt] at hk
      rw [(ha.keep n hlt).2.2.2.1]
      exact hkeepmem _ k n (h.regOK n hlt k hk)
    · have hn' : n = st.ctors.length := by omega
      subst hn'
      rw [hnew] at hk
      rw [ha.node.2, hprovT]
      exact foldl_aset_append_new _ _ _ k (v1 k hk).1
  · intro S k n n' h1 h2 h3 h4
    have key : ∀ m, m ∈ agetL (st'.scope S).providers k → k ∈ ctorKeys st' m →
        (m < st.ctors.length ∧ m ∈ agetL (st.scope S).providers k ∧ k ∈ ctorKeys st m) ∨
        (m = st.ctors.length ∧ S = target ∧ k ∈ singleKeysL (slotResults results)) := by
      intro m hm hkm
      rcases hmem S k m hm with h5 | ⟨h5, h6⟩
      · have hb := h.bound S k m h5
        exact Or.inl ⟨hb, h5, by rw [← hold m hb]; exact hkm⟩
      · subst h6; exact Or.inr ⟨rfl, h5, by rw [← hnew]; exact hkm⟩
    rcases key n h1 h3 with ⟨a1, a2, a3⟩ | ⟨a1, a2, a3⟩ <;> rcases key n' h2 h4 with ⟨b1, b2, b3⟩ | ⟨b1, b2, b3⟩
    · exact h.uniq S k n n' a2 b2 a3 b3
    · exfalso
      subst b2
      have := (v1 k b3).2.1
      rw [hX] at this
      rw [this] at a2; cases a2
    · exfalso
      subst a2
      have := (v1 k a3).2.1
      rw [hX] at this
      rw [this] at b2; cases b2
    · rw [a1, b1]
  · intro n hn
    rw [ha.len] at hn
    by_cases hlt : n < st.ctors.length
    · rw [hold n hlt]; exact h.nodup n hlt
    · have hn' : n = st.ctors.length := by omega
      subst hn'
      rw [hnew]; exact v3

theorem RegInv.eqButVerified {a b : St} (h : RegInv a) (he : EqButVerified a b) : RegInv b :=
  h.of_keep (by rw [he.1]) (ctorsKeep_of_ctors_eq he.1.symm) (by rw [he.2.2.2.2.2.2.2.1]; exact Nat.le_refl _)
    (fun j => ((he.2.2.2.2.2.2.2.2 j).2.2.1).symm)

theorem RegInv.provide {st : St} (h : RegInv st) (ctx : Ctx) (fn : Fn) (i s : Nat) (o : ProvideOpts)
    (hs : s < st.scopes.length) : RegInv (apiProvide ctx fn st i s o).1 := by
  rcases apiProvide_reg ctx fn st i s o with he | ⟨results, keys, ha⟩
  · exact h.eqButVerified he
  · refine h.added ha ?_
    split
    · exact h.nonempty
    · exact hs

/-! ### the other operations keep constructors and provider tables -/

theorem rollback_providers_same (st w : St) (target : Nat) (l : List Nat)
    (h : ∀ j, (w.scope j).providers = (st.scope j).providers) :
    ∀ j, ((rollbackProvide st w target l).scope j).providers = (st.scope j).providers := by
  intro j
  unfold rollbackProvide
  simp only
  have h1 : ∀ (l : List Nat) (w : St), (∀ j, (w.scope j).providers = (st.scope j).providers) →
      ∀ j, ((l.foldl (fun w sc => w.modScope sc fun x => { x with gh := x.gh.take (st.scope sc).gh.length }) w).scope j).providers =
        (st.scope j).providers := by
    intro l
    induction l with
    | nil => intro w hw; exact hw
    | cons sc rest ih =>
      intro w hw
      simp only [List.foldl_cons]
      apply ih
      intro j
      rw [scope_modScope]
      split
      · exact hw j
      · exact hw j
  show ((St.modScope _ target _).scope j).providers = _
  rw [scope_modScope]
  split
  · rename_i hc; obtain ⟨rfl, _⟩ := hc; rfl
  · exact h1 l w h j

theorem apiDecorate_providers (ctx : Ctx) (fn : Fn) (st : St) (i s : Nat) (cb info : Bool) :
    ∀ j, ((apiDecorate ctx fn st i s cb info).1.scope j).providers = (st.scope j).providers := by
  unfold apiDecorate
  cases fn.nonfunc with
  | some _ => intro j; rfl
  | none =>
    simp only
    have hg1 := ghOnly_parseParams ctx.env st s fn
    cases hpp : parseParams ctx.env st s fn with
    | mk r w1 =>
      rw [hpp] at hg1
      simp only at hg1
      have hp1 : ∀ j, (w1.scope j).providers = (st.scope j).providers := fun j => ((hg1.2.2.2.2.2.2.2 j).2.2.1).symm
      cases r with
      | error e1 => exact rollback_providers_same _ _ _ _ hp1
      | ok params =>
        simp only
        cases newResultList ctx.env {} fn with
        | error e2 => exact rollback_providers_same _ _ _ _ hp1
        | ok results =>
          simp only
          cases resultKeys ctx.env (slotResults results) with
          | error e3 => exact rollback_providers_same _ _ _ _ hp1
          | ok keys =>
            simp only
            split
            · exact rollback_providers_same _ _ _ _ hp1
            · intro j
              rw [scope_modScope]
              have e : ∀ (d : List DecoNode), ({ w1 with decos := d } : St).scope j = w1.scope j := fun _ => rfl
              simp only [e]
              by_cases hc : s = j ∧ j < w1.scopes.length
              · rw [if_pos hc]; exact hp1 j
              · rw [if_neg hc]; exact hp1 j

theorem apiDecorate_scopesLen (ctx : Ctx) (fn : Fn) (st : St) (i s : Nat) (cb info : Bool) :
    (apiDecorate ctx fn st i s cb info).1.scopes.length = st.scopes.length := by
  have := (cacheSame_apiDecorate ctx fn st i s cb info)
  -- lengths: read off the core-free relation used for Prov is not enough; recompute
  unfold apiDecorate
  cases fn.nonfunc with
  | some _ => rfl
  | none =>
    simp only
    have hg1 := ghOnly_parseParams ctx.env st s fn
    have hrl : ∀ (w : St) (l : List Nat), w.scopes.length = st.scopes.length →
        (rollbackProvide st w s l).scopes.length = st.scopes.length := by
      intro w l hw
      unfold rollbackProvide
      simp only
      have h1 : ∀ (l : List Nat) (w : St), (l.foldl (fun w sc =>
          w.modScope sc fun x => { x with gh := x.gh.take (st.scope sc).gh.length }) w).scopes.length = w.scopes.length := by
        intro l
        induction l with
        | nil => intro w; rfl
        | cons sc rest ih => intro w; simp only [List.foldl_cons]; rw [ih]; simp [St.modScope]
      show (St.modScope _ s _).scopes.length = _
      have e : ∀ (w : St) (f : ScopeSt → ScopeSt), (w.modScope s f).scopes.length = w.scopes.length := by
        intro w f; simp [St.modScope]
      rw [e, h1, hw]
    cases hpp : parseParams ctx.env st s fn with
    | mk r w1 =>
      rw [hpp] at hg1
      simp only at hg1
      have hl1 : w1.scopes.length = st.scopes.length := hg1.2.2.2.2.2.2.1.symm
      cases r with
      | error e1 => exact hrl _ _ hl1
      | ok params =>
        simp only
        cases newResultList ctx.env {} fn with
        | error e2 => exact hrl _ _ hl1
        | ok results =>
          simp only
          cases resultKeys ctx.env (slotResults results) with
          | error e3 => exact hrl _ _ hl1
          | ok keys =>
            simp only
            split
            · exact hrl _ _ hl1
            · simp [St.modScope, hl1]

end Dig

namespace Dig

theorem RegInv.decorate {st : St} (h : RegInv st) (ctx : Ctx) (fn : Fn) (i s : Nat) (cb info : Bool) :
    RegInv (apiDecorate ctx fn st i s cb info).1 :=
  h.of_keep (by rw [apiDecorate_ctors]) (ctorsKeep_of_ctors_eq (apiDecorate_ctors ctx fn st i s cb info))
    (by rw [apiDecorate_scopesLen]; exact Nat.le_refl _) (apiDecorate_providers ctx fn st i s cb info)

theorem apiScope_providers (st : St) (parent : Nat) : ∀ j, ((apiScope st parent).scope j).providers = (st.scope j).providers ∧
    st.scopes.length ≤ (apiScope st parent).scopes.length := by
  let c : ScopeSt := { parent := some parent, gh := (st.scope parent).gh }
  let st1 : St := { st with scopes := st.scopes ++ [c] }
  let st2 : St := st1.modScope parent fun x => { x with children := x.children ++ [st.scopes.length] }
  have hdef : apiScope st parent = (st.scope parent).gh.foldl (copyOrder st.scopes.length parent) st2 := rfl
  rw [hdef]
  obtain ⟨_, _, f3, _, _⟩ := copyOrder_fold st.scopes.length parent (st.scope parent).gh st2
  intro j
  have e1 : st1.scope j = if j < st.scopes.length then st.scope j else if j = st.scopes.length then c else { parent := none } := by
    show (st.scopes ++ [c]).getD j { parent := none } = _
    rw [getD_append_one]; rfl
  have e2 : (st2.scope j).providers = (st1.scope j).providers := by
    show ((st1.modScope parent _).scope j).providers = _
    rw [scope_modScope]; split <;> rfl
  have e3 : ((List.foldl (copyOrder st.scopes.length parent) st2 (st.scope parent).gh).scope j) = st2.scope j :=
    congrArg (fun (l : List ScopeSt) => l.getD j { parent := none }) f3
  refine ⟨?_, ?_⟩
  · rw [e3, e2, e1]
    by_cases hj : j < st.scopes.length
    · simp [hj]
    · have hn2 : st.scope j = { parent := none } := scope_ge_len st j (by omega)
      by_cases hje : j = st.scopes.length
      · subst hje; rw [hn2]; simp [c]
      · simp [hj, hje, hn2]
  · rw [f3]; simp [st2, st1, St.modScope]

theorem apiScope_ctorsLen (st : St) (parent : Nat) : (apiScope st parent).ctors.length = st.ctors.length := by
  let c : ScopeSt := { parent := some parent, gh := (st.scope parent).gh }
  let st1 : St := { st with scopes := st.scopes ++ [c] }
  let st2 : St := st1.modScope parent fun x => { x with children := x.children ++ [st.scopes.length] }
  have hdef : apiScope st parent = (st.scope parent).gh.foldl (copyOrder st.scopes.length parent) st2 := rfl
  rw [hdef]
  exact (copyOrder_fold st.scopes.length parent (st.scope parent).gh st2).2.2.2.1

theorem ctorsKeep_apiScope (st : St) (parent : Nat) : CtorsKeep st (apiScope st parent) := by
  let c : ScopeSt := { parent := some parent, gh := (st.scope parent).gh }
  let st1 : St := { st with scopes := st.scopes ++ [c] }
  let st2 : St := st1.modScope parent fun x => { x with children := x.children ++ [st.scopes.length] }
  have hdef : apiScope st parent = (st.scope parent).gh.foldl (copyOrder st.scopes.length parent) st2 := rfl
  rw [hdef]
  exact (ctorsKeep_of_ctors_eq (a := st) (b := st2) rfl).trans (copyOrder_keep _ _ _ _)

theorem RegInv.scope {st : St} (h : RegInv st) (parent : Nat) : RegInv (apiScope st parent) :=
  h.of_keep (apiScope_ctorsLen st parent) (ctorsKeep_apiScope st parent) (apiScope_providers st parent 0).2
    (fun j => (apiScope_providers st parent j).1)

theorem RegInv.of_tables {a b : St} (h : RegInv a) (hc : b.ctors = a.ctors) (hs : b.scopes = a.scopes) : RegInv b :=
  h.of_keep (by rw [hc]) (ctorsKeep_of_ctors_eq hc) (by rw [hs]; exact Nat.le_refl _) (fun j => by rw [scope_of_scopes_eq hs j])

theorem RegInv.invoke {st : St} (h : RegInv st) (ctx : Ctx) (fn : Fn) (s : Nat) (info : Bool) :
    RegInv (apiInvoke ctx fn st s info).1 := by
  unfold apiInvoke
  cases fn.nonfunc with
  | some _ => exact h
  | none =>
    simp only
    have hg := ghOnly_parseParams ctx.env st s fn
    have hrb := parse_rollback_eq ctx.env st s fn
    cases hpp : parseParams ctx.env st s fn with
    | mk r w =>
      rw [hpp] at hg hrb
      simp only at hg hrb
      have hw : RegInv w := h.of_keep (by rw [hg.1]) (ctorsKeep_of_ctors_eq hg.1.symm)
        (by rw [hg.2.2.2.2.2.2.1]; exact Nat.le_refl _) (fun j => ((hg.2.2.2.2.2.2.2 j).2.2.1).symm)
      cases r with
      | error e => simp only; rw [hrb]; exact h
      | ok params =>
        simp only
        have hs := shallowCheck_state s params w
        cases hsc : shallowCheck s params w with
        | mk r2 w2 =>
          rw [hsc] at hs; simp only at hs; subst hs
          cases r2 with
          | error f => exact hw
          | ok u =>
            simp only
            split
            · exact hw
            · rename_i w3 hchk
              have hw3 : RegInv w3 := by
                split at hchk
                · injection hchk with e; rw [← e]; exact hw
                · split at hchk
                  · injection hchk with e; rw [← e]
                    refine hw.of_keep rfl (ctorsKeep_of_ctors_eq rfl) (by simp [St.modScope]) ?_
                    intro j; rw [scope_modScope]; split <;> rfl
                  · cases hchk
                  · cases hchk
              have hb := hw3.of_regFrame (buildList_regFrame ctx (engineFuel w3 params) params s w3)
              rw [← wrapErr_state _ DErr.argsFailed] at hb
              cases hbl : EM.wrapErr (Dig.buildList ctx (engineFuel w3 params) params s) DErr.argsFailed w3 with
              | mk r4 w4 =>
                rw [hbl] at hb
                cases r4 with
                | error f => exact hb
                | ok args =>
                  simp only
                  have hf := callBody_fields ctx .invoked fn args w4
                  exact hb.of_tables hf.2.1 hf.1

theorem RegInv.step {st : St} (h : RegInv st) (ctx : Ctx) (fns : List Fn) (i : Nat) (op : Op) :
    RegInv (Dig.step ctx fns st i op).1 := by
  have h0 : RegInv { st with log := [] } := h.of_tables rfl rfl
  cases op with
  | scope p =>
    simp only [Dig.step]
    split
    · exact h0.scope p
    · exact h0
  | provide s f o =>
    simp only [Dig.step]
    split
    · split
      · rename_i hs; exact h0.provide ctx _ i s o hs
      · exact h0
    · exact h0
  | decorate s f cb info =>
    simp only [Dig.step]
    split
    · split
      · exact h0.decorate ctx _ i s cb info
      · exact h0
    · exact h0
  | invoke s f info =>
    simp only [Dig.step]
    split
    · split
      · exact h0.invoke ctx _ s info
      · exact h0
    · exact h0
  | visualize s e => cases e <;> (simp only [Dig.step]; split <;> exact h0)
  | string s => simp only [Dig.step]; split <;> exact h0

theorem RegInv.runOps (ctx : Ctx) (fns : List Fn) : ∀ (ops : List Op) (i : Nat) (st : St) (acc : List OpRes),
    RegInv st → RegInv (Dig.runOps ctx fns ops i st acc).1 := by
  intro ops
  induction ops with
  | nil => intro i st acc h; exact h
  | cons op rest ih =>
    intro i st acc h
    simp only [Dig.runOps]
    have := h.step ctx fns i op
    cases hs : Dig.step ctx fns st i op with
    | mk st' r =>
      rw [hs] at this
      exact ih _ _ _ this

theorem regInv_program (p : Program) : RegInv (runProgram p).1 :=
  RegInv.runOps p.ctx p.fns p.ops 0 {} [] RegInv.init

end Dig
