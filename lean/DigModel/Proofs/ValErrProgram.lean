import DigModel.Proofs.ValErr
import DigModel.Proofs.EngineRel2
import DigModel.Proofs.ProvApi
import DigModel.Proofs.NoBugApi
import DigModel.Proofs.JustApi
import DigModel.Proofs.Just2Api
import DigModel.Proofs.DecoCommute
/-
  Whole programs: a function with a value-typed error result never has a successful exit in the history, hence
  (with `Prov`) nothing it returned is ever handed to anyone.
-/
namespace Dig

/-- every node carries a function of the program; execution of `f` never ended with `ok` -/
structure VE (fns : List Fn) (f : Nat) (st : St) : Prop where
  ctors : ∀ n, n < st.ctors.length → (st.ctor n).fn ∈ fns
  decos : ∀ d, d < st.decos.length → (st.deco d).fn ∈ fns
  nook : ∀ w x, Event.exit w f x .ok ∉ st.hist

theorem VE.ext {fns : List Fn} {f : Nat} {a b : St} (h : VE fns f a) (hreg : RegFrame a b) (l : List Event)
    (hl : b.hist = a.hist ++ l) (hno : ∀ w x, Event.exit w f x .ok ∉ l) : VE fns f b where
  ctors n hn := by
    have := h.ctors n (by rw [hreg.2.2.2.1]; exact hn)
    rw [← (hreg.2.2.2.2.1 n).1]; exact this
  decos d hd := by
    have := h.decos d (by rw [hreg.2.2.2.2.2.1]; exact hd)
    rw [← (hreg.2.2.2.2.2.2 d).1]; exact this
  nook w x hm := by
    rw [hl] at hm
    rcases List.mem_append.mp hm with h1 | h1
    · exact h.nook w x h1
    · exact hno w x h1

theorem VE.transfer {fns : List Fn} {f : Nat} {a b : St} (h : VE fns f a) (hreg : RegFrame a b) (hh : b.hist = a.hist) :
    VE fns f b :=
  h.ext hreg [] (by simp [hh]) (fun _ _ hm => by cases hm)

def VR (fns : List Fn) (f : Nat) (a b : St) : Prop := RegFrame a b ∧ (VE fns f a → VE fns f b)

theorem ctor_default (st : St) (n : Nat) (h : st.ctors.length ≤ n) : st.ctor n = default := by
  unfold St.ctor
  rw [List.getD_eq_getElem?_getD, List.getElem?_eq_none h]; rfl

theorem deco_default (st : St) (d : Nat) (h : st.decos.length ≤ d) : st.deco d = default := by
  unfold St.deco
  rw [List.getD_eq_getElem?_getD, List.getElem?_eq_none h]; rfl

section
variable (p : Program) (fn : Fn) (hmem : fn ∈ p.fns) (huniq : ∀ g ∈ p.fns, g.id = fn.id → g = fn)
  (hv : (forcedOf p.types fn).isSome = true) (hid : fn.id ≠ 0) (hnd : p.cfg.dry = false)
include hmem huniq hv hid

/-- the two events of a body never contain a successful exit of `fn` when the function run is one of the program's -/
theorem bodyEvents_nook (who : Who) (g : Fn) (hg : g ∈ p.fns ∨ g.id = 0) (args : List Val) (st : St) (w : Who) (x : Nat) :
    Event.exit w fn.id x .ok ∉ bodyEvents p.ctx who g args st := by
  intro hm
  unfold bodyEvents at hm
  simp only [List.mem_cons, List.mem_nil_iff, or_false] at hm
  rcases hm with hm | hm
  · cases hm
  · simp only [Event.exit.injEq] at hm
    obtain ⟨_, hfid, _, hk⟩ := hm
    rcases hg with hg | hg
    · have : g = fn := huniq g hg hfid.symm
      subst this
      exact (valErr_never_ok p g hmem huniq hv st).2 hk.symm
    · exact hid (hfid.trans hg)

theorem vr_ctorTail (st : St) (n : Nat) (node : CtorNode) (args : List Val) (hst : CtorStatic node (st.ctor n)) :
    VR p.fns fn.id st (ctorTail p.ctx n node args st).2 := by
  refine ⟨regFrame_ctorTail p.ctx st n node args, fun h => ?_⟩
  obtain ⟨lb, lc, hh, _, hlb, hlc⟩ := ctorTail_log p.ctx n node args st
  refine h.ext (regFrame_ctorTail p.ctx st n node args) (lb ++ lc) hh ?_
  intro w x hm
  rcases List.mem_append.mp hm with h1 | h1
  · rcases hlb with ⟨_, rfl⟩ | ⟨_, rfl⟩
    · cases h1
    · have hg : node.fn ∈ p.fns ∨ node.fn.id = 0 := by
        by_cases hn : n < st.ctors.length
        · left; rw [hst.1]; exact h.ctors n hn
        · right; rw [hst.1, ctor_default st n (by omega)]; rfl
      exact bodyEvents_nook p fn hmem huniq hv hid _ node.fn hg args st w x h1
  · rcases hlc with rfl | ⟨op, err, rt, rfl⟩
    · cases h1
    · simp at h1

theorem vr_decoTail (st : St) (d : Nat) (node : DecoNode) (args : List Val) (hst : DecoStatic node (st.deco d)) :
    VR p.fns fn.id st (decoTail p.ctx d node args st).2 := by
  refine ⟨regFrame_decoTail p.ctx st d node args, fun h => ?_⟩
  obtain ⟨lb, lc, hh, _, hlb, hlc⟩ := decoTail_log p.ctx d node args st
  refine h.ext (regFrame_decoTail p.ctx st d node args) (lb ++ lc) hh ?_
  intro w x hm
  rcases List.mem_append.mp hm with h1 | h1
  · rcases hlb with ⟨_, rfl⟩ | ⟨_, rfl⟩
    · cases h1
    · have hg : node.fn ∈ p.fns ∨ node.fn.id = 0 := by
        by_cases hn : d < st.decos.length
        · left; rw [hst.1]; exact h.decos d hn
        · right; rw [hst.1, deco_default st d (by omega)]; rfl
      exact bodyEvents_nook p fn hmem huniq hv hid _ node.fn hg args st w x h1
  · rcases hlc with rfl | ⟨op, err, rt, rfl⟩
    · cases h1
    · simp at h1

omit hmem huniq hv hid in
theorem vr_flags (a b : St) (hreg : RegFrame a b) (hh : b.hist = a.hist) : VR p.fns fn.id a b :=
  ⟨hreg, fun h => h.transfer hreg hh⟩

theorem vr_leaf : LeafRel2 p.ctx (VR p.fns fn.id) where
  refl s := ⟨RegFrame.refl s, fun h => h⟩
  trans h1 h2 := ⟨h1.1.trans h2.1, fun h => h2.2 (h1.2 h)⟩
  toReg h := h.1
  setOnStack st n := vr_flags p fn _ _ (regFrame_modCtor st n _ (fun _ => ⟨rfl, rfl, rfl, rfl, rfl, rfl, rfl⟩)) rfl
  clearOnStack st n := vr_flags p fn _ _ (regFrame_modCtor st n _ (fun _ => ⟨rfl, rfl, rfl, rfl, rfl, rfl, rfl⟩)) rfl
  ctorTail st n node args hst := vr_ctorTail p fn hmem huniq hv hid st n node args hst
  decoOnStack st d := vr_flags p fn _ _ (regFrame_modDeco st d _ (fun _ => ⟨rfl, rfl, rfl, rfl, rfl⟩)) rfl
  decoFinally st d := vr_flags p fn _ _ (regFrame_modDeco st d _ (fun x => by split <;> exact ⟨rfl, rfl, rfl, rfl, rfl⟩)) rfl
  decoTail st d node args hst := vr_decoTail p fn hmem huniq hv hid st d node args hst

theorem VE.buildList {st : St} (h : VE p.fns fn.id st) (fuel : Nat) (ps : List Param) (c : Nat) :
    VE p.fns fn.id (buildList p.ctx fuel ps c st).2 :=
  ((engine_pres2 p.ctx (vr_leaf p fn hmem huniq hv hid) fuel).2.2.2.2.2 ps c st).2 h

end

/-! ### the API level -/

theorem VE.same {fns : List Fn} {f : Nat} {a b : St} (h : VE fns f a) (hc : b.ctors = a.ctors) (hd : b.decos = a.decos)
    (hh : b.hist = a.hist) : VE fns f b where
  ctors n hn := by
    have : b.ctor n = a.ctor n := by simp only [St.ctor, hc]
    rw [this]; exact h.ctors n (by rw [← hc]; exact hn)
  decos d hd' := by
    have : b.deco d = a.deco d := by simp only [St.deco, hd]
    rw [this]; exact h.decos d (by rw [← hd]; exact hd')
  nook w x hm := h.nook w x (by rw [← hh]; exact hm)

theorem fnOf_mem (fns : List Fn) (f : Nat) (g : Fn) (h : fnOf fns f = some g) : g ∈ fns :=
  List.mem_of_find?_eq_some h

theorem VE.provide {fns : List Fn} {f : Nat} {st : St} (h : VE fns f st) (ctx : Ctx) (g : Fn) (hg : g ∈ fns)
    (i s : Nat) (o : ProvideOpts) : VE fns f (apiProvide ctx g st i s o).1 := by
  have hh : (apiProvide ctx g st i s o).1.hist = st.hist := (cacheSame_apiProvide ctx g st i s o).1
  rcases apiProvide_reg2 ctx g st i s o with he | ⟨results, keys, ha⟩
  · exact h.same he.1.symm he.2.1.symm hh
  · refine ⟨?_, ?_, fun w x hm => h.nook w x (by rw [← hh]; exact hm)⟩
    · intro n hn
      rw [ha.len] at hn
      by_cases hlt : n < st.ctors.length
      · rw [ha.pre n hlt]; exact h.ctors n hlt
      · have : n = st.ctors.length := by omega
        subst this
        rw [ha.newfn]; exact hg
    · intro d hd
      have : (apiProvide ctx g st i s o).1.deco d = st.deco d := by simp only [St.deco, ha.decos]
      rw [this]; exact h.decos d (by rw [← ha.decos]; exact hd)

theorem VE.decorate {fns : List Fn} {f : Nat} {st : St} (h : VE fns f st) (ctx : Ctx) (g : Fn) (hg : g ∈ fns)
    (i s : Nat) (cb info : Bool) : VE fns f (apiDecorate ctx g st i s cb info).1 := by
  have hh : (apiDecorate ctx g st i s cb info).1.hist = st.hist := (cacheSame_apiDecorate ctx g st i s cb info).1
  rcases apiDecorate_reg ctx g st i s cb info with he | ha
  · rw [he]; exact h
  · refine ⟨?_, ?_, fun w x hm => h.nook w x (by rw [← hh]; exact hm)⟩
    · intro n hn
      have : (apiDecorate ctx g st i s cb info).1.ctor n = st.ctor n := by simp only [St.ctor, ha.ctors]
      rw [this]; exact h.ctors n (by rw [← ha.ctors]; exact hn)
    · intro d hd
      rw [ha.len] at hd
      by_cases hlt : d < st.decos.length
      · rw [ha.pre d hlt]; exact h.decos d hlt
      · have : d = st.decos.length := by omega
        subst this
        rw [ha.newfn]; exact hg

theorem VE.scope {fns : List Fn} {f : Nat} {st : St} (h : VE fns f st) (parent : Nat) : VE fns f (apiScope st parent) := by
  have hh : (apiScope st parent).hist = st.hist := (cacheSame_apiScope st parent).1
  refine ⟨?_, ?_, fun w x hm => h.nook w x (by rw [← hh]; exact hm)⟩
  · intro n hn
    rw [apiScope_ctorsLen] at hn
    rw [(ctorsKeep_apiScope st parent n hn).2.1]; exact h.ctors n hn
  · intro d hd
    have hd0 := (apiScope_decos st parent).1
    have : (apiScope st parent).deco d = st.deco d := by simp only [St.deco, hd0]
    rw [this]; exact h.decos d (by rw [← hd0]; exact hd)

section
variable (p : Program) (fn : Fn) (hmem : fn ∈ p.fns) (huniq : ∀ g ∈ p.fns, g.id = fn.id → g = fn)
  (hv : (forcedOf p.types fn).isSome = true) (hid : fn.id ≠ 0)
include hmem huniq hv hid

theorem VE.callBody {st : St} (h : VE p.fns fn.id st) (who : Who) (g : Fn) (hg : g ∈ p.fns) (args : List Val) :
    VE p.fns fn.id (Dig.callBody p.ctx who g args st).2 := by
  have hreg := regFrame_callBody p.ctx who g args st
  by_cases hd : p.ctx.cfg.dry = true
  · rw [callBody_dry p.ctx hd]; exact h
  · have hnd : p.ctx.cfg.dry = false := by simpa using hd
    rw [callBody_spec p.ctx hnd] at hreg ⊢
    exact h.ext hreg (bodyEvents p.ctx who g args st) rfl
      (fun w x => bodyEvents_nook p fn hmem huniq hv hid who g (Or.inl hg) args st w x)

theorem VE.invoke {st : St} (h : VE p.fns fn.id st) (g : Fn) (hg : g ∈ p.fns) (s : Nat) (info : Bool) :
    VE p.fns fn.id (apiInvoke p.ctx g st s info).1 := by
  unfold apiInvoke
  cases g.nonfunc with
  | some _ => exact h
  | none =>
    simp only
    have hgo := ghOnly_parseParams p.ctx.env st s g
    cases hpp : parseParams p.ctx.env st s g with
    | mk r w =>
      rw [hpp] at hgo
      simp only at hgo
      have hw : VE p.fns fn.id w := h.same hgo.1.symm hgo.2.1.symm hgo.2.2.1.symm
      cases r with
      | error e =>
        simp only
        exact h.same (rollback_ctors_same _ _ _ _ hgo.1.symm) ((rollback_decos _ _ _ _).trans hgo.2.1.symm)
          ((cacheSame_rollback st w s (st.subscopes s)).1.trans hgo.2.2.1.symm)
      | ok params =>
        simp only
        have hs := shallowCheck_state s params w
        cases hsc : shallowCheck s params w with
        | mk r2 w2 =>
          rw [hsc] at hs; simp only at hs; subst hs
          cases r2 with
          | error f => exact hw
          | ok u =>
            simp only
            split
            · exact hw
            · rename_i w3 hchk
              have hw3 : VE p.fns fn.id w3 := by
                split at hchk
                · injection hchk with e; rw [← e]; exact hw
                · split at hchk
                  · injection hchk with e; rw [← e]
                    exact hw.same rfl rfl rfl
                  · cases hchk
                  · cases hchk
              have hb := VE.buildList p fn hmem huniq hv hid hw3 (engineFuel w3 params) params s
              rw [← wrapErr_state _ DErr.argsFailed] at hb
              cases hbl : EM.wrapErr (Dig.buildList p.ctx (engineFuel w3 params) params s) DErr.argsFailed w3 with
              | mk r4 w4 =>
                rw [hbl] at hb
                cases r4 with
                | error f => exact hb
                | ok args =>
                  simp only
                  exact VE.callBody p fn hmem huniq hv hid hb .invoked g hg args

theorem VE.step {st : St} (h : VE p.fns fn.id st) (i : Nat) (op : Op) :
    VE p.fns fn.id (Dig.step p.ctx p.fns st i op).1 := by
  have h0 : VE p.fns fn.id { st with log := [] } := h.same rfl rfl rfl
  cases op with
  | scope q =>
    simp only [Dig.step]
    split
    · exact h0.scope q
    · exact h0
  | provide s f o =>
    simp only [Dig.step]
    split
    · rename_i g hg
      split
      · exact h0.provide p.ctx g (fnOf_mem _ _ _ hg) i s o
      · exact h0
    · exact h0
  | decorate s f cb info =>
    simp only [Dig.step]
    split
    · rename_i g hg
      split
      · exact h0.decorate p.ctx g (fnOf_mem _ _ _ hg) i s cb info
      · exact h0
    · exact h0
  | invoke s f info =>
    simp only [Dig.step]
    split
    · rename_i g hg
      split
      · exact VE.invoke p fn hmem huniq hv hid h0 g (fnOf_mem _ _ _ hg) s info
      · exact h0
    · exact h0
  | visualize s e => cases e <;> (simp only [Dig.step]; split <;> exact h0)
  | string s => simp only [Dig.step]; split <;> exact h0

theorem VE.runOps : ∀ (ops : List Op) (i : Nat) (st : St) (acc : List OpRes),
    VE p.fns fn.id st → VE p.fns fn.id (Dig.runOps p.ctx p.fns ops i st acc).1 := by
  intro ops
  induction ops with
  | nil => intro i st acc h; exact h
  | cons op rest ih =>
    intro i st acc h
    simp only [Dig.runOps]
    have := VE.step p fn hmem huniq hv hid h i op
    cases hs : Dig.step p.ctx p.fns st i op with
    | mk st' r =>
      rw [hs] at this
      exact ih _ _ _ this

/-- **whole programs**: no execution of a function with a value-typed error result ever ends with `ok` -/
theorem ve_program : VE p.fns fn.id (runProgram p).1 :=
  VE.runOps p fn hmem huniq hv hid p.ops 0 {} []
    ⟨fun n hn => by simp at hn, fun d hd => by simp at hd, fun w x hm => by simp at hm⟩

end
end Dig
