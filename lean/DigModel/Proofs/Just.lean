import DigModel.Proofs.ProvApi
import DigModel.Proofs.EngineRel2
/-
  Cache justification for single values: in every reachable state, a value cached under key `k` in
  scope `S` is exactly what a successful execution of a constructor registered *in that scope* returned
  in the result slot that declares `k`; that constructor is marked built.
-/
namespace Dig

/-! ### the single keys a result tree declares, with the slot and the declared type they are filled from -/

mutual
def singleLeaves : Result → List (Key × Nat × Nat)
  | .single slot decl ty name as => (ty :: as).map fun t => (({ ty := t, name := name, group := "" } : Key), slot, decl)
  | .grouped _ _ _ _ _ _ => []
  | .object _ fs => singleLeavesL fs
def singleLeavesL : List Result → List (Key × Nat × Nat)
  | [] => []
  | r :: rs => singleLeaves r ++ singleLeavesL rs
end

def slotLeaves : List RSlot → List (Key × Nat × Nat)
  | [] => []
  | .err :: rest => slotLeaves rest
  | .val r :: rest => singleLeaves r ++ slotLeaves rest

theorem foldl_aset_values (v : Val) (name : String) : ∀ (tys : List Nat) (m : List (Key × Val)) (k : Key) (w : Val),
    aget (tys.foldl (fun m t => aset m { ty := t, name := name, group := "" } v) m) k = some w →
      aget m k = some w ∨ (∃ t ∈ tys, k = { ty := t, name := name, group := "" } ∧ w = v) := by
  intro tys
  induction tys with
  | nil => intro m k w h; exact Or.inl h
  | cons t ts ih =>
    intro m k w h
    simp only [List.foldl_cons] at h
    rcases ih _ k w h with h1 | ⟨t', ht', hk, hw⟩
    · rw [aget_aset] at h1
      split at h1
      · rename_i hk; right; exact ⟨t, by simp, hk, by cases h1; rfl⟩
      · exact Or.inl h1
    · right; exact ⟨t', by simp [ht'], hk, hw⟩

theorem extractResult_values (env : TyEnv) (r : Ret) (sc : ScopeSt) (x : Result) :
    ∀ k v, aget (extractResult env r sc x).values k = some v →
      aget sc.values k = some v ∨ ∃ slot decl, (k, slot, decl) ∈ singleLeaves x ∧ v = r.val env slot decl := by
  apply extractResult.induct env r
    (fun sc x => ∀ k v, aget (extractResult env r sc x).values k = some v →
      aget sc.values k = some v ∨ ∃ slot decl, (k, slot, decl) ∈ singleLeaves x ∧ v = r.val env slot decl)
    (fun sc xs => ∀ k v, aget (extractResults env r sc xs).values k = some v →
      aget sc.values k = some v ∨ ∃ slot decl, (k, slot, decl) ∈ singleLeavesL xs ∧ v = r.val env slot decl)
  · intro sc slot decl ty name as k v h
    simp only [extractResult] at h
    rcases foldl_aset_values _ name _ _ k v h with h1 | ⟨t, ht, hk, hv⟩
    · exact Or.inl h1
    · right
      refine ⟨slot, decl, ?_, hv⟩
      simp only [singleLeaves, List.mem_map]
      exact ⟨t, ht, by rw [hk]⟩
  · intro sc slot decl ty group as k v h
    simp only [extractResult, if_true] at h
    exact Or.inl h
  · intro sc slot decl ty group flatten as hf k v h
    simp only [extractResult, hf] at h
    exact Or.inl h
  · intro sc ty fs ih k v h
    simp only [extractResult] at h
    simp only [singleLeaves]
    exact ih k v h
  · intro sc k v h
    simp only [extractResults] at h
    exact Or.inl h
  · intro sc x xs ih1 ih2 k v h
    simp only [extractResults] at h
    rcases ih2 k v h with h1 | ⟨slot, decl, hm, hv⟩
    · rcases ih1 k v h1 with h2 | ⟨slot, decl, hm, hv⟩
      · exact Or.inl h2
      · right; exact ⟨slot, decl, by simp [singleLeavesL, hm], hv⟩
    · right; exact ⟨slot, decl, by simp [singleLeavesL, hm], hv⟩

theorem extractDeco_values (env : TyEnv) (r : Ret) (sc : ScopeSt) (x : Result) :
    (extractDeco env r sc x).values = sc.values := by
  apply extractDeco.induct env r (fun sc x => (extractDeco env r sc x).values = sc.values)
    (fun sc xs => (extractDecos env r sc xs).values = sc.values)
  · intro sc slot decl ty name as; simp only [extractDeco]
  · intro sc slot decl ty group f as; simp only [extractDeco]
  · intro sc ty fs ih; simp only [extractDeco]; exact ih
  · intro sc; simp only [extractDecos]
  · intro sc x xs ih1 ih2; simp only [extractDecos]; rw [ih2, ih1]

theorem extractSlots_values (env : TyEnv) (r : Ret) : ∀ (slots : List RSlot) (sc : ScopeSt) (k : Key) (v : Val),
    aget (extractSlots env false r sc slots).values k = some v →
      aget sc.values k = some v ∨ ∃ slot decl, (k, slot, decl) ∈ slotLeaves slots ∧ v = r.val env slot decl := by
  intro slots
  induction slots with
  | nil => intro sc k v h; exact Or.inl h
  | cons s rest ih =>
    intro sc k v h
    cases s with
    | err => simp only [extractSlots] at h; simp only [slotLeaves]; exact ih sc k v h
    | val x =>
      simp only [extractSlots, Bool.false_eq_true, if_false] at h
      rcases ih _ k v h with h1 | ⟨slot, decl, hm, hv⟩
      · rcases extractResult_values env r sc x k v h1 with h2 | ⟨slot, decl, hm, hv⟩
        · exact Or.inl h2
        · right; exact ⟨slot, decl, by simp [slotLeaves, hm], hv⟩
      · right; exact ⟨slot, decl, by simp [slotLeaves, hm], hv⟩

theorem extractSlots_deco_values (env : TyEnv) (r : Ret) : ∀ (slots : List RSlot) (sc : ScopeSt),
    (extractSlots env true r sc slots).values = sc.values := by
  intro slots
  induction slots with
  | nil => intro sc; rfl
  | cons s rest ih =>
    intro sc
    cases s with
    | err => simp only [extractSlots]; exact ih sc
    | val x => simp only [extractSlots, if_true]; rw [ih, extractDeco_values]

/-! ### the invariant -/

/-- the value `v` cached for `k` in scope `S` is justified -/
def VJ (env : TyEnv) (st : St) (S : Nat) (k : Key) (v : Val) : Prop :=
  ∃ n slot decl, n < st.ctors.length ∧ (st.ctor n).s = S ∧ (st.ctor n).called = true ∧
    (k, slot, decl) ∈ slotLeaves (st.ctor n).results ∧
    ∃ ret : Ret, v = ret.val env slot decl ∧
      (ret.dry = false → ret.f = (st.ctor n).fn.id ∧ Event.exit (.ctor n) ret.f ret.x .ok ∈ st.hist)

def Just (env : TyEnv) (st : St) : Prop :=
  ∀ S k v, aget (st.scope S).values k = some v → VJ env st S k v

/-- the registered constructors are kept: same description, built stays built -/
def CtorsKeep (a b : St) : Prop :=
  ∀ n, n < a.ctors.length → n < b.ctors.length ∧ (b.ctor n).fn = (a.ctor n).fn ∧
    (b.ctor n).results = (a.ctor n).results ∧ (b.ctor n).s = (a.ctor n).s ∧
    ((a.ctor n).called = true → (b.ctor n).called = true)

theorem CtorsKeep.refl (a : St) : CtorsKeep a a := fun _ h => ⟨h, rfl, rfl, rfl, fun h => h⟩
theorem CtorsKeep.trans {a b c : St} (h1 : CtorsKeep a b) (h2 : CtorsKeep b c) : CtorsKeep a c := by
  intro n hn
  obtain ⟨a1, a2, a3, a4, a5⟩ := h1 n hn
  obtain ⟨b1, b2, b3, b4, b5⟩ := h2 n a1
  exact ⟨b1, b2.trans a2, b3.trans a3, b4.trans a4, fun h => b5 (a5 h)⟩

theorem VJ.transfer {env : TyEnv} {a b : St} {S : Nat} {k : Key} {v : Val} (h : VJ env a S k v)
    (hk : CtorsKeep a b) (hh : HistExt a b) : VJ env b S k v := by
  obtain ⟨n, slot, decl, hn, hs, hc, hm, ret, hv, hr⟩ := h
  obtain ⟨k1, k2, k3, k4, k5⟩ := hk n hn
  obtain ⟨l, hl⟩ := hh
  refine ⟨n, slot, decl, k1, by rw [k4]; exact hs, k5 hc, by rw [k3]; exact hm, ret, hv, ?_⟩
  intro hd
  obtain ⟨r1, r2⟩ := hr hd
  exact ⟨by rw [k2]; exact r1, by rw [hl]; exact List.mem_append_left _ r2⟩

theorem Just.transfer {env : TyEnv} {a b : St} (h : Just env a) (hk : CtorsKeep a b) (hh : HistExt a b)
    (hs : ∀ j, (b.scope j).values = (a.scope j).values) : Just env b := by
  intro S k v hv
  rw [hs S] at hv
  exact (h S k v hv).transfer hk hh

theorem Just.init (env : TyEnv) : Just env ({} : St) := by
  intro S k v hv
  cases S <;> simp [St.scope, aget] at hv

theorem ctorsKeep_of_regFrame {a b : St} (h : RegFrame a b)
    (hm : ∀ n, (a.ctor n).called = true → (b.ctor n).called = true) : CtorsKeep a b := by
  intro n hn
  obtain ⟨c1, c2, c3, c4, _, _, _⟩ := h.2.2.2.2.1 n
  exact ⟨by rw [← h.2.2.2.1]; exact hn, c1.symm, c3.symm, c4.symm, hm n⟩

/-! ### the resolver -/

def retOf (fid : Nat) : BodyRes → Option Ret
  | .ok x len => some { dry := false, f := fid, x := x, len := len }
  | .dry => some { dry := true, f := 0, x := 0, len := 0 }
  | _ => none

theorem scope_of_scopes_eq {a b : St} (h : a.scopes = b.scopes) (j : Nat) : a.scope j = b.scope j := by
  simp [St.scope, h]

theorem ctorTail_scope (ctx : Ctx) (n : Nat) (node : CtorNode) (args : List Val) (st : St) (j : Nat) :
    (ctorTail ctx n node args st).2.scope j =
      match retOf node.fn.id (callBody ctx (.ctor n) node.fn args st).1 with
      | some ret => if node.s = j ∧ j < st.scopes.length then extractSlots ctx.env false ret (st.scope j) node.results
                    else st.scope j
      | none => st.scope j := by
  have hb := (callBody_fields ctx (.ctor n) node.fn args st).1
  simp only [ctorTail]
  rw [scope_of_scopes_eq (runCallback_fields _ _ _ _ _ _).1 j]
  unfold ctorCommit
  cases hr : (callBody ctx (.ctor n) node.fn args st).1 with
  | ok x len =>
    simp only [retOf]
    show ((St.modScope _ node.s _).scope j) = _
    rw [scope_modScope, hb, scope_of_scopes_eq hb j]
  | dry =>
    simp only [retOf]
    show ((St.modScope _ node.s _).scope j) = _
    rw [scope_modScope, hb, scope_of_scopes_eq hb j]
  | err x o => simp only [retOf]; exact scope_of_scopes_eq hb j
  | panic x => simp only [retOf]; exact scope_of_scopes_eq hb j

theorem decoTail_values (ctx : Ctx) (d : Nat) (node : DecoNode) (args : List Val) (st : St) (j : Nat) :
    ((decoTail ctx d node args st).2.scope j).values = (st.scope j).values := by
  have hb := (callBody_fields ctx (.deco d) node.fn args st).1
  simp only [decoTail]
  rw [scope_of_scopes_eq (runCallback_fields _ _ _ _ _ _).1 j]
  unfold decoCommit
  cases hr : (callBody ctx (.deco d) node.fn args st).1 with
  | ok x len =>
    show ((St.modScope _ node.s _).scope j).values = _
    rw [scope_modScope, scope_of_scopes_eq hb j]
    split
    · exact extractSlots_deco_values _ _ _ _
    · rfl
  | dry =>
    show ((St.modScope _ node.s _).scope j).values = _
    rw [scope_modScope, scope_of_scopes_eq hb j]
    split
    · exact extractSlots_deco_values _ _ _ _
    · rfl
  | err x o => rw [scope_of_scopes_eq hb j]
  | panic x => rw [scope_of_scopes_eq hb j]

/-- a normal return of the body leaves a successful exit of exactly this node and execution in the history -/
theorem callBody_ok_exit (ctx : Ctx) (who : Who) (fn : Fn) (args : List Val) (st : St) (x len : Nat)
    (h : (callBody ctx who fn args st).1 = .ok x len) :
    Event.exit who fn.id x .ok ∈ (callBody ctx who fn args st).2.hist := by
  by_cases hd : ctx.cfg.dry = true
  · rw [callBody_dry ctx hd] at h; cases h
  · have hnd : ctx.cfg.dry = false := by simpa using hd
    rw [callBody_spec ctx hnd] at h ⊢
    simp only at h
    obtain ⟨rfl, hk⟩ := bodyRes_ok_x ctx fn st x len h
    show Event.exit who fn.id (st.execCount fn.id) .ok ∈ st.hist ++ bodyEvents ctx who fn args st
    unfold bodyEvents
    simp [hk]

theorem ctorTail_histExt (ctx : Ctx) (n : Nat) (node : CtorNode) (args : List Val) (st : St) :
    HistExt st (ctorTail ctx n node args st).2 := by
  obtain ⟨lb, lc, hh, _⟩ := ctorTail_log ctx n node args st
  exact ⟨lb ++ lc, hh⟩

theorem decoTail_histExt (ctx : Ctx) (d : Nat) (node : DecoNode) (args : List Val) (st : St) :
    HistExt st (decoTail ctx d node args st).2 := by
  obtain ⟨lb, lc, hh, _⟩ := decoTail_log ctx d node args st
  exact ⟨lb ++ lc, hh⟩

/-- the history after the tail contains the history right after the body -/
theorem ctorTail_hist_body (ctx : Ctx) (n : Nat) (node : CtorNode) (args : List Val) (st : St) (e : Event)
    (h : e ∈ (callBody ctx (.ctor n) node.fn args st).2.hist) : e ∈ (ctorTail ctx n node args st).2.hist := by
  simp only [ctorTail]
  obtain ⟨l, _, h2, _⟩ := runCallback_log node.cb (.ctor n) node.fn.id st.clock
    (ctorOutcome ctx node.fn.id (callBody ctx (.ctor n) node.fn args st).1).2
    (ctorCommit ctx n node (callBody ctx (.ctor n) node.fn args st).1 (callBody ctx (.ctor n) node.fn args st).2)
  rw [h2, (ctorCommit_fields ctx n node _ _).2.1]
  exact List.mem_append_left _ h

def JR (env : TyEnv) (a b : St) : Prop :=
  RegFrame a b ∧ HistExt a b ∧ (∀ n, (a.ctor n).called = true → (b.ctor n).called = true) ∧ (Just env a → Just env b)

theorem JR.refl (env : TyEnv) (a : St) : JR env a a := ⟨RegFrame.refl a, HistExt.refl a, fun _ h => h, fun h => h⟩
theorem JR.trans {env : TyEnv} {a b c : St} (h1 : JR env a b) (h2 : JR env b c) : JR env a c :=
  ⟨h1.1.trans h2.1, h1.2.1.trans h2.2.1, fun n h => h2.2.2.1 n (h1.2.2.1 n h), fun h => h2.2.2.2 (h1.2.2.2 h)⟩

/-- steps that touch neither scopes nor history nor the `called` flags -/
theorem jr_flags (env : TyEnv) (a b : St) (hr : RegFrame a b) (hh : b.hist = a.hist) (hs : b.scopes = a.scopes)
    (hc : ∀ n, (b.ctor n).called = (a.ctor n).called) : JR env a b := by
  refine ⟨hr, HistExt.of_eq hh, fun n h => by rw [hc n]; exact h, ?_⟩
  intro hj
  exact hj.transfer (ctorsKeep_of_regFrame hr (fun n h => by rw [hc n]; exact h)) (HistExt.of_eq hh)
    (fun j => by rw [scope_of_scopes_eq hs j])

theorem jr_ctorTail (ctx : Ctx) (st : St) (n : Nat) (node : CtorNode) (args : List Val)
    (hst : CtorStatic node (st.ctor n)) : JR ctx.env st (ctorTail ctx n node args st).2 := by
  have hreg := regFrame_ctorTail ctx st n node args
  have hext := ctorTail_histExt ctx n node args st
  have hmono : ∀ m, (st.ctor m).called = true → ((ctorTail ctx n node args st).2.ctor m).called = true := by
    intro m h
    rw [ctorTail_ctor]; split
    · rfl
    · exact h
  have hkeep := ctorsKeep_of_regFrame hreg hmono
  refine ⟨hreg, hext, hmono, ?_⟩
  intro hj S k v hv
  rw [ctorTail_scope] at hv
  cases hret : retOf node.fn.id (callBody ctx (.ctor n) node.fn args st).1 with
  | none => rw [hret] at hv; exact (hj S k v hv).transfer hkeep hext
  | some ret =>
    rw [hret] at hv
    simp only at hv
    split at hv
    · rename_i hc
      obtain ⟨hs, _⟩ := hc
      rcases extractSlots_values ctx.env ret node.results (st.scope S) k v hv with h1 | ⟨slot, decl, hm, hval⟩
      · exact (hj S k v h1).transfer hkeep hext
      · -- a fresh entry: written by this execution of constructor `n`
        obtain ⟨s1, s2, s3, s4, _, _, _⟩ := hst
        have hn : n < st.ctors.length := by
          by_cases h : n < st.ctors.length
          · exact h
          · exfalso
            have : st.ctor n = default := by
              simp only [St.ctor, List.getD_eq_getElem?_getD]
              rw [List.getElem?_eq_none (Nat.le_of_not_lt h)]; rfl
            have hd : (default : CtorNode).results = [] := rfl
            rw [s3, this, hd] at hm
            simp [slotLeaves] at hm
        have hcommits : (callBody ctx (.ctor n) node.fn args st).1.commits = true := by
          cases hb : (callBody ctx (.ctor n) node.fn args st).1 <;> simp [hb, retOf, BodyRes.commits] at hret ⊢
        obtain ⟨r1, r2, r3, r4, _, _, _⟩ := hreg.2.2.2.2.1 n
        refine ⟨n, slot, decl, by rw [← hreg.2.2.2.1]; exact hn, by rw [← r4, ← s4]; exact hs, ?_, by rw [← r3, ← s3]; exact hm,
          ret, hval, ?_⟩
        · rw [ctorTail_ctor]; simp [hcommits, hn]
        · intro hd
          cases hb : (callBody ctx (.ctor n) node.fn args st).1 with
          | ok x len =>
            rw [hb] at hret; simp only [retOf, Option.some.injEq] at hret
            subst hret
            refine ⟨by show node.fn.id = _; rw [← r1, ← s1], ?_⟩
            exact ctorTail_hist_body ctx n node args st _ (callBody_ok_exit ctx (.ctor n) node.fn args st x len hb)
          | dry => rw [hb] at hret; simp only [retOf, Option.some.injEq] at hret; subst hret; cases hd
          | err x o => rw [hb] at hret; cases hret
          | panic x => rw [hb] at hret; cases hret
    · exact (hj S k v hv).transfer hkeep hext

theorem jr_decoTail (ctx : Ctx) (st : St) (d : Nat) (node : DecoNode) (args : List Val) :
    JR ctx.env st (decoTail ctx d node args st).2 := by
  have hreg := regFrame_decoTail ctx st d node args
  have hext := decoTail_histExt ctx d node args st
  have hc : (decoTail ctx d node args st).2.ctors = st.ctors := decoTail_ctors ctx d node args st
  have hmono : ∀ m, (st.ctor m).called = true → ((decoTail ctx d node args st).2.ctor m).called = true := by
    intro m h; simp only [St.ctor, hc]; exact h
  exact ⟨hreg, hext, hmono, fun hj => hj.transfer (ctorsKeep_of_regFrame hreg hmono) hext (decoTail_values ctx d node args st)⟩

theorem jr_leaf (ctx : Ctx) : LeafRel2 ctx (JR ctx.env) where
  refl := JR.refl ctx.env
  trans := JR.trans
  toReg h := h.1
  setOnStack st n := jr_flags ctx.env _ _ (regFrame_modCtor st n _ (fun _ => ⟨rfl, rfl, rfl, rfl, rfl, rfl, rfl⟩)) rfl rfl
    (fun m => by rw [ctor_modCtor]; split <;> rfl)
  clearOnStack st n := jr_flags ctx.env _ _ (regFrame_modCtor st n _ (fun _ => ⟨rfl, rfl, rfl, rfl, rfl, rfl, rfl⟩)) rfl rfl
    (fun m => by rw [ctor_modCtor]; split <;> rfl)
  ctorTail st n node args hst := jr_ctorTail ctx st n node args hst
  decoOnStack st d := jr_flags ctx.env _ _ (regFrame_modDeco st d _ (fun _ => ⟨rfl, rfl, rfl, rfl, rfl⟩)) rfl rfl (fun _ => rfl)
  decoFinally st d := jr_flags ctx.env _ _ (regFrame_modDeco st d _ (fun x => by split <;> exact ⟨rfl, rfl, rfl, rfl, rfl⟩)) rfl rfl
    (fun _ => rfl)
  decoTail st d node args _ := jr_decoTail ctx st d node args

theorem Just.buildList {ctx : Ctx} {st : St} (h : Just ctx.env st) (fuel : Nat) (ps : List Param) (c : Nat) :
    Just ctx.env (buildList ctx fuel ps c st).2 ∧ CtorsKeep st (buildList ctx fuel ps c st).2 := by
  have hr := (engine_pres2 ctx (jr_leaf ctx) fuel).2.2.2.2.2 ps c st
  exact ⟨hr.2.2.2 h, ctorsKeep_of_regFrame hr.1 hr.2.2.1⟩

end Dig
