import DigModel.Engine
/-
  The resolver reads the configuration only through RecoverFromPanics and DryRun: two contexts that agree on
  those (and on types, script, id mode) run the resolver identically.
-/
namespace Dig

structure CtxSame (ctx ctx' : Ctx) : Prop where
  env : ctx'.env = ctx.env
  script : ctx'.script = ctx.script
  forced : ctx'.forced = ctx.forced
  sameIds : ctx'.sameIds = ctx.sameIds
  recover : ctx'.cfg.recover = ctx.cfg.recover
  dry : ctx'.cfg.dry = ctx.cfg.dry

theorem CtxSame.beh {ctx ctx' : Ctx} (h : CtxSame ctx ctx') (f x : Nat) : ctx'.beh f x = ctx.beh f x := by
  unfold Ctx.beh Ctx.scripted; rw [h.script, h.forced]

theorem callBody_ctx {ctx ctx' : Ctx} (h : CtxSame ctx ctx') (who : Who) (fn : Fn) (args : List Val) :
    callBody ctx' who fn args = callBody ctx who fn args := by
  funext st
  unfold callBody
  simp only [h.dry, h.beh, h.env]

theorem ctorTail_ctx {ctx ctx' : Ctx} (h : CtxSame ctx ctx') (n : Nat) (node : CtorNode) (args : List Val) :
    ctorTail ctx' n node args = ctorTail ctx n node args := by
  funext st
  unfold ctorTail ctorOutcome ctorCommit
  simp only [callBody_ctx h, h.recover, h.env]

theorem decoTail_ctx {ctx ctx' : Ctx} (h : CtxSame ctx ctx') (d : Nat) (node : DecoNode) (args : List Val) :
    decoTail ctx' d node args = decoTail ctx d node args := by
  funext st
  unfold decoTail decoOutcome decoCommit
  simp only [callBody_ctx h, h.recover, h.env]

theorem engine_ctx {ctx ctx' : Ctx} (h : CtxSame ctx ctx') :
    ∀ fuel,
      (∀ n c, callCtor ctx' fuel n c = callCtor ctx fuel n c) ∧
      (∀ d s, callDeco ctx' fuel d s = callDeco ctx fuel d s) ∧
      (∀ k opt c, buildSingle ctx' fuel k opt c = buildSingle ctx fuel k opt c) ∧
      (∀ k soft c, buildGroup ctx' fuel k soft c = buildGroup ctx fuel k soft c) ∧
      (∀ p c, buildParam ctx' fuel p c = buildParam ctx fuel p c) ∧
      (∀ ps c, buildList ctx' fuel ps c = buildList ctx fuel ps c) := by
  intro fuel
  induction fuel with
  | zero =>
    refine ⟨?_, ?_, ?_, ?_, ?_, ?_⟩ <;> intros
    · simp only [callCtor]
    · simp only [callDeco]
    · simp only [buildSingle]
    · simp only [buildGroup]
    · simp only [buildParam]
    · simp only [buildList]
  | succ fuel ih =>
    obtain ⟨ihC, ihD, ihS, ihG, ihP, ihL⟩ := ih
    refine ⟨?_, ?_, ?_, ?_, ?_, ?_⟩
    · intro n c; funext st; simp only [callCtor, ihL, ctorTail_ctx h]
    · intro d s; funext st; simp only [callDeco, ihL, decoTail_ctx h]
    · intro k opt c; funext st; simp only [buildSingle, ihD, ihC, h.env, h.sameIds]
    · intro k soft c; funext st; simp only [buildGroup, ihD, ihC, h.sameIds]
    · intro p c
      cases p with
      | single k opt => simp only [buildParam, ihS]
      | grouped ty k soft pg => simp only [buildParam, ihG]
      | object ty fs =>
        simp only [buildParam]
        have : (fun f => buildParam ctx' fuel f c) = (fun f => buildParam ctx fuel f c) := funext fun f => ihP f c
        rw [this]
    · intro ps c
      simp only [buildList]
      have : (fun p => buildParam ctx' fuel p c) = (fun p => buildParam ctx fuel p c) := funext fun p => ihP p c
      rw [this]

end Dig
