import DigModel.Props.C10
import DigModel.Proofs.ReachApi
/-
  C11 — Soft value groups never trigger constructors.

  `C11_silent` (full strength for an undecorated group): building a soft group parameter changes nothing
  — no constructor or decorator is called, no event is logged, no cache is written — and the slice
  delivered is exactly the concatenation of the members already committed in the scopes on the path to
  the root at that moment.
  `C11_soft_last`: inside a parameter object the soft group fields are built after all other fields
  (so they see the members committed by the constructors those fields needed), and the values are put
  back in declaration order.
  `C11_reaches_only_decorators` / `C11_never_triggers` (full strength, with `C03_only`): the only nodes a soft
  group parameter makes reachable are the decorators of the group registered on the path to the root (and what
  *they* need); when no scope on the path decorates the group, a soft group parameter makes **nothing**
  reachable — so, by `C03_only`, an Invoke never enters a constructor on account of a soft group.
  `C11_soft_group_is_the_history_account` / `C11_account_holds_during_resolution` (whole programs, no DryRun, invariant
  `GX`): what the soft group receives is exactly — all of it, nothing twice — the grouped results of the successful
  executions recorded in the history up to that moment of the constructors living on the path to the root: those
  executed before the Invoke began and those the other fields of the same parameter object made run.
-/
namespace Dig.C11

theorem C11_silent (ctx : Ctx) (fuel : Nat) (k : Key) (c : Nat) (st : St)
    (hd : ∀ s ∈ st.ancestors c, aget (st.scope s).decorators k = none)
    (hg : ∀ s ∈ st.ancestors c, aget (st.scope s).decoratedGroups k = none) :
    buildGroup ctx (fuel + 1) k true c st =
      (.ok (.sl ((st.ancestors c).flatMap fun s => agetL (st.scope s).groups k)), st) := by
  rw [buildGroup_undecorated ctx fuel k true c st hd hg]
  simp [EM.bind, EM.pure]

theorem C11_soft_last (ctx : Ctx) (fuel : Nat) (ty : Nat) (fs : List Param) (c : Nat) :
    buildParam ctx (fuel + 1) (.object ty fs) c =
      EM.bind (mapM' (fs.filter (fun f => !isSoft f)) fun f => buildParam ctx fuel f c) fun hard =>
      EM.bind (mapM' (fs.filter isSoft) fun f => buildParam ctx fuel f c) fun soft =>
      EM.pure (.obj (interleave fs hard soft)) := by
  simp only [buildParam]

theorem C11_reaches_only_decorators (st : St) (c : Nat) (k : Key) (w : Who) (h : Reach st c (.group k true) w) :
    ∃ s d, s ∈ st.ancestors c ∧ aget (st.scope s).decorators k = some d ∧ ReachD st d w := by
  cases h with
  | decoSelf hs hd => exact ⟨_, _, hs, hd, Or.inl rfl⟩
  | decoDep hs hd hl hr => exact ⟨_, _, hs, hd, Or.inr ⟨_, hl, hr⟩⟩

theorem C11_never_triggers (st : St) (c : Nat) (k : Key)
    (hd : ∀ s ∈ st.ancestors c, aget (st.scope s).decorators k = none) (w : Who) :
    ¬ Reach st c (.group k true) w := by
  intro h
  obtain ⟨s, d, hs, hdec, _⟩ := C11_reaches_only_decorators st c k w h
  rw [hd s hs] at hdec
  cases hdec

/-- in a container in which the group stores are the history's account (`GX`: every reachable container without DryRun,
    and every container a resolution passes through from there), an undecorated soft group parameter receives exactly
    the grouped results of the successful executions recorded so far of the constructors living on the path to the
    root — all of them, none twice — and runs nothing -/
theorem C11_soft_group_is_the_history_account (ctx : Ctx) (fuel : Nat) (k : Key) (c : Nat) (st : St) (hgx : GX ctx st)
    (hd : ∀ s ∈ st.ancestors c, aget (st.scope s).decorators k = none)
    (hg : ∀ s ∈ st.ancestors c, aget (st.scope s).decoratedGroups k = none) :
    buildGroup ctx (fuel + 1) k true c st =
      (.ok (.sl ((st.ancestors c).flatMap fun s => st.hist.flatMap (evContrib ctx st s k))), st) := by
  rw [C11_silent ctx fuel k c st hd hg]
  congr 3
  exact flatMap_congr' _ _ _ (fun s _ => hgx s k)

/-- that account holds in every reachable container and at every moment of building a parameter (list) from there:
    whatever the non-soft fields of a parameter object made run is in the history when the soft fields are built
    (`C11_soft_last`) -/
theorem C11_account_holds_during_resolution (p : Program) (hnd : p.cfg.dry = false) (fuel : Nat) (c : Nat) :
    GX p.ctx (runProgram p).1 ∧
    (∀ ps, GX p.ctx (buildList p.ctx fuel ps c (runProgram p).1).2) ∧
    (∀ x, GX p.ctx (buildParam p.ctx fuel x c (runProgram p).1).2) := by
  have hnb : NBInv p.types (runProgram p).1 := NBInv.runOps p.ctx p.fns p.ops 0 {} [] (NBInv.init _)
  exact ⟨gx_program p hnd, fun ps => (gx_program p hnd).buildList hnd hnb.home fuel ps c,
    fun x => (gx_program p hnd).buildParam hnd hnb.home fuel x c⟩

#print axioms C11_soft_group_is_the_history_account
#print axioms C11_account_holds_during_resolution
#print axioms C11_silent
#print axioms C11_reaches_only_decorators
#print axioms C11_never_triggers
#print axioms C11_soft_last
end Dig.C11
