import DigModel.Proofs.Group
import DigModel.Proofs.GroupCalled
import DigModel.Proofs.Just2Api
/-
  C10 — Value groups deliver every visible member exactly once (undecorated hard groups), and
  C11's counterpart for soft groups lives in Props/C11.lean; both rest on `buildGroup_undecorated`.

  For a group key that no scope on the path to the root decorates (no decorator registered, no decorated
  group cached):

  * `C10_members`: whatever a non-soft group parameter receives is exactly the concatenation, over the scopes
    on the path from the consuming scope to the root, of the members committed to those scopes' group
    stores when the feeders have been called — nothing from sibling or descendant scopes, other group
    names or other element types can occur (they live under other scopes / other keys);
  * `C10_feeders_built`: when the parameter is delivered, every provider of the key registered in a scope on that
    path has been built (`called`) — none is skipped — so the stores read by `C10_members` hold the members of
    all of them; `C10_failure_is_group_failure`: if one of them fails, the parameter fails with
    `errParamGroupFailed` wrapping that failure.
  * `C10_members_are_feeders_outputs` (whole programs, invariant `Just2`): in every reachable container every member
    stored for group key `k` (element type + group name) in scope `S` was produced by a successful execution of a
    built constructor whose home scope is `S` and whose results declare a value-group result for exactly that
    key — it is that result's value, or one of its slice elements for a `flatten` result.  With `C10_members`:
    members from sibling or descendant scopes, other group names or other element types never appear.
  "Exactly once however often requested" is C02_once (a built feeder is never executed again) together
  with the fact that committing happens only in a successful execution (C07_failed_writes_nothing).
-/
namespace Dig.C10

theorem C10_members (ctx : Ctx) (fuel : Nat) (k : Key) (c : Nat) (st : St)
    (hd : ∀ s ∈ st.ancestors c, aget (st.scope s).decorators k = none)
    (hg : ∀ s ∈ st.ancestors c, aget (st.scope s).decoratedGroups k = none)
    (v : Val) (st' : St) (h : buildGroup ctx (fuel + 1) k false c st = (.ok v, st')) :
    v = .sl ((st.ancestors c).flatMap fun s => agetL (st'.scope s).groups k) := by
  rw [buildGroup_undecorated ctx fuel k false c st hd hg] at h
  simp only [EM.bind, Bool.false_eq_true, if_false] at h
  split at h
  · injection h with e1 e2; injection e1 with e1; subst e2; exact e1.symm
  · injection h with e1 _; cases e1

theorem C10_feeders_built (ctx : Ctx) (L L' fuel : Nat) (k : Key) (c : Nat) (st : St) (hv : VL L L' st)
    (hd : ∀ s ∈ st.ancestors c, aget (st.scope s).decorators k = none)
    (hg : ∀ s ∈ st.ancestors c, aget (st.scope s).decoratedGroups k = none)
    (v : Val) (st' : St) (h : buildGroup ctx (fuel + 1) k false c st = (.ok v, st')) :
    ∀ s ∈ st.ancestors c, ∀ n ∈ agetL (st.scope s).providers k, (st'.ctor n).called = true := by
  rw [buildGroup_undecorated ctx fuel k false c st hd hg] at h
  simp only [EM.bind, Bool.false_eq_true, if_false] at h
  split at h
  · rename_i u st5 hloop
    injection h with _ e2
    subst e2
    cases u
    exact groupProviders_called ctx L L' fuel k _ st st5 hv hloop
  · injection h with e1 _; cases e1

theorem C10_failure_is_group_failure (ctx : Ctx) (fuel : Nat) (k : Key) (n : Nat) (st : St) (e : DErr) (s' : St)
    (h : callCtor ctx fuel n (st.ctor n).origS st = (.error (.err e), s')) :
    EM.wrapErr (callCtor ctx fuel n (st.ctor n).origS) (.paramGroup k (ctorId ctx.sameIds (st.ctor n).fn)) st =
      (.error (.err (.paramGroup k (ctorId ctx.sameIds (st.ctor n).fn) e)), s') := by
  simp [EM.wrapErr, h]

theorem C10_members_are_feeders_outputs (p : Program) (S : Nat) (k : Key) (v : Val)
    (h : v ∈ agetL ((runProgram p).1.scope S).groups k) :
    ∃ n slot decl fl, n < (runProgram p).1.ctors.length ∧ ((runProgram p).1.ctor n).s = S ∧
      ((runProgram p).1.ctor n).called = true ∧ (k, slot, decl, fl) ∈ slotGroupLeaves ((runProgram p).1.ctor n).results ∧
      ∃ ret : Ret, memberOf p.types ret slot decl fl v ∧
        (ret.dry = false → ret.f = ((runProgram p).1.ctor n).fn.id ∧
          Event.exit (.ctor n) ret.f ret.x .ok ∈ (runProgram p).1.hist) :=
  (just2_program p).groups S k v h

/-- non-vacuity (a test): the group keys of a flatten result and of a plain grouped result with an As interface -/
example : slotGroupLeaves [.val (.grouped 0 31 11 "g" true []), .err, .val (.grouped 2 12 12 "h" false [21])] =
    [({ ty := 11, name := "", group := "g" }, 0, 31, true), ({ ty := 12, name := "", group := "h" }, 2, 12, false),
     ({ ty := 21, name := "", group := "h" }, 2, 12, false)] := by decide

#print axioms C10_members
#print axioms C10_members_are_feeders_outputs
#print axioms C10_feeders_built
#print axioms C10_failure_is_group_failure
end Dig.C10
