import DigModel.Proofs.Group
import DigModel.Proofs.GroupCalled
import DigModel.Proofs.Just2Api
import DigModel.Proofs.CalledExit
/-
  C10 — Value groups deliver every visible member exactly once (undecorated hard groups), and
  C11's counterpart for soft groups lives in Props/C11.lean; both rest on `buildGroup_undecorated`.

  For a group key that no scope on the path to the root decorates (no decorator registered, no decorated
  group cached):

  * `C10_members`: whatever a non-soft group parameter receives is exactly the concatenation, over the scopes
    on the path from the consuming scope to the root, of the members committed to those scopes' group
    stores when the feeders have been called — nothing from sibling or descendant scopes, other group
    names or other element types can occur (they live under other scopes / other keys);
  * `C10_feeders_built`: when the parameter is delivered, every provider of the key registered in a scope on that
    path has been built (`called`) — none is skipped — so the stores read by `C10_members` hold the members of
    all of them; `C10_failure_is_group_failure`: if one of them fails, the parameter fails with
    `errParamGroupFailed` wrapping that failure.
  * `C10_members_are_feeders_outputs` (whole programs, invariant `Just2`): in every reachable container every member
    stored for group key `k` (element type + group name) in scope `S` was produced by a successful execution of a
    built constructor whose home scope is `S` and whose results declare a value-group result for exactly that
    key — it is that result's value, or one of its slice elements for a `flatten` result.  With `C10_members`:
    members from sibling or descendant scopes, other group names or other element types never appear.
  * `C10_store_is_the_history_account` (whole programs, no DryRun, invariant `GX` of every operation): in every reachable
    container the members stored for group key `k` in scope `S` are **exactly, in order and with multiplicity**, what
    the history accounts for: for each successful execution `(f, x)` of a constructor whose home scope is `S`, the
    values of its results declared for `k` (`contrib`: one value per grouped result, once per `As` interface equal to
    the key's type, each slice element for a `flatten` result) — nothing is lost, duplicated or added, whatever was
    provided, rejected, invoked or failed in between;
  * `C10_each_built_feeder_ran_exactly_once` (invariants `CE`, `HInv`): a constructor has at most one successful
    execution in the whole history, and a constructor marked built has exactly one — so each built feeder occurs
    exactly once in that account;
  * `C10_delivery_is_the_history_account`: from any reachable container, what an undecorated non-soft group
    parameter receives is the concatenation over the path to the root of those accounts, taken in the container the
    request leaves behind, in which every provider of the key on the path is built (`C10_feeders_built`) and has its
    successful execution in the history.
  "Exactly once however often requested" is C02_once (a built feeder is never executed again) together
  with the fact that committing happens only in a successful execution (C07_failed_writes_nothing).
-/
namespace Dig.C10

theorem C10_members (ctx : Ctx) (fuel : Nat) (k : Key) (c : Nat) (st : St)
    (hd : ∀ s ∈ st.ancestors c, aget (st.scope s).decorators k = none)
    (hg : ∀ s ∈ st.ancestors c, aget (st.scope s).decoratedGroups k = none)
    (v : Val) (st' : St) (h : buildGroup ctx (fuel + 1) k false c st = (.ok v, st')) :
    v = .sl ((st.ancestors c).flatMap fun s => agetL (st'.scope s).groups k) := by
  rw [buildGroup_undecorated ctx fuel k false c st hd hg] at h
  simp only [EM.bind, Bool.false_eq_true, if_false] at h
  split at h
  · injection h with e1 e2; injection e1 with e1; subst e2; exact e1.symm
  · injection h with e1 _; cases e1

theorem C10_feeders_built (ctx : Ctx) (L L' fuel : Nat) (k : Key) (c : Nat) (st : St) (hv : VL L L' st)
    (hd : ∀ s ∈ st.ancestors c, aget (st.scope s).decorators k = none)
    (hg : ∀ s ∈ st.ancestors c, aget (st.scope s).decoratedGroups k = none)
    (v : Val) (st' : St) (h : buildGroup ctx (fuel + 1) k false c st = (.ok v, st')) :
    ∀ s ∈ st.ancestors c, ∀ n ∈ agetL (st.scope s).providers k, (st'.ctor n).called = true := by
  rw [buildGroup_undecorated ctx fuel k false c st hd hg] at h
  simp only [EM.bind, Bool.false_eq_true, if_false] at h
  split at h
  · rename_i u st5 hloop
    injection h with _ e2
    subst e2
    cases u
    exact groupProviders_called ctx L L' fuel k _ st st5 hv hloop
  · injection h with e1 _; cases e1

theorem C10_failure_is_group_failure (ctx : Ctx) (fuel : Nat) (k : Key) (n : Nat) (st : St) (e : DErr) (s' : St)
    (h : callCtor ctx fuel n (st.ctor n).origS st = (.error (.err e), s')) :
    EM.wrapErr (callCtor ctx fuel n (st.ctor n).origS) (.paramGroup k (ctorId ctx.sameIds (st.ctor n).fn)) st =
      (.error (.err (.paramGroup k (ctorId ctx.sameIds (st.ctor n).fn) e)), s') := by
  simp [EM.wrapErr, h]

theorem C10_members_are_feeders_outputs (p : Program) (S : Nat) (k : Key) (v : Val)
    (h : v ∈ agetL ((runProgram p).1.scope S).groups k) :
    ∃ n slot decl fl, n < (runProgram p).1.ctors.length ∧ ((runProgram p).1.ctor n).s = S ∧
      ((runProgram p).1.ctor n).called = true ∧ (k, slot, decl, fl) ∈ slotGroupLeaves ((runProgram p).1.ctor n).results ∧
      ∃ ret : Ret, memberOf p.types ret slot decl fl v ∧
        (ret.dry = false → ret.f = ((runProgram p).1.ctor n).fn.id ∧
          Event.exit (.ctor n) ret.f ret.x .ok ∈ (runProgram p).1.hist) :=
  (just2_program p).groups S k v h

/-- non-vacuity (a test): the group keys of a flatten result and of a plain grouped result with an As interface -/
example : slotGroupLeaves [.val (.grouped 0 31 11 "g" true []), .err, .val (.grouped 2 12 12 "h" false [21])] =
    [({ ty := 11, name := "", group := "g" }, 0, 31, true), ({ ty := 12, name := "", group := "h" }, 2, 12, false),
     ({ ty := 21, name := "", group := "h" }, 2, 12, false)] := by decide

/-- the container at the end of any history satisfies the resolver's well-formedness invariants -/
private theorem reachable_nb (p : Program) : NBInv p.types (runProgram p).1 :=
  NBInv.runOps p.ctx p.fns p.ops 0 {} [] (NBInv.init _)

theorem C10_store_is_the_history_account (p : Program) (hnd : p.cfg.dry = false) (S : Nat) (k : Key) :
    agetL ((runProgram p).1.scope S).groups k =
      (runProgram p).1.hist.flatMap (evContrib p.ctx (runProgram p).1 S k) :=
  gx_program p hnd S k

theorem C10_each_built_feeder_ran_exactly_once (p : Program) (hnd : p.cfg.dry = false) (n : Nat) :
    okExits (.ctor n) (runProgram p).1.hist ≤ 1 ∧
    (((runProgram p).1.ctor n).called = true →
      okExits (.ctor n) (runProgram p).1.hist = 1 ∧
      ∃ x, Event.exit (.ctor n) ((runProgram p).1.ctor n).fn.id x .ok ∈ (runProgram p).1.hist) := by
  have hi := (reachable_nb p).h
  refine ⟨(hi.ctorOnce n).1, fun hc => ?_⟩
  obtain ⟨x, hx⟩ := ce_program p hnd n hc
  have := okExits_pos_of_mem _ _ _ _ hx
  have := (hi.ctorOnce n).1
  exact ⟨by omega, x, hx⟩

theorem C10_delivery_is_the_history_account (p : Program) (hnd : p.cfg.dry = false) (fuel : Nat) (k : Key) (c : Nat)
    (hd : ∀ s ∈ (runProgram p).1.ancestors c, aget ((runProgram p).1.scope s).decorators k = none)
    (hg : ∀ s ∈ (runProgram p).1.ancestors c, aget ((runProgram p).1.scope s).decoratedGroups k = none)
    (v : Val) (st' : St) (h : buildGroup p.ctx (fuel + 1) k false c (runProgram p).1 = (.ok v, st')) :
    v = .sl (((runProgram p).1.ancestors c).flatMap fun s => st'.hist.flatMap (evContrib p.ctx st' s k)) ∧
    (∀ s ∈ (runProgram p).1.ancestors c, ∀ n ∈ agetL ((runProgram p).1.scope s).providers k,
      (st'.ctor n).called = true ∧ ∃ x, Event.exit (.ctor n) (st'.ctor n).fn.id x .ok ∈ st'.hist) := by
  have hnb := reachable_nb p
  have hgx := (gx_program p hnd).buildGroup hnd hnb.home (fuel + 1) k false c
  have hce := (CE.engine (ctx := p.ctx) hnd (fuel + 1)).1 k false c _ (ce_program p hnd)
  rw [h] at hgx hce
  simp only at hgx hce
  refine ⟨?_, fun s hs n hn => ?_⟩
  · rw [C10_members p.ctx fuel k c _ hd hg v st' h]
    congr 1
    exact flatMap_congr' _ _ _ (fun s _ => hgx s k)
  · have hcl := C10_feeders_built p.ctx _ _ fuel k c _ ⟨hnb.h.valid, rfl, rfl⟩ hd hg v st' h s hs n hn
    exact ⟨hcl, hce n hcl⟩

/-- non-vacuity (a *test*, run by the evaluator at build time, not a theorem): two constructors feed group "g", the group is
    consumed twice; the store holds two members and so does the history's account -/
def demoTypes : List TypeInfo :=
  [{ id := 0, kind := .iface, elem := none, impl := [], isErr := true },
   { id := 1, kind := .struct, elem := none, impl := [], isErr := false },
   { id := 2, kind := .struct, elem := none, impl := [], isErr := false },
   { id := 10, kind := .ptr, elem := none, impl := [], isErr := false },
   { id := 20, kind := .slice, elem := some 10, impl := [], isErr := false }]
def demoIn : GoT := .strct 100
  [({ name := "In", exported := true, anon := true, tags := {} }, .univ 1),
   ({ name := "G", exported := true, anon := false, tags := { group := "g" } }, .univ 20)]
def demoProgram : Program :=
  { cfg := {}, types := demoTypes,
    fns := [{ id := 1, name := "a", nonfunc := none, ins := [], variadic := false, outs := [.univ 10] },
            { id := 2, name := "b", nonfunc := none, ins := [], variadic := false, outs := [.univ 10] },
            { id := 3, name := "i", nonfunc := none, ins := [demoIn], variadic := false, outs := [] }],
    script := [], ops := [.provide 0 1 { group := "g" }, .provide 0 2 { group := "g" }, .invoke 0 3 false, .invoke 0 3 false],
    sameIds := true }
#guard (agetL ((runProgram demoProgram).1.scope 0).groups ⟨10, "", "g"⟩).length == 2
#guard ((runProgram demoProgram).1.hist.flatMap (evContrib demoProgram.ctx (runProgram demoProgram).1 0 ⟨10, "", "g"⟩)).length == 2

#print axioms C10_store_is_the_history_account
#print axioms C10_each_built_feeder_ran_exactly_once
#print axioms C10_delivery_is_the_history_account
#print axioms C10_members
#print axioms C10_members_are_feeders_outputs
#print axioms C10_feeders_built
#print axioms C10_failure_is_group_failure
end Dig.C10
