import DigModel.Props.C01
import DigModel.Proofs.RootCauseProgram
/-
  C04 — Missing dependencies: required means error, optional means zero value.

  * `C04_required_missing` / `C04_optional_missing`: a key with no decorator, no cached value and no
    provider anywhere on the path to the root yields `errMissingTypes [k]` if required and the zero value if
    optional — and nothing is executed or changed (from C01_nothing);
  * `C04_shallow`: the pre-call check reports exactly the required single keys that have no provider on the
    path (and no decorated value in the scope itself), as `errMissingDependencies{errMissingTypes}`;
  * `C04_ctor_not_run`: a constructor one of whose direct required dependencies is missing is not entered:
    `constructorNode.Call` returns `errMissingDependencies` and appends no event;
  * `C04_optional_absorbs_only_missing`: the provider loop turns a provider's failure into the zero value
    only if the parameter is optional AND the error chain contains `errMissingDependencies`; every other
    error (in particular a constructor's own error) is wrapped and returned, never hidden.
  The "Invoke succeeds when everything is available" direction needs termination + the master invariant
  and is carried by the correspondence check.
-/
namespace Dig.C04

theorem C04_required_missing (ctx : Ctx) (fuel : Nat) (k : Key) (c : Nat) (st : St)
    (h1 : findDeco st k (st.ancestors c) = none) (h2 : findDecoratedValue st k (st.ancestors c) = none)
    (h3 : findProviders st k (st.ancestors c) = .none) :
    buildSingle ctx (fuel + 1) k false c st = (.error (.err (.missingTypes [k])), st) := by
  have := C01.C01_nothing ctx fuel k false c st h1 h2 h3
  simpa using this

theorem C04_optional_missing (ctx : Ctx) (fuel : Nat) (k : Key) (c : Nat) (st : St)
    (h1 : findDeco st k (st.ancestors c) = none) (h2 : findDecoratedValue st k (st.ancestors c) = none)
    (h3 : findProviders st k (st.ancestors c) = .none) :
    buildSingle ctx (fuel + 1) k true c st = (.ok (zeroVal ctx.env k.ty), st) := by
  have := C01.C01_nothing ctx fuel k true c st h1 h2 h3
  simpa using this

theorem C04_shallow (c : Nat) (ps : List Param) (st : St) :
    shallowCheck c ps st =
      (match missingOfList st c ps with
       | [] => .ok ()
       | ks => .error (.err (.missingDeps (.missingTypes ks))), st) := by
  unfold shallowCheck
  cases missingOfList st c ps <;> rfl

/-- which single keys the shallow check reports -/
theorem C04_shallow_single (st : St) (c : Nat) (k : Key) (opt : Bool) :
    missingOf st c (.single k opt) =
      if (st.allProviders c k).isEmpty && (aget (st.scope c).decoratedValues k).isNone && !opt then [k] else [] := by
  simp [missingOf]

mutual
private theorem missingOf_scopes (a b : St) (h : a.scopes = b.scopes) (c : Nat) : ∀ p, missingOf a c p = missingOf b c p
  | .single k opt => by simp only [missingOf, St.allProviders, St.ancestors, St.scope, h]; rfl
  | .grouped _ _ _ _ => by simp [missingOf]
  | .object _ fs => by simp only [missingOf]; exact missingOfList_scopes a b h c fs
private theorem missingOfList_scopes (a b : St) (h : a.scopes = b.scopes) (c : Nat) : ∀ ps, missingOfList a c ps = missingOfList b c ps
  | [] => by simp [missingOfList]
  | p :: ps => by simp only [missingOfList, missingOf_scopes a b h c p, missingOfList_scopes a b h c ps]
end

private theorem missingOfList_modCtor (st : St) (n : Nat) (f : CtorNode → CtorNode) (c : Nat) (ps : List Param) :
    missingOfList (st.modCtor n f) c ps = missingOfList st c ps :=
  missingOfList_scopes (st.modCtor n f) st rfl c ps

theorem C04_ctor_not_run (ctx : Ctx) (fuel n c : Nat) (st : St)
    (hc : (st.ctor n).called = false) (ho : (st.ctor n).onStack = false)
    (hm : missingOfList st c (st.ctor n).params ≠ []) :
    (callCtor ctx (fuel + 1) n c st).1 = .error (.err (.missingDeps (.missingTypes (missingOfList st c (st.ctor n).params)))) ∧
    (callCtor ctx (fuel + 1) n c st).2.log = st.log ∧ (callCtor ctx (fuel + 1) n c st).2.hist = st.hist := by
  simp only [callCtor, hc, ho, Bool.false_eq_true, if_false, EM.finally_, EM.bind, C04_shallow, missingOfList_modCtor]
  cases hl : missingOfList st c (st.ctor n).params with
  | nil => exact absurd hl hm
  | cons a l => simp; exact ⟨rfl, rfl⟩

theorem C04_optional_absorbs_only_missing (env : TyEnv) (k : Key) (opt : Bool) (cid : Nat) (e : DErr) (s : St) :
    providerStep env k opt cid (.error (.err e), s) =
      if e.hasMissingDeps && opt then (.ok (some (zeroVal env k.ty)), s)
      else (.error (.err (.paramSingle k cid e)), s) := by
  simp only [providerStep]

/-- the resolution stage of an Invoke fails by itself only with "missing type" or "cycle"; every other error is a user
    function's own error or recovered panic (`engine_root`) -/
theorem C04_resolver_fails_only_for_missing_or_cycle (ctx : Ctx) (hok : AllOk ctx) (fn : Fn) (params : List Param)
    (s : Nat) (info : Bool) (w : St) (e : DErr) (h : (invokeRun ctx fn params s info w).2.v = .err e) :
    (∃ ks, e.rootCause = .missingTypes ks) ∨ (∃ p s, e.rootCause = .cycle p s) :=
  invokeRun_allOk ctx hok fn params s info w e h

/-- an optional parameter never hides a user function's failure (whole resolver, any state): a resolver call that
    returns normally has logged no failing execution -/
theorem C04_optional_never_hides_a_failure (ctx : Ctx) (fuel : Nat) (ps : List Param) (c : Nat) (st : St) (args : List Val) (st' : St)
    (h : buildList ctx fuel ps c st = (.ok args, st')) : ∃ l, st'.log = st.log ++ l ∧ ∀ e ∈ l, e.isFail = false := by
  obtain ⟨l, hl, hg⟩ := (engine_root ctx fuel).2.2.2.2.2 ps c st
  rw [h] at hl hg
  exact ⟨l, hl, hg⟩

/-- whole programs without failing scripts: every error is dig's own and no execution failed -/
theorem C04_no_user_failure_no_user_error (p : Program) (hok : AllOk p.ctx) : ∀ r ∈ (runProgram p).2,
    (∀ e, r.v = .err e → DigRoot e ∧ Clean r.ev) ∧ (∀ f x, r.v ≠ .panicUser f x) := program_allOk p hok

#print axioms C04_resolver_fails_only_for_missing_or_cycle
#print axioms C04_optional_never_hides_a_failure
#print axioms C04_no_user_failure_no_user_error
#print axioms C04_required_missing
#print axioms C04_optional_missing
#print axioms C04_shallow
#print axioms C04_shallow_single
#print axioms C04_ctor_not_run
#print axioms C04_optional_absorbs_only_missing
end Dig.C04
