import DigModel.Props.C01
import DigModel.Proofs.RootCauseProgram
import DigModel.Proofs.AvailProgram
/-
  C04 — Missing dependencies: required means error, optional means zero value.

  * `C04_required_missing` / `C04_optional_missing`: a key with no decorator, no cached value and no
    provider anywhere on the path to the root yields `errMissingTypes [k]` if required and the zero value if
    optional — and nothing is executed or changed (from C01_nothing);
  * `C04_shallow`: the pre-call check reports exactly the required single keys that have no provider on the
    path (and no decorated value in the scope itself), as `errMissingDependencies{errMissingTypes}`;
  * `C04_ctor_not_run`: a constructor one of whose direct required dependencies is missing is not entered:
    `constructorNode.Call` returns `errMissingDependencies` and appends no event;
  * `C04_optional_absorbs_only_missing`: the provider loop turns a provider's failure into the zero value
    only if the parameter is optional AND the error chain contains `errMissingDependencies`; every other
    error (in particular a constructor's own error) is wrapped and returned, never hidden.
  * **"Invoke succeeds when everything is available"** (`Proofs/Avail*.lean`), for the Invoke that follows any program:
    `C04_missing_failure_is_real` — a "missing type" failure names only required single keys, of the invoked function
    or of a constructor/decorator in its closure, for which no constructor is visible from the scope they are looked
    up from; `C04_runtime_cycle_is_real` — a "cycle" failure of the resolver means a node of the closure is needed,
    through parameters of constructors *and decorators*, to build its own arguments;
    `C04_invoke_succeeds_when_available` — hence, when no user function fails, every such key has a visible
    constructor and no node of the closure is below itself, Invoke answers `ok` (unless the scope's own graph check
    reports a cycle, which `C04_invoke_succeeds_when_available_eager` excludes without DeferAcyclicVerification).
    The dependency relation `Below` includes decorators' parameters: the graph dig checks does not, and a decorator
    can close a cycle that only the run-time mark finds (demo below, replayed on the real library).
-/
namespace Dig.C04

theorem C04_required_missing (ctx : Ctx) (fuel : Nat) (k : Key) (c : Nat) (st : St)
    (h1 : findDeco st k (st.ancestors c) = none) (h2 : findDecoratedValue st k (st.ancestors c) = none)
    (h3 : findProviders st k (st.ancestors c) = .none) :
    buildSingle ctx (fuel + 1) k false c st = (.error (.err (.missingTypes [k])), st) := by
  have := C01.C01_nothing ctx fuel k false c st h1 h2 h3
  simpa using this

theorem C04_optional_missing (ctx : Ctx) (fuel : Nat) (k : Key) (c : Nat) (st : St)
    (h1 : findDeco st k (st.ancestors c) = none) (h2 : findDecoratedValue st k (st.ancestors c) = none)
    (h3 : findProviders st k (st.ancestors c) = .none) :
    buildSingle ctx (fuel + 1) k true c st = (.ok (zeroVal ctx.env k.ty), st) := by
  have := C01.C01_nothing ctx fuel k true c st h1 h2 h3
  simpa using this

theorem C04_shallow (c : Nat) (ps : List Param) (st : St) :
    shallowCheck c ps st =
      (match missingOfList st c ps with
       | [] => .ok ()
       | ks => .error (.err (.missingDeps (.missingTypes ks))), st) := by
  unfold shallowCheck
  cases missingOfList st c ps <;> rfl

/-- which single keys the shallow check reports -/
theorem C04_shallow_single (st : St) (c : Nat) (k : Key) (opt : Bool) :
    missingOf st c (.single k opt) =
      if (st.allProviders c k).isEmpty && (aget (st.scope c).decoratedValues k).isNone && !opt then [k] else [] := by
  simp [missingOf]

mutual
private theorem missingOf_scopes (a b : St) (h : a.scopes = b.scopes) (c : Nat) : ∀ p, missingOf a c p = missingOf b c p
  | .single k opt => by simp only [missingOf, St.allProviders, St.ancestors, St.scope, h]; rfl
  | .grouped _ _ _ _ => by simp [missingOf]
  | .object _ fs => by simp only [missingOf]; exact missingOfList_scopes a b h c fs
private theorem missingOfList_scopes (a b : St) (h : a.scopes = b.scopes) (c : Nat) : ∀ ps, missingOfList a c ps = missingOfList b c ps
  | [] => by simp [missingOfList]
  | p :: ps => by simp only [missingOfList, missingOf_scopes a b h c p, missingOfList_scopes a b h c ps]
end

private theorem missingOfList_modCtor (st : St) (n : Nat) (f : CtorNode → CtorNode) (c : Nat) (ps : List Param) :
    missingOfList (st.modCtor n f) c ps = missingOfList st c ps :=
  missingOfList_scopes (st.modCtor n f) st rfl c ps

theorem C04_ctor_not_run (ctx : Ctx) (fuel n c : Nat) (st : St)
    (hc : (st.ctor n).called = false) (ho : (st.ctor n).onStack = false)
    (hm : missingOfList st c (st.ctor n).params ≠ []) :
    (callCtor ctx (fuel + 1) n c st).1 = .error (.err (.missingDeps (.missingTypes (missingOfList st c (st.ctor n).params)))) ∧
    (callCtor ctx (fuel + 1) n c st).2.log = st.log ∧ (callCtor ctx (fuel + 1) n c st).2.hist = st.hist := by
  simp only [callCtor, hc, ho, Bool.false_eq_true, if_false, EM.finally_, EM.bind, C04_shallow, missingOfList_modCtor]
  cases hl : missingOfList st c (st.ctor n).params with
  | nil => exact absurd hl hm
  | cons a l => simp; exact ⟨rfl, rfl⟩

theorem C04_optional_absorbs_only_missing (env : TyEnv) (k : Key) (opt : Bool) (cid : Nat) (e : DErr) (s : St) :
    providerStep env k opt cid (.error (.err e), s) =
      if e.hasMissingDeps && opt then (.ok (some (zeroVal env k.ty)), s)
      else (.error (.err (.paramSingle k cid e)), s) := by
  simp only [providerStep]

/-- the resolution stage of an Invoke fails by itself only with "missing type" or "cycle"; every other error is a user
    function's own error or recovered panic (`engine_root`) -/
theorem C04_resolver_fails_only_for_missing_or_cycle (ctx : Ctx) (hok : AllOk ctx) (fn : Fn) (params : List Param)
    (s : Nat) (info : Bool) (w : St) (e : DErr) (h : (invokeRun ctx fn params s info w).2.v = .err e) :
    (∃ ks, e.rootCause = .missingTypes ks) ∨ (∃ p s, e.rootCause = .cycle p s) :=
  invokeRun_allOk ctx hok fn params s info w e h

/-- an optional parameter never hides a user function's failure (whole resolver, any state): a resolver call that
    returns normally has logged no failing execution -/
theorem C04_optional_never_hides_a_failure (ctx : Ctx) (fuel : Nat) (ps : List Param) (c : Nat) (st : St) (args : List Val) (st' : St)
    (h : buildList ctx fuel ps c st = (.ok args, st')) : ∃ l, st'.log = st.log ++ l ∧ ∀ e ∈ l, e.isFail = false := by
  obtain ⟨l, hl, hg⟩ := (engine_root ctx fuel).2.2.2.2.2 ps c st
  rw [h] at hl hg
  exact ⟨l, hl, hg⟩

/-- whole programs without failing scripts: every error is dig's own and no execution failed -/
theorem C04_no_user_failure_no_user_error (p : Program) (hok : AllOk p.ctx) : ∀ r ∈ (runProgram p).2,
    (∀ e, r.v = .err e → DigRoot e ∧ Clean r.ev) ∧ (∀ f x, r.v ≠ .panicUser f x) := program_allOk p hok


/-! ### a failure is real; available ⇒ succeeds (whole programs) -/

/-- a "missing type" failure is real: every key it names is a required single parameter of the invoked function (looked
    up from the invoking scope) or of a constructor or decorator in the closure of the Invoke (looked up from that
    node's scope), and no constructor for it is visible from there -/
theorem C04_missing_failure_is_real (p : Program) (i s f : Nat) (info : Bool) (fn : Fn) (params : List Param) (w0 : St)
    (hf : fnOf p.fns f = some fn) (hnf : fn.nonfunc = none)
    (hpp : parseParams p.types { (runProgram p).1 with log := [] } s fn = (.ok params, w0)) (e : DErr) (ks : List Key)
    (hv : (step p.ctx p.fns (runProgram p).1 i (.invoke s f info)).2.v = .err e) (hks : e.rootCause = .missingTypes ks) :
    ks ≠ [] ∧ ∀ k ∈ ks, ∃ c, (runProgram p).1.allProviders c k = [] ∧
      (InvokeReq s params c k ∨ ∃ x, InvokeClosure (runProgram p).1 s params x ∧ ReqNode (runProgram p).1 x c k) := by
  rcases program_invoke_real p i s f info fn params w0 hf hnf hpp e hv with ⟨path, he, _⟩ | hr
  · rw [he] at hks; simp [DErr.rootCause] at hks
  · exact hr.mis ks hks

/-- a "cycle" failure is real: either the acyclicity check of the scope's graph reported it, or a node in the closure
    of the Invoke is needed — through parameters of constructors and decorators — to build its own arguments -/
theorem C04_runtime_cycle_is_real (p : Program) (i s f : Nat) (info : Bool) (fn : Fn) (params : List Param) (w0 : St)
    (hf : fnOf p.fns f = some fn) (hnf : fn.nonfunc = none)
    (hpp : parseParams p.types { (runProgram p).1 with log := [] } s fn = (.ok params, w0)) (e : DErr) (path : List Nat) (sc : Nat)
    (hv : (step p.ctx p.fns (runProgram p).1 i (.invoke s f info)).2.v = .err e) (hc : e.rootCause = .cycle path sc) :
    (∃ q, checkAcyclic w0 s = .cycle q) ∨
    ∃ x, InvokeClosure (runProgram p).1 s params x ∧ Below (runProgram p).1 x x := by
  rcases program_invoke_real p i s f info fn params w0 hf hnf hpp e hv with ⟨_, _, hq⟩ | hr
  · exact Or.inl hq
  · exact Or.inr (hr.cyc path sc hc)

/-- **Invoke succeeds when everything is available**: no user function is scripted to fail, every required single key
    in the closure has a visible constructor, no node of the closure is below itself -/
theorem C04_invoke_succeeds_when_available (p : Program) (hok : AllOk p.ctx) (i s f : Nat) (info : Bool) (fn : Fn)
    (params : List Param) (w0 : St) (hf : fnOf p.fns f = some fn) (hnf : fn.nonfunc = none)
    (hs : s < (runProgram p).1.scopes.length)
    (hpp : parseParams p.types { (runProgram p).1 with log := [] } s fn = (.ok params, w0))
    (havail : ∀ c k, (InvokeReq s params c k ∨ ∃ x, InvokeClosure (runProgram p).1 s params x ∧ ReqNode (runProgram p).1 x c k) →
      (runProgram p).1.allProviders c k ≠ [])
    (hnocyc : ∀ x, InvokeClosure (runProgram p).1 s params x → ¬ Below (runProgram p).1 x x) :
    (step p.ctx p.fns (runProgram p).1 i (.invoke s f info)).2.v = .ok ∨
    ∃ path, (step p.ctx p.fns (runProgram p).1 i (.invoke s f info)).2.v = .err (.invalid (.cycle path s)) ∧
      ∃ q, checkAcyclic w0 s = .cycle q :=
  program_invoke_available p hok i s f info fn params w0 hf hnf hs hpp havail hnocyc

theorem C04_invoke_succeeds_when_available_eager (p : Program) (hok : AllOk p.ctx) (hd : p.cfg.deferAcyclic = false)
    (i s f : Nat) (info : Bool) (fn : Fn)
    (params : List Param) (w0 : St) (hf : fnOf p.fns f = some fn) (hnf : fn.nonfunc = none)
    (hs : s < (runProgram p).1.scopes.length)
    (hpp : parseParams p.types { (runProgram p).1 with log := [] } s fn = (.ok params, w0))
    (havail : ∀ c k, (InvokeReq s params c k ∨ ∃ x, InvokeClosure (runProgram p).1 s params x ∧ ReqNode (runProgram p).1 x c k) →
      (runProgram p).1.allProviders c k ≠ [])
    (hnocyc : ∀ x, InvokeClosure (runProgram p).1 s params x → ¬ Below (runProgram p).1 x x) :
    (step p.ctx p.fns (runProgram p).1 i (.invoke s f info)).2.v = .ok :=
  program_invoke_available_eager p hok hd i s f info fn params w0 hf hnf hs hpp havail hnocyc

/-- the optional half, "exactly when … that constructor's dependencies are unavailable": at any moment of a resolution
    (`st0` = the container when it began, `st` = now, `Stk` = what the on-stack marks mean), the provider loop of
    `paramSingle.Build` hands out the zero value in place of constructor `n` only for an optional parameter and only
    when `n` failed for a *missing type* — a required single key in the closure of `n` without a visible constructor -/
theorem C04_optional_zero_is_justified (ctx : Ctx) (st0 : St) (fuel n : Nat) (st : St) (h0 : RegFrame st0 st)
    (hstk : Stk st0 st (ReachC st0 n (st0.ctor n).origS)) (env : TyEnv) (k : Key) (opt : Bool) (cid : Nat) (z : Val) (s2 : St)
    (h : providerStep env k opt cid (callCtor ctx fuel n (st0.ctor n).origS st) = (.ok (some z), s2)) :
    opt = true ∧ ∃ e ks, (callCtor ctx fuel n (st0.ctor n).origS st).1 = .error (.err e) ∧
      e.rootCause = .missingTypes ks ∧ ks ≠ [] ∧
      ∀ k' ∈ ks, ∃ c, st0.allProviders c k' = [] ∧ ∃ w, ReachC st0 n (st0.ctor n).origS w ∧ ReqNode st0 w c k' :=
  optional_absorbs_real_missing ctx st0 fuel n st h0 hstk env k opt cid z s2 h

/-- non-vacuity (a test): between operations no mark is set, so `Stk` holds of every reachable container -/
example (p : Program) (T : Who → Prop) : Stk (runProgram p).1 (runProgram p).1 T := by
  intro m hm
  rw [(program_safeInv p).nb.h.ctorIdle m] at hm
  cases hm

/-- non-vacuity (a test): with one parameterless provider of `k`, a consumer of `k` meets both hypotheses -/
example : let st : St := { scopes := [{ parent := none, providers := [(⟨5, "", ""⟩, [0])] }], ctors := [default] }
    (∀ c k, (InvokeReq 0 [.single ⟨5, "", ""⟩ false] c k ∨
        ∃ x, InvokeClosure st 0 [.single ⟨5, "", ""⟩ false] x ∧ ReqNode st x c k) → st.allProviders c k ≠ []) ∧
    (∀ x, InvokeClosure st 0 [.single ⟨5, "", ""⟩ false] x → ¬ Below st x x) := by
  intro st
  have hnp : ∀ x, nodeParams st x = [] := by
    intro x
    cases x with
    | ctor n =>
      rcases n with _ | n
      · rfl
      · simp [nodeParams, st, St.ctor]; rfl
    | deco d => simp [nodeParams, st, St.deco]; rfl
    | invoked => rfl
  constructor
  · intro c k h
    rcases h with ⟨rfl, hk⟩ | ⟨x, _, hq, _⟩
    · simp [reqSinglesL, reqSingles] at hk
      subst hk
      decide
    · rw [hnp x] at hq; simp [reqSinglesL] at hq
  · intro x _ ⟨l, hl, _⟩
    rw [hnp x] at hl; simp [leavesL] at hl

/-- demo (a *test*, run by the evaluator at build time; the same program was replayed on the real library): the graph
    dig checks is acyclic (A needs B's key), but the decorator of B's key needs A's key — building A's arguments runs the
    decorator, which needs A: the Invoke fails with a cycle found at run time.  Without the decorator it succeeds. -/
def demoTypes : List TypeInfo :=
  [{ id := 0, kind := .iface, elem := none, impl := [], isErr := true },
   { id := 10, kind := .ptr, elem := none, impl := [], isErr := false },
   { id := 11, kind := .ptr, elem := none, impl := [], isErr := false }]
def demoFns : List Fn :=
  [{ id := 1, name := "a", nonfunc := none, ins := [.univ 11], variadic := false, outs := [.univ 10] },
   { id := 2, name := "b", nonfunc := none, ins := [], variadic := false, outs := [.univ 11] },
   { id := 3, name := "d", nonfunc := none, ins := [.univ 11, .univ 10], variadic := false, outs := [.univ 11] },
   { id := 4, name := "i", nonfunc := none, ins := [.univ 10], variadic := false, outs := [] }]
def demoCycle : Program :=
  { cfg := {}, types := demoTypes, fns := demoFns, script := [],
    ops := [.provide 0 1 {}, .provide 0 2 {}, .decorate 0 3 false false, .invoke 0 4 false], sameIds := true }
def demoFine : Program := { demoCycle with ops := [.provide 0 1 {}, .provide 0 2 {}, .invoke 0 4 false] }
#guard ((runProgram demoCycle).2.map fun r => match r.v with | .ok => 0 | .err e => (if e.isCycleDetected then 2 else 1) | _ => 3) == [0, 0, 0, 2]
#guard ((runProgram demoFine).2.map fun r => match r.v with | .ok => 0 | _ => 1) == [0, 0, 0]

#print axioms C04_resolver_fails_only_for_missing_or_cycle
#print axioms C04_optional_never_hides_a_failure
#print axioms C04_no_user_failure_no_user_error
#print axioms C04_missing_failure_is_real
#print axioms C04_runtime_cycle_is_real
#print axioms C04_invoke_succeeds_when_available
#print axioms C04_invoke_succeeds_when_available_eager
#print axioms C04_optional_zero_is_justified
#print axioms C04_required_missing
#print axioms C04_optional_missing
#print axioms C04_shallow
#print axioms C04_shallow_single
#print axioms C04_ctor_not_run
#print axioms C04_optional_absorbs_only_missing
end Dig.C04
