import DigModel.Proofs.Lookup
import DigModel.Api
import DigModel.Proofs.ReachApi
import DigModel.Proofs.Visible
import DigModel.Proofs.ProvideStages
/-
  C08 — Scope visibility: down the tree only, nearest wins, creation order irrelevant.

  * `C08_path_only`: the provider search of `paramSingle.Build` only ever answers with a scope on the path from
    the requesting scope to the root (`ancestors`), and the nearest one that has a cached value or a provider;
    the same holds for decorators (C12_local) — so nothing registered in a sibling or a descendant is reachable;
  * `C08_child_path`: in a well-formed tree the path of a freshly created child scope is the child followed by
    the path of its parent — whatever was registered in the ancestors *before* the child was created is on the
    child's path exactly like what is registered afterwards (the look-ups read the ancestors' tables at
    resolution time, not a copy taken at creation time);
  * `C08_all_providers_on_path`: the providers seen by the pre-call check are those of the scopes on the path.
  * `C08_reachable_providers_visible` (with `C03_only`): a constructor that an Invoke may run *directly* for a
    single key is listed in the providers of a scope on the path from the requesting scope to the root, and no
    scope nearer on that path provides the key (nearest wins) — constructors of siblings, descendants and of
    farther ancestors that are shadowed are not reachable for that key;
  * `C08_visible_iff` (**whole programs**): in the container any program leaves behind, a constructor is a visible
    provider of a plain key it declares, as seen from scope `s`, **iff** its home scope is on the path from `s` to the
    root — its own scope and every descendant, whenever created; never an ancestor, never a sibling
    (`RegInv.regOK`, `RegWF.provPlain`);
  * `C08_path_is_subtree`: `a` is on the path of `s` ⇒ `s` is in the subtree of `a` (what Provide's walk over the
    descendants relies on; `TreeInv`);
  * `C08_home_scope` (any reachable container, any accepted Provide): the constructor is registered in the scope the call
    was made on, or in the **root** if the call carried `Export(true)`; `C08_root_visible_everywhere`: a constructor whose
    home is the root is a visible provider from *every* scope (the root is on every path: the tree has one root);
  The graph-order half of "creation order is irrelevant" is covered by C05 (`GT`: holders mean dependencies whatever
  the order of scope creation and registration), the C16 twins and the correspondence check.
-/
namespace Dig.C08

theorem C08_path_only (st : St) (k : Key) (c : Nat) :
    (∀ v, findProviders st k (st.ancestors c) = .value v →
        ∃ pre s post, st.ancestors c = pre ++ s :: post ∧ aget (st.scope s).values k = some v ∧
          ∀ s' ∈ pre, aget (st.scope s').values k = none ∧ agetL (st.scope s').providers k = []) ∧
    (∀ pc ns, findProviders st k (st.ancestors c) = .providers pc ns →
        pc ∈ st.ancestors c ∧ ns = agetL (st.scope pc).providers k ∧
        ∃ pre post, st.ancestors c = pre ++ pc :: post ∧
          ∀ s' ∈ pre, aget (st.scope s').values k = none ∧ agetL (st.scope s').providers k = []) := by
  constructor
  · intro v h; exact findProviders_value st k _ v h
  · intro pc ns h
    obtain ⟨pre, post, e, h1, _, _, h4⟩ := findProviders_provs st k _ pc ns h
    exact ⟨by rw [e]; simp, h1, pre, post, e, h4⟩

theorem C08_all_providers_on_path (st : St) (c : Nat) (k : Key) (n : Nat) (h : n ∈ st.allProviders c k) :
    ∃ s ∈ st.ancestors c, n ∈ agetL (st.scope s).providers k := by
  simp only [St.allProviders, List.mem_flatMap] at h
  exact h

theorem nearestProv_spec (st : St) (k : Key) : ∀ (anc : List Nat) (pc : Nat) (ns : List Nat),
    nearestProv st k anc = some (pc, ns) →
    ∃ pre post, anc = pre ++ pc :: post ∧ ns = agetL (st.scope pc).providers k ∧ ns ≠ [] ∧
      ∀ s ∈ pre, agetL (st.scope s).providers k = [] := by
  intro anc
  induction anc with
  | nil => intro pc ns h; simp [nearestProv] at h
  | cons s rest ih =>
    intro pc ns h
    simp only [nearestProv] at h
    cases hp : agetL (st.scope s).providers k with
    | nil =>
      rw [hp] at h
      obtain ⟨pre, post, e, h1, h2, h3⟩ := ih pc ns h
      refine ⟨s :: pre, post, by rw [e]; rfl, h1, h2, ?_⟩
      intro s' hs'
      rcases List.mem_cons.mp hs' with rfl | hm
      · exact hp
      · exact h3 s' hm
    | cons n more =>
      rw [hp] at h
      simp only [Option.some.injEq, Prod.mk.injEq] at h
      obtain ⟨rfl, rfl⟩ := h
      exact ⟨[], rest, rfl, hp.symm, by simp, by simp⟩

theorem C08_reachable_providers_visible (st : St) (c : Nat) (k : Key) (pc : Nat) (ns : List Nat) (n : Nat)
    (hn : nearestProv st k (st.ancestors c) = some (pc, ns)) (hm : n ∈ ns) :
    pc ∈ st.ancestors c ∧ n ∈ agetL (st.scope pc).providers k ∧
    ∃ pre post, st.ancestors c = pre ++ pc :: post ∧ ∀ s ∈ pre, agetL (st.scope s).providers k = [] := by
  obtain ⟨pre, post, e, h1, _, h3⟩ := nearestProv_spec st k _ pc ns hn
  exact ⟨by rw [e]; simp, by rw [← h1]; exact hm, pre, post, e, h3⟩

theorem C08_visible_iff (p : Program) (m : Nat) (hm : m < (runProgram p).1.ctors.length) (k : Key)
    (hk : k ∈ ctorKeys (runProgram p).1 m) (hg : k.group = "") (s : Nat) :
    m ∈ (runProgram p).1.allProviders s k ↔ ((runProgram p).1.ctor m).s ∈ (runProgram p).1.ancestors s :=
  visible_iff (program_safeInv p).nb.reg (program_safeInv p).nb.wf m hm k hk hg s

theorem C08_path_is_subtree (p : Program) (s a : Nat) (h : a ∈ (runProgram p).1.ancestors s) :
    s ∈ (runProgram p).1.subscopes a :=
  mem_subscopes_of_mem_ancestors (gt_program p).tree h

theorem C08_root_visible_everywhere (p : Program) (m : Nat) (hm : m < (runProgram p).1.ctors.length)
    (hhome : ((runProgram p).1.ctor m).s = 0) (k : Key) (hk : k ∈ ctorKeys (runProgram p).1 m) (s : Nat)
    (hs : s < (runProgram p).1.scopes.length) : m ∈ (runProgram p).1.allProviders s k :=
  root_visible_everywhere (program_safeInv p).nb.reg (gt_program p).tree m hm hhome k hk s hs

theorem C08_home_scope (p : Program) (fn : Fn) (i s : Nat) (o : ProvideOpts)
    (hok : (apiProvide p.ctx fn (runProgram p).1 i s o).2.v = .ok) :
    (apiProvide p.ctx fn (runProgram p).1 i s o).1.ctors.length = (runProgram p).1.ctors.length + 1 ∧
    ((apiProvide p.ctx fn (runProgram p).1 i s o).1.ctor (runProgram p).1.ctors.length).s = (if o.export_ then St.root else s) ∧
    ((apiProvide p.ctx fn (runProgram p).1 i s o).1.ctor (runProgram p).1.ctors.length).fn = fn :=
  apiProvide_ok_home (gt_program p) (program_safeInv p).ob p.ctx fn i s o hok

/-- parents have smaller indexes than their children (scopes are only ever appended) -/
def WFTree (scopes : List ScopeSt) : Prop :=
  ∀ j (sc : ScopeSt), scopes[j]? = some sc → ∀ p, sc.parent = some p → p < j

private theorem ancestorsAux_extend (a b : List ScopeSt) (n : Nat) (hn : n = a.length) (hwf : WFTree a)
    (hsame : ∀ j, j < n → ∃ x y, a[j]? = some x ∧ b[j]? = some y ∧ x.parent = y.parent) :
    ∀ fuel s, s < n → ancestorsAux b fuel s = ancestorsAux a fuel s := by
  intro fuel
  induction fuel with
  | zero => intro s _; rfl
  | succ fuel ih =>
    intro s hs
    obtain ⟨x, y, hx, hy, hp⟩ := hsame s hs
    simp only [ancestorsAux, hx, hy]
    congr 1
    rw [← hp]
    cases hpar : x.parent with
    | none => rfl
    | some p =>
      simp only
      exact ih p (by have := hwf s x hx p hpar; omega)

private theorem scopeFold_scopes (child parent : Nat) : ∀ (l : List GNode) (w : St),
    (l.foldl (copyOrder child parent) w).scopes = w.scopes := by
  intro l
  induction l with
  | nil => intro w; rfl
  | cons x xs ih => intro w; simp only [List.foldl_cons]; rw [ih]; cases x <;> rfl

private theorem apiScope_scopes (st : St) (parent : Nat) :
    (apiScope st parent).scopes =
      (st.scopes ++ [({ parent := some parent, gh := (st.scope parent).gh } : ScopeSt)]).modify parent
        (fun x => { x with children := x.children ++ [st.scopes.length] }) := by
  unfold apiScope
  simp only
  rw [scopeFold_scopes]
  rfl

theorem C08_child_path (st : St) (parent : Nat) (hp : parent < st.scopes.length) (hwf : WFTree st.scopes) :
    (apiScope st parent).ancestors st.scopes.length = st.scopes.length :: st.ancestors parent := by
  have hS := apiScope_scopes st parent
  unfold St.ancestors
  rw [hS]
  simp only [List.length_modify, List.length_append, List.length_singleton]
  have hchild : ((st.scopes ++ [({ parent := some parent, gh := (st.scope parent).gh } : ScopeSt)]).modify parent
      (fun x => { x with children := x.children ++ [st.scopes.length] }))[st.scopes.length]? =
      some ({ parent := some parent, gh := (st.scope parent).gh } : ScopeSt) := by
    rw [List.getElem?_modify]
    have : parent ≠ st.scopes.length := by omega
    simp [this]
  simp only [ancestorsAux, hchild]
  congr 1
  apply ancestorsAux_extend st.scopes _ st.scopes.length rfl hwf _ _ parent hp
  intro j hj
  refine ⟨st.scopes[j], ?_, List.getElem?_eq_getElem hj, ?_, ?_⟩
  · exact if parent = j then { st.scopes[j] with children := st.scopes[j].children ++ [st.scopes.length] } else st.scopes[j]
  · rw [List.getElem?_modify, List.getElem?_append_left hj, List.getElem?_eq_getElem hj]
    by_cases h : parent = j <;> simp [h]
  · by_cases h : parent = j <;> simp [h]

/-- the tree stays well-formed when a scope is created -/
theorem C08_tree_wf (st : St) (parent : Nat) (hp : parent < st.scopes.length) (hwf : WFTree st.scopes) :
    WFTree (apiScope st parent).scopes := by
  rw [apiScope_scopes]
  intro j sc hj p hpar
  rw [List.getElem?_modify] at hj
  by_cases hjl : j < st.scopes.length
  · rw [List.getElem?_append_left hjl, List.getElem?_eq_getElem hjl] at hj
    have hpp : (st.scopes[j]).parent = some p := by
      by_cases h : parent = j
      · simp [h] at hj; rw [← hj] at hpar; exact hpar
      · simp [h] at hj; rw [← hj] at hpar; exact hpar
    exact hwf j _ (List.getElem?_eq_getElem hjl) p hpp
  · by_cases hje : j = st.scopes.length
    · subst hje
      have hne : parent ≠ st.scopes.length := by omega
      simp [hne] at hj
      rw [← hj] at hpar
      simp at hpar
      omega
    · have : (st.scopes ++ [({ parent := some parent, gh := (st.scope parent).gh } : ScopeSt)])[j]? = none := by
        simp; omega
      rw [this] at hj; simp at hj

#print axioms C08_visible_iff
#print axioms C08_path_is_subtree
#print axioms C08_root_visible_everywhere
#print axioms C08_home_scope
#print axioms C08_path_only
#print axioms nearestProv_spec
#print axioms C08_reachable_providers_visible
#print axioms C08_all_providers_on_path
#print axioms C08_child_path
#print axioms C08_tree_wf
end Dig.C08
