import DigModel.Proofs.DecoHide
import DigModel.Props.C01
import DigModel.Props.C02
import DigModel.Proofs.Parse
import DigModel.Proofs.Just2Api
/-
  C12 — Decoration: every consumer below a decorator sees its replacement.

  * `C12_consumer` (= C01_decorator_wins): if a scope on the path to the root has a decorator for the key that
    is not itself running, the nearest such decorator is called and what the consumer receives is that
    decorator's output as stored in the decorating scope — never the undecorated value, cached or not;
  * `C12_self_skipped`: a look-up made while a decorator is running skips that decorator (so the decorator
    itself receives what a consumer would have received without it) — by `findDeco_spec`, all decorators
    nearer than the chosen one are on the stack;
  * `C12_once`: a decorator has at most one successful execution per resolver call, none once it has run
    (C02_once), and a decorator that ran is a no-op (C02_deco_cached);
  * `C12_one`: an accepted Decorate never replaces an existing decorator of the scope: every key it
    registers was undecorated in that scope before; a Decorate that is rejected changes nothing at all
    (the state afterwards equals the state before);
  * `C12_local`: `paramSingle.Build` consults decorators only in scopes on the path from the requesting scope
    to the root (`findDeco` ranges over `ancestors`), so scopes outside a decorator's subtree never see it.
  * `C12_decorated_value_is_decorator_output` / `C12_decorated_group_is_decorator_output` (whole programs, invariant
    `Just2`): in every reachable container a decorated single value (a decorated group) stored in scope `S` under
    key `k` is exactly what a successful execution of a decorator registered in `S` returned in the result that
    declares `k` — so with `C12_consumer` what a consumer below receives is that decorator's output.
  * `C12_running_decorator_is_invisible` (full strength, any container, any configuration): while decorator `d` is
    running (on the stack — that is when its own arguments are built), every resolver computation — building a list of
    parameters, a single value, a value group, calling a constructor or another decorator — gives the same result and
    the same executions, and changes the container in the same way, as in the container whose decorator tables do not
    mention `d` at all (`tablesWithout d`: what every table answers with the entries for `d` taken out).  So what a
    decorator receives for the key it decorates is exactly what a consumer in its scope would receive had the
    decorator never been registered: the next outer decorator's output, otherwise the provided value (`commd_engine`).
-/
namespace Dig.C12

theorem C12_consumer (ctx : Ctx) (fuel : Nat) (k : Key) (opt : Bool) (c : Nat) (st : St) (d ds : Nat)
    (h : findDeco st k (st.ancestors c) = some (d, ds)) (v : Val) (st' : St)
    (hb : buildSingle ctx (fuel + 1) k opt c st = (.ok v, st')) :
    st' = (callDeco ctx fuel d ds st).2 ∧ aget (st'.scope ds).decoratedValues k = some v :=
  (C01.C01_decorator_wins ctx fuel k opt c st d ds h).1 v st' hb

theorem C12_self_skipped (st : St) (k : Key) (c d ds : Nat) (h : findDeco st k (st.ancestors c) = some (d, ds)) :
    ∃ pre post, st.ancestors c = pre ++ ds :: post ∧ (st.deco d).state ≠ .onStack ∧
      ∀ s ∈ pre, ∀ d', aget (st.scope s).decorators k = some d' → (st.deco d').state = .onStack := by
  obtain ⟨pre, post, e, _, h2, h3⟩ := findDeco_spec st k _ d ds h
  exact ⟨pre, post, e, h2, h3⟩

theorem C12_local (st : St) (k : Key) (c d ds : Nat) (h : findDeco st k (st.ancestors c) = some (d, ds)) :
    ds ∈ st.ancestors c := by
  obtain ⟨pre, post, e, _⟩ := findDeco_spec st k _ d ds h
  rw [e]; simp

theorem C12_once (ctx : Ctx) (L L' fuel : Nat) (ps : List Param) (c : Nat) (st : St) (hv : VL L L' st) :
    ∃ l, (buildList ctx fuel ps c st).2.hist = st.hist ++ l ∧
      ∀ d, okExits (.deco d) l ≤ 1 ∧ ((st.deco d).state = .called → okExits (.deco d) l = 0) ∧
           ((st.deco d).state = .onStack → okExits (.deco d) l = 0) := by
  obtain ⟨l, h1, _, h3⟩ := C02.C02_once ctx L L' fuel ps c st hv
  exact ⟨l, h1, fun d => ⟨(h3 d).1, (h3 d).2.1, (h3 d).2.2.1⟩⟩

theorem C12_one (ctx : Ctx) (fn : Fn) (st : St) (i s : Nat) (cb info : Bool) :
    (((apiDecorate ctx fn st i s cb info).2.v matches .ok) →
      ∀ k, aget (((apiDecorate ctx fn st i s cb info).1).scope s).decorators k ≠ aget (st.scope s).decorators k →
        aget (st.scope s).decorators k = none) ∧
    ((¬ ((apiDecorate ctx fn st i s cb info).2.v matches .ok)) → (apiDecorate ctx fn st i s cb info).1 = st) := by
  unfold apiDecorate
  cases fn.nonfunc with
  | some _ => exact ⟨fun h => by simp at h, fun _ => rfl⟩
  | none =>
    simp only
    have hp := ghOnly_parseParams ctx.env st s fn
    have hrb := parse_rollback_eq ctx.env st s fn
    cases hpp : parseParams ctx.env st s fn with
    | mk r w =>
      rw [hpp] at hp hrb
      simp only at hrb
      cases r with
      | error e => exact ⟨fun h => by simp at h, fun _ => hrb⟩
      | ok params =>
        simp only
        cases newResultList ctx.env {} fn with
        | error e => exact ⟨fun h => by simp at h, fun _ => hrb⟩
        | ok results =>
          simp only
          cases resultKeys ctx.env (slotResults results) with
          | error e => exact ⟨fun h => by simp at h, fun _ => hrb⟩
          | ok keys =>
            simp only
            by_cases hcond : (hasDup keys || keys.any fun k => (aget (w.scope s).decorators k).isSome) = true
            · rw [if_pos hcond]
              exact ⟨fun h => by simp at h, fun _ => hrb⟩
            · rw [if_neg hcond]
              refine ⟨fun _ k hk => ?_, fun h => by simp at h⟩
              have hwd : (w.scope s).decorators = (st.scope s).decorators := ((hp.2.2.2.2.2.2.2 s).2.2.2.1).symm
              simp only [Bool.or_eq_true, not_or] at hcond
              have hnone : ∀ k' ∈ keys, aget (w.scope s).decorators k' = none := by
                intro k' hk'
                have := hcond.2
                simp only [List.any_eq_true, not_exists, not_and] at this
                have := this k' hk'
                simpa using this
              by_cases hmem : k ∈ keys
              · rw [← hwd]; exact hnone k hmem
              · exfalso; apply hk
                rw [← hwd]
                show aget ((St.modScope _ s _).scope s).decorators k = _
                rw [scope_modScope]
                by_cases hc : s = s ∧ s < w.scopes.length
                · rw [if_pos hc]; exact foldl_aset_other keys _ _ k hmem
                · rw [if_neg hc]; rfl

theorem C12_decorated_value_is_decorator_output (p : Program) (S : Nat) (k : Key) (v : Val)
    (h : aget ((runProgram p).1.scope S).decoratedValues k = some v) :
    ∃ d slot decl, d < (runProgram p).1.decos.length ∧ ((runProgram p).1.deco d).s = S ∧
      (false, k, slot, decl) ∈ slotDecoLeaves p.types ((runProgram p).1.deco d).results ∧
      ∃ ret : Ret, v = ret.val p.types slot decl ∧
        (ret.dry = false → ret.f = ((runProgram p).1.deco d).fn.id ∧
          Event.exit (.deco d) ret.f ret.x .ok ∈ (runProgram p).1.hist) :=
  (just2_program p).dvalues S k v h

theorem C12_decorated_group_is_decorator_output (p : Program) (S : Nat) (k : Key) (v : Val)
    (h : aget ((runProgram p).1.scope S).decoratedGroups k = some v) :
    ∃ d slot decl, d < (runProgram p).1.decos.length ∧ ((runProgram p).1.deco d).s = S ∧
      (true, k, slot, decl) ∈ slotDecoLeaves p.types ((runProgram p).1.deco d).results ∧
      ∃ ret : Ret, v = ret.val p.types slot decl ∧
        (ret.dry = false → ret.f = ((runProgram p).1.deco d).fn.id ∧
          Event.exit (.deco d) ret.f ret.x .ok ∈ (runProgram p).1.hist) :=
  (just2_program p).dgroups S k v h


/-- **a running decorator is invisible to the resolution of its own arguments** -/
theorem C12_running_decorator_is_invisible (ctx : Ctx) (fuel d : Nat) (st : St) (h : (st.deco d).state = .onStack) :
    -- the container without `d`: same container, decorator tables without the entries for `d`
    (∀ j k, aget (tablesWithout d st j) k =
      if j < st.scopes.length then
        (match aget (st.scope j).decorators k with | some d' => if d' = d then none else some d' | none => none) else none) ∧
    (∀ ps c, buildList ctx fuel ps c (dset (tablesWithout d st) st) =
      ((buildList ctx fuel ps c st).1, dset (tablesWithout d st) (buildList ctx fuel ps c st).2)) ∧
    (∀ k opt c, buildSingle ctx fuel k opt c (dset (tablesWithout d st) st) =
      ((buildSingle ctx fuel k opt c st).1, dset (tablesWithout d st) (buildSingle ctx fuel k opt c st).2)) ∧
    (∀ k soft c, buildGroup ctx fuel k soft c (dset (tablesWithout d st) st) =
      ((buildGroup ctx fuel k soft c st).1, dset (tablesWithout d st) (buildGroup ctx fuel k soft c st).2)) := by
  have hh := hid_tablesWithout d st h
  have he := commd_engine d (tablesWithout d st) ctx fuel
  refine ⟨fun j k => ?_, fun ps c => (he.2.2.2.2.2 ps c st hh).1, fun k opt c => (he.2.2.1 k opt c st hh).1,
    fun k soft c => (he.2.2.2.1 k soft c st hh).1⟩
  rw [hh.tables j k]
  cases aget (st.scope j).decorators k <;> rfl

/-- the arguments of a decorator are built while it is on the stack (`callDeco`), i.e. in the situation of the theorem above -/
theorem C12_arguments_built_while_running (ctx : Ctx) (fuel d s : Nat) (st : St) (h : (st.deco d).state ≠ .called) :
    callDeco ctx (fuel + 1) d s st =
      EM.finally_
        (EM.bind (shallowCheck s (st.deco d).params) fun _ =>
         EM.bind (EM.wrapErr (buildList ctx fuel (st.deco d).params (st.deco d).s) .argsFailed) fun args =>
         decoTail ctx d (st.deco d) args)
        (fun st => st.modDeco d fun x => if x.state == .called then x else { x with state := .ready })
        (st.modDeco d fun x => { x with state := .onStack }) := by
  simp only [callDeco]
  have : ((st.deco d).state == DecoState.called) = false := by
    cases hst : (st.deco d).state <;> simp_all
  simp only [this, Bool.false_eq_true, if_false]

#print axioms C12_running_decorator_is_invisible
#print axioms C12_arguments_built_while_running
#print axioms C12_consumer
#print axioms C12_decorated_value_is_decorator_output
#print axioms C12_decorated_group_is_decorator_output
#print axioms C12_self_skipped
#print axioms C12_local
#print axioms C12_once
#print axioms C12_one
end Dig.C12
