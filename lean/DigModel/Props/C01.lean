import DigModel.Proofs.Lookup
import DigModel.Proofs.ApiLemmas
import DigModel.Proofs.Shape
import DigModel.Proofs.ProvApi
import DigModel.Proofs.JustApi
import DigModel.Proofs.RegOKApi
/-
  C01 — Injected values are exactly the registered constructors' outputs (resolution rule).

  What `paramSingle.Build` delivers, for every state, key, scope and outcome of the nested calls:

  * `C01_decorator_wins`: if some scope on the path to the root has a decorator for the key that is not
    currently running, the *nearest* such decorator `d` (scope `ds`) is called and the value delivered is
    what `d` left as decorated value in `ds` — never a provider's value, cached or not;
  * `C01_decorated_cache`: otherwise a decorated value cached on the path (nearest first) is delivered;
  * `C01_cached_value`: otherwise the cached value of the nearest scope that has a value or a provider;
  * `C01_provided`: otherwise the providers of the nearest providing scope `pc` are called (each from its
    own origin scope) and the value delivered is `pc`'s cached value afterwards, or — only for an optional
    parameter — the zero value;
  * `C01_nothing`: with no provider on the path: zero value for an optional parameter, `errMissingTypes`
    for a required one, and nothing happens to the state;
  * `C01_invoked_once`: a successful Invoke entered the invoked function exactly once, as the last thing it did.
  * `C01_args_from_successful_executions` (whole programs, invariant `Prov`): every token that occurs in an
    argument of any execution of any user function (constructor, decorator or invoked function) was returned
    by an execution run for a constructor or decorator node that had **exited successfully earlier in the
    history** — never by the invoked function, by a failed execution, or by one that has not finished.
  * `C01_cached_value_justified` (whole programs, invariant `Just`): in every reachable container, a value cached
    under the single key `k` (type + name) in scope `S` is exactly what a successful execution of a constructor
    `n` returned in the result slot that **declares `k`** (directly, through a result object, a name tag or an
    `As` interface), where `n` is registered with home scope `S` (the root for exported constructors), is marked
    built, and that execution's successful exit is in the history (in a DryRun container: the zero value of the
    declared type).  Together with the resolution rule above (which says *which* scope's cache or providers
    answer a request) this is "the value returned by the constructor registered for that type and name in
    the nearest enclosing scope".
    `C01_cached_value_from_the_registered_provider` adds (invariant `RegInv`): that constructor is listed in
    `providers[S][k]` and is the only constructor listed there that declares `k`.
  Still carried by the correspondence check only: the same justification for value-group members and decorated
  values (their provenance is `C01_args_from_successful_executions`).
-/
namespace Dig.C01

theorem C01_decorator_wins (ctx : Ctx) (fuel : Nat) (k : Key) (opt : Bool) (c : Nat) (st : St) (d ds : Nat)
    (h : findDeco st k (st.ancestors c) = some (d, ds)) :
    (∀ v st', buildSingle ctx (fuel + 1) k opt c st = (.ok v, st') →
        st' = (callDeco ctx fuel d ds st).2 ∧ aget (st'.scope ds).decoratedValues k = some v) ∧
    (∀ e st', buildSingle ctx (fuel + 1) k opt c st = (.error (.err e), st') →
        ∃ e', e = .paramSingle k 1 e') := by
  simp only [buildSingle, h, EM.bind, EM.wrapErr]
  cases hc : callDeco ctx fuel d ds st with
  | mk r s1 =>
    cases r with
    | ok u =>
      simp only
      constructor
      · intro v st' hv
        cases hl : aget (s1.scope ds).decoratedValues k with
        | some v' => rw [hl] at hv; simp only at hv; injection hv with e1 e2; injection e1 with e1; subst e1; subst e2; exact ⟨rfl, hl⟩
        | none => rw [hl] at hv; simp only at hv; injection hv with e1 e2; cases e1
      · intro e st' hv
        cases hl : aget (s1.scope ds).decoratedValues k with
        | some v' => rw [hl] at hv; simp only at hv; injection hv with e1 e2; cases e1
        | none => rw [hl] at hv; simp only at hv; injection hv with e1 e2; injection e1 with e1; cases e1
    | error f =>
      cases f with
      | err e0 =>
        simp only
        refine ⟨fun v st' hv => ?_, fun e st' hv => ?_⟩
        · simp at hv
        · simp at hv; exact ⟨e0, hv.1.symm⟩
      | panic f x =>
        simp only
        refine ⟨fun v st' hv => ?_, fun e st' hv => ?_⟩ <;> simp at hv
      | bug =>
        simp only
        refine ⟨fun v st' hv => ?_, fun e st' hv => ?_⟩ <;> simp at hv
      | fuel =>
        simp only
        refine ⟨fun v st' hv => ?_, fun e st' hv => ?_⟩ <;> simp at hv

theorem C01_decorated_cache (ctx : Ctx) (fuel : Nat) (k : Key) (opt : Bool) (c : Nat) (st : St) (v : Val)
    (h1 : findDeco st k (st.ancestors c) = none) (h2 : findDecoratedValue st k (st.ancestors c) = some v) :
    buildSingle ctx (fuel + 1) k opt c st = (.ok v, st) := by
  simp only [buildSingle, h1, h2]

theorem C01_cached_value (ctx : Ctx) (fuel : Nat) (k : Key) (opt : Bool) (c : Nat) (st : St) (v : Val)
    (h1 : findDeco st k (st.ancestors c) = none) (h2 : findDecoratedValue st k (st.ancestors c) = none)
    (h3 : findProviders st k (st.ancestors c) = .value v) :
    buildSingle ctx (fuel + 1) k opt c st = (.ok v, st) ∧
    ∃ pre s post, st.ancestors c = pre ++ s :: post ∧ aget (st.scope s).values k = some v ∧
      ∀ s' ∈ pre, aget (st.scope s').values k = none ∧ agetL (st.scope s').providers k = [] := by
  refine ⟨by simp only [buildSingle, h1, h2, h3], findProviders_value st k _ v h3⟩

theorem C01_provided (ctx : Ctx) (fuel : Nat) (k : Key) (opt : Bool) (c : Nat) (st : St) (pc : Nat) (ns : List Nat)
    (h1 : findDeco st k (st.ancestors c) = none) (h2 : findDecoratedValue st k (st.ancestors c) = none)
    (h3 : findProviders st k (st.ancestors c) = .providers pc ns) (v : Val) (st' : St)
    (h : buildSingle ctx (fuel + 1) k opt c st = (.ok v, st')) :
    (aget (st'.scope pc).values k = some v ∨ (opt = true ∧ v = zeroVal ctx.env k.ty)) ∧
    (∃ pre post, st.ancestors c = pre ++ pc :: post ∧ ns = agetL (st.scope pc).providers k ∧ ns ≠ [] ∧
      aget (st.scope pc).values k = none ∧
      ∀ s' ∈ pre, aget (st.scope s').values k = none ∧ agetL (st.scope s').providers k = []) := by
  refine ⟨?_, findProviders_provs st k _ pc ns h3⟩
  simp only [buildSingle, h1, h2, h3, EM.bind] at h
  generalize hf : firstM ns (fun n st1 => providerStep ctx.env k opt (ctorId ctx.sameIds (st1.ctor n).fn)
      (callCtor ctx fuel n (st1.ctor n).origS st1)) st = r at h
  -- the early-exit value can only be the zero value of an optional parameter
  have hzero : ∀ (xs : List Nat) (s0 : St) z s1,
      firstM xs (fun n st1 => providerStep ctx.env k opt (ctorId ctx.sameIds (st1.ctor n).fn)
        (callCtor ctx fuel n (st1.ctor n).origS st1)) s0 = (.ok (some z), s1) → opt = true ∧ z = zeroVal ctx.env k.ty := by
    intro xs
    induction xs with
    | nil => intro s0 z s1 hx; unfold firstM at hx; simp [EM.pure] at hx
    | cons x rest ih =>
      intro s0 z s1 hx
      simp only [firstM, EM.bind] at hx
      cases hp : callCtor ctx fuel x (s0.ctor x).origS s0 with
      | mk r0 s0' =>
        rw [hp] at hx
        cases r0 with
        | ok u => simp only [providerStep] at hx; exact ih _ _ _ hx
        | error f =>
          cases f with
          | err e0 =>
            by_cases hcond : (e0.hasMissingDeps && opt) = true
            · simp [providerStep, hcond, EM.pure] at hx
              simp only [Bool.and_eq_true] at hcond
              exact ⟨hcond.2, hx.1.symm⟩
            · simp [providerStep, hcond] at hx
          | panic f x => simp [providerStep] at hx
          | bug => simp [providerStep] at hx
          | fuel => simp [providerStep] at hx
  rcases r with ⟨r, s1⟩
  cases r with
  | error e => simp at h
  | ok early =>
    simp only at h
    cases early with
    | some z =>
      simp only at h
      injection h with e1 e2; injection e1 with e1; subst e1
      exact Or.inr (hzero ns st _ _ hf)
    | none =>
      simp only at h
      cases hl : aget (s1.scope pc).values k with
      | some v' => rw [hl] at h; simp only at h; injection h with e1 e2; injection e1 with e1; subst e1; subst e2; exact Or.inl hl
      | none => rw [hl] at h; simp at h

theorem C01_nothing (ctx : Ctx) (fuel : Nat) (k : Key) (opt : Bool) (c : Nat) (st : St)
    (h1 : findDeco st k (st.ancestors c) = none) (h2 : findDecoratedValue st k (st.ancestors c) = none)
    (h3 : findProviders st k (st.ancestors c) = .none) :
    buildSingle ctx (fuel + 1) k opt c st =
      (if opt then .ok (zeroVal ctx.env k.ty) else .error (.err (.missingTypes [k])), st) := by
  simp only [buildSingle, h1, h2, h3]
  cases opt <;> simp

/-- a successful Invoke (without DryRun) entered the invoked function exactly once, as the last thing it did:
    its events are those of constructor / decorator nodes followed by the invoked function's enter and exit -/
theorem C01_invoked_once (ctx : Ctx) (hnd : ctx.cfg.dry = false) (fn : Fn) (st : St) (s : Nat) (info : Bool)
    (hlog : st.log = []) (hok : (apiInvoke ctx fn st s info).2.v = .ok) :
    ∃ l x args r, (apiInvoke ctx fn st s info).2.ev = l ++ [.enter .invoked fn.id x args, .exit .invoked fn.id x r] ∧
      ∀ e ∈ l, e.who ≠ .invoked := by
  obtain ⟨l, t, he, hb, ht, hne⟩ := apiInvoke_shape ctx fn st s info hlog
  rcases ht with rfl | ⟨_, x, args, r, rfl⟩
  · exact absurd rfl (hne hok hnd)
  · exact ⟨l, x, args, r, he, hb.who⟩

theorem C01_args_from_successful_executions (p : Program) (i : Nat) (w : Who) (g y : Nat) (args : List Val)
    (hent : (runProgram p).1.hist[i]? = some (.enter w g y args)) (a : Val) (ha : a ∈ args)
    (f x : Nat) (htok : (f, x) ∈ a.toks) :
    ∃ j who, j < i ∧ who ≠ .invoked ∧ (runProgram p).1.hist[j]? = some (.exit who f x .ok) := by
  obtain ⟨who, hw, hok⟩ := (prov_program p).args i w g y args hent a ha (f, x) htok
  obtain ⟨j, hj⟩ := List.getElem?_of_mem hok
  have hlt : j < i := by
    by_cases h : j < i
    · exact h
    · rw [List.getElem?_take_eq_none (Nat.le_of_not_lt h)] at hj; cases hj
  refine ⟨j, who, hlt, hw, ?_⟩
  rw [List.getElem?_take_of_lt hlt] at hj
  exact hj

theorem C01_cached_value_justified (p : Program) (S : Nat) (k : Key) (v : Val)
    (h : aget ((runProgram p).1.scope S).values k = some v) :
    ∃ n slot decl, n < (runProgram p).1.ctors.length ∧ ((runProgram p).1.ctor n).s = S ∧
      ((runProgram p).1.ctor n).called = true ∧ (k, slot, decl) ∈ slotLeaves ((runProgram p).1.ctor n).results ∧
      ∃ ret : Ret, v = ret.val p.types slot decl ∧
        (ret.dry = false → ret.f = ((runProgram p).1.ctor n).fn.id ∧
          Event.exit (.ctor n) ret.f ret.x .ok ∈ (runProgram p).1.hist) :=
  just_program p S k v h

theorem C01_cached_value_from_the_registered_provider (p : Program) (S : Nat) (k : Key) (v : Val)
    (h : aget ((runProgram p).1.scope S).values k = some v) :
    ∃ n, n ∈ agetL ((runProgram p).1.scope S).providers k ∧ k ∈ ctorKeys (runProgram p).1 n ∧
      ((runProgram p).1.ctor n).called = true ∧
      (∀ n', n' ∈ agetL ((runProgram p).1.scope S).providers k → k ∈ ctorKeys (runProgram p).1 n' → n' = n) ∧
      ∃ (slot decl : Nat) (ret : Ret), (k, slot, decl) ∈ slotLeaves ((runProgram p).1.ctor n).results ∧ v = ret.val p.types slot decl ∧
        (ret.dry = false → ret.f = ((runProgram p).1.ctor n).fn.id ∧
          Event.exit (.ctor n) ret.f ret.x .ok ∈ (runProgram p).1.hist) := by
  obtain ⟨n, slot, decl, hn, hs, hc, hm, ret, hv, hr⟩ := just_program p S k v h
  have hk : k ∈ ctorKeys (runProgram p).1 n := List.mem_map.mpr ⟨(k, slot, decl), hm, rfl⟩
  have hreg := (regInv_program p).regOK n hn k hk
  rw [hs] at hreg
  exact ⟨n, hreg, hk, hc, fun n' h1 h2 => (regInv_program p).uniq S k n' n h1 hreg h2 hk, slot, decl, ret, hm, hv, hr⟩

/-- non-vacuity (a test): the leaves of a result object with a named field and an As interface -/
example : slotLeaves [.err, .val (.object 9 [.single 0 5 5 "n1" [], .single 1 6 21 "" [22]])] =
    [({ ty := 5, name := "n1", group := "" }, 0, 5), ({ ty := 21, name := "", group := "" }, 1, 6),
     ({ ty := 22, name := "", group := "" }, 1, 6)] := by decide

#print axioms C01_decorator_wins
#print axioms C01_cached_value_justified
#print axioms C01_cached_value_from_the_registered_provider
#print axioms C01_args_from_successful_executions
#print axioms C01_decorated_cache
#print axioms C01_cached_value
#print axioms C01_provided
#print axioms C01_nothing
#print axioms C01_invoked_once
end Dig.C01
