import DigModel.Proofs.Parse
import DigModel.Proofs.InvokeShape
/-
  C18 — Introspection reports exactly what was declared.

  The Info structs are the `DotParam` / `DotResult` flattenings of the parsed signature:

  * `C18_single_entry`, `C18_group_entry`: one entry per single dependency (type, name, optional flag) and per
    group dependency (the slice type, the group name);
  * `C18_object_flat`: a parameter object contributes the entries of its fields, in declaration order
    (soft groups included at their declared position — the point of seeded change C18);
  * `C18_as_expanded`, `C18_group_result`: a single result contributes one entry per key it is registered under
    (the As interfaces when given), a grouped result likewise with the group name;
  * `C18_error_omitted`: `error` results contribute nothing; `C18_variadic_omitted`: a variadic parameter is not parsed at all;
  * `C18_rejected_untouched`: a Provide or Decorate that does not succeed returns no Info;
  * `C18_info_is_parse`: a successful Provide reports exactly `dotParams` / `dotSlots` of the parse that was registered.
  IDs: `C18_id`: the reported ID is the function's; distinct IDs for distinct functions is a fact about Go code
  pointers (all equal for reflect-made functions) and is outside the model.
-/
namespace Dig.C18

theorem C18_single_entry (k : Key) (opt : Bool) : dotParam (.single k opt) = [(k.ty, k.name, "", opt)] := by
  simp [dotParam]

theorem C18_group_entry (ty : Nat) (k : Key) (soft : Bool) (pg : Nat) :
    dotParam (.grouped ty k soft pg) = [(ty, "", k.group, false)] := by
  simp [dotParam]

theorem C18_object_flat : ∀ (fs : List Param) (ty : Nat),
    dotParam (.object ty fs) = fs.flatMap dotParam := by
  intro fs ty
  simp only [dotParam]
  induction fs with
  | nil => simp [dotParams]
  | cons f rest ih => simp only [dotParams, List.flatMap_cons, ih]

theorem C18_as_expanded (slot decl ty : Nat) (name : String) (as : List Nat) :
    dotResult (.single slot decl ty name as) = (ty :: as).map fun t => (t, name, "") := by
  simp [dotResult]

theorem C18_group_result (slot decl ty : Nat) (group : String) (fl : Bool) (as : List Nat) :
    dotResult (.grouped slot decl ty group fl as) = (ty :: as).map fun t => (t, "", group) := by
  simp [dotResult]

theorem C18_error_omitted (rest : List RSlot) : dotSlots (.err :: rest) = dotSlots rest := by
  simp [dotSlots]

theorem C18_error_slot (env : TyEnv) (o : ResultOpts) (slot : Nat) (t : GoT) (rest : List GoT) (h : isErrorT env t = true) :
    newResultListAux env o slot (t :: rest) =
      match newResultListAux env o (slot + leafCount t) rest with
      | .ok rs => .ok (.err :: rs)
      | .error e => .error e := by
  simp only [newResultListAux, h, if_true]
  cases newResultListAux env o (slot + leafCount t) rest <;> rfl

theorem C18_variadic_omitted (env : TyEnv) (fn : Fn) (h : fn.variadic = true) :
    newParamList env fn = newParamListAux env fn.ins.dropLast := by
  simp [newParamList, h]

theorem C18_rejected_untouched_decorate (ctx : Ctx) (fn : Fn) (st : St) (i s : Nat) (cb info : Bool)
    (h : ¬ ((apiDecorate ctx fn st i s cb info).2.v matches .ok)) :
    (apiDecorate ctx fn st i s cb info).2.info = none := by
  unfold apiDecorate at h ⊢
  cases hnf : fn.nonfunc with
  | some _ => rfl
  | none =>
    simp only [hnf] at h ⊢
    cases hpp : parseParams ctx.env st s fn with
    | mk r w =>
      rw [hpp] at h
      cases r with
      | error e => rfl
      | ok params =>
        simp only at h ⊢
        cases hr : newResultList ctx.env {} fn with
        | error e => rfl
        | ok results =>
          simp only [hr] at h ⊢
          cases hk : resultKeys ctx.env (slotResults results) with
          | error e => rfl
          | ok keys =>
            simp only [hk] at h ⊢
            by_cases hcond : (hasDup keys || keys.any fun k => (aget (w.scope s).decorators k).isSome) = true
            · rw [if_pos hcond]
            · rw [if_neg hcond] at h; simp at h

theorem C18_info_is_parse_decorate (ctx : Ctx) (fn : Fn) (st : St) (i s : Nat) (cb : Bool) (inf : InfoOut)
    (h : (apiDecorate ctx fn st i s cb true).2.info = some inf) :
    ∃ params w results, parseParams ctx.env st s fn = (.ok params, w) ∧ newResultList ctx.env {} fn = .ok results ∧
      inf = { id := fn.id, ins := dotParams params, outs := dotSlots results } := by
  unfold apiDecorate at h
  cases hnf : fn.nonfunc with
  | some _ => simp [hnf] at h
  | none =>
    simp only [hnf] at h
    cases hpp : parseParams ctx.env st s fn with
    | mk r w =>
      rw [hpp] at h
      cases r with
      | error e => simp at h
      | ok params =>
        simp only at h
        cases hr : newResultList ctx.env {} fn with
        | error e => simp [hr] at h
        | ok results =>
          simp only [hr] at h
          cases hk : resultKeys ctx.env (slotResults results) with
          | error e => simp [hk] at h
          | ok keys =>
            simp only [hk] at h
            by_cases hcond : (hasDup keys || keys.any fun k => (aget (w.scope s).decorators k).isSome) = true
            · rw [if_pos hcond] at h; simp at h
            · rw [if_neg hcond] at h
              simp only [if_true, Option.some.injEq] at h
              exact ⟨params, w, results, rfl, rfl, h.symm⟩


theorem C18_info_is_parse_provide (ctx : Ctx) (fn : Fn) (st : St) (i s : Nat) (o : ProvideOpts) (inf : InfoOut)
    (h : (apiProvide ctx fn st i s o).2.info = some inf) :
    (apiProvide ctx fn st i s o).2.v matches .ok ∧
    ∃ as params w results, validateOpts ctx.env o = .ok as ∧
      parseParams ctx.env st (if o.export_ then St.root else s) fn = (.ok params, w) ∧
      newResultList ctx.env { name := o.name, group := o.group, as := as } fn = .ok results ∧
      inf = { id := fn.id, ins := dotParams params, outs := dotSlots results } := by
  unfold apiProvide at h ⊢
  cases hnf : fn.nonfunc with
  | some _ => simp [hnf] at h
  | none =>
    simp only [hnf] at h ⊢
    cases hv : validateOpts ctx.env o with
    | error e => simp [hv] at h
    | ok as =>
      simp only [hv] at h ⊢
      cases hpp : parseParams ctx.env st (if o.export_ then St.root else s) fn with
      | mk r w =>
        rw [hpp] at h
        cases r with
        | error e => simp at h
        | ok params =>
          simp only at h ⊢
          cases hr : newResultList ctx.env { name := o.name, group := o.group, as := as } fn with
          | error e => simp [hr] at h
          | ok results =>
            simp only [hr] at h ⊢
            cases hk : visitKeys ((St.newGraphNode { w with ctors := w.ctors ++ [({ fn := fn, params := params, results := results, s := (if o.export_ then St.root else s), origS := s, cb := if o.cb then some i else none } : CtorNode)] } (if o.export_ then St.root else s) (.ctor w.ctors.length)).scope (if o.export_ then St.root else s)) (slotResults results) [] with
            | error e => simp [hk] at h
            | ok keys =>
              cases keys with
              | nil => simp [hk] at h
              | cons k0 ks =>
                simp only [hk] at h ⊢
                cases hvs : verifyScopes ctx.cfg (st.subscopes (if o.export_ then St.root else s)) ((St.newGraphNode { w with ctors := w.ctors ++ [({ fn := fn, params := params, results := results, s := (if o.export_ then St.root else s), origS := s, cb := if o.cb then some i else none } : CtorNode)] } (if o.export_ then St.root else s) (.ctor w.ctors.length)).modScope (if o.export_ then St.root else s) fun x => { x with providers := (k0 :: ks).foldl (fun m k => aset m k (agetL m k ++ [w.ctors.length])) x.providers }) with
                | mk r5 w5 =>
                  rw [hvs] at h
                  cases r5 with
                  | ok u =>
                    simp only at h ⊢
                    cases hi : o.info with
                    | false => simp [hi] at h
                    | true =>
                      simp only [hi, if_true, Option.some.injEq] at h
                      exact ⟨trivial, as, params, w, results, rfl, rfl, hr, h.symm⟩
                  | error ec =>
                    obtain ⟨sc, cr⟩ := ec
                    cases cr <;> simp at h

/-- a Provide that is not accepted leaves the Info struct alone -/
theorem C18_rejected_untouched_provide (ctx : Ctx) (fn : Fn) (st : St) (i s : Nat) (o : ProvideOpts)
    (h : ¬ ((apiProvide ctx fn st i s o).2.v matches .ok)) : (apiProvide ctx fn st i s o).2.info = none := by
  cases hinfo : (apiProvide ctx fn st i s o).2.info with
  | none => rfl
  | some inf => exact absurd (C18_info_is_parse_provide ctx fn st i s o inf hinfo).1 h

theorem C18_info_is_parse_invoke (ctx : Ctx) (fn : Fn) (st : St) (s : Nat) (info : Bool) (inf : InfoOut)
    (h : (apiInvoke ctx fn st s info).2.info = some inf) :
    ∃ params w, parseParams ctx.env st s fn = (.ok params, w) ∧ inf = { id := 0, ins := dotParams params, outs := [] } := by
  rw [apiInvoke_eq] at h
  unfold apiInvoke' at h
  cases hnf : fn.nonfunc with
  | some _ => simp [hnf] at h
  | none =>
    simp only [hnf] at h
    cases hpp : parseParams ctx.env st s fn with
    | mk r w =>
      rw [hpp] at h
      cases r with
      | error e => simp at h
      | ok params =>
        simp only at h
        cases hsc : shallowCheck s params w with
        | mk r2 w2 =>
          rw [hsc] at h
          cases r2 with
          | error f => simp at h
          | ok u =>
            simp only at h
            cases hck : invokeCheck w2 s with
            | error v => rw [hck] at h; simp at h
            | ok w3 =>
              rw [hck] at h
              simp only at h
              unfold invokeRun at h
              cases hbl : EM.wrapErr (buildList ctx (engineFuel w3 params) params s) DErr.argsFailed w3 with
              | mk r4 w4 =>
                rw [hbl] at h
                cases r4 with
                | error f => simp at h
                | ok args =>
                  simp only at h
                  cases hi : info with
                  | false => simp [hi] at h
                  | true =>
                    simp only [hi, if_true, Option.some.injEq] at h
                    exact ⟨params, w, rfl, h.symm⟩

/-- "constructors backed by distinct functions receive distinct IDs, and the same function always the same ID": the ID
    reported for an accepted Provide is that of the function given, whatever the container, scope and options
    (`dot.CtorID` is the function's code pointer: the tie is the generated-source mode M2, where functions are distinct) -/
theorem C18_ids_identify_functions (ctx ctx' : Ctx) (fn fn' : Fn) (st st' : St) (i i' s s' : Nat) (o o' : ProvideOpts)
    (inf inf' : InfoOut) (h : (apiProvide ctx fn st i s o).2.info = some inf)
    (h' : (apiProvide ctx' fn' st' i' s' o').2.info = some inf') : inf.id = inf'.id ↔ fn.id = fn'.id := by
  obtain ⟨_, _, _, _, _, _, _, _, e⟩ := C18_info_is_parse_provide ctx fn st i s o inf h
  obtain ⟨_, _, _, _, _, _, _, _, e'⟩ := C18_info_is_parse_provide ctx' fn' st' i' s' o' inf' h'
  rw [e, e']

#print axioms C18_single_entry
#print axioms C18_ids_identify_functions
#print axioms C18_info_is_parse_provide
#print axioms C18_rejected_untouched_provide
#print axioms C18_info_is_parse_invoke
#print axioms C18_group_entry
#print axioms C18_object_flat
#print axioms C18_as_expanded
#print axioms C18_group_result
#print axioms C18_error_omitted
#print axioms C18_error_slot
#print axioms C18_variadic_omitted
#print axioms C18_rejected_untouched_decorate
#print axioms C18_info_is_parse_decorate
end Dig.C18
