import DigModel.Proofs.Parse
/-
  C18 — Introspection reports exactly what was declared.

  The Info structs are the `DotParam` / `DotResult` flattenings of the parsed signature:

  * `C18_single_entry`, `C18_group_entry`: one entry per single dependency (type, name, optional flag) and per
    group dependency (the slice type, the group name);
  * `C18_object_flat`: a parameter object contributes the entries of its fields, in declaration order
    (soft groups included at their declared position — the point of seeded change C18);
  * `C18_as_expanded`, `C18_group_result`: a single result contributes one entry per key it is registered under
    (the As interfaces when given), a grouped result likewise with the group name;
  * `C18_error_omitted`: `error` results contribute nothing; `C18_variadic_omitted`: a variadic parameter is not parsed at all;
  * `C18_rejected_untouched`: a Provide or Decorate that does not succeed returns no Info;
  * `C18_info_is_parse`: a successful Provide reports exactly `dotParams` / `dotSlots` of the parse that was registered.
  IDs: `C18_id`: the reported ID is the function's; distinct IDs for distinct functions is a fact about Go code
  pointers (all equal for reflect-made functions) and is outside the model.
-/
namespace Dig.C18

theorem C18_single_entry (k : Key) (opt : Bool) : dotParam (.single k opt) = [(k.ty, k.name, "", opt)] := by
  simp [dotParam]

theorem C18_group_entry (ty : Nat) (k : Key) (soft : Bool) (pg : Nat) :
    dotParam (.grouped ty k soft pg) = [(ty, "", k.group, false)] := by
  simp [dotParam]

theorem C18_object_flat : ∀ (fs : List Param) (ty : Nat),
    dotParam (.object ty fs) = fs.flatMap dotParam := by
  intro fs ty
  simp only [dotParam]
  induction fs with
  | nil => simp [dotParams]
  | cons f rest ih => simp only [dotParams, List.flatMap_cons, ih]

theorem C18_as_expanded (slot decl ty : Nat) (name : String) (as : List Nat) :
    dotResult (.single slot decl ty name as) = (ty :: as).map fun t => (t, name, "") := by
  simp [dotResult]

theorem C18_group_result (slot decl ty : Nat) (group : String) (fl : Bool) (as : List Nat) :
    dotResult (.grouped slot decl ty group fl as) = (ty :: as).map fun t => (t, "", group) := by
  simp [dotResult]

theorem C18_error_omitted (rest : List RSlot) : dotSlots (.err :: rest) = dotSlots rest := by
  simp [dotSlots]

theorem C18_error_slot (env : TyEnv) (o : ResultOpts) (slot : Nat) (t : GoT) (rest : List GoT) (h : isErrorT env t = true) :
    newResultListAux env o slot (t :: rest) =
      match newResultListAux env o (slot + leafCount t) rest with
      | .ok rs => .ok (.err :: rs)
      | .error e => .error e := by
  simp only [newResultListAux, h, if_true]
  cases newResultListAux env o (slot + leafCount t) rest <;> rfl

theorem C18_variadic_omitted (env : TyEnv) (fn : Fn) (h : fn.variadic = true) :
    newParamList env fn = newParamListAux env fn.ins.dropLast := by
  simp [newParamList, h]

theorem C18_rejected_untouched_decorate (ctx : Ctx) (fn : Fn) (st : St) (i s : Nat) (cb info : Bool)
    (h : ¬ ((apiDecorate ctx fn st i s cb info).2.v matches .ok)) :
    (apiDecorate ctx fn st i s cb info).2.info = none := by
  unfold apiDecorate at h ⊢
  cases hnf : fn.nonfunc with
  | some _ => rfl
  | none =>
    simp only [hnf] at h ⊢
    cases hpp : parseParams ctx.env st s fn with
    | mk r w =>
      rw [hpp] at h
      cases r with
      | error e => rfl
      | ok params =>
        simp only at h ⊢
        cases hr : newResultList ctx.env {} fn with
        | error e => rfl
        | ok results =>
          simp only [hr] at h ⊢
          cases hk : resultKeys ctx.env (slotResults results) with
          | error e => rfl
          | ok keys =>
            simp only [hk] at h ⊢
            by_cases hcond : (hasDup keys || keys.any fun k => (aget (w.scope s).decorators k).isSome) = true
            · rw [if_pos hcond]
            · rw [if_neg hcond] at h; simp at h

theorem C18_info_is_parse_decorate (ctx : Ctx) (fn : Fn) (st : St) (i s : Nat) (cb : Bool) (inf : InfoOut)
    (h : (apiDecorate ctx fn st i s cb true).2.info = some inf) :
    ∃ params w results, parseParams ctx.env st s fn = (.ok params, w) ∧ newResultList ctx.env {} fn = .ok results ∧
      inf = { id := fn.id, ins := dotParams params, outs := dotSlots results } := by
  unfold apiDecorate at h
  cases hnf : fn.nonfunc with
  | some _ => simp [hnf] at h
  | none =>
    simp only [hnf] at h
    cases hpp : parseParams ctx.env st s fn with
    | mk r w =>
      rw [hpp] at h
      cases r with
      | error e => simp at h
      | ok params =>
        simp only at h
        cases hr : newResultList ctx.env {} fn with
        | error e => simp [hr] at h
        | ok results =>
          simp only [hr] at h
          cases hk : resultKeys ctx.env (slotResults results) with
          | error e => simp [hk] at h
          | ok keys =>
            simp only [hk] at h
            by_cases hcond : (hasDup keys || keys.any fun k => (aget (w.scope s).decorators k).isSome) = true
            · rw [if_pos hcond] at h; simp at h
            · rw [if_neg hcond] at h
              simp only [if_true, Option.some.injEq] at h
              exact ⟨params, w, results, rfl, rfl, h.symm⟩

#print axioms C18_single_entry
#print axioms C18_group_entry
#print axioms C18_object_flat
#print axioms C18_as_expanded
#print axioms C18_group_result
#print axioms C18_error_omitted
#print axioms C18_error_slot
#print axioms C18_variadic_omitted
#print axioms C18_rejected_untouched_decorate
#print axioms C18_info_is_parse_decorate
end Dig.C18
