import DigModel.Proofs.TagGrammar
import DigModel.Proofs.Parse
import DigModel.Proofs.Rollback
import DigModel.Proofs.GhBoundApi
/-
  C14 — Bad input yields errors, never panics.

  The model's API functions are total Lean functions: every value of the input grammar (PROTOCOL.md §2:
  nil, non-functions, typed nil functions, arbitrary signatures over pointers, interfaces, slices, named
  slices, structs embedding dig.In / dig.Out / *dig.In / *dig.Out at any depth, arbitrary tag strings,
  arbitrary option combinations) gets a verdict. What is proved on top of totality:

  * `C14_nonfunc`: nil, non-function and nil-function values are rejected by Provide, Decorate and Invoke
    with a dig error and the container is returned unchanged;
  * `C14_bad_options`: invalid options (name+group, backquotes, As(nil / non-pointer / pointer to non-interface))
    reject a Provide before anything is touched;
  * `C14_rejected_decorate`, `C14_rejected_invoke_parse`: a Decorate that is rejected, and an Invoke whose
    signature is rejected, change nothing: the state afterwards equals the state before (the graph nodes of
    value-group parameters added by the parse are rolled back — repairs of F15 and F16, `parse_rollback_eq`);
  * `C14_no_events`: no rejected registration executes user code (C03_passive).
  * `C14_never_panics` (whole programs, every input of the grammar, every history): no operation of any program
    makes the model answer `panicDig`.  The model answers `panicDig` exactly where the Go code it follows would
    panic by itself: an order outside a graph holder or an unfinishable recursion in `graph.IsAcyclic`, a
    constructor listed as provider of a key it does not declare, a constructor or decorator that has run but
    whose value is not in the cache it was stored in.  These sites are unreachable: `SafeInv` (registry
    consistency `RegInv`/`RegWF`, node homes `HomeOK`, "built implies cached" `Cached`, order bounds `OB`) holds
    in every reachable container (`C14_reachable_safe`), `engine_nobug` excludes the resolver's sites under it and
    `checkAcyclic_total` the graph check's.
  "Never panics" beyond those sites is a statement about the Go runtime: it is observed by the correspondence check
  (any panic escaping dig, any process failure is a violation with the program as replay) under a
  generator profile in which 55 % of the registrations come from the malformed stream.
  The rejected-Provide half (`C06_unchanged`) lives in Props/C06.lean.
-/
namespace Dig.C14

theorem C14_nonfunc (ctx : Ctx) (fn : Fn) (nf : NonFunc) (h : fn.nonfunc = some nf) (st : St) (i s : Nat)
    (o : ProvideOpts) (cb info : Bool) :
    apiProvide ctx fn st i s o = (st, { v := .err .invalid0 }) ∧
    apiDecorate ctx fn st i s cb info = (st, { v := .err .invalid0 }) ∧
    apiInvoke ctx fn st s info = (st, { v := .err .invalid0 }) := by
  refine ⟨?_, ?_, ?_⟩
  · simp [apiProvide, h]
  · simp [apiDecorate, h]
  · simp [apiInvoke, h]

theorem C14_bad_options (ctx : Ctx) (fn : Fn) (h : fn.nonfunc = none) (st : St) (i s : Nat) (o : ProvideOpts) (e : DErr)
    (hv : validateOpts ctx.env o = .error e) :
    apiProvide ctx fn st i s o = (st, { v := .err e }) := by
  simp [apiProvide, h, hv]

theorem C14_rejected_decorate (ctx : Ctx) (fn : Fn) (st : St) (i s : Nat) (cb info : Bool)
    (h : ¬ ((apiDecorate ctx fn st i s cb info).2.v matches .ok)) :
    (apiDecorate ctx fn st i s cb info).1 = st := by
  unfold apiDecorate at h ⊢
  cases hnf : fn.nonfunc with
  | some _ => rfl
  | none =>
    simp only [hnf] at h ⊢
    have hp := parse_rollback_eq ctx.env st s fn
    cases hpp : parseParams ctx.env st s fn with
    | mk r w =>
      rw [hpp] at hp h
      simp only at hp
      cases r with
      | error e => exact hp
      | ok params =>
        simp only at h ⊢
        cases hr : newResultList ctx.env {} fn with
        | error e => exact hp
        | ok results =>
          simp only [hr] at h ⊢
          cases hk : resultKeys ctx.env (slotResults results) with
          | error e => exact hp
          | ok keys =>
            simp only [hk] at h ⊢
            by_cases hcond : (hasDup keys || keys.any fun k => (aget (w.scope s).decorators k).isSome) = true
            · rw [if_pos hcond]; exact hp
            · rw [if_neg hcond] at h; simp at h

theorem C14_rejected_invoke_parse (ctx : Ctx) (fn : Fn) (hnf : fn.nonfunc = none) (st : St) (s : Nat) (info : Bool) (e : DErr)
    (h : (parseParams ctx.env st s fn).1 = .error e) :
    (apiInvoke ctx fn st s info).2.v = .err e ∧ (apiInvoke ctx fn st s info).1 = st ∧
    (apiInvoke ctx fn st s info).2.ev = [] := by
  unfold apiInvoke
  simp only [hnf]
  have hp := parse_rollback_eq ctx.env st s fn
  cases hpp : parseParams ctx.env st s fn with
  | mk r w =>
    rw [hpp] at hp h
    simp only at h hp
    subst h
    exact ⟨rfl, hp, rfl⟩

theorem C14_no_events (ctx : Ctx) (fns : List Fn) (st : St) (i : Nat) (op : Op) (h : op.isInvoke = false) :
    (step ctx fns st i op).2.ev = [] := step_passive ctx fns st i op h

theorem C14_never_panics (p : Program) : ∀ r ∈ (runProgram p).2, r.v ≠ .panicDig := program_never_panics p

theorem C14_reachable_safe (p : Program) : SafeInv p.types (runProgram p).1 := program_safeInv p

/-- the resolver itself, on any container satisfying the invariant, with any well-formed parameter list -/
theorem C14_resolver_no_panic (ctx : Ctx) (st : St) (h : SafeInv ctx.env st) (fuel : Nat) (ps : List Param) (c : Nat)
    (hwf : ParamsWF ps) : (buildList ctx fuel ps c st).1 ≠ .error .bug :=
  (engine_nobug ctx _ _ fuel).2.2.2.2.2 ps c st hwf h.nb.ei

/-- the graph check, on any container satisfying the invariant, in any scope -/
theorem C14_check_no_panic (env : TyEnv) (st : St) (h : SafeInv env st) (s : Nat) :
    checkAcyclic st s ≠ .outOfRange ∧ checkAcyclic st s ≠ .fuel := checkAcyclic_total h.ob s


/-- **the boolean struct tags** `optional` and `ignore-unexported`: an absent tag means false, the twelve spellings of
    `strconv.ParseBool` are accepted, every other value is an invalid-input error — never a panic, never a guess -/
theorem C14_bool_tag_grammar (tag : String) :
    boolTag tag =
      if tag = "" then .ok false
      else if tag ∈ ["1", "t", "T", "TRUE", "true", "True"] then .ok true
      else if tag ∈ ["0", "f", "F", "FALSE", "false", "False"] then .ok false
      else .error .invalid0 := boolTag_spec tag

#print axioms C14_bool_tag_grammar
#print axioms C14_never_panics
#print axioms C14_reachable_safe
#print axioms C14_resolver_no_panic
#print axioms C14_check_no_panic
#print axioms C14_nonfunc
#print axioms C14_bad_options
#print axioms C14_rejected_decorate
#print axioms C14_rejected_invoke_parse
#print axioms C14_no_events
end Dig.C14
