import DigModel.Proofs.TagGrammar
import DigModel.Proofs.Parse
import DigModel.Proofs.RegOKApi
/-
  C09 — Key identity: type+name and type+group never mix; duplicates rejected.

  * `C09_keys_distinct`: the container key is the triple (type, name, group) compared componentwise, so the
    unnamed, a named and a grouped key of one type are three different keys (stores and look-ups use `aget`
    on exactly that key: `aget_aset`);
  * `C09_as_only`: with `As`, a single result is registered under the listed interfaces only (first one as the
    result's type, the others as `As`), not under its concrete type; without `As` under its own type;
  * `C09_dup_single`: a result whose key (or one of its As keys) is already provided in the target scope, or
    occurs earlier in the same constructor's results, makes `findAndValidateResults` fail;
  * `C09_groups_free`: grouped results never cause a duplicate rejection;
  (a failing check rejects the Provide, which by C06_provide_unchanged leaves no trace.)
  * `C09_one_provider_per_key` / `C09_registered_under_declared_keys` / `C09_own_keys_distinct` (whole programs,
    invariant `RegInv` of every API step): in every reachable container two constructors listed under one key of
    one scope cannot both declare it as a single (type + name) key — duplicates never get in, whatever the
    order of Provides, rejections, Exports and scopes; every constructor is listed, in its home scope, under
    every single key its results declare; and a constructor's own single keys are pairwise distinct.
-/
namespace Dig.C09

theorem C09_keys_distinct (t : Nat) (n g : String) (hn : n ≠ "") (hg : g ≠ "") :
    ({ ty := t, name := "", group := "" } : Key) ≠ { ty := t, name := n, group := "" } ∧
    ({ ty := t, name := "", group := "" } : Key) ≠ { ty := t, name := "", group := g } ∧
    ({ ty := t, name := n, group := "" } : Key) ≠ { ty := t, name := "", group := g } := by
  refine ⟨?_, ?_, ?_⟩ <;> intro h <;> injection h with _ h2 h3
  · exact hn h2.symm
  · exact hg h3.symm
  · exact hn h2

theorem C09_as_only (env : TyEnv) (slot : Nat) (t : GoT) (o : ResultOpts) (r : Result)
    (h : newResultSingle env slot t o = .ok r) :
    ∃ ts, asTypes env t o.as = .ok ts ∧
      ((ts = [] ∧ r = .single slot t.id t.id o.name []) ∨
       (∃ a rest, ts = a :: rest ∧ r = .single slot t.id a o.name rest)) := by
  unfold newResultSingle at h
  cases hts : asTypes env t o.as with
  | error e => rw [hts] at h; cases h
  | ok ts =>
    rw [hts] at h
    refine ⟨ts, rfl, ?_⟩
    cases ts with
    | nil => simp only at h; injection h with h; exact Or.inl ⟨rfl, h.symm⟩
    | cons a rest => simp only at h; injection h with h; exact Or.inr ⟨a, rest, rfl, h.symm⟩

/-- every interface kept by the As loop is implemented by the type and differs from it -/
theorem C09_as_sound (env : TyEnv) (t : GoT) : ∀ (as ts : List Nat), asTypes env t as = .ok ts →
    ∀ a ∈ ts, a ∈ as ∧ a ≠ t.id ∧ implementsT env t a = true := by
  intro as
  induction as with
  | nil => intro ts h; simp [asTypes] at h; subst h; simp
  | cons x rest ih =>
    intro ts h
    simp only [asTypes] at h
    by_cases hx : (x == t.id) = true
    · simp only [hx, if_true] at h
      intro a ha
      obtain ⟨h1, h2, h3⟩ := ih ts h a ha
      exact ⟨by simp [h1], h2, h3⟩
    · simp only [hx] at h
      by_cases hi : implementsT env t x = true
      · simp only [hi, Bool.not_true, Bool.false_eq_true, if_false] at h
        cases hr : asTypes env t rest with
        | error e => rw [hr] at h; cases h
        | ok r =>
          rw [hr] at h; simp only at h; injection h with h; subst h
          intro a ha
          rcases List.mem_cons.mp ha with rfl | hm
          · exact ⟨by simp, by simpa using hx, hi⟩
          · obtain ⟨h1, h2, h3⟩ := ih r hr a hm
            exact ⟨by simp [h1], h2, h3⟩
      · simp [hi] at h

theorem C09_dup_single (target : ScopeSt) (slot decl ty : Nat) (name : String) (as : List Nat) (rest : List Result)
    (seen : List Key) (k : Key) (hk : k ∈ (ty :: as).map fun t => ({ ty := t, name := name, group := "" } : Key))
    (hdup : seen.contains k = true ∨ agetL target.providers k ≠ []) :
    ∃ e, visitKeys target (.single slot decl ty name as :: rest) seen = .error e := by
  simp only [visitKeys]
  generalize ((ty :: as).map fun t => ({ ty := t, name := name, group := "" } : Key)) = ks at hk
  -- the inner check fails on a list containing k
  have hchk : ∀ (ks : List Key) (seen : List Key), k ∈ ks → (seen.contains k = true ∨ agetL target.providers k ≠ []) →
      ∃ e, visitKeys.chk target ks seen = .error e := by
    intro ks
    induction ks with
    | nil => intro seen h; simp at h
    | cons x xs ih =>
      intro seen hm hd
      simp only [visitKeys.chk]
      split
      · exact ⟨_, rfl⟩
      · rename_i h1
        split
        · exact ⟨_, rfl⟩
        · rename_i h2
          rcases List.mem_cons.mp hm with rfl | hm'
          · rcases hd with hd | hd
            · exact absurd hd h1
            · exfalso; apply hd; simpa using h2
          · apply ih _ hm'
            rcases hd with hd | hd
            · left; simp only [List.contains_iff_mem, List.mem_append] at hd ⊢; exact Or.inl hd
            · exact Or.inr hd
  obtain ⟨e, he⟩ := hchk ks seen hk hdup
  rw [he]; exact ⟨e, rfl⟩

theorem C09_groups_free (target : ScopeSt) : ∀ (rs : List Result) (seen : List Key),
    (∀ r ∈ rs, ∃ slot decl ty group fl as, r = .grouped slot decl ty group fl as) →
    ∃ keys, visitKeys target rs seen = .ok keys := by
  intro rs
  induction rs with
  | nil => intro seen _; exact ⟨seen, by simp [visitKeys]⟩
  | cons r rest ih =>
    intro seen h
    obtain ⟨slot, decl, ty, group, fl, as, rfl⟩ := h r (by simp)
    simp only [visitKeys]
    exact ih _ (fun r' hr' => h r' (by simp [hr']))

theorem C09_one_provider_per_key (p : Program) (S : Nat) (k : Key) (n n' : Nat)
    (h1 : n ∈ agetL ((runProgram p).1.scope S).providers k) (h2 : n' ∈ agetL ((runProgram p).1.scope S).providers k)
    (hk1 : k ∈ ctorKeys (runProgram p).1 n) (hk2 : k ∈ ctorKeys (runProgram p).1 n') : n = n' :=
  (regInv_program p).uniq S k n n' h1 h2 hk1 hk2

theorem C09_registered_under_declared_keys (p : Program) (n : Nat) (hn : n < (runProgram p).1.ctors.length)
    (k : Key) (hk : k ∈ ctorKeys (runProgram p).1 n) :
    n ∈ agetL ((runProgram p).1.scope ((runProgram p).1.ctor n).s).providers k :=
  (regInv_program p).regOK n hn k hk

theorem C09_own_keys_distinct (p : Program) (n : Nat) (hn : n < (runProgram p).1.ctors.length) :
    (ctorKeys (runProgram p).1 n).Nodup :=
  (regInv_program p).nodup n hn


/-- **the grammar of a group tag / `dig.Group` value** (what makes two group strings name the same group): accepted exactly
    when the first comma-separated component — the group's name, verbatim, blanks included — is not empty and every
    further component is `flatten` or `soft` -/
theorem C09_group_tag_grammar (s : String) (g : GroupSpec) :
    parseGroupString s = .ok g ↔
      ∃ name opts, s.splitOn "," = name :: opts ∧ name ≠ "" ∧ (∀ o ∈ opts, o = "flatten" ∨ o = "soft") ∧
        g = { name := name, flatten := opts.contains "flatten", soft := opts.contains "soft" } :=
  parseGroupString_ok_iff s g

theorem C09_group_tag_rejections (s : String) (e : DErr) (h : parseGroupString s = .error e) : e = .invalid0 ∨ e = .groupOpt :=
  parseGroupString_error s e h

#print axioms C09_group_tag_grammar
#print axioms C09_group_tag_rejections
#print axioms C09_keys_distinct
#print axioms C09_one_provider_per_key
#print axioms C09_registered_under_declared_keys
#print axioms C09_own_keys_distinct
#print axioms C09_as_only
#print axioms C09_as_sound
#print axioms C09_dup_single
#print axioms C09_groups_free
end Dig.C09
