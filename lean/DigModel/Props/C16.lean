import DigModel.Proofs.Rollback
import DigModel.Proofs.DeferSim
import DigModel.Proofs.DecoCommuteProgram
/-
  C16 — Registration order and verification timing do not matter (verification-timing half).

  * **`C16_defer_changes_nothing`** (whole programs, full strength): for every program run without
    DeferAcyclicVerification in which no operation reports a cycle, the same program with the option switched on
    answers *every operation identically* — same verdicts and error chains, same events (which functions ran, in which
    order, with which arguments, which callbacks fired with which error and runtime), same Info structs.
    Proof (`Proofs/VSet.lean`, `VSetApi.lean`, `CtxCongr.lean`, `AcycInv.lean`, `DeferSim.lean`): a step-by-step
    simulation on containers equal up to the `isVerifiedAcyclic` flags.  The resolver commutes with any reassignment
    of the flags (`comm_engine`, an induction over its six functions) and reads the configuration only through
    RecoverFromPanics and DryRun (`engine_ctx`); so do parsing, registration, roll-back and Decorate; `Scope.Scope`
    respects the relation; the only reader of the flags is Invoke's check, and there both runs find the graph acyclic
    because the eager run keeps *every* scope's graph acyclic at all times (`C16_eager_always_acyclic`, i.e.
    `EagerInv`: accepted Provides verify what they affect and leave the other scopes' graphs alone, rejected
    operations are rolled back, a parse only appends fresh value-group nodes nothing depends on, a new scope shows its
    parent's graph);

  * `C16_defer_never_rejects`: with DeferAcyclicVerification the verification loop of Provide never fails; it
    only clears the `isVerifiedAcyclic` flag of every affected scope;
  * `C16_eager_verifies`: without it, a Provide that passes the loop has checked every affected scope's graph
    (each is acyclic at that moment, with the new node in place) and set its flag; a failure names a scope
    whose check did not answer "acyclic";
  * `C16_invoke_checks`: an Invoke on a scope whose flag is not set runs the same check before building
    anything; on a cycle it returns `errInvalidInput{errCycleDetected}` without building or executing anything
    and leaves the flag unset;
  * `C16_flags_only`: the verification loop changes nothing but those flags (`Work` is preserved by it), so the
    deferred and the eager container differ in flags only as long as no check fails.
  The permutation half (any order of an accepted block, scope creation earlier or later) is checked by the
  metamorphic twins on the real library and by the correspondence.  Proved is one slice of it,
  `C16_provide_and_decorate_commute_partial` (`Proofs/DecoCommute.lean`): Provide neither reads nor writes what Decorate
  registers (`dtr_apiProvide`: it commutes with any replacement of the decorator tables and of the list of decorator
  nodes, through parsing, registration, the verification loop and every roll-back), so a Provide and an adjacent
  Decorate whose decorator has no value-group parameter (its parse adds no graph node) can be swapped — accepted or
  rejected, whatever the scopes and options: the same two answers and the very same container, hence the same
  outcome of everything that follows — also inside any history (`C16_history_provide_decorate_swap_partial`, no
  callbacks: a callback remembers the number of the operation that registered it); and so can the creation of a child scope and such a Decorate on an existing scope
  (`C16_scope_and_decorate_commute_partial`).  Swapping two Provides, or a Decorate with value-group parameters, changes node
  indices and the order of graph holders; that needs a simulation up to a renaming through the whole resolver and is
  not proved.
-/
namespace Dig.C16

theorem C16_defer_never_rejects (cfg : Cfg) (hd : cfg.deferAcyclic = true) : ∀ (l : List Nat) (w : St),
    (verifyScopes cfg l w).1 = .ok () := by
  intro l
  induction l with
  | nil => intro w; rfl
  | cons sc rest ih => intro w; simp only [verifyScopes, hd, if_true]; exact ih _

theorem C16_eager_step (cfg : Cfg) (hd : cfg.deferAcyclic = false) (sc : Nat) (rest : List Nat) (w : St) :
    verifyScopes cfg (sc :: rest) w =
      match checkAcyclic (w.modScope sc fun x => { x with verified := false }) sc with
      | .acyclic => verifyScopes cfg rest ((w.modScope sc fun x => { x with verified := false }).modScope sc
          fun x => { x with verified := true })
      | r => (.error (sc, r), w.modScope sc fun x => { x with verified := false }) := by
  simp only [verifyScopes, hd, Bool.false_eq_true, if_false]
  cases checkAcyclic (w.modScope sc fun x => { x with verified := false }) sc <;> rfl

theorem C16_eager_failure_names_a_check (cfg : Cfg) (hd : cfg.deferAcyclic = false) : ∀ (l : List Nat) (w : St) (sc : Nat)
    (r : CycleRes) (w' : St), verifyScopes cfg l w = (.error (sc, r), w') → sc ∈ l ∧ r ≠ .acyclic := by
  intro l
  induction l with
  | nil => intro w sc r w' h; simp [verifyScopes] at h
  | cons x rest ih =>
    intro w sc r w' h
    rw [C16_eager_step cfg hd] at h
    cases hc : checkAcyclic (w.modScope x fun y => { y with verified := false }) x with
    | acyclic =>
      rw [hc] at h; simp only at h
      obtain ⟨h1, h2⟩ := ih _ sc r w' h
      exact ⟨by simp [h1], h2⟩
    | cycle p => rw [hc] at h; simp only at h; injection h with h1 _; injection h1 with h1; injection h1 with e1 e2; subst e1; subst e2; exact ⟨by simp, by simp⟩
    | outOfRange => rw [hc] at h; simp only at h; injection h with h1 _; injection h1 with h1; injection h1 with e1 e2; subst e1; subst e2; exact ⟨by simp, by simp⟩
    | fuel => rw [hc] at h; simp only at h; injection h with h1 _; injection h1 with h1; injection h1 with e1 e2; subst e1; subst e2; exact ⟨by simp, by simp⟩

theorem C16_flags_only {st : St} {target : Nat} (cfg : Cfg) (l : List Nat) (w : St) (h : Work st w target) :
    Work st (verifyScopes cfg l w).2 target := work_verifyScopes cfg l w h

theorem C16_invoke_checks (ctx : Ctx) (fn : Fn) (hnf : fn.nonfunc = none) (st : St) (s : Nat) (info : Bool)
    (params : List Param) (w : St) (hpp : parseParams ctx.env st s fn = (.ok params, w))
    (hm : missingOfList w s params = []) (hv : (w.scope s).verified = false) (p : List Nat)
    (hc : checkAcyclic w s = .cycle p) :
    apiInvoke ctx fn st s info = (w, { v := .err (.invalid (.cycle (cyclePath w s p) s)) }) := by
  unfold apiInvoke
  simp only [hnf, hpp, shallowCheck, hm, hv, hc, Bool.false_eq_true, if_false]

theorem C16_defer_changes_nothing (p : Program) (hd : p.cfg.deferAcyclic = false)
    (hnc : ∀ r ∈ (runProgram p).2, ∀ e, r.v = .err e → e.isCycleDetected = false) :
    (runProgram { p with cfg := { p.cfg with deferAcyclic := true } }).2 = (runProgram p).2 :=
  defer_changes_nothing p hd hnc

theorem C16_eager_always_acyclic (p : Program) (hd : p.cfg.deferAcyclic = false) (s : Nat)
    (hs : s < (runProgram p).1.scopes.length) : checkAcyclic (runProgram p).1 s = .acyclic :=
  (eager_program_acyclic p hd s hs).1

/-- the resolver neither reads nor writes the flags: it commutes with any reassignment of them -/
theorem C16_resolver_ignores_flags (g : Nat → Bool) (ctx : Ctx) (fuel : Nat) (ps : List Param) (c : Nat) (st : St) :
    buildList ctx fuel ps c (vset g st) = ((buildList ctx fuel ps c st).1, vset g (buildList ctx fuel ps c st).2) :=
  (comm_engine g ctx fuel).2.2.2.2.2 ps c st

/-- non-vacuity (a test): a program whose operations all succeed reports no cycle -/
example (p : Program) (h : ∀ r ∈ (runProgram p).2, r.v = .ok) : ∀ r ∈ (runProgram p).2, ∀ e, r.v = .err e → e.isCycleDetected = false := by
  intro r hr e he; rw [h r hr] at he; cases he


/-- one slice of the permutation half: **a Provide and an adjacent Decorate can be swapped** when the decorator has no
    value-group parameter (`noGroupT`: no field, at any depth of parameter objects, carries a `group` tag) — the two calls give the same two answers (verdict, error, Info) in either order and
    leave the very same container, so every later operation is answered identically -/
theorem C16_provide_and_decorate_commute_partial (ctx : Ctx) (fP fD : Fn) (st : St) (iP iD sP sD : Nat) (o : ProvideOpts)
    (cb info : Bool) (h : ∀ t ∈ (if fD.variadic then fD.ins.dropLast else fD.ins), noGroupT t = true) :
    (apiDecorate ctx fD (apiProvide ctx fP st iP sP o).1 iD sD cb info).1 =
      (apiProvide ctx fP (apiDecorate ctx fD st iD sD cb info).1 iP sP o).1 ∧
    (apiProvide ctx fP st iP sP o).2 = (apiProvide ctx fP (apiDecorate ctx fD st iD sD cb info).1 iP sP o).2 ∧
    (apiDecorate ctx fD (apiProvide ctx fP st iP sP o).1 iD sD cb info).2 = (apiDecorate ctx fD st iD sD cb info).2 :=
  provide_decorate_swap_noGroup ctx fP fD st iP iD sP sD o cb info h

/-- the first slice **inside a history**: in any program, a Provide and a Decorate (no callbacks; the decorator has no
    value-group parameter) that stand next to each other can change places — the container at the end of the program
    is the same and every operation is answered the same, the two answers having changed places with their operations.
    So every later Invoke, Visualize or registration sees the same verdict and the same wiring. -/
theorem C16_history_provide_decorate_swap_partial (p : Program) (pre post : List Op) (sP fP sD fD : Nat) (o : ProvideOpts)
    (info : Bool) (ho : o.cb = false)
    (hng : ∀ fd, fnOf p.fns fD = some fd → ∀ t ∈ (if fd.variadic then fd.ins.dropLast else fd.ins), noGroupT t = true) :
    (runProgram { p with ops := pre ++ .provide sP fP o :: .decorate sD fD false info :: post }).1 =
      (runProgram { p with ops := pre ++ .decorate sD fD false info :: .provide sP fP o :: post }).1 ∧
    ∃ l1 rP rD l2,
      (runProgram { p with ops := pre ++ .provide sP fP o :: .decorate sD fD false info :: post }).2 = l1 ++ rP :: rD :: l2 ∧
      (runProgram { p with ops := pre ++ .decorate sD fD false info :: .provide sP fP o :: post }).2 = l1 ++ rD :: rP :: l2 ∧
      l1.length = pre.length := by
  have h := runOps_provide_decorate_swap p.ctx p.fns sP fP sD fD o info ho hng post pre 0 {} []
  obtain ⟨h1, l1, rP, rD, l2, e1, e2, hl⟩ := h
  exact ⟨h1, l1, rP, rD, l2, e1, e2, by simpa using hl⟩

/-- a second slice: **creating a child scope and an adjacent Decorate can be swapped** (the decorator has no value-group
    parameter and decorates a scope that exists already): the same answer, the very same container — "creating a
    child scope earlier or later relative to its ancestors' registrations", for decorators -/
theorem C16_scope_and_decorate_commute_partial (ctx : Ctx) (fD : Fn) (st : St) (parent iD sD : Nat) (cb info : Bool)
    (hsD : sD < st.scopes.length) (h : ∀ t ∈ (if fD.variadic then fD.ins.dropLast else fD.ins), noGroupT t = true) :
    (apiDecorate ctx fD (apiScope st parent) iD sD cb info).1 = apiScope (apiDecorate ctx fD st iD sD cb info).1 parent ∧
    (apiDecorate ctx fD (apiScope st parent) iD sD cb info).2 = (apiDecorate ctx fD st iD sD cb info).2 :=
  scope_decorate_swap_noGroup ctx fD st parent iD sD cb info hsD h

/-- ... because Provide commutes with any replacement of what Decorate registers -/
theorem C16_provide_ignores_decorators (T : Nat → List (Key × Nat)) (ds : List DecoNode) (ctx : Ctx) (fn : Fn) (st : St)
    (i s : Nat) (o : ProvideOpts) :
    apiProvide ctx fn (dtr T ds st) i s o = (dtr T ds (apiProvide ctx fn st i s o).1, (apiProvide ctx fn st i s o).2) :=
  dtr_apiProvide T ds ctx fn st i s o

/-- non-vacuity (a test): a decorator `func(*T0, struct{ dig.In; A *T1 `name:"n"` }) *T0` has no value-group parameter -/
example : ∀ t ∈ [GoT.univ 10, GoT.strct 100 [({ name := "In", exported := true, anon := true, tags := {} }, .univ 1),
      ({ name := "A", exported := true, anon := false, tags := { name := "n" } }, .univ 11)]], noGroupT t = true := by
  decide

/-! ### finding F19: the order of two accepted Provides *is* visible through a soft value group

  The permutation half is stated `_partial` for a reason the model itself shows (a *test*, run by the evaluator at build
  time; the same program is `corpus/F19-soft-group-after-failed-invoke.json`, replayed on the real library by every run
  of `./check C16`): constructors `a` (needs a type nobody provides) and `b` both feed group `g`; an Invoke with a hard
  `group:"g"` parameter fails — after running `b` when `b` was registered first, before running anything when `a` was;
  what `b` returned stays stored, and the next Invoke with `group:"g,soft"` receives one member in one order and none
  in the other.  Both Provides are accepted in both orders, the last Invoke succeeds in both. -/
def f19Types : List TypeInfo :=
  [{ id := 0, kind := .iface, elem := none, impl := [], isErr := true },
   { id := 10, kind := .ptr, elem := none, impl := [], isErr := false },
   { id := 11, kind := .ptr, elem := none, impl := [], isErr := false },
   { id := 31, kind := .slice, elem := some 11, impl := [], isErr := false }]
def f19In : FieldMeta × GoT := ({ name := "In", exported := true, anon := true, tags := {} }, .univ tIn)
def f19Fns : List Fn :=
  [{ id := 1, name := "a", nonfunc := none, ins := [.univ 10], variadic := false, outs := [.univ 11] },
   { id := 2, name := "b", nonfunc := none, ins := [], variadic := false, outs := [.univ 11] },
   { id := 3, name := "hard", nonfunc := none, variadic := false, outs := [],
     ins := [.strct 100 [f19In, ({ name := "G", exported := true, anon := false, tags := { group := "g" } }, .univ 31)]] },
   { id := 4, name := "soft", nonfunc := none, variadic := false, outs := [],
     ins := [.strct 101 [f19In, ({ name := "G", exported := true, anon := false, tags := { group := "g,soft" } }, .univ 31)]] }]
def f19Prog (first second : Nat) : Program :=
  { cfg := {}, types := f19Types, fns := f19Fns, script := [],
    ops := [.provide 0 first { group := "g" }, .provide 0 second { group := "g" }, .invoke 0 3 false, .invoke 0 4 false] }
/-- verdicts (0 ok, 1 error) and the number of members the last, successful Invoke hands to its soft parameter -/
def f19Obs (p : Program) : List Nat × Option Nat :=
  let rs := (runProgram p).2
  (rs.map fun r => match r.v with | .ok => 0 | _ => 1,
   match rs.getLast? with
   | some r => (match r.ev with
     | .enter _ _ _ [.obj [.sl xs]] :: _ => some xs.length
     | _ => none)
   | none => none)
#guard f19Obs (f19Prog 1 2) == ([0, 0, 1, 0], some 0)
#guard f19Obs (f19Prog 2 1) == ([0, 0, 1, 0], some 1)

#print axioms C16_defer_changes_nothing
#print axioms C16_provide_and_decorate_commute_partial
#print axioms C16_provide_ignores_decorators
#print axioms C16_history_provide_decorate_swap_partial
#print axioms C16_scope_and_decorate_commute_partial
#print axioms C16_eager_always_acyclic
#print axioms C16_resolver_ignores_flags
#print axioms C16_invoke_checks
#print axioms C16_defer_never_rejects
#print axioms C16_eager_step
#print axioms C16_eager_failure_names_a_check
#print axioms C16_flags_only
end Dig.C16
