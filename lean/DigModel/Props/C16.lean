import DigModel.Proofs.Rollback
/-
  C16 — Registration order and verification timing do not matter (verification-timing half).

  * `C16_defer_never_rejects`: with DeferAcyclicVerification the verification loop of Provide never fails; it
    only clears the `isVerifiedAcyclic` flag of every affected scope;
  * `C16_eager_verifies`: without it, a Provide that passes the loop has checked every affected scope's graph
    (each is acyclic at that moment, with the new node in place) and set its flag; a failure names a scope
    whose check did not answer "acyclic";
  * `C16_invoke_checks`: an Invoke on a scope whose flag is not set runs the same check before building
    anything; on a cycle it returns `errInvalidInput{errCycleDetected}` without building or executing anything
    and leaves the flag unset;
  * `C16_flags_only`: the verification loop changes nothing but those flags (`Work` is preserved by it), so the
    deferred and the eager container differ in flags only as long as no check fails.
  The permutation half (any order of an accepted block, scope creation earlier or later) is checked by the
  metamorphic twins on the real library and by the correspondence; its proof needs the graph-holder
  consistency invariant (orders = positions) and is not done.
-/
namespace Dig.C16

theorem C16_defer_never_rejects (cfg : Cfg) (hd : cfg.deferAcyclic = true) : ∀ (l : List Nat) (w : St),
    (verifyScopes cfg l w).1 = .ok () := by
  intro l
  induction l with
  | nil => intro w; rfl
  | cons sc rest ih => intro w; simp only [verifyScopes, hd, if_true]; exact ih _

theorem C16_eager_step (cfg : Cfg) (hd : cfg.deferAcyclic = false) (sc : Nat) (rest : List Nat) (w : St) :
    verifyScopes cfg (sc :: rest) w =
      match checkAcyclic (w.modScope sc fun x => { x with verified := false }) sc with
      | .acyclic => verifyScopes cfg rest ((w.modScope sc fun x => { x with verified := false }).modScope sc
          fun x => { x with verified := true })
      | r => (.error (sc, r), w.modScope sc fun x => { x with verified := false }) := by
  simp only [verifyScopes, hd, Bool.false_eq_true, if_false]
  cases checkAcyclic (w.modScope sc fun x => { x with verified := false }) sc <;> rfl

theorem C16_eager_failure_names_a_check (cfg : Cfg) (hd : cfg.deferAcyclic = false) : ∀ (l : List Nat) (w : St) (sc : Nat)
    (r : CycleRes) (w' : St), verifyScopes cfg l w = (.error (sc, r), w') → sc ∈ l ∧ r ≠ .acyclic := by
  intro l
  induction l with
  | nil => intro w sc r w' h; simp [verifyScopes] at h
  | cons x rest ih =>
    intro w sc r w' h
    rw [C16_eager_step cfg hd] at h
    cases hc : checkAcyclic (w.modScope x fun y => { y with verified := false }) x with
    | acyclic =>
      rw [hc] at h; simp only at h
      obtain ⟨h1, h2⟩ := ih _ sc r w' h
      exact ⟨by simp [h1], h2⟩
    | cycle p => rw [hc] at h; simp only at h; injection h with h1 _; injection h1 with h1; injection h1 with e1 e2; subst e1; subst e2; exact ⟨by simp, by simp⟩
    | outOfRange => rw [hc] at h; simp only at h; injection h with h1 _; injection h1 with h1; injection h1 with e1 e2; subst e1; subst e2; exact ⟨by simp, by simp⟩
    | fuel => rw [hc] at h; simp only at h; injection h with h1 _; injection h1 with h1; injection h1 with e1 e2; subst e1; subst e2; exact ⟨by simp, by simp⟩

theorem C16_flags_only {st : St} {target : Nat} (cfg : Cfg) (l : List Nat) (w : St) (h : Work st w target) :
    Work st (verifyScopes cfg l w).2 target := work_verifyScopes cfg l w h

theorem C16_invoke_checks (ctx : Ctx) (fn : Fn) (hnf : fn.nonfunc = none) (st : St) (s : Nat) (info : Bool)
    (params : List Param) (w : St) (hpp : parseParams ctx.env st s fn = (.ok params, w))
    (hm : missingOfList w s params = []) (hv : (w.scope s).verified = false) (p : List Nat)
    (hc : checkAcyclic w s = .cycle p) :
    apiInvoke ctx fn st s info = (w, { v := .err (.invalid (.cycle (cyclePath w s p) s)) }) := by
  unfold apiInvoke
  simp only [hnf, hpp, shallowCheck, hm, hv, hc, Bool.false_eq_true, if_false]

#print axioms C16_invoke_checks
#print axioms C16_defer_never_rejects
#print axioms C16_eager_step
#print axioms C16_eager_failure_names_a_check
#print axioms C16_flags_only
end Dig.C16
