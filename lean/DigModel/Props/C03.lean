import DigModel.Proofs.ApiLemmas
import DigModel.Proofs.ReachApi
import DigModel.Proofs.ProvApi
/-
  C03 — Laziness.

  `C03_passive` (full strength): Scope, Provide, Decorate, Visualize and String report no event
  at all, in any state: they never execute a user function and fire no callback.
  `C03_invoke_registry`: building arguments never registers or unregisters anything (the
  resolver's frame), so laziness cannot be circumvented by an Invoke changing what later
  Invokes see as registered.
  `C03_only` (full strength, any container state): every user function entered during an Invoke is the
  invoked function itself or the function of a constructor / decorator **reachable** (`Reach`, defined on the
  registry as it was when Invoke was called) from a parameter of the invoked function seen from the invoking
  scope: through a decorator of the key registered on the path to the root, through the providers of a single
  key in the *nearest* providing scope, through the providers of a non-soft value group on the path, and
  recursively through the parameters of those nodes, each seen from the node's own scope (`origS` for
  constructors).  A soft group reaches nothing but its decorators; sibling scopes, descendants, other keys,
  farther providers of a shadowed key are outside the closure.  (`engine_only`: induction over the resolver.)
  `C03_dependencies_complete_first` (whole programs): whatever value is handed to a user function stems
  from executions that had already exited successfully (`Prov`).
  `C03_all` (every not-yet-built constructor of the must-run closure has run after a successful Invoke) is
  carried by the correspondence check and `pred_c03`.
-/
namespace Dig.C03

theorem C03_passive (ctx : Ctx) (fns : List Fn) (st : St) (i : Nat) (op : Op) (h : op.isInvoke = false) :
    (step ctx fns st i op).2.ev = [] := step_passive ctx fns st i op h

theorem C03_invoke_registry (ctx : Ctx) (fuel : Nat) (ps : List Param) (c : Nat) (st : St) :
    RegFrame st (buildList ctx fuel ps c st).2 := buildList_regFrame ctx fuel ps c st

theorem C03_only (ctx : Ctx) (fns : List Fn) (st : St) (i s f : Nat) (info : Bool) :
    ∀ e ∈ (step ctx fns st i (.invoke s f info)).2.ev, ∀ w g x args, e = Event.enter w g x args →
      w = .invoked ∨ ∃ fn params w0, fnOf fns f = some fn ∧
        parseParams ctx.env { st with log := [] } s fn = (.ok params, w0) ∧ ∃ l ∈ leavesL params, Reach st s l w := by
  simp only [step]
  cases hf : fnOf fns f with
  | none => intro e he; simp at he
  | some fn =>
    simp only
    split
    · intro e he w g x args heq
      rcases apiInvoke_only ctx fn { st with log := [] } s info rfl e he w g x args heq with h | ⟨params, w0, hp, l, hl, hr⟩
      · exact Or.inl h
      · refine Or.inr ⟨fn, params, w0, rfl, hp, l, hl, ?_⟩
        exact reach_view (a := { st with log := [] }) (b := st)
          ⟨fun _ => rfl, fun _ => ⟨rfl, rfl⟩, fun _ => ⟨rfl, rfl⟩, fun _ => ⟨rfl, rfl⟩⟩ hr
    · intro e he; simp at he

theorem C03_dependencies_complete_first (p : Program) (i : Nat) (w : Who) (g y : Nat) (args : List Val)
    (hent : (runProgram p).1.hist[i]? = some (.enter w g y args)) (a : Val) (ha : a ∈ args)
    (f x : Nat) (htok : (f, x) ∈ a.toks) :
    ∃ who, who ≠ .invoked ∧ Event.exit who f x .ok ∈ (runProgram p).1.hist.take i :=
  (prov_program p).args i w g y args hent a ha (f, x) htok

/-- non-vacuity (a test): with a provider of `k` in scope 0 only, that provider is reachable from a consumer of `k`
    in scope 0 -/
example : Reach { scopes := [{ parent := none, providers := [(⟨5, "", ""⟩, [0])] }], ctors := [default] } 0
    (.single ⟨5, "", ""⟩) (.ctor 0) :=
  Reach.provSelf (pc := 0) (ns := [0]) (by decide) (by simp)

/-- non-vacuity, negative (a test): a constructor provided to a sibling scope is *not* reachable — nothing is -/
def siblingTree : St :=
  { scopes := [{ parent := none, children := [1, 2] }, { parent := some 0 },
               { parent := some 0, providers := [(⟨5, "", ""⟩, [0])] }], ctors := [default] }

example (w : Who) : ¬ Reach siblingTree 1 (.single ⟨5, "", ""⟩) w := by
  intro h
  have hanc : siblingTree.ancestors 1 = [1, 0] := by decide
  cases h with
  | decoSelf hs hd =>
    rw [hanc] at hs
    simp only [List.mem_cons, List.not_mem_nil, or_false] at hs
    rcases hs with rfl | rfl <;> simp [siblingTree, St.scope, aget, Lf.key] at hd
  | decoDep hs hd _ _ =>
    rw [hanc] at hs
    simp only [List.mem_cons, List.not_mem_nil, or_false] at hs
    rcases hs with rfl | rfl <;> simp [siblingTree, St.scope, aget, Lf.key] at hd
  | provSelf hn _ => rw [hanc] at hn; simp [nearestProv, siblingTree, St.scope, agetL, aget] at hn
  | provDep hn _ _ _ => rw [hanc] at hn; simp [nearestProv, siblingTree, St.scope, agetL, aget] at hn

#print axioms C03_passive
#print axioms C03_only
#print axioms C03_dependencies_complete_first
#print axioms C03_invoke_registry
end Dig.C03
