import DigModel.Proofs.ApiLemmas
/-
  C03 — Laziness.

  `C03_passive` (full strength): Scope, Provide, Decorate, Visualize and String report no event
  at all, in any state: they never execute a user function and fire no callback.
  `C03_invoke_registry`: building arguments never registers or unregisters anything (the
  resolver's frame), so laziness cannot be circumvented by an Invoke changing what later
  Invokes see as registered.
  The closure statements (`C03_only`, `C03_order`, `C03_all`) are carried by the correspondence
  check and the trace predicate `pred_c03`; theorems for them are part of the master invariant.
-/
namespace Dig.C03

theorem C03_passive (ctx : Ctx) (fns : List Fn) (st : St) (i : Nat) (op : Op) (h : op.isInvoke = false) :
    (step ctx fns st i op).2.ev = [] := step_passive ctx fns st i op h

theorem C03_invoke_registry (ctx : Ctx) (fuel : Nat) (ps : List Param) (c : Nat) (st : St) :
    RegFrame st (buildList ctx fuel ps c st).2 := buildList_regFrame ctx fuel ps c st

#print axioms C03_passive
#print axioms C03_invoke_registry
end Dig.C03
