import DigModel.Proofs.ApiLemmas
import DigModel.Proofs.ReachApi
import DigModel.Proofs.ProvApi
import DigModel.Proofs.DepsApi
import DigModel.Proofs.GroupsBuilt
/-
  C03 — Laziness.

  `C03_passive` (full strength): Scope, Provide, Decorate, Visualize and String report no event
  at all, in any state: they never execute a user function and fire no callback.
  `C03_invoke_registry`: building arguments never registers or unregisters anything (the
  resolver's frame), so laziness cannot be circumvented by an Invoke changing what later
  Invokes see as registered.
  `C03_only` (full strength, any container state): every user function entered during an Invoke is the
  invoked function itself or the function of a constructor / decorator **reachable** (`Reach`, defined on the
  registry as it was when Invoke was called) from a parameter of the invoked function seen from the invoking
  scope: through a decorator of the key registered on the path to the root, through the providers of a single
  key in the *nearest* providing scope, through the providers of a non-soft value group on the path, and
  recursively through the parameters of those nodes, each seen from the node's own scope (`origS` for
  constructors).  A soft group reaches nothing but its decorators; sibling scopes, descendants, other keys,
  farther providers of a shadowed key are outside the closure.  (`engine_only`: induction over the resolver.)
  `C03_dependencies_complete_first` (whole programs): whatever value is handed to a user function stems
  from executions that had already exited successfully (`Prov`).
  The "must-run" half — when Invoke succeeds, what it needed has run — is proved through availability (`HasKey`: a
  decorated value or a value for the key is cached in a scope on the path to the root, i.e. it can be had without
  running anything):
  * `C03_success_leaves_dependencies_built` (whole programs): after a successful Invoke on the container at the end of any
    history, every required (non-optional) single dependency of the invoked function — positional, named or a field at
    any depth of a parameter object — is available from the invoking scope;
  * `C03_built_nodes_have_their_dependencies` (whole programs, invariant `Deps` of every operation, proved through the six
    resolver functions): in every reachable container every built constructor, and every decorator that has run, has
    all its required single dependencies available from the scope it was built from — so availability is closed under
    "depends on";
  * `C03_available_means_built`: an available key was produced by a built constructor living in that scope on the path
    and declaring the key, or by a decorator of that scope that has run (`Just`, `Just2`).
  Together: after a successful Invoke, the constructors and decorators that produced the invoked function's required
  single dependencies are built, and so are, transitively, those that produced theirs.  For non-soft value groups:
  `C03_success_leaves_group_feeders_built` (whole programs: after a successful Invoke every non-soft value group among the
  invoked function's parameters, at any depth of parameter objects, is decorated on the path — a decorator registered or a
  decorated group cached — or has **every** provider on the path from the invoking scope built; `groups_built`,
  induction over parameter objects with "built stays built" and "caches keep their keys").  An optional
  dependency whose constructor cannot be built for missing dependencies is delivered as the zero value and its
  constructor does not run (`providerStep`); the exact must-run closure including that case and the interplay with
  decorators being skipped while they run is compared with the real library by the trace predicate `pred_c03`.
-/
namespace Dig.C03

theorem C03_passive (ctx : Ctx) (fns : List Fn) (st : St) (i : Nat) (op : Op) (h : op.isInvoke = false) :
    (step ctx fns st i op).2.ev = [] := step_passive ctx fns st i op h

theorem C03_invoke_registry (ctx : Ctx) (fuel : Nat) (ps : List Param) (c : Nat) (st : St) :
    RegFrame st (buildList ctx fuel ps c st).2 := buildList_regFrame ctx fuel ps c st

theorem C03_only (ctx : Ctx) (fns : List Fn) (st : St) (i s f : Nat) (info : Bool) :
    ∀ e ∈ (step ctx fns st i (.invoke s f info)).2.ev, ∀ w g x args, e = Event.enter w g x args →
      w = .invoked ∨ ∃ fn params w0, fnOf fns f = some fn ∧
        parseParams ctx.env { st with log := [] } s fn = (.ok params, w0) ∧ ∃ l ∈ leavesL params, Reach st s l w := by
  simp only [step]
  cases hf : fnOf fns f with
  | none => intro e he; simp at he
  | some fn =>
    simp only
    split
    · intro e he w g x args heq
      rcases apiInvoke_only ctx fn { st with log := [] } s info rfl e he w g x args heq with h | ⟨params, w0, hp, l, hl, hr⟩
      · exact Or.inl h
      · refine Or.inr ⟨fn, params, w0, rfl, hp, l, hl, ?_⟩
        exact reach_view (a := { st with log := [] }) (b := st)
          ⟨fun _ => rfl, fun _ => ⟨rfl, rfl⟩, fun _ => ⟨rfl, rfl⟩, fun _ => ⟨rfl, rfl⟩⟩ hr
    · intro e he; simp at he

theorem C03_dependencies_complete_first (p : Program) (i : Nat) (w : Who) (g y : Nat) (args : List Val)
    (hent : (runProgram p).1.hist[i]? = some (.enter w g y args)) (a : Val) (ha : a ∈ args)
    (f x : Nat) (htok : (f, x) ∈ a.toks) :
    ∃ who, who ≠ .invoked ∧ Event.exit who f x .ok ∈ (runProgram p).1.hist.take i :=
  (prov_program p).args i w g y args hent a ha (f, x) htok

/-- non-vacuity (a test): with a provider of `k` in scope 0 only, that provider is reachable from a consumer of `k`
    in scope 0 -/
example : Reach { scopes := [{ parent := none, providers := [(⟨5, "", ""⟩, [0])] }], ctors := [default] } 0
    (.single ⟨5, "", ""⟩) (.ctor 0) :=
  Reach.provSelf (pc := 0) (ns := [0]) (by decide) (by simp)

/-- non-vacuity, negative (a test): a constructor provided to a sibling scope is *not* reachable — nothing is -/
def siblingTree : St :=
  { scopes := [{ parent := none, children := [1, 2] }, { parent := some 0 },
               { parent := some 0, providers := [(⟨5, "", ""⟩, [0])] }], ctors := [default] }

example (w : Who) : ¬ Reach siblingTree 1 (.single ⟨5, "", ""⟩) w := by
  intro h
  have hanc : siblingTree.ancestors 1 = [1, 0] := by decide
  cases h with
  | decoSelf hs hd =>
    rw [hanc] at hs
    simp only [List.mem_cons, List.not_mem_nil, or_false] at hs
    rcases hs with rfl | rfl <;> simp [siblingTree, St.scope, aget, Lf.key] at hd
  | decoDep hs hd _ _ =>
    rw [hanc] at hs
    simp only [List.mem_cons, List.not_mem_nil, or_false] at hs
    rcases hs with rfl | rfl <;> simp [siblingTree, St.scope, aget, Lf.key] at hd
  | provSelf hn _ => rw [hanc] at hn; simp [nearestProv, siblingTree, St.scope, agetL, aget] at hn
  | provDep hn _ _ _ => rw [hanc] at hn; simp [nearestProv, siblingTree, St.scope, agetL, aget] at hn

private theorem reachable_deps (p : Program) : Deps (runProgram p).1 := deps_program p

theorem C03_built_nodes_have_their_dependencies (p : Program) :
    (∀ n, ((runProgram p).1.ctor n).called = true → ∀ k ∈ reqSinglesL ((runProgram p).1.ctor n).params,
      HasKey (runProgram p).1 ((runProgram p).1.ctor n).origS k) ∧
    (∀ d, ((runProgram p).1.deco d).state = .called → ∀ k ∈ reqSinglesL ((runProgram p).1.deco d).params,
      HasKey (runProgram p).1 ((runProgram p).1.deco d).s k) :=
  ⟨(deps_program p).ctor, (deps_program p).deco⟩

theorem C03_success_leaves_dependencies_built (p : Program) (i s f : Nat) (info : Bool)
    (hok : (step p.ctx p.fns (runProgram p).1 i (.invoke s f info)).2.v = .ok) :
    ∃ fn params w0, fnOf p.fns f = some fn ∧
      parseParams p.types { (runProgram p).1 with log := [] } s fn = (.ok params, w0) ∧
      ∀ k ∈ reqSinglesL params, HasKey (step p.ctx p.fns (runProgram p).1 i (.invoke s f info)).1 s k := by
  have hd := reachable_deps p
  generalize (runProgram p).1 = st at hd hok ⊢
  have h0 : Deps { st with log := [] } := hd.frame (fr_of_same rfl (fun _ => ⟨rfl, rfl, rfl⟩) rfl rfl)
  simp only [step] at hok ⊢
  cases hf : fnOf p.fns f with
  | none => rw [hf] at hok; simp at hok
  | some fn =>
    rw [hf] at hok
    simp only at hok ⊢
    split
    · rename_i hs
      rw [if_pos hs] at hok
      obtain ⟨params, w0, hp, hall⟩ := (h0.invoke p.ctx fn s info).2 hok
      exact ⟨fn, params, w0, rfl, hp, hall⟩
    · rename_i hs; rw [if_neg hs] at hok; simp at hok

theorem C03_available_means_built (p : Program) (c : Nat) (k : Key) (h : HasKey (runProgram p).1 c k) :
    ∃ S ∈ (runProgram p).1.ancestors c,
      (∃ d slot decl, d < (runProgram p).1.decos.length ∧ ((runProgram p).1.deco d).s = S ∧
        (false, k, slot, decl) ∈ slotDecoLeaves p.types ((runProgram p).1.deco d).results) ∨
      (∃ n slot decl, n < (runProgram p).1.ctors.length ∧ ((runProgram p).1.ctor n).s = S ∧
        ((runProgram p).1.ctor n).called = true ∧ (k, slot, decl) ∈ slotLeaves ((runProgram p).1.ctor n).results) := by
  obtain ⟨S, hS, hv⟩ := h
  refine ⟨S, hS, ?_⟩
  rcases hv with hv | hv
  · cases hg : aget ((runProgram p).1.scope S).decoratedValues k with
    | none => rw [hg] at hv; cases hv
    | some v =>
      obtain ⟨d, slot, decl, h1, h2, h3, _⟩ := (just2_program p).dvalues S k v hg
      exact Or.inl ⟨d, slot, decl, h1, h2, h3⟩
  · cases hg : aget ((runProgram p).1.scope S).values k with
    | none => rw [hg] at hv; cases hv
    | some v =>
      obtain ⟨n, slot, decl, h1, h2, h3, h4, _⟩ := just_program p S k v hg
      exact Or.inr ⟨n, slot, decl, h1, h2, h3, h4⟩


theorem C03_success_leaves_group_feeders_built (p : Program) (i s f : Nat) (info : Bool)
    (hok : (step p.ctx p.fns (runProgram p).1 i (.invoke s f info)).2.v = .ok) :
    ∃ fn params w0, fnOf p.fns f = some fn ∧
      parseParams p.types { (runProgram p).1 with log := [] } s fn = (.ok params, w0) ∧
      ∀ k ∈ hardGroupsL params, GroupBuilt (step p.ctx p.fns (runProgram p).1 i (.invoke s f info)).1 s k := by
  have hv : ValidReg (runProgram p).1 := (NBInv.runOps p.ctx p.fns p.ops 0 {} [] (NBInv.init _)).h.valid
  generalize (runProgram p).1 = st at hv hok ⊢
  have hv0 : ValidReg { st with log := [] } := hv
  simp only [step] at hok ⊢
  cases hf : fnOf p.fns f with
  | none => rw [hf] at hok; simp at hok
  | some fn =>
    rw [hf] at hok
    simp only at hok ⊢
    split
    · rename_i hs
      rw [if_pos hs] at hok
      obtain ⟨params, w0, hp, hall⟩ := invoke_groups_built p.ctx hv0 fn s info hok
      exact ⟨fn, params, w0, rfl, hp, hall⟩
    · rename_i hs; rw [if_neg hs] at hok; simp at hok

#print axioms C03_success_leaves_group_feeders_built
#print axioms C03_built_nodes_have_their_dependencies
#print axioms C03_success_leaves_dependencies_built
#print axioms C03_available_means_built
#print axioms C03_passive
#print axioms C03_only
#print axioms C03_dependencies_complete_first
#print axioms C03_invoke_registry
end Dig.C03
