import DigModel.Proofs.Retry
import DigModel.Proofs.ProvApi
import DigModel.Proofs.RootCauseProgram
import DigModel.Proofs.ValErr
import DigModel.Proofs.ValErrProgram
/-
  C07 — Failed executions contribute nothing and are retried.

  * `C07_failed_writes_nothing`: when the function of a constructor (decorator) returns an error or
    panics, running it changes no cache, no flag and no registry entry of any scope: the state differs
    only by the log, the clock and the execution counter.  (With the repair of F5 this holds for
    decorators too: `ExtractList` looks for the error before extracting anything.)
  * `C07_retry_ctor`: a constructor call that ends with an error or a panic — its own function failed,
    or one of its arguments could not be built — leaves the constructor not built and off the stack,
    so (C02_cached / C02_noreentry do not apply) the next demand executes it again.
  * `C07_retry_deco`: likewise a failing decorator call leaves the decorator `ready` (repair of F4),
    so look-ups find it again instead of skipping it.
  * `C07_root_cause`: what the failing call hands upwards (C13_ctor_outcome, C13_deco_outcome).
  * `C07_others_kept`: nodes being built are untouched and built nodes stay built during any resolver
    call, failing or not (frame part of the flag discipline).
  * `C07_failed_never_delivered` (whole programs): in the history of any operation sequence, if execution
    `x` of function `f` ended with an error or a panic, then no value stemming from that execution is ever
    handed to any user function as (part of) an argument — before or after, in any scope, through single
    values, groups, decorated values or parameter objects.  (Invariants `Prov`: every token in a cache or in
    an argument comes from an execution with a successful exit *earlier* in the history; `ExecInv`: an
    execution number ends at most once.)
  * `C07_failed_never_cached`: nor does such a value sit in any cache of any scope at the end.
-/
namespace Dig.C07

theorem C07_failed_writes_nothing (ctx : Ctx) (n : Nat) (node : CtorNode) (args : List Val) (st : St) (e : Fail)
    (h : (ctorTail ctx n node args st).1 = .error e) :
    (ctorTail ctx n node args st).2.scopes = st.scopes ∧ (ctorTail ctx n node args st).2.ctors = st.ctors ∧
    (ctorTail ctx n node args st).2.decos = st.decos ∧ (ctorTail ctx n node args st).2.pgs = st.pgs := by
  have hnc : (callBody ctx (.ctor n) node.fn args st).1.commits = false := by
    cases hc : (callBody ctx (.ctor n) node.fn args st).1.commits with
    | false => rfl
    | true =>
      obtain ⟨u, hu⟩ := (ctorOutcome_ok_iff ctx node.fn.id _).mpr hc
      simp only [ctorTail] at h
      rw [hu] at h; cases h
  have hb := callBody_fields ctx (.ctor n) node.fn args st
  have hcm : ctorCommit ctx n node (callBody ctx (.ctor n) node.fn args st).1 (callBody ctx (.ctor n) node.fn args st).2 =
      (callBody ctx (.ctor n) node.fn args st).2 := by
    unfold ctorCommit
    cases hr : (callBody ctx (.ctor n) node.fn args st).1 <;> simp_all [BodyRes.commits]
  simp only [ctorTail, hcm]
  obtain ⟨r1, r2, r3, r4⟩ := runCallback_fields node.cb (.ctor n) node.fn.id st.clock
    (ctorOutcome ctx node.fn.id (callBody ctx (.ctor n) node.fn args st).1).2 (callBody ctx (.ctor n) node.fn args st).2
  exact ⟨r1.trans hb.1, r2.trans hb.2.1, r3.trans hb.2.2.1, r4.trans hb.2.2.2⟩

theorem C07_failed_deco_writes_nothing (ctx : Ctx) (d : Nat) (node : DecoNode) (args : List Val) (st : St) (e : Fail)
    (h : (decoTail ctx d node args st).1 = .error e) :
    (decoTail ctx d node args st).2.scopes = st.scopes ∧ (decoTail ctx d node args st).2.ctors = st.ctors ∧
    (decoTail ctx d node args st).2.decos = st.decos ∧ (decoTail ctx d node args st).2.pgs = st.pgs := by
  have hnc : (callBody ctx (.deco d) node.fn args st).1.commits = false := by
    cases hc : (callBody ctx (.deco d) node.fn args st).1.commits with
    | false => rfl
    | true =>
      obtain ⟨u, hu⟩ := (decoOutcome_ok_iff ctx node.fn.id _).mpr hc
      simp only [decoTail] at h
      rw [hu] at h; cases h
  have hb := callBody_fields ctx (.deco d) node.fn args st
  have hcm : decoCommit ctx d node (callBody ctx (.deco d) node.fn args st).1 (callBody ctx (.deco d) node.fn args st).2 =
      (callBody ctx (.deco d) node.fn args st).2 := by
    unfold decoCommit
    cases hr : (callBody ctx (.deco d) node.fn args st).1 <;> simp_all [BodyRes.commits]
  simp only [decoTail, hcm]
  obtain ⟨r1, r2, r3, r4⟩ := runCallback_fields node.cb (.deco d) node.fn.id st.clock
    (decoOutcome ctx node.fn.id (callBody ctx (.deco d) node.fn args st).1).2 (callBody ctx (.deco d) node.fn args st).2
  exact ⟨r1.trans hb.1, r2.trans hb.2.1, r3.trans hb.2.2.1, r4.trans hb.2.2.2⟩

theorem C07_retry_ctor (ctx : Ctx) (L L' fuel n c : Nat) (hn : n < L) (st : St) (hv : VL L L' st)
    (hc : (st.ctor n).called = false) (ho : (st.ctor n).onStack = false) (e : Fail)
    (he : (callCtor ctx (fuel + 1) n c st).1 = .error e) :
    ((callCtor ctx (fuel + 1) n c st).2.ctor n).called = false ∧
    ((callCtor ctx (fuel + 1) n c st).2.ctor n).onStack = false :=
  callCtor_fail ctx L L' fuel n c hn st hv hc ho e he

theorem C07_retry_deco (ctx : Ctx) (L L' fuel d c : Nat) (hd : d < L') (st : St) (hv : VL L L' st)
    (hs : (st.deco d).state = .ready) (e : Fail)
    (he : (callDeco ctx (fuel + 1) d c st).1 = .error e) :
    ((callDeco ctx (fuel + 1) d c st).2.deco d).state = .ready :=
  callDeco_fail ctx L L' fuel d c hd st hv hs e he

theorem C07_others_kept (ctx : Ctx) (L L' fuel : Nat) (ps : List Param) (c : Nat) (st : St) (hv : VL L L' st) :
    (∀ n, (st.ctor n).onStack = true → (buildList ctx fuel ps c st).2.ctor n = st.ctor n) ∧
    (∀ d, (st.deco d).state = .onStack → (buildList ctx fuel ps c st).2.deco d = st.deco d) ∧
    (∀ n, (st.ctor n).called = true → ((buildList ctx fuel ps c st).2.ctor n).called = true) :=
  have h := (engine_flags ctx L L' fuel).2.2.2.2.2 ps c st hv
  ⟨h.ctorFrame, h.decoFrame, h.ctorMono⟩

theorem C07_failed_never_delivered (p : Program) (w : Who) (f x : Nat) (r : ExitKind) (hr : r ≠ .ok)
    (hfail : Event.exit w f x r ∈ (runProgram p).1.hist)
    (i : Nat) (w' : Who) (g y : Nat) (args : List Val)
    (hent : (runProgram p).1.hist[i]? = some (.enter w' g y args)) :
    ∀ a ∈ args, (f, x) ∉ a.toks := by
  intro a ha hmem
  obtain ⟨w2, _, hok⟩ := (prov_program p).args i w' g y args hent a ha (f, x) hmem
  exact (execInv_program p).failed_not_ok w f x r hr hfail w2 (List.mem_of_mem_take hok)

theorem C07_failed_never_cached (p : Program) (w : Who) (f x : Nat) (r : ExitKind) (hr : r ≠ .ok)
    (hfail : Event.exit w f x r ∈ (runProgram p).1.hist) (s : Nat) (k : Key) :
    (∀ v, aget ((runProgram p).1.scope s).values k = some v → (f, x) ∉ v.toks) ∧
    (∀ v, aget ((runProgram p).1.scope s).decoratedValues k = some v → (f, x) ∉ v.toks) ∧
    (∀ v, v ∈ agetL ((runProgram p).1.scope s).groups k → (f, x) ∉ v.toks) ∧
    (∀ v, aget ((runProgram p).1.scope s).decoratedGroups k = some v → (f, x) ∉ v.toks) := by
  have hp := (prov_program p).scopes s
  have hx := (execInv_program p).failed_not_ok w f x r hr hfail
  refine ⟨?_, ?_, ?_, ?_⟩
  · intro v hv hm; obtain ⟨w2, _, hok⟩ := hp.values k v hv (f, x) hm; exact hx w2 hok
  · intro v hv hm; obtain ⟨w2, _, hok⟩ := hp.dvalues k v hv (f, x) hm; exact hx w2 hok
  · intro v hv hm; obtain ⟨w2, _, hok⟩ := hp.groups k v hv (f, x) hm; exact hx w2 hok
  · intro v hv hm; obtain ⟨w2, _, hok⟩ := hp.dgroups k v hv (f, x) hm; exact hx w2 hok

/-- non-vacuity: a value made by an execution does carry that execution's token -/
example : (7, 3) ∈ (Val.sl [Val.tok 7 3 0 0, Val.zero 5]).toks := by decide

/-- whole programs: the first failing execution of a constructor or decorator during an operation is the last thing
    that runs (only callback events follow), there is no second failure, and it is the root cause the operation
    reports (`engine_root`, see Props/C13) -/
theorem C07_first_failure_is_reported (p : Program) : ∀ r ∈ (runProgram p).2, r.v ≠ .panicDig → r.v ≠ .fuel → Reported p.ctx r :=
  runOps_reported p.ctx p.fns p.ops

/-- a result of a *value* type that implements `error` (a struct with a value-receiver `Error` method) is never a nil
    interface: in any program (functions named uniquely by their ids), **a function that declares such a result never
    completes successfully**, whatever its script says — its body never returns `ok` and its exit event never reads
    `ok`; by `C07_failed_never_delivered` nothing it returns is ever handed to anyone.  (DryRun containers excepted:
    there the model is not used, DESIGN §12.) -/
theorem C07_value_typed_error_never_succeeds (p : Program) (fn : Fn) (hmem : fn ∈ p.fns)
    (huniq : ∀ g ∈ p.fns, g.id = fn.id → g = fn) (hv : (forcedOf p.types fn).isSome = true) (st : St) :
    (∀ x len, bodyRes p.ctx fn st ≠ .ok x len) ∧ exitKind p.ctx fn (p.ctx.beh fn.id (st.execCount fn.id)) ≠ .ok :=
  valErr_never_ok p fn hmem huniq hv st

/-- ... and what its failing costs: a constructor whose function has such a result **always fails, is never marked as
    called and writes to no cache** — so every demand runs it again (the retry half of C07 with nothing to wait for) -/
theorem C07_value_typed_error_constructor_writes_nothing (p : Program) (fn : Fn) (hmem : fn ∈ p.fns)
    (huniq : ∀ g ∈ p.fns, g.id = fn.id → g = fn) (hv : (forcedOf p.types fn).isSome = true) (hnd : p.cfg.dry = false)
    (n : Nat) (node : CtorNode) (hfn : node.fn = fn) (args : List Val) (st : St) :
    (ctorTail p.ctx n node args st).2.ctors = st.ctors ∧ (ctorTail p.ctx n node args st).2.scopes = st.scopes ∧
    ∃ e, (ctorTail p.ctx n node args st).1 = .error e :=
  valErr_ctorTail_writes_nothing p fn hmem huniq hv hnd n node hfn args st

/-- the same for a decorator: it always fails, is never marked as called and writes no decorated value — the key stays
    undecorated and every demand runs the decorator again -/
theorem C07_value_typed_error_decorator_writes_nothing (p : Program) (fn : Fn) (hmem : fn ∈ p.fns)
    (huniq : ∀ g ∈ p.fns, g.id = fn.id → g = fn) (hv : (forcedOf p.types fn).isSome = true) (hnd : p.cfg.dry = false)
    (d : Nat) (node : DecoNode) (hfn : node.fn = fn) (args : List Val) (st : St) :
    (decoTail p.ctx d node args st).2.decos = st.decos ∧ (decoTail p.ctx d node args st).2.scopes = st.scopes ∧
    ∃ e, (decoTail p.ctx d node args st).1 = .error e :=
  valErr_decoTail_writes_nothing p fn hmem huniq hv hnd d node hfn args st

/-- ... and for whole programs: **nothing a function with a value-typed error result returns is ever handed to any user
    function** (as an argument or part of one, in any scope, through single values, groups, decorated values or
    parameter objects), **nor does it sit in any cache at the end** — in every history, none of its executions has a
    successful exit (`ve_program`, an invariant of `step` carried through the six resolver functions: every node
    carries a function of the program, ids name functions uniquely, and `C07_value_typed_error_never_succeeds`);
    the rest is `Prov`.  Function ids are positive (0 is the id of the default node the model reads out of range). -/
theorem C07_value_typed_error_results_never_delivered (p : Program) (fn : Fn) (hmem : fn ∈ p.fns)
    (huniq : ∀ g ∈ p.fns, g.id = fn.id → g = fn) (hv : (forcedOf p.types fn).isSome = true) (hid : fn.id ≠ 0) :
    (∀ w x, Event.exit w fn.id x .ok ∉ (runProgram p).1.hist) ∧
    (∀ (i : Nat) (w' : Who) (g y : Nat) (args : List Val), (runProgram p).1.hist[i]? = some (.enter w' g y args) →
      ∀ a ∈ args, ∀ x, (fn.id, x) ∉ a.toks) ∧
    (∀ (s : Nat) (k : Key) (x : Nat),
      (∀ v, aget ((runProgram p).1.scope s).values k = some v → (fn.id, x) ∉ v.toks) ∧
      (∀ v, aget ((runProgram p).1.scope s).decoratedValues k = some v → (fn.id, x) ∉ v.toks) ∧
      (∀ v, v ∈ agetL ((runProgram p).1.scope s).groups k → (fn.id, x) ∉ v.toks) ∧
      (∀ v, aget ((runProgram p).1.scope s).decoratedGroups k = some v → (fn.id, x) ∉ v.toks)) := by
  have hve := ve_program p fn hmem huniq hv hid
  refine ⟨hve.nook, ?_, ?_⟩
  · intro i w' g y args hent a ha x hm
    obtain ⟨w2, _, hok⟩ := (prov_program p).args i w' g y args hent a ha (fn.id, x) hm
    exact hve.nook w2 x (List.mem_of_mem_take hok)
  · intro s k x
    have hp := (prov_program p).scopes s
    refine ⟨?_, ?_, ?_, ?_⟩
    · intro v hv' hm; obtain ⟨w2, _, hok⟩ := hp.values k v hv' (fn.id, x) hm; exact hve.nook w2 x hok
    · intro v hv' hm; obtain ⟨w2, _, hok⟩ := hp.dvalues k v hv' (fn.id, x) hm; exact hve.nook w2 x hok
    · intro v hv' hm; obtain ⟨w2, _, hok⟩ := hp.groups k v hv' (fn.id, x) hm; exact hve.nook w2 x hok
    · intro v hv' hm; obtain ⟨w2, _, hok⟩ := hp.dgroups k v hv' (fn.id, x) hm; exact hve.nook w2 x hok

/-- non-vacuity (a test): `func() (*T1, VErr)` with `VErr` a struct type that implements `error` has a forced entry;
    `func() (*T1, error)` has none -/
example : (forcedOf [{ id := 0, kind := .iface, elem := none, impl := [], isErr := true },
      { id := 11, kind := .ptr, elem := none, impl := [], isErr := false },
      { id := 25, kind := .struct, elem := none, impl := [], isErr := true }]
    { id := 1, name := "f", nonfunc := none, ins := [], variadic := false, outs := [.univ 11, .univ 25] }).isSome = true ∧
  (forcedOf [{ id := 0, kind := .iface, elem := none, impl := [], isErr := true },
      { id := 11, kind := .ptr, elem := none, impl := [], isErr := false }]
    { id := 1, name := "f", nonfunc := none, ins := [], variadic := false, outs := [.univ 11, .univ 0] }).isSome = false := by
  decide

/-- non-vacuity: a program that meets the hypotheses — `f : func() (*T1, VErr)` provided, `g : func(*T1)` invoked — and
    what the model answers for it (a *test*, run by the evaluator): the Invoke fails with `f`'s error as root cause
    although `f`'s script says nothing -/
def veTypes : List TypeInfo :=
  [{ id := 0, kind := .iface, elem := none, impl := [], isErr := true },
   { id := 11, kind := .ptr, elem := none, impl := [], isErr := false },
   { id := 25, kind := .struct, elem := none, impl := [], isErr := true }]
def veF : Fn := { id := 1, name := "f", nonfunc := none, ins := [], variadic := false, outs := [.univ 11, .univ 25] }
def veG : Fn := { id := 2, name := "g", nonfunc := none, ins := [.univ 11], variadic := false, outs := [] }
def veProg : Program :=
  { cfg := {}, types := veTypes, fns := [veF, veG], script := [], ops := [.provide 0 1 {}, .invoke 0 2 false] }
example : veF ∈ veProg.fns ∧ (∀ g ∈ veProg.fns, g.id = veF.id → g = veF) ∧ (forcedOf veProg.types veF).isSome = true ∧
    veF.id ≠ 0 := by
  refine ⟨by simp [veProg], ?_, by decide, by decide⟩
  intro g hg hid
  simp only [veProg, List.mem_cons, List.mem_nil_iff, or_false] at hg
  rcases hg with rfl | rfl
  · rfl
  · exact absurd hid (by decide)
#guard ((runProgram veProg).2.map fun r => match r.v with | .ok => 0 | .err e => (match e.rootCause with | .user 1 0 => 2 | _ => 1) | _ => 3) == [0, 2]

#print axioms C07_first_failure_is_reported
#print axioms C07_failed_writes_nothing
#print axioms C07_failed_never_delivered
#print axioms C07_failed_never_cached
#print axioms C07_failed_deco_writes_nothing
#print axioms C07_retry_ctor
#print axioms C07_retry_deco
#print axioms C07_others_kept
#print axioms C07_value_typed_error_never_succeeds
#print axioms C07_value_typed_error_results_never_delivered
#print axioms C07_value_typed_error_constructor_writes_nothing
#print axioms C07_value_typed_error_decorator_writes_nothing
end Dig.C07
