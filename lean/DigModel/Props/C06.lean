import DigModel.Proofs.Rollback
import DigModel.Proofs.SameSim
import DigModel.Props.C14
/-
  C06 — A rejected Provide or Decorate leaves no trace.

  * `C06_provide_unchanged` (full strength for Provide): whenever Provide returns an error — unsuitable
    function, invalid options or tags, duplicate key, a cycle found in the target scope or in any descendant,
    with or without Export, in any state — the container afterwards equals the container before in every
    component (providers, decorators, caches, constructor / decorator / group-node tables with all their
    flags and orders, every scope's graph holder, node lists, logs, clock, execution counters) except the
    `isVerifiedAcyclic` flags, which only cause a re-verification. This is the statement whose failure was
    defect F1 (restoring the wrong scope) — the proof goes through the undo actually performed
    (`rollbackProvide`), not through discarding a copy.
  * `C06_decorate_unchanged` (= C14_rejected_decorate): after a rejected Decorate the container *is* the container
    before (`= st`): the graph nodes added while parsing its parameters are rolled back (repair of F15,
    `parse_rollback_eq`), and it registers no decorator — defect F2.
  * `C06_no_execution`: neither executes user code (C03_passive).
  * `C06_rejected_provide_is_invisible`, `C06_rejected_decorate_is_invisible` (full strength, whole programs, with
    or without DeferAcyclicVerification): take the container at the end of any history; if a Provide or Decorate on it
    is rejected, then **every** sequence of later operations gets, operation by operation, exactly the answers it
    gets on the container on which that call was never made — verdicts and error texts, executions and their
    arguments, callbacks, Info.  So the rejected function is never executed, provides and decorates nothing, blocks
    no later registration and causes no later error or panic.  Proof: the two containers are equal up to the
    `isVerifiedAcyclic` flags (`C06_provide_unchanged`), in every reachable container a flagged scope has an acyclic
    graph (`VA`, an invariant of every operation in both verification modes — `verified_means_acyclic`), and two
    such containers answer every operation alike and stay so (`step_simV`: the resolver does not read the flags,
    `comm_engine`; Invoke's check passes on the unflagged side because the graph is the same).
-/
namespace Dig.C06

private theorem EqButVerified.refl (a : St) : EqButVerified a a :=
  ⟨rfl, rfl, rfl, rfl, rfl, rfl, rfl, rfl, fun _ => ⟨rfl, rfl, rfl, rfl, rfl, rfl, rfl, rfl, rfl, rfl⟩⟩

theorem C06_provide_unchanged (ctx : Ctx) (fn : Fn) (st : St) (i s : Nat) (o : ProvideOpts) (e : DErr)
    (h : (apiProvide ctx fn st i s o).2.v = .err e) :
    EqButVerified st (apiProvide ctx fn st i s o).1 := by
  unfold apiProvide at h ⊢
  cases hnf : fn.nonfunc with
  | some _ => exact EqButVerified.refl st
  | none =>
    simp only [hnf] at h ⊢
    cases hvo : validateOpts ctx.env o with
    | error e' => exact EqButVerified.refl st
    | ok as =>
      simp only [hvo] at h ⊢
      generalize htarget : (if o.export_ then St.root else s) = target at h ⊢
      have hw1 := work_parseParams (Work.refl st target) ctx.env fn
      cases hpp : parseParams ctx.env st target fn with
      | mk r w1 =>
        rw [hpp] at hw1 h
        simp only at hw1
        cases r with
        | error e1 => exact rollback_restores hw1
        | ok params =>
          simp only at h ⊢
          cases hres : newResultList ctx.env { name := o.name, group := o.group, as := as } fn with
          | error e2 => exact rollback_restores hw1
          | ok results =>
            simp only [hres] at h ⊢
            have hw3 := work_newGraphNode (work_addCtor hw1
              { fn := fn, params := params, results := results, s := target, origS := s, cb := if o.cb then some i else none })
              (.ctor w1.ctors.length) (by show st.ctors.length ≤ w1.ctors.length; exact hw1.ctorsLen)
            generalize hw3def : (St.newGraphNode { w1 with ctors := w1.ctors ++
              [{ fn := fn, params := params, results := results, s := target, origS := s, cb := if o.cb then some i else none }] }
              target (.ctor w1.ctors.length)) = w3 at hw3 h ⊢
            cases hvk : visitKeys (w3.scope target) (slotResults results) [] with
            | error e3 => exact rollback_restores hw3
            | ok keys =>
              simp only [hvk] at h ⊢
              cases keys with
              | nil => exact rollback_restores hw3
              | cons k0 ks =>
                simp only at h ⊢
                have hw4 := work_modScope_providers hw3
                  ((k0 :: ks).foldl (fun m k => aset m k (agetL m k ++ [w1.ctors.length])) (w3.scope target).providers)
                have hw5 := work_verifyScopes (target := target) ctx.cfg (st.subscopes target) _ hw4
                -- the state handed to verifyScopes is the one of the definition
                have hsame : (w3.modScope target fun x =>
                    { x with providers := (k0 :: ks).foldl (fun m k => aset m k (agetL m k ++ [w1.ctors.length])) x.providers }) =
                    (w3.modScope target fun x =>
                    { x with providers := (k0 :: ks).foldl (fun m k => aset m k (agetL m k ++ [w1.ctors.length])) (w3.scope target).providers }) := by
                  unfold St.modScope
                  congr 1
                  apply List.ext_getElem?
                  intro j
                  simp only [List.getElem?_modify]
                  by_cases hj : target = j
                  · subst hj
                    cases hg : w3.scopes[target]? with
                    | none => rfl
                    | some x =>
                      have : w3.scope target = x := by
                        unfold St.scope; rw [List.getD_eq_getElem?_getD, hg]; rfl
                      simp [this]
                  · simp [hj]
                rw [hsame] at h ⊢
                cases hvs : verifyScopes ctx.cfg (st.subscopes target) (w3.modScope target fun x =>
                    { x with providers := (k0 :: ks).foldl (fun m k => aset m k (agetL m k ++ [w1.ctors.length])) (w3.scope target).providers }) with
                | mk r5 w5 =>
                  rw [hvs] at hw5 h
                  simp only at hw5
                  cases r5 with
                  | ok u => simp at h
                  | error ec =>
                    obtain ⟨sc, cr⟩ := ec
                    cases cr with
                    | cycle p => exact rollback_restores hw5
                    | acyclic => simp at h
                    | outOfRange => simp at h
                    | fuel => simp at h

theorem C06_decorate_unchanged (ctx : Ctx) (fn : Fn) (st : St) (i s : Nat) (cb info : Bool)
    (h : ¬ ((apiDecorate ctx fn st i s cb info).2.v matches .ok)) :
    (apiDecorate ctx fn st i s cb info).1 = st := C14.C14_rejected_decorate ctx fn st i s cb info h

theorem C06_no_execution (ctx : Ctx) (fns : List Fn) (st : St) (i : Nat) (op : Op) (h : op.isInvoke = false) :
    (step ctx fns st i op).2.ev = [] := step_passive ctx fns st i op h

/-- the container at the end of any history -/
private theorem reachable_vinv (p : Program) : VInv p.ctx.cfg (runProgram p).1 :=
  VInv.runOps p.ctx p.fns p.ops 0 {} [] (VInv.init _)

private theorem eqV0_of_left {a b : St} (h : EqButVerified { a with log := [] } b) : EqV0 a b :=
  eqV_resetLog (a := { a with log := [] }) h

theorem C06_rejected_provide_is_invisible (p : Program) (i s f : Nat) (o : ProvideOpts) (e : DErr)
    (hrej : (step p.ctx p.fns (runProgram p).1 i (.provide s f o)).2.v = .err e)
    (later : List Op) (j : Nat) (acc : List OpRes) :
    (runOps p.ctx p.fns later j (step p.ctx p.fns (runProgram p).1 i (.provide s f o)).1 acc).2 =
      (runOps p.ctx p.fns later j (runProgram p).1 acc).2 := by
  have hinv := reachable_vinv p
  generalize (runProgram p).1 = st at hinv hrej ⊢
  have hinv' := hinv.step p.fns i (.provide s f o)
  refine runOps_simV p.ctx p.fns later j st _ acc ?_ hinv hinv'
  simp only [step] at hrej ⊢
  cases hf : fnOf p.fns f with
  | none => exact eqV0_of_left (eqV_refl _)
  | some fn =>
    rw [hf] at hrej
    simp only at hrej ⊢
    split
    · rename_i hs
      rw [if_pos hs] at hrej
      exact eqV0_of_left (C06_provide_unchanged p.ctx fn _ i s o e (by simpa [RegRes.toOpRes] using hrej))
    · exact eqV0_of_left (eqV_refl _)

theorem C06_rejected_decorate_is_invisible (p : Program) (i s f : Nat) (cb info : Bool) (e : DErr)
    (hrej : (step p.ctx p.fns (runProgram p).1 i (.decorate s f cb info)).2.v = .err e)
    (later : List Op) (j : Nat) (acc : List OpRes) :
    (runOps p.ctx p.fns later j (step p.ctx p.fns (runProgram p).1 i (.decorate s f cb info)).1 acc).2 =
      (runOps p.ctx p.fns later j (runProgram p).1 acc).2 := by
  have hinv := reachable_vinv p
  generalize (runProgram p).1 = st at hinv hrej ⊢
  have hinv' := hinv.step p.fns i (.decorate s f cb info)
  refine runOps_simV p.ctx p.fns later j st _ acc ?_ hinv hinv'
  simp only [step] at hrej ⊢
  cases hf : fnOf p.fns f with
  | none => exact eqV0_of_left (eqV_refl _)
  | some fn =>
    rw [hf] at hrej
    simp only at hrej ⊢
    split
    · rename_i hs
      rw [if_pos hs] at hrej
      have hne : ¬ ((apiDecorate p.ctx fn { st with log := [] } i s cb info).2.v matches .ok) := by
        have : (apiDecorate p.ctx fn { st with log := [] } i s cb info).2.v = .err e := by simpa [RegRes.toOpRes] using hrej
        rw [this]; simp
      rw [C06_decorate_unchanged p.ctx fn _ i s cb info hne]
      exact eqV0_of_left (eqV_refl _)
    · exact eqV0_of_left (eqV_refl _)

/-- in every reachable container a scope flagged `isVerifiedAcyclic` has an acyclic graph, in both verification modes -/
theorem C06_flags_are_honest (p : Program) (s : Nat) (hv : ((runProgram p).1.scope s).verified = true) :
    checkAcyclic (runProgram p).1 s = .acyclic := verified_means_acyclic p s hv


/-- non-vacuity (a *test*, run by the evaluator at build time, not a theorem): a second Provide of the same key is rejected;
    the Invoke that follows answers exactly as the Invoke of the history without that call -/
def demoTypes : List TypeInfo :=
  [{ id := 0, kind := .iface, elem := none, impl := [], isErr := true }, { id := 10, kind := .ptr, elem := none, impl := [], isErr := false }]
def demoFns : List Fn :=
  [{ id := 1, name := "c", nonfunc := none, ins := [], variadic := false, outs := [.univ 10] },
   { id := 2, name := "d", nonfunc := none, ins := [], variadic := false, outs := [.univ 10] },
   { id := 3, name := "i", nonfunc := none, ins := [.univ 10], variadic := false, outs := [] }]
def demoWith : Program :=
  { cfg := {}, types := demoTypes, fns := demoFns, script := [],
    ops := [.provide 0 1 {}, .provide 0 2 {}, .invoke 0 3 false], sameIds := true }
def demoWithout : Program := { demoWith with ops := [.provide 0 1 {}, .invoke 0 3 false] }
#guard (match ((runProgram demoWith).2.map (fun r => r.v)) with | [Verdict.ok, Verdict.err _, Verdict.ok] => true | _ => false)
#guard ((runProgram demoWith).2.getLast?.map fun r => (r.v matches .ok, r.ev.length)) ==
       ((runProgram demoWithout).2.getLast?.map fun r => (r.v matches .ok, r.ev.length))

#print axioms C06_rejected_provide_is_invisible
#print axioms C06_rejected_decorate_is_invisible
#print axioms C06_flags_are_honest
#print axioms C06_provide_unchanged
#print axioms C06_decorate_unchanged
#print axioms C06_no_execution
end Dig.C06
