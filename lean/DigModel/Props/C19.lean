import DigModel.Dot
/-
  C19 — Visualize is a faithful, well-formed picture of the container (structure level).

  * `C19_can`: `CanVisualizeError` is true exactly when the error chain contains one of the three error kinds that
    carry graph information (`errParamSingleFailed`, `errParamGroupFailed`, `errMissingTypes`);
  * `C19_no_error_is_createGraph`: without `VisualizeError` the picture is `createGraph` — nothing is pruned or
    coloured; with an error that carries no information likewise (`C19_uninformative_error`);
  * `C19_addCtor_appends`: `AddCtor` appends exactly one constructor entry, alive and uncoloured, and leaves the
    entries of earlier constructors in place (one cluster per accepted constructor, in registration order);
  * `C19_missing_is_root`: the first failure recorded (the innermost of the chain) is the root cause; later ones
    are transitive: `failNode` appends to `rootCauses` iff none was recorded before.
  The emitted text (syntax, labels) and the whole structure including pruning are compared with the real
  Visualize output on every explored program by the K-dot correspondence.
-/
namespace Dig.C19

theorem C19_can (e : DErr) : e.canVisualize = true ↔ ∃ x ∈ e.chain, x.isVisualizer = true := by
  simp [DErr.canVisualize, List.any_eq_true]

theorem C19_no_error_is_createGraph (env : TyEnv) (ids : Bool) (st : St) :
    visualize env ids st none = createGraph env ids st := rfl

theorem C19_uninformative_error (env : TyEnv) (ids : Bool) (st : St) (e : DErr) (h : e.canVisualize = false) :
    visualize env ids st (some e) = createGraph env ids st := by
  simp only [visualize, DGraph.update]
  have : (e.chain.filter DErr.isVisualizer) = [] := by
    apply List.filter_eq_nil_iff.mpr
    intro x hx
    simp only [DErr.canVisualize, List.any_eq_false] at h
    simpa using h x hx
  simp [this]

private theorem getGroup_ctors (g : DGraph) (k : Nat × String) : (g.getGroup k).1.ctors = g.ctors := by
  unfold DGraph.getGroup
  split <;> rfl

private theorem addParams_ctors (env : TyEnv) : ∀ (ps : List (Nat × String × String × Bool)) (g : DGraph),
    (DGraph.addParams env g ps).1.ctors = g.ctors := by
  intro ps
  induction ps with
  | nil => intro g; rfl
  | cons p rest ih =>
    intro g
    obtain ⟨ty, name, group, opt⟩ := p
    simp only [DGraph.addParams]
    split
    · rw [← ih g]
    · rw [ih, getGroup_ctors]

private theorem addResults_ctors : ∀ (rs : List (Nat × String × String)) (g : DGraph),
    (DGraph.addResults g rs).1.ctors = g.ctors := by
  intro rs
  induction rs with
  | nil => intro g; rfl
  | cons r rest ih =>
    intro g
    obtain ⟨ty, name, group⟩ := r
    simp only [DGraph.addResults]
    split
    · rw [← ih g]
    · rw [ih]; exact getGroup_ctors g _

theorem C19_addCtor_appends (env : TyEnv) (g : DGraph) (id : Nat) (ps : List (Nat × String × String × Bool))
    (rs : List (Nat × String × String)) :
    ∃ c, (g.addCtor env id ps rs).ctors = g.ctors ++ [c] ∧ c.id = id ∧ c.alive = true ∧ c.err = .none := by
  unfold DGraph.addCtor
  have h1 := addParams_ctors env ps g
  cases hp : DGraph.addParams env g ps with
  | mk g1 r1 =>
    obtain ⟨params, gparams⟩ := r1
    rw [hp] at h1
    have h2 := addResults_ctors rs g1
    cases hr : DGraph.addResults g1 rs with
    | mk g2 results =>
      rw [hr] at h2
      simp only at h1 h2 ⊢
      refine ⟨{ id := id, params := params, gparams := gparams, results := results }, ?_, rfl, rfl, rfl⟩
      rw [hr]; simp only; rw [h2, h1]

theorem C19_first_failure_is_root (g : DGraph) (r : DResult) :
    (g.failNode r g.rootCauses.isEmpty).rootCauses = (if g.rootCauses.isEmpty then g.rootCauses ++ [r] else g.rootCauses) ∧
    (g.failNode r g.rootCauses.isEmpty).transitive = (if g.rootCauses.isEmpty then g.transitive else g.transitive ++ [r]) := by
  unfold DGraph.failNode
  cases g.rootCauses.isEmpty <;> simp

#print axioms C19_can
#print axioms C19_no_error_is_createGraph
#print axioms C19_uninformative_error
#print axioms C19_addCtor_appends
#print axioms C19_first_failure_is_root
end Dig.C19
