import DigModel.Proofs.DotTextProofs
import DigModel.Proofs.DotParseProofs
import DigModel.Dot
import DigModel.DotOut
/-
  C19 — Visualize is a faithful, well-formed picture of the container (structure level).

  * `C19_can`: `CanVisualizeError` is true exactly when the error chain contains one of the three error kinds that
    carry graph information (`errParamSingleFailed`, `errParamGroupFailed`, `errMissingTypes`);
  * `C19_no_error_is_createGraph`: without `VisualizeError` the picture is `createGraph` — nothing is pruned or
    coloured; with an error that carries no information likewise (`C19_uninformative_error`);
  * `C19_addCtor_appends`: `AddCtor` appends exactly one constructor entry, alive and uncoloured, and leaves the
    entries of earlier constructors in place (one cluster per accepted constructor, in registration order);
  * `C19_missing_is_root`: the first failure recorded (the innermost of the chain) is the root cause; later ones
    are transitive: `failNode` appends to `rootCauses` iff none was recorded before.
  * `C19_one_cluster_per_constructor`: the picture of a container (no error given) has exactly one cluster per entry
    of the scopes' `nodes` lists — the accepted constructors, root first, then each child scope, in registration
    order — and the cluster of constructor `n` carries `n`'s ID, one parameter entry per declared *single*
    dependency (type, name, optional flag preserved: a dashed edge iff optional) and one result node per declared
    result (parameter/result objects flattened, As expanded), every cluster alive and uncoloured.
  * **the text** (`DotSyntax.lean`: a lexer and a parser for the DOT language as far as dig uses it; `DotRender.lean`:
    the document `visualizeGraph` writes, item by item; `DotOut.lean`: the `String()` methods):
    `C19_text_lexes_into_its_tokens`, `C19_text_is_valid_dot` — for every picture, every type, name and group text and
    every quoting function that closes its strings, the text lexes (identifiers separated, quoted and HTML strings
    closed exactly where the writer closed them) and parses into exactly the statements the writer meant —,
    `C19_model_text_is_valid_dot` (for the model's own text, `strconv.Quote` on printable ASCII),
    `C19_one_subgraph_per_drawn_constructor`, `C19_edge_dashed_iff_optional`, `C19_group_node_links_each_member`.
  Value-group nodes and the whole structure including pruning are compared with the real Visualize output on every
  explored program by the K-dot correspondence; the text, read as a DOT document, by K-dottext.
-/
namespace Dig.C19

theorem C19_can (e : DErr) : e.canVisualize = true ↔ ∃ x ∈ e.chain, x.isVisualizer = true := by
  simp [DErr.canVisualize, List.any_eq_true]

theorem C19_no_error_is_createGraph (env : TyEnv) (ids : Bool) (st : St) :
    visualize env ids st none = createGraph env ids st := rfl

theorem C19_uninformative_error (env : TyEnv) (ids : Bool) (st : St) (e : DErr) (h : e.canVisualize = false) :
    visualize env ids st (some e) = createGraph env ids st := by
  simp only [visualize, DGraph.update]
  have : (e.chain.filter DErr.isVisualizer) = [] := by
    apply List.filter_eq_nil_iff.mpr
    intro x hx
    simp only [DErr.canVisualize, List.any_eq_false] at h
    simpa using h x hx
  simp [this]

private theorem getGroup_ctors (g : DGraph) (k : Nat × String) : (g.getGroup k).1.ctors = g.ctors := by
  unfold DGraph.getGroup
  split <;> rfl

private theorem addParams_ctors (env : TyEnv) : ∀ (ps : List (Nat × String × String × Bool)) (g : DGraph),
    (DGraph.addParams env g ps).1.ctors = g.ctors := by
  intro ps
  induction ps with
  | nil => intro g; rfl
  | cons p rest ih =>
    intro g
    obtain ⟨ty, name, group, opt⟩ := p
    simp only [DGraph.addParams]
    split
    · rw [← ih g]
    · rw [ih, getGroup_ctors]

private theorem addResults_ctors : ∀ (rs : List (Nat × String × String)) (g : DGraph),
    (DGraph.addResults g rs).1.ctors = g.ctors := by
  intro rs
  induction rs with
  | nil => intro g; rfl
  | cons r rest ih =>
    intro g
    obtain ⟨ty, name, group⟩ := r
    simp only [DGraph.addResults]
    split
    · rw [← ih g]
    · rw [ih]; exact getGroup_ctors g _

theorem C19_addCtor_appends (env : TyEnv) (g : DGraph) (id : Nat) (ps : List (Nat × String × String × Bool))
    (rs : List (Nat × String × String)) :
    ∃ c, (g.addCtor env id ps rs).ctors = g.ctors ++ [c] ∧ c.id = id ∧ c.alive = true ∧ c.err = .none := by
  unfold DGraph.addCtor
  have h1 := addParams_ctors env ps g
  cases hp : DGraph.addParams env g ps with
  | mk g1 r1 =>
    obtain ⟨params, gparams⟩ := r1
    rw [hp] at h1
    have h2 := addResults_ctors rs g1
    cases hr : DGraph.addResults g1 rs with
    | mk g2 results =>
      rw [hr] at h2
      simp only at h1 h2 ⊢
      refine ⟨{ id := id, params := params, gparams := gparams, results := results }, ?_, rfl, rfl, rfl⟩
      rw [hr]; simp only; rw [h2, h1]


/-! ### one cluster per accepted constructor -/

/-- the single (non-group) parameters of a flattened parameter list -/
def singleParams : List (Nat × String × String × Bool) → List DParam
  | [] => []
  | (ty, name, group, opt) :: rest =>
    if group == "" then { ty := ty, name := name, group := group, optional := opt } :: singleParams rest
    else singleParams rest

/-- what a cluster shows of its constructor -/
def ctorView (c : DCtor) : Nat × List DParam × List (Nat × String × String) × Bool × ErrT :=
  (c.id, c.params, c.results.map (fun r => (r.ty, r.name, r.group)), c.alive, c.err)

private theorem addParams_params (env : TyEnv) : ∀ (ps : List (Nat × String × String × Bool)) (g : DGraph),
    (DGraph.addParams env g ps).2.1 = singleParams ps := by
  intro ps
  induction ps with
  | nil => intro g; rfl
  | cons p rest ih =>
    intro g
    obtain ⟨ty, name, group, opt⟩ := p
    simp only [DGraph.addParams, singleParams]
    split
    · rw [← ih g]
    · rw [ih]

private theorem addResults_results : ∀ (rs : List (Nat × String × String)) (g : DGraph),
    (DGraph.addResults g rs).2.map (fun r => (r.ty, r.name, r.group)) = rs := by
  intro rs
  induction rs with
  | nil => intro g; rfl
  | cons r rest ih =>
    intro g
    obtain ⟨ty, name, group⟩ := r
    simp only [DGraph.addResults]
    split
    · simp only [List.map_cons]; rw [ih g]
    · simp only [List.map_cons]; rw [ih]

theorem addCtor_view (env : TyEnv) (g : DGraph) (id : Nat) (ps : List (Nat × String × String × Bool))
    (rs : List (Nat × String × String)) :
    (g.addCtor env id ps rs).ctors.map ctorView = g.ctors.map ctorView ++ [(id, singleParams ps, rs, true, ErrT.none)] := by
  unfold DGraph.addCtor
  have h1 := addParams_ctors env ps g
  have p1 := addParams_params env ps g
  cases hp : DGraph.addParams env g ps with
  | mk g1 r1 =>
    obtain ⟨params, gparams⟩ := r1
    rw [hp] at h1 p1
    have h2 := addResults_ctors rs g1
    have p2 := addResults_results rs g1
    cases hr : DGraph.addResults g1 rs with
    | mk g2 results =>
      rw [hr] at h2 p2
      simp only at h1 h2 p1 p2 ⊢
      rw [hr]
      simp only
      rw [h2, h1, List.map_append]
      simp [ctorView, p1, p2]

/-- the constructors `Visualize` walks over: the scope's accepted constructors, then its children's -/
def preorderNodes (st : St) : Nat → Nat → List Nat
  | 0, _ => []
  | fuel + 1, s => (st.scope s).nodes ++ (st.scope s).children.flatMap (preorderNodes st fuel)

def clusterOf (ids : Bool) (st : St) (n : Nat) : Nat × List DParam × List (Nat × String × String) × Bool × ErrT :=
  (ctorId ids (st.ctor n).fn, singleParams (dotParams (st.ctor n).params), dotSlots (st.ctor n).results, true, ErrT.none)

private theorem fold_addCtor_view (env : TyEnv) (ids : Bool) (st : St) : ∀ (ns : List Nat) (g : DGraph),
    (ns.foldl (fun g n => g.addCtor env (ctorId ids (st.ctor n).fn) (dotParams (st.ctor n).params) (dotSlots (st.ctor n).results)) g).ctors.map ctorView =
      g.ctors.map ctorView ++ ns.map (clusterOf ids st) := by
  intro ns
  induction ns with
  | nil => intro g; simp
  | cons n rest ih =>
    intro g
    simp only [List.foldl_cons, List.map_cons]
    rw [ih, addCtor_view]
    simp [clusterOf, List.append_assoc]

theorem addNodesAux_view (env : TyEnv) (ids : Bool) (st : St) : ∀ (fuel s : Nat) (g : DGraph),
    (addNodesAux env ids st fuel s g).ctors.map ctorView = g.ctors.map ctorView ++ (preorderNodes st fuel s).map (clusterOf ids st) := by
  intro fuel
  induction fuel with
  | zero => intro s g; simp [addNodesAux, preorderNodes]
  | succ fuel ih =>
    intro s g
    simp only [addNodesAux, preorderNodes]
    have hkids : ∀ (cs : List Nat) (g : DGraph),
        (cs.foldl (fun g c => addNodesAux env ids st fuel c g) g).ctors.map ctorView =
          g.ctors.map ctorView ++ (cs.flatMap (preorderNodes st fuel)).map (clusterOf ids st) := by
      intro cs
      induction cs with
      | nil => intro g; simp
      | cons c rest ihc =>
        intro g
        simp only [List.foldl_cons, List.flatMap_cons, List.map_append]
        rw [ihc, ih]
        simp [List.append_assoc]
    rw [hkids, fold_addCtor_view]
    simp [List.append_assoc]

theorem C19_one_cluster_per_constructor (env : TyEnv) (ids : Bool) (st : St) :
    (visualize env ids st none).ctors.map ctorView = (preorderNodes st st.scopes.length 0).map (clusterOf ids st) := by
  show (createGraph env ids st).ctors.map ctorView = _
  unfold createGraph
  rw [addNodesAux_view]
  simp

theorem C19_first_failure_is_root (g : DGraph) (r : DResult) :
    (g.failNode r g.rootCauses.isEmpty).rootCauses = (if g.rootCauses.isEmpty then g.rootCauses ++ [r] else g.rootCauses) ∧
    (g.failNode r g.rootCauses.isEmpty).transitive = (if g.rootCauses.isEmpty then g.transitive else g.transitive ++ [r]) := by
  unfold DGraph.failNode
  cases g.rootCauses.isEmpty <;> simp


/-! ### the text of node labels, for every string -/

private theorem pfx_plain : ('<' ∉ "Name: ".toList ∧ '>' ∉ "Name: ".toList) := by decide
private theorem gpfx_plain : ('<' ∉ "Group: ".toList ∧ '>' ∉ "Group: ".toList) := by decide

open Dig.DotText in
/-- **a result node's label is one well-formed HTML string, whatever the type, the name and the group are**: the
    attribute text `(*Result).Attributes` composes is `label=<body>`, and the DOT lexer, started behind the opening `<`,
    reads exactly `body` and stops at the closing `>` — no character of a type such as `<-chan int` or of a name such as
    `a<b` can end the string early or keep it open (defect F18 was exactly that) -/
theorem C19_result_label_is_one_html_string (t name group rest : List Char) :
    ∃ body, resultAttr t name group = "label=<".toList ++ body ++ ">".toList ∧
      scan 1 [] (body ++ '>' :: rest) = some (body, rest) := by
  unfold resultAttr
  by_cases hn : name ≠ []
  · rw [if_pos hn]
    exact ⟨_, rfl, scan_labelBody t _ (fun p hp => by cases hp; exact pfx_plain) rest⟩
  · rw [if_neg hn]
    by_cases hg : group ≠ []
    · rw [if_pos hg]
      exact ⟨_, rfl, scan_labelBody t _ (fun p hp => by cases hp; exact gpfx_plain) rest⟩
    · rw [if_neg hg]
      exact ⟨_, rfl, scan_labelBody t none (fun p hp => by cases hp) rest⟩

open Dig.DotText in
/-- the same for the diamond of a value group, with or without the colour of a failure -/
theorem C19_group_label_is_one_html_string (t name : List Char) (err : Nat) (rest : List Char) :
    ∃ body tail, groupAttr t name err = "shape=diamond label=<".toList ++ body ++ ">".toList ++ tail ∧
      scan 1 [] (body ++ '>' :: rest) = some (body, rest) ∧
      (tail = [] ∨ tail = " color=red".toList ∨ tail = " color=orange".toList) := by
  unfold groupAttr
  refine ⟨_, _, rfl, scan_labelBody t _ (fun p hp => by cases hp; exact gpfx_plain) rest, ?_⟩
  match err with
  | 0 => exact Or.inl rfl
  | 1 => exact Or.inr (Or.inl rfl)
  | _ + 2 => exact Or.inr (Or.inr rfl)

open Dig.DotText in
/-- **what a label displays is what was declared**: escaped text has no raw angle bracket, every ampersand in it starts a
    character reference, and decoding the references gives back the type / name / group — for every string -/
theorem C19_label_text_roundtrip (s : List Char) :
    '<' ∉ esc s ∧ '>' ∉ esc s ∧ refsOK (esc s) = true ∧ unesc (esc s) = s :=
  ⟨(esc_noAngle s).1, (esc_noAngle s).2, refsOK_esc s, unesc_esc s⟩

/-- non-vacuity (tests): the label of a value named `a<b` of type `<-chan int` -/
example : String.ofList (Dig.DotText.resultAttr "<-chan int".toList "a<b".toList []) =
    "label=<&lt;-chan int<BR /><FONT POINT-SIZE=\"10\">Name: a&lt;b</FONT>>" := by decide
example : Dig.DotText.scan 1 [] "<-chan int>".toList = none := by decide     -- the unescaped text never closes


/-! ### the text -/

open Dig.DotRender Dig.DotSyntax in
/-- the text lexes into exactly the tokens it was written from: no identifier runs into the next, every quoted string
    and every HTML label ends where the writer ended it -/
theorem C19_text_lexes_into_its_tokens (q : List Char → List Char) (hq : ∀ s, QClosed (q s)) (g : RGraph) :
    lexDot (render q g) = some (toks (graphItems q g)) := lex_render q hq g

open Dig.DotRender Dig.DotSyntax in
/-- **Visualize emits syntactically valid DOT**, and the statements are the ones the writer meant (`graphAst`): the two
    settings, one diamond node per value group with an edge to each member, one `subgraph cluster_i` per constructor
    holding its label, its own node, its colour when it failed and one labelled node per result, one edge per parameter
    (with `style=dashed` exactly when optional) and per value-group parameter, one coloured node per failed result -/
theorem C19_text_is_valid_dot (q : List Char → List Char) (hq : ∀ s, QClosed (q s)) (g : RGraph) :
    (lexDot (render q g)).bind parseDot = some (graphAst q g) := by
  rw [lex_render q hq g]
  exact parse_render q g

open Dig.DotRender Dig.DotSyntax in
/-- the same for the text the model writes for a picture `g` of Dot.lean (names of types and constructors given) -/
theorem C19_model_text_is_valid_dot (n : DotNames) (g : DGraph) :
    (lexDot (dotText n g).toList).bind parseDot = some (graphAst goQuote (toRGraph n g)) := by
  unfold dotText
  rw [String.toList_ofList]
  exact C19_text_is_valid_dot goQuote goQuote_closed _

open Dig.DotRender Dig.DotSyntax in
def isSubgraph : Stmt → Bool
  | .subgraph _ _ => true
  | _ => false

open Dig.DotRender Dig.DotSyntax in
private theorem count_ctorsAst (q : List Char → List Char) : ∀ (cs : List RCtor) (i : Nat),
    ((ctorsAst q i cs).filter isSubgraph).length = cs.length
  | [], _ => rfl
  | c :: rest, i => by
    simp only [ctorsAst, ctorAst, List.filter_append, List.length_append, List.filter_cons, isSubgraph, if_true, List.length_cons,
      count_ctorsAst q rest (i+1)]
    have h1 : ∀ (l : List RParam), ((l.map (paramAst q i)).filter isSubgraph).length = 0 := by
      intro l; induction l with
      | nil => rfl
      | cons p r ih => simp [paramAst, isSubgraph]
    have h2 : ∀ (l : List (List Char)), ((l.map (gparamAst q i)).filter isSubgraph).length = 0 := by
      intro l; induction l with
      | nil => rfl
      | cons p r ih => simp [gparamAst, isSubgraph]
    rw [h1, h2]; omega

open Dig.DotRender Dig.DotSyntax in
/-- exactly one `subgraph` statement per constructor of the picture -/
theorem C19_one_subgraph_per_drawn_constructor (q : List Char → List Char) (g : RGraph) :
    ((graphAst q g).filter isSubgraph).length = g.ctors.length := by
  unfold graphAst
  simp only [List.filter_append, List.length_append, count_ctorsAst]
  have h1 : ∀ (l : List RGroup), ((l.flatMap (groupAst q)).filter isSubgraph).length = 0 := by
    intro l; induction l with
    | nil => rfl
    | cons x r ih =>
      rw [List.flatMap_cons, List.filter_append, List.length_append, ih]
      simp [groupAst, isSubgraph]
  have h2 : ∀ (c : String) (l : List (List Char)), ((l.map (failedAst q c)).filter isSubgraph).length = 0 := by
    intro c l; induction l with
    | nil => rfl
    | cons x r ih => simp [failedAst, isSubgraph]
  rw [h1, h2, h2]
  simp [isSubgraph]

private theorem indexed_snd {α : Type} : ∀ (l : List α) (i : Nat), (indexed i l).map (·.2) = l
  | [], _ => rfl
  | x :: rest, i => by simp [indexed, indexed_snd rest (i + 1)]

open Dig.DotRender Dig.DotSyntax in
/-- **exactly one cluster per accepted constructor**: the text `Visualize` writes for a container (no error given) parses
    into as many `subgraph` statements as the scopes' lists of accepted constructors have entries — root first, then
    each child scope — whatever the names are -/
theorem C19_text_has_one_cluster_per_accepted_constructor (env : TyEnv) (ids : Bool) (st : St) (n : DotNames) :
    (lexDot (dotText n (visualize env ids st none)).toList).bind parseDot =
      some (graphAst goQuote (toRGraph n (visualize env ids st none))) ∧
    ((graphAst goQuote (toRGraph n (visualize env ids st none))).filter isSubgraph).length =
      (preorderNodes st st.scopes.length 0).length := by
  refine ⟨C19_model_text_is_valid_dot n _, ?_⟩
  rw [C19_one_subgraph_per_drawn_constructor]
  have hview := C19_one_cluster_per_constructor env ids st
  generalize visualize env ids st none = g at hview
  have halive : ∀ c ∈ g.ctors, c.alive = true := by
    intro c hc
    have : ctorView c ∈ (preorderNodes st st.scopes.length 0).map (clusterOf ids st) := by
      rw [← hview]; exact List.mem_map_of_mem hc
    obtain ⟨m, _, hm⟩ := List.mem_map.mp this
    have h4 : (ctorView c).2.2.2.1 = (clusterOf ids st m).2.2.2.1 := by rw [hm]
    exact h4
  have hlen : g.ctors.length = (preorderNodes st st.scopes.length 0).length := by
    have := congrArg List.length hview
    simpa using this
  unfold toRGraph
  simp only [List.length_map]
  have hf : (indexed 0 g.ctors).filter (fun ic => ic.2.alive) = indexed 0 g.ctors := by
    apply List.filter_eq_self.mpr
    intro ic hic
    have : ic.2 ∈ g.ctors := by
      have := List.mem_map_of_mem (f := fun (p : Nat × DCtor) => p.2) hic
      rwa [indexed_snd] at this
    exact halive ic.2 this
  rw [hf, ← hlen]
  have := congrArg List.length (indexed_snd g.ctors 0)
  simpa using this

open Dig.DotRender Dig.DotSyntax in
/-- the edge of a parameter carries `style=dashed` exactly when the parameter is optional -/
theorem C19_edge_dashed_iff_optional (q : List Char → List Char) (i : Nat) (p : RParam) :
    paramAst q i p = .edge (ctorTok i) (.quoted (q p.str))
      (if p.optional then [A "ltail" (clusterTok i), A "style" (.bare "dashed".toList)] else [A "ltail" (clusterTok i)]) := by
  unfold paramAst
  cases p.optional <;> rfl

open Dig.DotRender Dig.DotSyntax in
/-- a value group is one node followed by one edge to each of its members -/
theorem C19_group_node_links_each_member (q : List Char → List Char) (g : RGroup) :
    (groupAst q g).tail = g.results.map (fun r => Stmt.edge (.quoted (q g.str)) (.quoted (q r)) []) := rfl

-- non-vacuity (a *test*, run by the evaluator at build time): a small picture is written, read back and parsed
#guard ((Dig.DotSyntax.lexDot (dotText { types := [(10, "*pool.T0")], ctors := [("f", "p")] }
    { ctors := [{ id := 1, results := [{ ty := 10, name := "a\"b", group := "" }] }] }).toList).bind Dig.DotSyntax.parseDot).isSome

-- the grammar is not vacuous (*tests*): an unclosed string, an unclosed label, a missing brace, a dangling arrow and an
-- attribute without a value are rejected
#guard (Dig.DotSyntax.lexDot "digraph { \"a [color=red]; }".toList).isNone
#guard (Dig.DotSyntax.lexDot "digraph { a [label=<b<i>]; }".toList).isNone
#guard ((Dig.DotSyntax.lexDot "digraph { a -> b; ".toList).bind Dig.DotSyntax.parseDot).isNone
#guard ((Dig.DotSyntax.lexDot "digraph { a -> ; }".toList).bind Dig.DotSyntax.parseDot).isNone
#guard ((Dig.DotSyntax.lexDot "digraph { a [color]; }".toList).bind Dig.DotSyntax.parseDot).isNone
#guard ((Dig.DotSyntax.lexDot "digraph { subgraph cluster_0 { a; } b -> a [style=dashed]; }".toList).bind Dig.DotSyntax.parseDot).isSome

#print axioms C19_result_label_is_one_html_string
#print axioms C19_text_lexes_into_its_tokens
#print axioms C19_text_is_valid_dot
#print axioms C19_model_text_is_valid_dot
#print axioms C19_one_subgraph_per_drawn_constructor
#print axioms C19_text_has_one_cluster_per_accepted_constructor
#print axioms C19_edge_dashed_iff_optional
#print axioms C19_group_node_links_each_member
#print axioms C19_group_label_is_one_html_string
#print axioms C19_label_text_roundtrip
#print axioms C19_can
#print axioms addCtor_view
#print axioms addNodesAux_view
#print axioms C19_one_cluster_per_constructor
#print axioms C19_no_error_is_createGraph
#print axioms C19_uninformative_error
#print axioms C19_addCtor_appends
#print axioms C19_first_failure_is_root
end Dig.C19
