import DigModel.Proofs.ApiLemmas
import DigModel.Proofs.RootCauseProgram
/-
  C13 — Errors are transparent and classifiable.

  Statements about every error value the model can build (`DErr`: one constructor per dig wrapper,
  `user f x` = the error value returned by execution `x` of function `f`, `panicErr f x` =
  `PanicError` holding that execution's panic value; after the repair of F10 dig wraps no error of
  a foreign package, hence the type has no such leaf):

  * `C13_root_is_leaf`, `C13_user_identity`: `RootCause` of any chain is its innermost element; a user
    error is recovered by identity through `RootCause` and `errors.Is`, at any depth of wrapping;
  * `C13_dig`: a failure whose innermost element is a dig error satisfies `errors.As(dig.Error)` after RootCause;
  * `C13_panic_root`: a recovered panic is the root cause and is not a dig.Error;
  * `C13_cycle_iff`: `IsCycleDetected` ⇔ the chain contains an `errCycleDetected`;
  * `C13_ctor_*`, `C13_deco_*`: what a failing constructor / decorator hands to its caller (with and
    without RecoverFromPanics);
  * `C13_wrap_*`: every wrapper the resolver adds leaves RootCause, errors.Is and IsCycleDetected unchanged.
  * **whole programs** (`C13_transparent`, from `engine_root`: an induction over the six resolver functions with the
    log-extension predicate `Good`, valid from *any* state, then through Invoke, every other operation — whose
    errors come from the parsers and validators only, `ParsePure` — and every history): for every operation,
      - verdict `ok`: no constructor or decorator execution among its events failed;
      - verdict `err e` with `RootCause e` = the error of execution `x` of `f`: that execution is among the events,
        it is the *only* failing execution there, only callback events follow it, and the script says it fails;
        the same with RecoverFromPanics for `PanicError`; otherwise the root cause is dig's own and nothing failed;
      - a panic that propagates is that of the only failing execution, and RecoverFromPanics is off.
    `C13_nothing_swallowed` is the converse reading (`Reported`): every failing constructor/decorator execution
    among the events of an operation is *the* failure the operation reports, and there is no second one.
    `C13_resolver_errors` : the resolution stage itself only ever fails with "missing type" or "cycle".
  That the real library builds exactly these chains is the K-error correspondence (chains of `%T`s,
  RootCause, errors.Is, IsCycleDetected, CanVisualizeError compared on every explored program).
-/
namespace Dig.C13
open DErr

/-- innermost element of the chain -/
def leaf : DErr → DErr
  | invalid c => leaf c
  | provide r => leaf r
  | ctorFailed r => leaf r
  | argsFailed r => leaf r
  | missingDeps r => leaf r
  | paramSingle _ _ r => leaf r
  | paramGroup _ _ r => leaf r
  | e => e

private theorem leaf_mem_chain (e : DErr) : leaf e ∈ chain e := by
  induction e <;> simp_all [leaf, chain]

private theorem leaf_is_last (e : DErr) : (chain e).getLast? = some (leaf e) := by
  induction e with
  | invalid c ih => simp only [chain, leaf]; rw [List.getLast?_cons, ih]; rfl
  | provide c ih => simp only [chain, leaf]; rw [List.getLast?_cons, ih]; rfl
  | ctorFailed c ih => simp only [chain, leaf]; rw [List.getLast?_cons, ih]; rfl
  | argsFailed c ih => simp only [chain, leaf]; rw [List.getLast?_cons, ih]; rfl
  | missingDeps c ih => simp only [chain, leaf]; rw [List.getLast?_cons, ih]; rfl
  | paramSingle k n c ih => simp only [chain, leaf]; rw [List.getLast?_cons, ih]; rfl
  | paramGroup k n c ih => simp only [chain, leaf]; rw [List.getLast?_cons, ih]; rfl
  | _ => simp [chain, leaf]

theorem C13_root_is_leaf (e : DErr) : rootCause e = leaf e := by
  induction e <;> simp_all [rootCause, leaf]

theorem C13_errorsIs_root (e : DErr) : errorsIs e (rootCause e) = true := by
  rw [C13_root_is_leaf]
  simp only [errorsIs, List.contains_iff_mem]
  exact leaf_mem_chain e

/-- an error returned by a constructor or decorator, wrapped any number of times, is recoverable by identity -/
theorem C13_user_identity (e : DErr) (f x : Nat) (h : leaf e = user f x) :
    rootCause e = user f x ∧ errorsIs e (user f x) = true := by
  refine ⟨by rw [C13_root_is_leaf, h], ?_⟩
  have := C13_errorsIs_root e
  rwa [C13_root_is_leaf, h] at this

/-- failures originating in dig satisfy errors.As(dig.Error) after RootCause -/
theorem C13_dig (e : DErr) (h : isDigHere (leaf e) = true) : isDigHere (rootCause e) = true := by
  rw [C13_root_is_leaf]; exact h

/-- a recovered panic surfaces as PanicError as root cause, which is not a dig.Error -/
theorem C13_panic_root (e : DErr) (f x : Nat) (h : leaf e = panicErr f x) :
    rootCause e = panicErr f x ∧ isDigHere (rootCause e) = false := by
  rw [C13_root_is_leaf, h]; exact ⟨rfl, rfl⟩

theorem C13_cycle_iff (e : DErr) : isCycleDetected e = true ↔ ∃ p s, cycle p s ∈ chain e := by
  simp only [isCycleDetected, List.any_eq_true]
  constructor
  · rintro ⟨x, hx, h⟩
    cases x <;> simp at h
    exact ⟨_, _, hx⟩
  · rintro ⟨p, s, h⟩
    exact ⟨_, h, rfl⟩

/-- the wrappers added on the way up keep the root cause, errors.Is on it, and IsCycleDetected -/
theorem C13_wrap_argsFailed (e : DErr) :
    rootCause (argsFailed e) = rootCause e ∧ isCycleDetected (argsFailed e) = isCycleDetected e := by
  simp [rootCause, isCycleDetected, chain]
theorem C13_wrap_paramSingle (k : Key) (n : Nat) (e : DErr) :
    rootCause (paramSingle k n e) = rootCause e ∧ isCycleDetected (paramSingle k n e) = isCycleDetected e := by
  simp [rootCause, isCycleDetected, chain]
theorem C13_wrap_paramGroup (k : Key) (n : Nat) (e : DErr) :
    rootCause (paramGroup k n e) = rootCause e ∧ isCycleDetected (paramGroup k n e) = isCycleDetected e := by
  simp [rootCause, isCycleDetected, chain]
theorem C13_wrap_ctorFailed (e : DErr) :
    rootCause (ctorFailed e) = rootCause e ∧ isCycleDetected (ctorFailed e) = isCycleDetected e := by
  simp [rootCause, isCycleDetected, chain]
theorem C13_wrap_provide (e : DErr) :
    rootCause (provide e) = rootCause e ∧ isCycleDetected (provide e) = isCycleDetected e := by
  simp [rootCause, isCycleDetected, chain]

/-- what a constructor whose function fails hands to its caller -/
theorem C13_ctor_outcome (ctx : Ctx) (hnd : ctx.cfg.dry = false) (n : Nat) (node : CtorNode) (args : List Val) (st : St) :
    let x := st.execCount node.fn.id
    let b := ctx.beh node.fn.id x
    (b.k = .panic → ctx.cfg.recover = true → (ctorTail ctx n node args st).1 = .error (.err (.panicErr node.fn.id x))) ∧
    (b.k = .panic → ctx.cfg.recover = false → (ctorTail ctx n node args st).1 = .error (.panic node.fn.id x)) ∧
    (b.k = .err → (errOuts ctx.env node.fn).isEmpty = false →
        (ctorTail ctx n node args st).1 = .error (.err (.ctorFailed (.user node.fn.id x)))) := by
  refine ⟨?_, ?_, ?_⟩
  · intro hk hr; simp [ctorTail, ctorOutcome, callBody, hnd, hk, hr]
  · intro hk hr; simp [ctorTail, ctorOutcome, callBody, hnd, hk, hr]
  · intro hk he; simp [ctorTail, ctorOutcome, callBody, hnd, hk, he]

theorem C13_deco_outcome (ctx : Ctx) (hnd : ctx.cfg.dry = false) (d : Nat) (node : DecoNode) (args : List Val) (st : St) :
    let x := st.execCount node.fn.id
    let b := ctx.beh node.fn.id x
    (b.k = .panic → ctx.cfg.recover = true → (decoTail ctx d node args st).1 = .error (.err (.panicErr node.fn.id x))) ∧
    (b.k = .panic → ctx.cfg.recover = false → (decoTail ctx d node args st).1 = .error (.panic node.fn.id x)) ∧
    (b.k = .err → (errOuts ctx.env node.fn).isEmpty = false →
        (decoTail ctx d node args st).1 = .error (.err (.user node.fn.id x))) := by
  refine ⟨?_, ?_, ?_⟩
  · intro hk hr; simp [decoTail, decoOutcome, callBody, hnd, hk, hr]
  · intro hk hr; simp [decoTail, decoOutcome, callBody, hnd, hk, hr]
  · intro hk he; simp [decoTail, decoOutcome, callBody, hnd, hk, he]

/-- non-vacuity (test): a user error four wrappers deep -/
example : rootCause (argsFailed (paramSingle ⟨10, "", ""⟩ 3 (argsFailed (paramGroup ⟨11, "", "g"⟩ 2 (ctorFailed (user 7 1)))))) = user 7 1 := rfl

theorem C13_transparent (p : Program) : ∀ r ∈ (runProgram p).2, InvGood p.ctx r.ev r.v := program_invGood p

theorem C13_nothing_swallowed (p : Program) : ∀ r ∈ (runProgram p).2, r.v ≠ .panicDig → r.v ≠ .fuel → Reported p.ctx r :=
  runOps_reported p.ctx p.fns p.ops

theorem C13_resolver_errors (ctx : Ctx) (fn : Fn) (params : List Param) (s : Nat) (info : Bool) (w : St) (e : DErr)
    (h : (invokeRun ctx fn params s info w).2.v = .err e) :
    EngRoot e ∨ ∃ f x, (e.rootCause = .user f x ∧ (ctx.beh f x).k = .err) ∨ (e.rootCause = .panicErr f x ∧ (ctx.beh f x).k = .panic) :=
  invokeRun_engRoot ctx fn params s info w e h

/-- non-vacuity (a *test*, run by the evaluator at build time, not a theorem): a constructor scripted to fail is provided
    and demanded; the Invoke's verdict has that execution's error as root cause and its events hold the failing exit -/
def demoTypes : List TypeInfo :=
  [{ id := 0, kind := .iface, elem := none, impl := [], isErr := true }, { id := 10, kind := .ptr, elem := none, impl := [], isErr := false }]
def demoProgram : Program :=
  { cfg := {}, types := demoTypes,
    fns := [{ id := 1, name := "c", nonfunc := none, ins := [], variadic := false, outs := [.univ 10, .univ 0] },
            { id := 2, name := "i", nonfunc := none, ins := [.univ 10], variadic := false, outs := [] }],
    script := [(1, [{ k := .err }])], ops := [.provide 0 1 {}, .invoke 0 2 false], sameIds := true }
#guard ((runProgram demoProgram).2.map fun r =>
    match r.v with
    | .err e => (match e.rootCause with | .user f x => f == 1 && x == 0 | _ => false) && r.ev.any Event.isFail
    | _ => false) == [false, true]

#print axioms C13_transparent
#print axioms C13_nothing_swallowed
#print axioms C13_resolver_errors
#print axioms C13_root_is_leaf
#print axioms C13_errorsIs_root
#print axioms C13_user_identity
#print axioms C13_dig
#print axioms C13_panic_root
#print axioms C13_cycle_iff
#print axioms C13_wrap_argsFailed
#print axioms C13_wrap_paramSingle
#print axioms C13_wrap_paramGroup
#print axioms C13_wrap_ctorFailed
#print axioms C13_wrap_provide
#print axioms C13_ctor_outcome
#print axioms C13_deco_outcome
end Dig.C13
