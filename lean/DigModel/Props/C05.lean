import DigModel.Proofs.DfsTotal
import DigModel.Proofs.Termination
import DigModel.Proofs.Views
import DigModel.Proofs.GhBoundApi
/-
  C05 — Cycle safety, graph part (internal/graph/graph.go, full strength, any graph size):

  * `C05_dfs_sound`    : `isAcyclic` answers ok  ⇒ the graph has no closed walk;
  * `C05_path`         : `isAcyclic` answers `cycle p` ⇒ `p` is a real closed walk (length ≥ 2, first = last, consecutive nodes are edges);
  * `C05_dfs_total`    : with successors in range and fuel `n+1` the search never runs out of fuel;
  * `C05_dfs_complete` : a closed walk among the nodes `< n` exists ⇒ the answer is a cycle.

  Resolver part (constructor.go / decorate.go / param.go, any registry — cyclic or not —, any history):

  * `C05_resolver_terminates` : a `Call` of a constructor never exhausts a recursion budget of
    `k·(D+3)+1`, where `k` bounds the number of idle nodes (neither built nor being built) and `D` the depth of
    parameter objects: a node that is being built is marked and is never entered again, so a dependency
    cycle that the graph check did not see ends in a cycle error (`C20_onstack`) instead of unbounded recursion;
  * `C05_invoke_total` : in every program no operation runs out of the budget `apiInvoke` hands out
    (the model's `fuel` answer is unreachable: its verdicts are those of a terminating computation).

  Container part (provide.go / invoke.go; the graph of scope `sc` is `edgesFrom st sc` over the holder
  `(st.scope sc).gh`, i.e. exactly what `graphHolder.EdgesFrom` answers):

  * `C05_provide_accepted_views_acyclic` : without DeferAcyclicVerification, after an accepted Provide the graph
    of the target scope and of every descendant scope — with the new constructor in place — has no closed
    walk (the DFS answered "ok" on the graph of the *final* container, since the later steps of the call touch
    flags and `nodes` only; with `C05_dfs_sound` this is acyclicity);
  * `C05_provide_cycle_is_real` : a Provide rejected with a cycle error reports the constructor projection of a
    *real* closed walk of some affected scope's graph, as that graph stood with the new constructor in place
    (no false positive: if every affected view is acyclic there is no such walk);
  * `C05_invoke_cycle_is_real` : likewise for the check made by Invoke on a scope that is not verified yet;
  * `C05_invoke_runs_only_on_acyclic_view` : an Invoke that gets as far as resolving anything works on a scope whose
    graph has no closed walk.
  That the holder graph coincides with the declarative view graph (orders = positions, `GhInv`) is not proved;
  it is carried by the correspondence check (cycle-heavy profile, K-graph), see DESIGN.md §7 C05.
-/
namespace Dig.C05
open Dfs

/-- a walk `a :: l` (consecutive nodes are edges, all nodes `< n`) of an accepted graph never returns to its start -/
theorem C05_dfs_sound (g : Nat → List Nat) (n : Nat) (vis : List Nat) (h : isAcyclic g n = .ok vis)
    (a : Nat) (l : List Nat) (hl : l ≠ []) (hn : ∀ x ∈ a :: l, x < n) (hw : IsWalk g (a :: l)) :
    (a :: l).getLast (by simp) ≠ a :=
  isAcyclic_sound g n vis h a l hl hn hw

theorem C05_path (g : Nat → List Nat) (n : Nat) (p : List Nat) (h : isAcyclic g n = .cycle p) :
    IsClosedWalk g p := isAcyclic_cycle g n p h

theorem C05_dfs_total (g : Nat → List Nat) (n : Nat) (hg : ∀ x, x < n → ∀ y ∈ g x, y < n) :
    isAcyclic g n ≠ .oof := isAcyclic_total g n hg

theorem C05_dfs_complete (g : Nat → List Nat) (n : Nat) (hg : ∀ x, x < n → ∀ y ∈ g x, y < n)
    (a : Nat) (l : List Nat) (hl : l ≠ []) (hn : ∀ x ∈ a :: l, x < n) (hw : IsWalk g (a :: l))
    (hclosed : (a :: l).getLast (by simp) = a) : ∃ p, isAcyclic g n = .cycle p ∧ IsClosedWalk g p :=
  isAcyclic_complete g n hg a l hl hn hw hclosed

theorem C05_resolver_terminates (ctx : Ctx) (L L' D k fuel n c : Nat) (st : St) (hn : n < L)
    (hreg : ValidReg st) (hL : st.ctors.length = L) (hL' : st.decos.length = L')
    (hD : (∀ m, pdepthL (st.ctor m).params ≤ D) ∧ (∀ d, pdepthL (st.deco d).params ≤ D))
    (hk : idle L L' st ≤ k) (hfuel : k * (D + 3) + 1 ≤ fuel) :
    (callCtor ctx fuel n c st).1 ≠ .error .fuel :=
  (engine_nofuel ctx L L' D fuel).1 n c k st hn ⟨⟨hreg, hL, hL'⟩, hD.1, hD.2, hk⟩ hfuel

theorem C05_invoke_total (p : Program) : ∀ r ∈ (runProgram p).2, r.v ≠ .fuel :=
  runOps_nofuel p.ctx p.fns p.ops 0 {} [] HInv.init (fun _ h => by cases h)


/-- the verification loop of an accepted Provide: every affected scope's graph, in the final container, passes the DFS -/
theorem C05_verified_scopes_acyclic (cfg : Cfg) (hd : cfg.deferAcyclic = false) (l : List Nat) (w : St)
    (hok : (verifyScopes cfg l w).1 = .ok ()) (sc : Nat) (hsc : sc ∈ l) :
    ∃ vis, isAcyclic (edgesFrom (verifyScopes cfg l w).2 sc) ((verifyScopes cfg l w).2.scope sc).gh.length = .ok vis :=
  checkAcyclic_acyclic _ sc (verifyScopes_ok_acyclic cfg hd l w hok sc hsc)

/-- ... and therefore has no closed walk -/
theorem C05_provide_accepted_views_acyclic (cfg : Cfg) (hd : cfg.deferAcyclic = false) (l : List Nat) (w : St)
    (hok : (verifyScopes cfg l w).1 = .ok ()) (sc : Nat) (hsc : sc ∈ l)
    (a : Nat) (p : List Nat) (hp : p ≠ []) (hn : ∀ x ∈ a :: p, x < ((verifyScopes cfg l w).2.scope sc).gh.length)
    (hw : IsWalk (edgesFrom (verifyScopes cfg l w).2 sc) (a :: p)) : (a :: p).getLast (by simp) ≠ a := by
  obtain ⟨vis, hv⟩ := C05_verified_scopes_acyclic cfg hd l w hok sc hsc
  exact isAcyclic_sound _ _ vis hv a p hp hn hw

/-- the final container of an accepted Provide has the same graphs as the one the loop ended with: the last step
    only appends to `nodes` -/
theorem C05_accept_step_keeps_graphs (w : St) (target n : Nat) :
    GraphSame w (w.modScope target fun x => { x with nodes := x.nodes ++ [n] }) :=
  graphSame_modScope w target _ (fun _ => ⟨rfl, rfl, rfl⟩)

/-- a rejection by the verification loop: the scope named is one of the affected scopes and the path is a real
    closed walk of its graph (with the new constructor in place) -/
theorem C05_provide_cycle_is_real (cfg : Cfg) (l : List Nat) (w : St) (sc : Nat) (p : List Nat)
    (herr : (verifyScopes cfg l w).1 = .error (sc, .cycle p)) :
    sc ∈ l ∧ IsClosedWalk (edgesFrom (verifyScopes cfg l w).2 sc) p := by
  obtain ⟨h1, h2, _⟩ := verifyScopes_err_check cfg l w sc (.cycle p) herr
  exact ⟨h1, isAcyclic_cycle _ _ p (checkAcyclic_cycle _ sc p h2)⟩

/-- the check made by Invoke on a scope that is not verified yet: a cycle verdict shows a real closed walk -/
theorem C05_invoke_cycle_is_real (st : St) (s : Nat) (p : List Nat) (h : checkAcyclic st s = .cycle p) :
    IsClosedWalk (edgesFrom st s) p := isAcyclic_cycle _ _ p (checkAcyclic_cycle st s p h)

theorem C05_invoke_runs_only_on_acyclic_view (st : St) (s : Nat) (h : checkAcyclic st s = .acyclic)
    (a : Nat) (p : List Nat) (hp : p ≠ []) (hn : ∀ x ∈ a :: p, x < (st.scope s).gh.length)
    (hw : IsWalk (edgesFrom st s) (a :: p)) : (a :: p).getLast (by simp) ≠ a := by
  obtain ⟨vis, hv⟩ := checkAcyclic_acyclic st s h
  exact isAcyclic_sound _ _ vis hv a p hp hn hw

/-- the acyclicity verdict of a scope does not depend on flags, caches, logs or `nodes` lists -/
theorem C05_check_reads_graph_only {a b : St} (h : GraphSame a b) (s : Nat) : checkAcyclic a s = checkAcyclic b s :=
  h.checkAcyclic s

/-- non-vacuity (a test, not a theorem about all inputs): a 3-cycle is found, a chain is accepted -/
example : isAcyclic (fun u => if u = 0 then [1] else if u = 1 then [2] else if u = 2 then [0] else []) 3 = .cycle [0, 1, 2, 0] := by decide
example : isAcyclic (fun u => if u = 0 then [1] else if u = 1 then [2] else []) 3 = .ok [2, 1, 0] := by decide

/-- in every reachable container, in every scope, the acyclicity check *decides*: it answers "acyclic" or names a
    cycle; it never indexes outside the scope's graph holder and never exceeds its recursion budget
    (`OB`: recorded orders stay inside the holder they were recorded for, through Provide, its roll-back, Decorate,
    Scope's copy of the parent's holder, Invoke's parse) -/
theorem C05_check_decides (p : Program) (s : Nat) :
    checkAcyclic (runProgram p).1 s = .acyclic ∨ ∃ path, checkAcyclic (runProgram p).1 s = .cycle path := by
  have h := checkAcyclic_total (program_safeInv p).ob s
  cases hc : checkAcyclic (runProgram p).1 s with
  | acyclic => exact Or.inl rfl
  | cycle path => exact Or.inr ⟨path, rfl⟩
  | outOfRange => exact absurd hc h.1
  | fuel => exact absurd hc h.2

/-- no history crashes the process inside dig: no operation of any program ends in a panic of dig's own -/
theorem C05_no_crash (p : Program) : ∀ r ∈ (runProgram p).2, r.v ≠ .panicDig := program_never_panics p

#print axioms C05_check_decides
#print axioms C05_no_crash
#print axioms C05_dfs_sound
#print axioms C05_path
#print axioms C05_dfs_total
#print axioms C05_dfs_complete
#print axioms C05_resolver_terminates
#print axioms C05_invoke_total
#print axioms C05_verified_scopes_acyclic
#print axioms C05_provide_accepted_views_acyclic
#print axioms C05_accept_step_keeps_graphs
#print axioms C05_provide_cycle_is_real
#print axioms C05_invoke_cycle_is_real
#print axioms C05_invoke_runs_only_on_acyclic_view
#print axioms C05_check_reads_graph_only
end Dig.C05
