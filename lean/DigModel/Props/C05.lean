import DigModel.Proofs.DfsTotal
import DigModel.Proofs.Termination
import DigModel.Proofs.Views
import DigModel.Proofs.GhBoundApi
import DigModel.Proofs.GraphMeaningThm
import DigModel.Proofs.ProvideStages
import DigModel.Proofs.PgInv
import DigModel.Proofs.GraphMeaningConv
import DigModel.Proofs.AcycInv
/-
  C05 — Cycle safety, graph part (internal/graph/graph.go, full strength, any graph size):

  * `C05_dfs_sound`    : `isAcyclic` answers ok  ⇒ the graph has no closed walk;
  * `C05_path`         : `isAcyclic` answers `cycle p` ⇒ `p` is a real closed walk (length ≥ 2, first = last, consecutive nodes are edges);
  * `C05_dfs_total`    : with successors in range and fuel `n+1` the search never runs out of fuel;
  * `C05_dfs_complete` : a closed walk among the nodes `< n` exists ⇒ the answer is a cycle.

  Resolver part (constructor.go / decorate.go / param.go, any registry — cyclic or not —, any history):

  * `C05_resolver_terminates` : a `Call` of a constructor never exhausts a recursion budget of
    `k·(D+3)+1`, where `k` bounds the number of idle nodes (neither built nor being built) and `D` the depth of
    parameter objects: a node that is being built is marked and is never entered again, so a dependency
    cycle that the graph check did not see ends in a cycle error (`C20_onstack`) instead of unbounded recursion;
  * `C05_invoke_total` : in every program no operation runs out of the budget `apiInvoke` hands out
    (the model's `fuel` answer is unreachable: its verdicts are those of a terminating computation).

  Container part (provide.go / invoke.go; the graph of scope `sc` is `edgesFrom st sc` over the holder
  `(st.scope sc).gh`, i.e. exactly what `graphHolder.EdgesFrom` answers):

  * `C05_provide_accepted_views_acyclic` : without DeferAcyclicVerification, after an accepted Provide the graph
    of the target scope and of every descendant scope — with the new constructor in place — has no closed
    walk (the DFS answered "ok" on the graph of the *final* container, since the later steps of the call touch
    flags and `nodes` only; with `C05_dfs_sound` this is acyclicity);
  * `C05_provide_cycle_is_real` : a Provide rejected with a cycle error reports the constructor projection of a
    *real* closed walk of some affected scope's graph, as that graph stood with the new constructor in place
    (no false positive: if every affected view is acyclic there is no such walk);
  * `C05_invoke_cycle_is_real` : likewise for the check made by Invoke on a scope that is not verified yet;
  * `C05_invoke_runs_only_on_acyclic_view` : an Invoke that gets as far as resolving anything works on a scope whose
    graph has no closed walk.
  What the holder graph *means* (`Proofs/Tree.lean`, `GraphMeaning*.lean`): in every reachable container (`GT`:
  `GM0` ∧ `TreeInv`, through Provide and its roll-back, Decorate, Scope's copy of the parent's holder, Invoke's
  parse, the resolver) the order recorded for a node in a scope points at that node in the scope's holder, and every
  constructor that provides something visible from a scope — in the scope or any ancestor, registered before or
  after the scope was created, exported or not — has its node in that scope's holder (this uses: whoever has the
  target on its path to the root is reached by the walk over the target's subtree, `mem_subscopes_of_mem_ancestors`).
  Hence a dependency between constructors as seen from a scope *is* an edge of that scope's holder graph, and
  * `C05_dependency_cycle_is_found` (**whole programs**): if in the container a program leaves behind, as seen from
    a scope `s`, constructor `n₀` depends on `n₁`, …, `n_r` on `n₀` — through plain, named or optional parameters at
    any depth of parameter objects, each provider visible from `s`, i.e. under the most permissive reading in which
    a parameter depends on *every* visible provider of its key — then `graph.IsAcyclic` of `s`'s holder answers
    `cycle`; so a Provide that closes such a cycle in the target or any descendant is rejected, and an Invoke
    from an unverified scope that sees one fails before anything runs;
  * `C05_provide_closing_a_cycle_fails` (**any reachable container, any Provide**): without DeferAcyclicVerification, if
    in the container with the new constructor registered (`provideRegister`: `apiProvide` with its stages named,
    `apiProvide_eq` by `rfl`) the target scope or *any of its descendants* sees a dependency cycle among constructors,
    the Provide returns an error with `IsCycleDetected` and the container is rolled back (equal to the one before,
    up to the `isVerifiedAcyclic` flags);
  * `C05_invoke_seeing_a_cycle_fails`: an Invoke from a scope not verified yet (DeferAcyclicVerification) that sees a
    dependency cycle fails with such an error, with no event at all: nothing is built, nothing runs;
  * `C05_acyclic_answer_excludes_dependency_cycles`: conversely an "acyclic" answer for `s` means there is no such cycle.
  * `C05_cycle_through_groups_is_found` (**whole programs**): the same with value-group edges.  A constructor depends
    on the graph node of each of its value-group parameters (`NodeDep.toGroup`), that node depends on every visible
    provider of the group (`NodeDep.fromGroup`); `C05_group_parameter_node`: in every reachable container the node of
    a group parameter of a registered constructor stands for exactly that parameter's (element type, group) — the
    parser links each grouped parameter to the descriptor it created for it (`PgLink`), the nodes are put into the
    holders of the scope and all its descendants before the constructor's node is (`PG`).  A closed chain of such
    dependencies among the nodes of `s`'s holder — it suffices that the *constructor* nodes are in the holder —
    makes the check answer `cycle`.
  * `C05_holder_edge_is_dependency`, `C05_reported_cycle_is_a_dependency_cycle` (**whole programs**, the converse): every
    edge of a scope's holder graph joins two nodes of the holder of which the first depends on the second, so the path a
    cycle answer lists is a closed chain of real dependencies — no false positive at the level of constructors either.
  Together: for the nodes of a scope's holder, the graph `IsAcyclic` walks *is* the dependency graph under the most
  permissive reading (`acyclic_iff_noCycle`: the check answers "acyclic" ⇔ no closed chain of dependencies exists).
  * `C05_eager_containers_are_acyclic` (**whole programs**): without DeferAcyclicVerification, at the end of *every*
    history every scope's check answers "acyclic" and no scope sees a dependency cycle — accepted Provides verify the
    scopes they affect and leave all other scopes' graphs as they were (`localSame_work`), rejected operations are rolled
    back, a parse (Decorate, Invoke) only appends fresh value-group nodes nothing depends on (`NoCycle.grow`), a new
    scope shows its parent's graph (`localSame_scope`), the resolver touches no graph (`localSame_regFrame`).
-/
namespace Dig.C05
open Dfs

/-- a walk `a :: l` (consecutive nodes are edges, all nodes `< n`) of an accepted graph never returns to its start -/
theorem C05_dfs_sound (g : Nat → List Nat) (n : Nat) (vis : List Nat) (h : isAcyclic g n = .ok vis)
    (a : Nat) (l : List Nat) (hl : l ≠ []) (hn : ∀ x ∈ a :: l, x < n) (hw : IsWalk g (a :: l)) :
    (a :: l).getLast (by simp) ≠ a :=
  isAcyclic_sound g n vis h a l hl hn hw

theorem C05_path (g : Nat → List Nat) (n : Nat) (p : List Nat) (h : isAcyclic g n = .cycle p) :
    IsClosedWalk g p := isAcyclic_cycle g n p h

theorem C05_dfs_total (g : Nat → List Nat) (n : Nat) (hg : ∀ x, x < n → ∀ y ∈ g x, y < n) :
    isAcyclic g n ≠ .oof := isAcyclic_total g n hg

theorem C05_dfs_complete (g : Nat → List Nat) (n : Nat) (hg : ∀ x, x < n → ∀ y ∈ g x, y < n)
    (a : Nat) (l : List Nat) (hl : l ≠ []) (hn : ∀ x ∈ a :: l, x < n) (hw : IsWalk g (a :: l))
    (hclosed : (a :: l).getLast (by simp) = a) : ∃ p, isAcyclic g n = .cycle p ∧ IsClosedWalk g p :=
  isAcyclic_complete g n hg a l hl hn hw hclosed

theorem C05_resolver_terminates (ctx : Ctx) (L L' D k fuel n c : Nat) (st : St) (hn : n < L)
    (hreg : ValidReg st) (hL : st.ctors.length = L) (hL' : st.decos.length = L')
    (hD : (∀ m, pdepthL (st.ctor m).params ≤ D) ∧ (∀ d, pdepthL (st.deco d).params ≤ D))
    (hk : idle L L' st ≤ k) (hfuel : k * (D + 3) + 1 ≤ fuel) :
    (callCtor ctx fuel n c st).1 ≠ .error .fuel :=
  (engine_nofuel ctx L L' D fuel).1 n c k st hn ⟨⟨hreg, hL, hL'⟩, hD.1, hD.2, hk⟩ hfuel

theorem C05_invoke_total (p : Program) : ∀ r ∈ (runProgram p).2, r.v ≠ .fuel :=
  runOps_nofuel p.ctx p.fns p.ops 0 {} [] HInv.init (fun _ h => by cases h)


/-- the verification loop of an accepted Provide: every affected scope's graph, in the final container, passes the DFS -/
theorem C05_verified_scopes_acyclic (cfg : Cfg) (hd : cfg.deferAcyclic = false) (l : List Nat) (w : St)
    (hok : (verifyScopes cfg l w).1 = .ok ()) (sc : Nat) (hsc : sc ∈ l) :
    ∃ vis, isAcyclic (edgesFrom (verifyScopes cfg l w).2 sc) ((verifyScopes cfg l w).2.scope sc).gh.length = .ok vis :=
  checkAcyclic_acyclic _ sc (verifyScopes_ok_acyclic cfg hd l w hok sc hsc)

/-- ... and therefore has no closed walk -/
theorem C05_provide_accepted_views_acyclic (cfg : Cfg) (hd : cfg.deferAcyclic = false) (l : List Nat) (w : St)
    (hok : (verifyScopes cfg l w).1 = .ok ()) (sc : Nat) (hsc : sc ∈ l)
    (a : Nat) (p : List Nat) (hp : p ≠ []) (hn : ∀ x ∈ a :: p, x < ((verifyScopes cfg l w).2.scope sc).gh.length)
    (hw : IsWalk (edgesFrom (verifyScopes cfg l w).2 sc) (a :: p)) : (a :: p).getLast (by simp) ≠ a := by
  obtain ⟨vis, hv⟩ := C05_verified_scopes_acyclic cfg hd l w hok sc hsc
  exact isAcyclic_sound _ _ vis hv a p hp hn hw

/-- the final container of an accepted Provide has the same graphs as the one the loop ended with: the last step
    only appends to `nodes` -/
theorem C05_accept_step_keeps_graphs (w : St) (target n : Nat) :
    GraphSame w (w.modScope target fun x => { x with nodes := x.nodes ++ [n] }) :=
  graphSame_modScope w target _ (fun _ => ⟨rfl, rfl, rfl⟩)

/-- a rejection by the verification loop: the scope named is one of the affected scopes and the path is a real
    closed walk of its graph (with the new constructor in place) -/
theorem C05_provide_cycle_is_real (cfg : Cfg) (l : List Nat) (w : St) (sc : Nat) (p : List Nat)
    (herr : (verifyScopes cfg l w).1 = .error (sc, .cycle p)) :
    sc ∈ l ∧ IsClosedWalk (edgesFrom (verifyScopes cfg l w).2 sc) p := by
  obtain ⟨h1, h2, _⟩ := verifyScopes_err_check cfg l w sc (.cycle p) herr
  exact ⟨h1, isAcyclic_cycle _ _ p (checkAcyclic_cycle _ sc p h2)⟩

/-- the check made by Invoke on a scope that is not verified yet: a cycle verdict shows a real closed walk -/
theorem C05_invoke_cycle_is_real (st : St) (s : Nat) (p : List Nat) (h : checkAcyclic st s = .cycle p) :
    IsClosedWalk (edgesFrom st s) p := isAcyclic_cycle _ _ p (checkAcyclic_cycle st s p h)

theorem C05_invoke_runs_only_on_acyclic_view (st : St) (s : Nat) (h : checkAcyclic st s = .acyclic)
    (a : Nat) (p : List Nat) (hp : p ≠ []) (hn : ∀ x ∈ a :: p, x < (st.scope s).gh.length)
    (hw : IsWalk (edgesFrom st s) (a :: p)) : (a :: p).getLast (by simp) ≠ a := by
  obtain ⟨vis, hv⟩ := checkAcyclic_acyclic st s h
  exact isAcyclic_sound _ _ vis hv a p hp hn hw

/-- the acyclicity verdict of a scope does not depend on flags, caches, logs or `nodes` lists -/
theorem C05_check_reads_graph_only {a b : St} (h : GraphSame a b) (s : Nat) : checkAcyclic a s = checkAcyclic b s :=
  h.checkAcyclic s

/-- non-vacuity (a test, not a theorem about all inputs): a 3-cycle is found, a chain is accepted -/
example : isAcyclic (fun u => if u = 0 then [1] else if u = 1 then [2] else if u = 2 then [0] else []) 3 = .cycle [0, 1, 2, 0] := by decide
example : isAcyclic (fun u => if u = 0 then [1] else if u = 1 then [2] else []) 3 = .ok [2, 1, 0] := by decide

/-- in every reachable container, in every scope, the acyclicity check *decides*: it answers "acyclic" or names a
    cycle; it never indexes outside the scope's graph holder and never exceeds its recursion budget
    (`OB`: recorded orders stay inside the holder they were recorded for, through Provide, its roll-back, Decorate,
    Scope's copy of the parent's holder, Invoke's parse) -/
theorem C05_check_decides (p : Program) (s : Nat) :
    checkAcyclic (runProgram p).1 s = .acyclic ∨ ∃ path, checkAcyclic (runProgram p).1 s = .cycle path := by
  have h := checkAcyclic_total (program_safeInv p).ob s
  cases hc : checkAcyclic (runProgram p).1 s with
  | acyclic => exact Or.inl rfl
  | cycle path => exact Or.inr ⟨path, rfl⟩
  | outOfRange => exact absurd hc h.1
  | fuel => exact absurd hc h.2

/-- no history crashes the process inside dig: no operation of any program ends in a panic of dig's own -/
theorem C05_no_crash (p : Program) : ∀ r ∈ (runProgram p).2, r.v ≠ .panicDig := program_never_panics p

theorem C05_dependency_cycle_is_found (p : Program) (s : Nat) (hs : s < (runProgram p).1.scopes.length) (a : Nat) (l : List Nat)
    (hl : l ≠ []) (hin : ∀ n ∈ a :: l, GNode.ctor n ∈ ((runProgram p).1.scope s).gh)
    (hc : DepChain (runProgram p).1 s (a :: l)) (hclosed : (a :: l).getLast (by simp) = a) :
    ∃ path, checkAcyclic (runProgram p).1 s = .cycle path :=
  cycle_is_found (gt_program p).gm (program_safeInv p).ob s hs a l hl hin hc hclosed

theorem C05_acyclic_answer_excludes_dependency_cycles (p : Program) (s : Nat) (hs : s < (runProgram p).1.scopes.length)
    (hacyc : checkAcyclic (runProgram p).1 s = .acyclic) (a : Nat) (l : List Nat) (hl : l ≠ [])
    (hin : ∀ n ∈ a :: l, GNode.ctor n ∈ ((runProgram p).1.scope s).gh) (hc : DepChain (runProgram p).1 s (a :: l)) :
    (a :: l).getLast (by simp) ≠ a := by
  intro hclosed
  obtain ⟨path, hp⟩ := C05_dependency_cycle_is_found p s hs a l hl hin hc hclosed
  rw [hp] at hacyc; cases hacyc

theorem C05_provide_closing_a_cycle_fails (p : Program) (hd : p.cfg.deferAcyclic = false) (fn : Fn) (i s : Nat) (o : ProvideOpts)
    (target : Nat) (params : List Param) (results : List RSlot) (n : Nat) (w : St)
    (hreg : provideRegister p.ctx fn (runProgram p).1 i s o = .ok (target, params, results, n, w))
    (sc : Nat) (hsc : sc ∈ (runProgram p).1.subscopes target) (hlt : sc < (runProgram p).1.scopes.length)
    (a : Nat) (l : List Nat) (hl : l ≠ []) (hin : ∀ m ∈ a :: l, GNode.ctor m ∈ (w.scope sc).gh)
    (hc : DepChain w sc (a :: l)) (hclosed : (a :: l).getLast (by simp) = a) :
    ∃ e, (apiProvide p.ctx fn (runProgram p).1 i s o).2.v = .err e ∧ e.isCycleDetected = true ∧
      EqButVerified (runProgram p).1 (apiProvide p.ctx fn (runProgram p).1 i s o).1 :=
  provide_rejects_dependency_cycle (gt_program p) (program_safeInv p).ob p.ctx hd fn i s o target params results n w hreg
    sc hsc hlt a l hl hin hc hclosed

theorem C05_invoke_seeing_a_cycle_fails (p : Program) (fn : Fn) (s : Nat) (info : Bool) (hnf : fn.nonfunc = none)
    (params : List Param) (w : St) (hpp : parseParams p.types (runProgram p).1 s fn = (.ok params, w))
    (hsh : (shallowCheck s params w).1 = .ok ()) (hunv : (w.scope s).verified = false)
    (hs : s < (runProgram p).1.scopes.length) (a : Nat) (l : List Nat) (hl : l ≠ [])
    (hin : ∀ m ∈ a :: l, GNode.ctor m ∈ (w.scope s).gh) (hc : DepChain w s (a :: l))
    (hclosed : (a :: l).getLast (by simp) = a) :
    ∃ e, (apiInvoke p.ctx fn (runProgram p).1 s info).2.v = .err e ∧ e.isCycleDetected = true ∧
      (apiInvoke p.ctx fn (runProgram p).1 s info).2.ev = [] :=
  invoke_rejects_dependency_cycle (gt_program p) (program_safeInv p).ob p.ctx fn s info hnf params w hpp hsh hunv hs
    a l hl hin hc hclosed

theorem C05_cycle_through_groups_is_found (p : Program) (s : Nat) (a : GNode) (l : List GNode) (hl : l ≠ [])
    (hin : ∀ n, GNode.ctor n ∈ a :: l → GNode.ctor n ∈ ((runProgram p).1.scope s).gh)
    (hc : NodeChain (runProgram p).1 s (a :: l)) (hclosed : (a :: l).getLast (by simp) = a) :
    ∃ path, checkAcyclic (runProgram p).1 s = .cycle path :=
  node_cycle_is_found (gt_program p).gm (program_safeInv p).ob s a l hl
    (chain_nodes_in_holder (pg_program p) s a l hl hc hclosed hin) hc hclosed

theorem C05_holder_edge_is_dependency (p : Program) (s : Nat) (hs : s < (runProgram p).1.scopes.length) (u v : Nat) (x : GNode)
    (hu : ((runProgram p).1.scope s).gh[u]? = some x) (hv : v ∈ edgesFrom (runProgram p).1 s u) :
    ∃ y, ((runProgram p).1.scope s).gh[v]? = some y ∧ NodeDep (runProgram p).1 s x y :=
  edge_is_dependency (gt_program p).gm (pg_program p) s hs u v x hu hv

theorem C05_reported_cycle_is_a_dependency_cycle (p : Program) (s : Nat) (hs : s < (runProgram p).1.scopes.length)
    (path : List Nat) (h : checkAcyclic (runProgram p).1 s = .cycle path) :
    2 ≤ path.length ∧ path.head? = path.getLast? ∧
    ∀ j u v, path[j]? = some u → path[j + 1]? = some v →
      ∃ x y, ((runProgram p).1.scope s).gh[u]? = some x ∧ ((runProgram p).1.scope s).gh[v]? = some y ∧
        NodeDep (runProgram p).1 s x y :=
  reported_cycle_is_real (gt_program p).gm (pg_program p) s hs path h

theorem C05_eager_containers_are_acyclic (p : Program) (hd : p.cfg.deferAcyclic = false) (s : Nat)
    (hs : s < (runProgram p).1.scopes.length) :
    checkAcyclic (runProgram p).1 s = .acyclic ∧ NoCycle (runProgram p).1 s := eager_program_acyclic p hd s hs

theorem C05_acyclic_iff_no_dependency_cycle (p : Program) (s : Nat) (hs : s < (runProgram p).1.scopes.length) :
    checkAcyclic (runProgram p).1 s = .acyclic ↔ NoCycle (runProgram p).1 s :=
  acyclic_iff_noCycle (gt_program p).gm (pg_program p) (program_safeInv p).ob s hs

theorem C05_group_parameter_node (p : Program) (n : Nat) (hn : n < (runProgram p).1.ctors.length) (k : Key) (pg : Nat)
    (hm : (k, pg) ∈ pGroupLeavesL ((runProgram p).1.ctor n).params) (s : Nat) :
    NodeDep (runProgram p).1 s (.ctor n) (.pg pg) ∧
    pgKey (runProgram p).1 pg = { ty := k.ty, name := "", group := k.group } :=
  group_param_node (pg_program p) n hn k pg hm s

/-- every constructor visible from a scope is a node of that scope's holder (whole programs) -/
theorem C05_visible_providers_are_nodes (p : Program) (s : Nat) (hs : s < (runProgram p).1.scopes.length) (k : Key) (m : Nat)
    (hm : m ∈ (runProgram p).1.allProviders s k) : GNode.ctor m ∈ ((runProgram p).1.scope s).gh :=
  (gt_program p).gm.prov s k m hs hm

/-- non-vacuity (a test): a self-dependency is a chain that closes -/
example (st : St) (s n : Nat) (h : DependsOn st s n n) : DepChain st s [n, n] ∧ [n, n].getLast (by simp) = n :=
  ⟨⟨h, trivial⟩, rfl⟩

#print axioms C05_eager_containers_are_acyclic
#print axioms C05_acyclic_iff_no_dependency_cycle
#print axioms C05_holder_edge_is_dependency
#print axioms C05_reported_cycle_is_a_dependency_cycle
#print axioms C05_cycle_through_groups_is_found
#print axioms C05_group_parameter_node
#print axioms C05_provide_closing_a_cycle_fails
#print axioms C05_invoke_seeing_a_cycle_fails
#print axioms C05_dependency_cycle_is_found
#print axioms C05_acyclic_answer_excludes_dependency_cycles
#print axioms C05_visible_providers_are_nodes
#print axioms C05_check_decides
#print axioms C05_no_crash
#print axioms C05_dfs_sound
#print axioms C05_path
#print axioms C05_dfs_total
#print axioms C05_dfs_complete
#print axioms C05_resolver_terminates
#print axioms C05_invoke_total
#print axioms C05_verified_scopes_acyclic
#print axioms C05_provide_accepted_views_acyclic
#print axioms C05_accept_step_keeps_graphs
#print axioms C05_provide_cycle_is_real
#print axioms C05_invoke_cycle_is_real
#print axioms C05_invoke_runs_only_on_acyclic_view
#print axioms C05_check_reads_graph_only
end Dig.C05
