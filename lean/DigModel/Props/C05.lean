import DigModel.Proofs.DfsTotal
/-
  C05 — Cycle safety, graph part (internal/graph/graph.go, full strength, any graph size):

  * `C05_dfs_sound`    : `isAcyclic` answers ok  ⇒ the graph has no closed walk;
  * `C05_path`         : `isAcyclic` answers `cycle p` ⇒ `p` is a real closed walk (length ≥ 2, first = last, consecutive nodes are edges);
  * `C05_dfs_total`    : with successors in range and fuel `n+1` the search never runs out of fuel;
  * `C05_dfs_complete` : a closed walk among the nodes `< n` exists ⇒ the answer is a cycle.

  The container-level half (Provide rejects exactly the cycles of a scope's view; the resolver
  terminates) is carried by the correspondence check with the on-stack guard in the model
  (`callCtor`), see DESIGN.md §7 C05.
-/
namespace Dig.C05
open Dfs

/-- a walk `a :: l` (consecutive nodes are edges, all nodes `< n`) of an accepted graph never returns to its start -/
theorem C05_dfs_sound (g : Nat → List Nat) (n : Nat) (vis : List Nat) (h : isAcyclic g n = .ok vis)
    (a : Nat) (l : List Nat) (hl : l ≠ []) (hn : ∀ x ∈ a :: l, x < n) (hw : IsWalk g (a :: l)) :
    (a :: l).getLast (by simp) ≠ a :=
  isAcyclic_sound g n vis h a l hl hn hw

theorem C05_path (g : Nat → List Nat) (n : Nat) (p : List Nat) (h : isAcyclic g n = .cycle p) :
    IsClosedWalk g p := isAcyclic_cycle g n p h

theorem C05_dfs_total (g : Nat → List Nat) (n : Nat) (hg : ∀ x, x < n → ∀ y ∈ g x, y < n) :
    isAcyclic g n ≠ .oof := isAcyclic_total g n hg

theorem C05_dfs_complete (g : Nat → List Nat) (n : Nat) (hg : ∀ x, x < n → ∀ y ∈ g x, y < n)
    (a : Nat) (l : List Nat) (hl : l ≠ []) (hn : ∀ x ∈ a :: l, x < n) (hw : IsWalk g (a :: l))
    (hclosed : (a :: l).getLast (by simp) = a) : ∃ p, isAcyclic g n = .cycle p ∧ IsClosedWalk g p :=
  isAcyclic_complete g n hg a l hl hn hw hclosed

/-- non-vacuity (a test, not a theorem about all inputs): a 3-cycle is found, a chain is accepted -/
example : isAcyclic (fun u => if u = 0 then [1] else if u = 1 then [2] else if u = 2 then [0] else []) 3 = .cycle [0, 1, 2, 0] := by decide
example : isAcyclic (fun u => if u = 0 then [1] else if u = 1 then [2] else []) 3 = .ok [2, 1, 0] := by decide

#print axioms C05_dfs_sound
#print axioms C05_path
#print axioms C05_dfs_total
#print axioms C05_dfs_complete
end Dig.C05
