import DigModel.Proofs.DfsTotal
import DigModel.Proofs.Termination
/-
  C05 — Cycle safety, graph part (internal/graph/graph.go, full strength, any graph size):

  * `C05_dfs_sound`    : `isAcyclic` answers ok  ⇒ the graph has no closed walk;
  * `C05_path`         : `isAcyclic` answers `cycle p` ⇒ `p` is a real closed walk (length ≥ 2, first = last, consecutive nodes are edges);
  * `C05_dfs_total`    : with successors in range and fuel `n+1` the search never runs out of fuel;
  * `C05_dfs_complete` : a closed walk among the nodes `< n` exists ⇒ the answer is a cycle.

  Resolver part (constructor.go / decorate.go / param.go, any registry — cyclic or not —, any history):

  * `C05_resolver_terminates` : a `Call` of a constructor never exhausts a recursion budget of
    `k·(D+3)+1`, where `k` bounds the number of idle nodes (neither built nor being built) and `D` the depth of
    parameter objects: a node that is being built is marked and is never entered again, so a dependency
    cycle that the graph check did not see ends in a cycle error (`C20_onstack`) instead of unbounded recursion;
  * `C05_invoke_total` : in every program no operation runs out of the budget `apiInvoke` hands out
    (the model's `fuel` answer is unreachable: its verdicts are those of a terminating computation).

  That Provide rejects exactly the cycles of a scope's view is carried by the correspondence check
  (cycle-heavy profile, K-graph), see DESIGN.md §7 C05.
-/
namespace Dig.C05
open Dfs

/-- a walk `a :: l` (consecutive nodes are edges, all nodes `< n`) of an accepted graph never returns to its start -/
theorem C05_dfs_sound (g : Nat → List Nat) (n : Nat) (vis : List Nat) (h : isAcyclic g n = .ok vis)
    (a : Nat) (l : List Nat) (hl : l ≠ []) (hn : ∀ x ∈ a :: l, x < n) (hw : IsWalk g (a :: l)) :
    (a :: l).getLast (by simp) ≠ a :=
  isAcyclic_sound g n vis h a l hl hn hw

theorem C05_path (g : Nat → List Nat) (n : Nat) (p : List Nat) (h : isAcyclic g n = .cycle p) :
    IsClosedWalk g p := isAcyclic_cycle g n p h

theorem C05_dfs_total (g : Nat → List Nat) (n : Nat) (hg : ∀ x, x < n → ∀ y ∈ g x, y < n) :
    isAcyclic g n ≠ .oof := isAcyclic_total g n hg

theorem C05_dfs_complete (g : Nat → List Nat) (n : Nat) (hg : ∀ x, x < n → ∀ y ∈ g x, y < n)
    (a : Nat) (l : List Nat) (hl : l ≠ []) (hn : ∀ x ∈ a :: l, x < n) (hw : IsWalk g (a :: l))
    (hclosed : (a :: l).getLast (by simp) = a) : ∃ p, isAcyclic g n = .cycle p ∧ IsClosedWalk g p :=
  isAcyclic_complete g n hg a l hl hn hw hclosed

theorem C05_resolver_terminates (ctx : Ctx) (L L' D k fuel n c : Nat) (st : St) (hn : n < L)
    (hreg : ValidReg st) (hL : st.ctors.length = L) (hL' : st.decos.length = L')
    (hD : (∀ m, pdepthL (st.ctor m).params ≤ D) ∧ (∀ d, pdepthL (st.deco d).params ≤ D))
    (hk : idle L L' st ≤ k) (hfuel : k * (D + 3) + 1 ≤ fuel) :
    (callCtor ctx fuel n c st).1 ≠ .error .fuel :=
  (engine_nofuel ctx L L' D fuel).1 n c k st hn ⟨⟨hreg, hL, hL'⟩, hD.1, hD.2, hk⟩ hfuel

theorem C05_invoke_total (p : Program) : ∀ r ∈ (runProgram p).2, r.v ≠ .fuel :=
  runOps_nofuel p.ctx p.fns p.ops 0 {} [] HInv.init (fun _ h => by cases h)

/-- non-vacuity (a test, not a theorem about all inputs): a 3-cycle is found, a chain is accepted -/
example : isAcyclic (fun u => if u = 0 then [1] else if u = 1 then [2] else if u = 2 then [0] else []) 3 = .cycle [0, 1, 2, 0] := by decide
example : isAcyclic (fun u => if u = 0 then [1] else if u = 1 then [2] else []) 3 = .ok [2, 1, 0] := by decide

#print axioms C05_dfs_sound
#print axioms C05_path
#print axioms C05_dfs_total
#print axioms C05_dfs_complete
#print axioms C05_resolver_terminates
#print axioms C05_invoke_total
end Dig.C05
