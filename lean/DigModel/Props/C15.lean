import DigModel.Proofs.Parse
/-
  C15 — Parameter and result objects are equivalent to positional forms.

  * `C15_object_build`: building a parameter object none of whose fields is a soft group is exactly building
    its fields one after the other, in declaration order, in the same scope — the same calls, the same state
    changes, the same error at the same point as for the positional parameter list — and the values are
    the fields of the object in declaration order (`C15_interleave_hard`);
  * `C15_list_build`: `BuildList` of a positional list is the same sequential build;
  * `C15_shallow_flat`: the pre-call check of an object is the concatenation of the checks of its fields
    (nested objects are entered — the point of seeded change C15);
  * `C15_dot_flat`: the Info entries of an object are the concatenation of its fields' entries, in order.
  The parse-level half (an object type with fields t1…tn parses to the object of the parses of t1…tn) and
  result objects are covered by the K-reflect correspondence (Info structs) and by the fact that the engine
  only sees the parsed descriptors.
-/
namespace Dig.C15

theorem C15_interleave_hard : ∀ (fs : List Param) (vs : List Val), (∀ f ∈ fs, isSoft f = false) →
    vs.length = fs.length → interleave fs vs [] = vs := by
  intro fs
  induction fs with
  | nil => intro vs _ h; cases vs <;> simp_all [interleave]
  | cons f rest ih =>
    intro vs hs hl
    cases vs with
    | nil => simp at hl
    | cons v vs' =>
      have hf := hs f (by simp)
      cases f with
      | single k o => simp only [interleave]; rw [ih vs' (fun g hg => hs g (by simp [hg])) (by simpa using hl)]
      | object ty fs' => simp only [interleave]; rw [ih vs' (fun g hg => hs g (by simp [hg])) (by simpa using hl)]
      | grouped ty k soft pg =>
        cases soft with
        | true => simp [isSoft] at hf
        | false => simp only [interleave]; rw [ih vs' (fun g hg => hs g (by simp [hg])) (by simpa using hl)]

private theorem filter_not_soft (fs : List Param) (h : ∀ f ∈ fs, isSoft f = false) :
    fs.filter (fun f => !isSoft f) = fs ∧ fs.filter isSoft = [] := by
  constructor
  · apply List.filter_eq_self.mpr; intro f hf; simp [h f hf]
  · apply List.filter_eq_nil_iff.mpr; intro f hf; simp [h f hf]

private theorem mapM'_length {α β : Type} (xs : List α) (f : α → EM β) : ∀ (st : St) (vs : List β) (st' : St),
    mapM' xs f st = (.ok vs, st') → vs.length = xs.length := by
  induction xs with
  | nil => intro st vs st' h; simp [mapM', EM.pure] at h; simp [← h.1]
  | cons x rest ih =>
    intro st vs st' h
    simp only [mapM', EM.bind] at h
    cases hx : f x st with
    | mk r s1 =>
      rw [hx] at h
      cases r with
      | error e => simp at h
      | ok b =>
        simp only at h
        cases hr : mapM' rest f s1 with
        | mk r2 s2 =>
          rw [hr] at h
          cases r2 with
          | error e => simp at h
          | ok bs =>
            simp only [EM.pure] at h
            injection h with h1 h2; injection h1 with h1; subst h1
            simp [ih s1 bs s2 hr]

theorem C15_object_build (ctx : Ctx) (fuel ty : Nat) (fs : List Param) (c : Nat) (st : St)
    (h : ∀ f ∈ fs, isSoft f = false) :
    buildParam ctx (fuel + 1) (.object ty fs) c st =
      match mapM' fs (fun f => buildParam ctx fuel f c) st with
      | (.ok vs, st') => (.ok (.obj vs), st')
      | (.error e, st') => (.error e, st') := by
  obtain ⟨h1, h2⟩ := filter_not_soft fs h
  simp only [buildParam, h1, h2, EM.bind]
  cases hm : mapM' fs (fun f => buildParam ctx fuel f c) st with
  | mk r st' =>
    cases r with
    | error e => rfl
    | ok vs =>
      simp only [mapM', EM.pure]
      rw [C15_interleave_hard fs vs h (mapM'_length fs _ st vs st' hm)]

theorem C15_list_build (ctx : Ctx) (fuel : Nat) (ps : List Param) (c : Nat) :
    buildList ctx (fuel + 1) ps c = mapM' ps fun p => buildParam ctx fuel p c := by
  simp only [buildList]

theorem C15_shallow_flat (st : St) (c ty : Nat) (fs : List Param) :
    missingOf st c (.object ty fs) = missingOfList st c fs := by
  simp only [missingOf]

theorem C15_dot_flat (ty : Nat) (fs : List Param) : dotParam (.object ty fs) = dotParams fs := by
  simp only [dotParam]

#print axioms C15_interleave_hard
#print axioms C15_object_build
#print axioms C15_list_build
#print axioms C15_shallow_flat
#print axioms C15_dot_flat
end Dig.C15
