import DigModel.Proofs.Parse
import DigModel.Proofs.ObjParse
/-
  C15 — Parameter and result objects are equivalent to positional forms.

  * `C15_object_build`: building a parameter object none of whose fields is a soft group is exactly building
    its fields one after the other, in declaration order, in the same scope — the same calls, the same state
    changes, the same error at the same point as for the positional parameter list — and the values are
    the fields of the object in declaration order (`C15_interleave_hard`);
  * `C15_list_build`: `BuildList` of a positional list is the same sequential build;
  * `C15_shallow_flat`: the pre-call check of an object is the concatenation of the checks of its fields
    (nested objects are entered — the point of seeded change C15);
  * `C15_dot_flat`: the Info entries of an object are the concatenation of its fields' entries, in order.
  Parse level (`Proofs/ObjParse.lean`):
  * `C15_object_parse`: a struct embedding `dig.In` whose other fields are exported and untagged parses to the object
    of exactly the positional parse of the fields' types — same descriptors in declaration order, same
    group-parameter graph nodes, same error at the same point (`C15_plain_field`: one field = one positional parameter);
  * `C15_variadic`: a variadic parameter is dropped: the signature parses as the one without it;
  * `C15_result_object_extract` / `_keys` / `_decorate_keys` / `_info`: a result object is extracted into the caches,
    checked for duplicate keys by Provide, turned into the key list of Decorate and reported in Info structs exactly
    like the list of its fields;
  * `C15_name_tag_is_option`, `C15_untagged_field_is_positional`: a `name` tag on a result-object field is the
    `dig.Name` option on the positional result; an untagged field is the positional result.
  (The token a value carries records the *slot* of the declared result it came from, which differs between the two
  encodings; everything dig looks at — keys, types, names, groups, flags — is the same.)
-/
namespace Dig.C15

theorem C15_interleave_hard : ∀ (fs : List Param) (vs : List Val), (∀ f ∈ fs, isSoft f = false) →
    vs.length = fs.length → interleave fs vs [] = vs := by
  intro fs
  induction fs with
  | nil => intro vs _ h; cases vs <;> simp_all [interleave]
  | cons f rest ih =>
    intro vs hs hl
    cases vs with
    | nil => simp at hl
    | cons v vs' =>
      have hf := hs f (by simp)
      cases f with
      | single k o => simp only [interleave]; rw [ih vs' (fun g hg => hs g (by simp [hg])) (by simpa using hl)]
      | object ty fs' => simp only [interleave]; rw [ih vs' (fun g hg => hs g (by simp [hg])) (by simpa using hl)]
      | grouped ty k soft pg =>
        cases soft with
        | true => simp [isSoft] at hf
        | false => simp only [interleave]; rw [ih vs' (fun g hg => hs g (by simp [hg])) (by simpa using hl)]

private theorem filter_not_soft (fs : List Param) (h : ∀ f ∈ fs, isSoft f = false) :
    fs.filter (fun f => !isSoft f) = fs ∧ fs.filter isSoft = [] := by
  constructor
  · apply List.filter_eq_self.mpr; intro f hf; simp [h f hf]
  · apply List.filter_eq_nil_iff.mpr; intro f hf; simp [h f hf]

private theorem mapM'_length {α β : Type} (xs : List α) (f : α → EM β) : ∀ (st : St) (vs : List β) (st' : St),
    mapM' xs f st = (.ok vs, st') → vs.length = xs.length := by
  induction xs with
  | nil => intro st vs st' h; simp [mapM', EM.pure] at h; simp [← h.1]
  | cons x rest ih =>
    intro st vs st' h
    simp only [mapM', EM.bind] at h
    cases hx : f x st with
    | mk r s1 =>
      rw [hx] at h
      cases r with
      | error e => simp at h
      | ok b =>
        simp only at h
        cases hr : mapM' rest f s1 with
        | mk r2 s2 =>
          rw [hr] at h
          cases r2 with
          | error e => simp at h
          | ok bs =>
            simp only [EM.pure] at h
            injection h with h1 h2; injection h1 with h1; subst h1
            simp [ih s1 bs s2 hr]

theorem C15_object_build (ctx : Ctx) (fuel ty : Nat) (fs : List Param) (c : Nat) (st : St)
    (h : ∀ f ∈ fs, isSoft f = false) :
    buildParam ctx (fuel + 1) (.object ty fs) c st =
      match mapM' fs (fun f => buildParam ctx fuel f c) st with
      | (.ok vs, st') => (.ok (.obj vs), st')
      | (.error e, st') => (.error e, st') := by
  obtain ⟨h1, h2⟩ := filter_not_soft fs h
  simp only [buildParam, h1, h2, EM.bind]
  cases hm : mapM' fs (fun f => buildParam ctx fuel f c) st with
  | mk r st' =>
    cases r with
    | error e => rfl
    | ok vs =>
      simp only [mapM', EM.pure]
      rw [C15_interleave_hard fs vs h (mapM'_length fs _ st vs st' hm)]

theorem C15_list_build (ctx : Ctx) (fuel : Nat) (ps : List Param) (c : Nat) :
    buildList ctx (fuel + 1) ps c = mapM' ps fun p => buildParam ctx fuel p c := by
  simp only [buildList]

theorem C15_shallow_flat (st : St) (c ty : Nat) (fs : List Param) :
    missingOf st c (.object ty fs) = missingOfList st c fs := by
  simp only [missingOf]

theorem C15_dot_flat (ty : Nat) (fs : List Param) : dotParam (.object ty fs) = dotParams fs := by
  simp only [dotParam]

theorem C15_plain_field (env : TyEnv) (m : FieldMeta) (t : GoT) (hm : m.plain) (s : List PGDesc) :
    newParamField env (m, t) s = newParam env t s := newParamField_plain env m t hm s

theorem C15_object_parse (env : TyEnv) (i : Nat) (inM : FieldMeta) (fs : List (FieldMeta × GoT)) (ignore : Bool)
    (hout : isOutT (.strct i ((inM, .univ tIn) :: fs)) = false) (houtp : embeds tOutPtr (.strct i ((inM, .univ tIn) :: fs)) = false)
    (hin : isInT (.strct i ((inM, .univ tIn) :: fs)) = true) (hig : boolTag inM.tags.ignore = .ok ignore)
    (hfs : ∀ f ∈ fs, f.2.isUniv tIn = false ∧ f.1.plain) (s : List PGDesc) :
    newParam env (.strct i ((inM, .univ tIn) :: fs)) s =
      match newParamListAux env (fs.map (·.2)) s with
      | (.ok ps, s') => (.ok (.object i ps), s')
      | (.error e, s') => (.error e, s') :=
  newParam_object_plain env i inM fs ignore hout houtp hin hig hfs s

theorem C15_variadic (env : TyEnv) (fn : Fn) (hv : fn.variadic = true) :
    newParamList env fn = newParamList env { fn with ins := fn.ins.dropLast, variadic := false } :=
  newParamList_variadic env fn hv

theorem C15_result_object_extract (env : TyEnv) (deco : Bool) (r : Ret) (sc : ScopeSt) (ty : Nat) (fs : List Result)
    (rest : List RSlot) :
    extractSlots env deco r sc (.val (.object ty fs) :: rest) = extractSlots env deco r sc (fs.map RSlot.val ++ rest) :=
  extractSlots_object env deco r sc ty fs rest

theorem C15_result_object_keys (X : ScopeSt) (ty : Nat) (fs rest : List Result) (seen : List Key) :
    visitKeys X (.object ty fs :: rest) seen = visitKeys X (fs ++ rest) seen := visitKeys_object X ty fs rest seen

theorem C15_result_object_decorate_keys (env : TyEnv) (ty : Nat) (fs rest : List Result) :
    resultKeys env (.object ty fs :: rest) = resultKeys env (fs ++ rest) := resultKeys_object env ty fs rest

theorem C15_result_object_info (ty : Nat) (fs : List Result) (rest : List RSlot) :
    dotSlots (.val (.object ty fs) :: rest) = dotSlots (fs.map RSlot.val ++ rest) := dotSlots_object ty fs rest

theorem C15_name_tag_is_option (env : TyEnv) (o : ResultOpts) (slot : Nat) (m : FieldMeta) (t : GoT)
    (he : m.exported = true) (hg : m.tags.group = "") (hn : m.tags.name ≠ "") :
    newResultField env o slot (m, t) = newResult env { o with name := m.tags.name } slot t :=
  newResultField_name_tag env o slot m t he hg hn

theorem C15_untagged_field_is_positional (env : TyEnv) (o : ResultOpts) (slot : Nat) (m : FieldMeta) (t : GoT)
    (he : m.exported = true) (hg : m.tags.group = "") (hn : m.tags.name = "") :
    newResultField env o slot (m, t) = newResult env o slot t := newResultField_plain env o slot m t he hg hn

/-- a value-group *tag* on a field of a result object reads like the `dig.Group` *option* on a plain result of the
    field's type: the same parsed result (same key, same flattening) and the same acceptance, whenever the group string
    parses (the option wraps a parse error once more) -/
theorem C15_group_tag_is_option (env : TyEnv) (slot : Nat) (m : FieldMeta) (t : GoT) (g : GroupSpec)
    (hp : parseGroupString m.tags.group = .ok g) (hn : m.tags.name = "") (ho : boolTagLax m.tags.optional = false) :
    newResultGrouped env slot m t = newResultGroupOpt env slot t { name := "", group := m.tags.group, as := [] } := by
  unfold newResultGrouped newResultGroupOpt
  simp only [hp, hn, ho, asTypes, List.isEmpty_nil, Bool.not_true, Bool.and_false, Bool.false_eq_true, if_false,
    List.tail_nil, bne_self_eq_false]
  cases hf : g.flatten <;> cases hs : g.soft <;> simp

-- non-vacuity (a *test*, run by the evaluator at build time): `"g,flatten"` parses
#guard (parseGroupString "g,flatten").toOption == some { name := "g", flatten := true, soft := false }

/-- non-vacuity (a test): an untagged exported field is `plain` -/
example : ({ name := "A", exported := true, anon := false, tags := {} } : FieldMeta).plain := ⟨rfl, rfl, rfl, rfl⟩

#print axioms C15_plain_field
#print axioms C15_object_parse
#print axioms C15_variadic
#print axioms C15_result_object_extract
#print axioms C15_result_object_keys
#print axioms C15_result_object_decorate_keys
#print axioms C15_result_object_info
#print axioms C15_name_tag_is_option
#print axioms C15_untagged_field_is_positional
#print axioms C15_group_tag_is_option
#print axioms C15_interleave_hard
#print axioms C15_object_build
#print axioms C15_list_build
#print axioms C15_shallow_flat
#print axioms C15_dot_flat
end Dig.C15
