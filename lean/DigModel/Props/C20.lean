import DigModel.Proofs.ApiLemmas
import DigModel.Proofs.Shape
import DigModel.Proofs.RootCauseApi
set_option linter.unusedSimpArgs false
/-
  C20 — Callbacks fire once per execution with the true outcome (container without DryRun).

  `C20_ctor` / `C20_deco` (full strength for one execution): whatever the state, the arguments and
  the scripted behaviour, running a constructor (decorator) appends to the log exactly
  `enter, exit` and then — iff a callback was registered for it — exactly one callback event, whose
  error is nil on success, wraps the function's own error on failure (`RootCause` = that error),
  is the `PanicError` when the panic is recovered, and whose runtime is the time spent inside the
  function (`dt`), the arguments having been built before the clock was read.
  `C20_cached` / `C20_onstack`: a constructor that is already built, or currently being built, appends nothing.
  `C20_passive`: Provide/Decorate/Scope/Visualize/String report no callback event (from C03_passive):
  a rejected registration never fires one.
  `C20_trace_shape`, `C20_cb_only_after_exit` (any Invoke, any state) and `C20_program_trace_shape` (whole histories:
  every operation of every program): the reported events are execution blocks `enter·exit[·cb]` — callbacks occur
  nowhere else, never twice, never without the execution they report.
-/
namespace Dig.C20

def ctorCbErr (ctx : Ctx) (f x : Nat) : ExitKind → Option DErr
  | .ok => none
  | .err => some (.ctorFailed (.user f x))
  | .panic => if ctx.cfg.recover then some (.panicErr f x) else none

def decoCbErr (ctx : Ctx) (f x : Nat) : ExitKind → Option DErr
  | .ok => none
  | .err => some (.user f x)
  | .panic => if ctx.cfg.recover then some (.panicErr f x) else none

theorem C20_ctor (ctx : Ctx) (hnd : ctx.cfg.dry = false) (n : Nat) (node : CtorNode) (args : List Val) (st : St) :
    let f := node.fn.id
    let x := st.execCount f
    let b := ctx.beh f x
    let r := exitKind ctx node.fn b
    (ctorTail ctx n node args st).2.log =
      st.log ++ [.enter (.ctor n) f x args, .exit (.ctor n) f x r] ++
        (match node.cb with
         | some op => [.cb op (.ctor n) f (ctorCbErr ctx f x r) b.dt]
         | none => []) := by
  simp only [ctorTail, callBody_spec ctx hnd, bodyRes]
  cases hk : (ctx.beh node.fn.id (st.execCount node.fn.id)).k
  · cases hcb : node.cb <;>
      simp [afterBody, bodyEvents, exitKind, hk, runCallback, ctorCommit, ctorOutcome, St.emit, St.modScope, St.modCtor, ctorCbErr, hcb]
  · by_cases he : (errOuts ctx.env node.fn).isEmpty = true <;> cases hcb : node.cb <;>
      simp [afterBody, bodyEvents, exitKind, hk, he, runCallback, ctorCommit, ctorOutcome, St.emit, St.modScope, St.modCtor, ctorCbErr, hcb]
  · by_cases hr : ctx.cfg.recover = true <;> cases hcb : node.cb <;>
      simp [afterBody, bodyEvents, exitKind, hk, hr, runCallback, ctorCommit, ctorOutcome, St.emit, St.modScope, St.modCtor, ctorCbErr, hcb]

theorem C20_deco (ctx : Ctx) (hnd : ctx.cfg.dry = false) (d : Nat) (node : DecoNode) (args : List Val) (st : St) :
    let f := node.fn.id
    let x := st.execCount f
    let b := ctx.beh f x
    let r := exitKind ctx node.fn b
    (decoTail ctx d node args st).2.log =
      st.log ++ [.enter (.deco d) f x args, .exit (.deco d) f x r] ++
        (match node.cb with
         | some op => [.cb op (.deco d) f (decoCbErr ctx f x r) b.dt]
         | none => []) := by
  simp only [decoTail, callBody_spec ctx hnd, bodyRes]
  cases hk : (ctx.beh node.fn.id (st.execCount node.fn.id)).k
  · cases hcb : node.cb <;>
      simp [afterBody, bodyEvents, exitKind, hk, runCallback, decoCommit, decoOutcome, St.emit, St.modScope, St.modDeco, decoCbErr, hcb]
  · by_cases he : (errOuts ctx.env node.fn).isEmpty = true <;> cases hcb : node.cb <;>
      simp [afterBody, bodyEvents, exitKind, hk, he, runCallback, decoCommit, decoOutcome, St.emit, St.modScope, St.modDeco, decoCbErr, hcb]
  · by_cases hr : ctx.cfg.recover = true <;> cases hcb : node.cb <;>
      simp [afterBody, bodyEvents, exitKind, hk, hr, runCallback, decoCommit, decoOutcome, St.emit, St.modScope, St.modDeco, decoCbErr, hcb]

/-- a callback's error has the function's own error as root cause -/
theorem C20_error_root (ctx : Ctx) (f x : Nat) :
    (ctorCbErr ctx f x .err).map DErr.rootCause = some (.user f x) ∧
    (decoCbErr ctx f x .err).map DErr.rootCause = some (.user f x) := ⟨rfl, rfl⟩

/-- a constructor that has been built already is not executed and fires no callback -/
theorem C20_cached (ctx : Ctx) (fuel n c : Nat) (st : St) (h : (st.ctor n).called = true) :
    callCtor ctx (fuel + 1) n c st = (.ok (), st) := by
  simp [callCtor, h]

/-- neither is one whose arguments are being built (it yields a cycle error instead) -/
theorem C20_onstack (ctx : Ctx) (fuel n c : Nat) (st : St) (h0 : (st.ctor n).called = false)
    (h : (st.ctor n).onStack = true) :
    callCtor ctx (fuel + 1) n c st = (.error (.err (.cycle [n] (st.ctor n).s)), st) := by
  simp [callCtor, h, h0]

theorem C20_deco_cached (ctx : Ctx) (fuel d s : Nat) (st : St) (h : (st.deco d).state = .called) :
    callDeco ctx (fuel + 1) d s st = (.ok (), st) := by
  simp [callDeco, h]

theorem C20_passive (ctx : Ctx) (fns : List Fn) (st : St) (i : Nat) (op : Op) (h : op.isInvoke = false) :
    (step ctx fns st i op).2.ev = [] := step_passive ctx fns st i op h

/-- **nowhere else**: the events reported by any Invoke, from any state, are a sequence of execution blocks
    (`enter·exit`, `enter·exit·cb`, or — DryRun only — a lone `cb`) of constructor and decorator nodes, followed by
    the two events of the invoked function if its arguments could be built -/
theorem C20_trace_shape (ctx : Ctx) (fn : Fn) (st : St) (s : Nat) (info : Bool) (hlog : st.log = []) :
    ∃ l t, (apiInvoke ctx fn st s info).2.ev = l ++ t ∧ Blocks ctx.cfg.dry l ∧
      (t = [] ∨ (ctx.cfg.dry = false ∧ ∃ x args r, t = [.enter .invoked fn.id x args, .exit .invoked fn.id x r])) ∧
      ((apiInvoke ctx fn st s info).2.v = .ok → ctx.cfg.dry = false → t ≠ []) :=
  apiInvoke_shape ctx fn st s info hlog

/-- hence, without DryRun, every callback event of an Invoke sits directly behind the exit event of an execution
    of the same node and the same function: no callback without an execution, none detached from it -/
theorem C20_cb_only_after_exit (ctx : Ctx) (hnd : ctx.cfg.dry = false) (fn : Fn) (st : St) (s : Nat) (info : Bool)
    (hlog : st.log = []) (i op : Nat) (w : Who) (f : Nat) (err : Option DErr) (rt : Nat)
    (h : (apiInvoke ctx fn st s info).2.ev[i]? = some (.cb op w f err rt)) :
    ∃ x r, 0 < i ∧ (apiInvoke ctx fn st s info).2.ev[i - 1]? = some (.exit w f x r) := by
  obtain ⟨l, t, he, hb, ht, _⟩ := apiInvoke_shape ctx fn st s info hlog
  rw [hnd] at hb
  rw [he] at h ⊢
  by_cases hlt : i < l.length
  · rw [List.getElem?_append_left hlt] at h
    obtain ⟨x, r, hpos, hprev⟩ := hb.cb_after_exit i op w f err rt h
    exact ⟨x, r, hpos, by rw [List.getElem?_append_left (by omega)]; exact hprev⟩
  · rw [List.getElem?_append_right (by omega)] at h
    rcases ht with rfl | ⟨_, x, args, r, rfl⟩
    · simp at h
    · have : i - l.length = 0 ∨ i - l.length = 1 ∨ 2 ≤ i - l.length := by omega
      rcases this with e | e | e
      · rw [e] at h; simp at h
      · rw [e] at h; simp at h
      · rw [List.getElem?_eq_none (by simpa using e)] at h; cases h

/-- **whole histories: callbacks occur nowhere else.**  For every program, the events reported by every operation are a
    sequence of execution blocks (`enter·exit`, `enter·exit·cb`, or — DryRun only — a lone `cb`) of constructor and
    decorator nodes, followed by the two events of the invoked function if there is one: a callback event never stands
    alone (outside DryRun), never twice behind one execution, never behind the invoked function, and Provide, Decorate,
    Scope, Visualize and String report no event at all -/
theorem C20_program_trace_shape (p : Program) : ∀ r ∈ (runProgram p).2,
    ∃ l t, r.ev = l ++ t ∧ Blocks p.cfg.dry l ∧
      (t = [] ∨ (p.cfg.dry = false ∧ ∃ f x args k, t = [.enter .invoked f x args, .exit .invoked f x k])) := by
  refine runOps_all p.ctx p.fns _ (fun st i op => ?_) p.ops 0 {} [] (fun r hr => by simp at hr)
  cases hop : op.isInvoke with
  | false =>
    rw [step_passive p.ctx p.fns st i op hop]
    exact ⟨[], [], rfl, Blocks.nil, Or.inl rfl⟩
  | true =>
    cases op with
    | invoke s f info =>
      simp only [Dig.step]
      cases hf : fnOf p.fns f with
      | none => exact ⟨[], [], rfl, Blocks.nil, Or.inl rfl⟩
      | some fn =>
        simp only
        split
        · obtain ⟨l, t, he, hb, ht, _⟩ := apiInvoke_shape p.ctx fn { st with log := [] } s info rfl
          refine ⟨l, t, he, hb, ?_⟩
          rcases ht with h | ⟨hd, x, args, k, h⟩
          · exact Or.inl h
          · exact Or.inr ⟨hd, fn.id, x, args, k, h⟩
        · exact ⟨[], [], rfl, Blocks.nil, Or.inl rfl⟩
    | scope _ => simp [Op.isInvoke] at hop
    | provide _ _ _ => simp [Op.isInvoke] at hop
    | decorate _ _ _ _ => simp [Op.isInvoke] at hop
    | visualize _ _ => simp [Op.isInvoke] at hop
    | string _ => simp [Op.isInvoke] at hop

#print axioms C20_program_trace_shape
#print axioms C20_ctor
#print axioms C20_deco
#print axioms C20_error_root
#print axioms C20_cached
#print axioms C20_onstack
#print axioms C20_deco_cached
#print axioms C20_passive
#print axioms C20_trace_shape
#print axioms C20_cb_only_after_exit
end Dig.C20
