import DigModel.Proofs.Retry
import DigModel.Proofs.History
import DigModel.Proofs.Shape
import DigModel.Proofs.Stable
set_option linter.unusedSimpArgs false
/-
  C02 — Singletons: a successful constructor or decorator never runs twice.

  Proved for every call of the resolver (`buildList`, i.e. the argument building of any Invoke),
  from any state whose provider / decorator tables mention existing nodes only (`VL`), for any
  fuel, behaviour script and configuration, whatever the outcome (value, error, panic):

  * `C02_once`: the events appended by the call contain at most one successful execution of each
    constructor and of each decorator; a node that was built before the call, or that is being
    built (on the stack), is not executed successfully at all; a node that is executed successfully
    is marked built afterwards;
  * `C02_built_stays_built`: the built marks only grow, and the on-stack marks are exactly restored;
  * `C02_cached`, `C02_noreentry`: a built constructor is a no-op; a constructor demanded while its own
    arguments are being built is not entered — it yields a cycle error (repair of F8/F9).
  * `C02_once_history` (whole histories, full strength): for every program — every configuration, type
    universe, set of functions, behaviour script and every finite sequence of Scope / Provide / Decorate /
    Invoke / Visualize / String operations, accepted or rejected, failing or not — every constructor
    node and every decorator node has at most ONE successful execution in the entire history; a node that
    has one is marked built (so by C02_cached it is never entered again), and between two operations no
    node is left on the stack.  It is the invariant `HInv` of the API step function (`HInv.step`), proved
    through the undo of rejected Provides (Rollback), the parse frame (Parse) and the flag discipline of the
    resolver (Flags).  "Identical instance" is token equality: with one successful execution per node
    there is one token per result slot.
  * `C02_identical_instance` (whole histories, full strength, non-DryRun): once a single value is cached under
    key `k` in scope `S`, **every continuation of the history** — any further Scope / Provide / Decorate / Invoke,
    accepted or not, failing or not — leaves exactly that value cached there: no later execution replaces it, so
    every consumer that resolves `k` through that scope's cache receives the identical instance.  Proof: the
    only writer of `values[S][k]` is a successful execution of a constructor of `S` that declares `k` (`Wr`,
    through the resolver by `engine_pres2`); that constructor is unique (`RegInv`: duplicates are rejected), it is
    marked built when the value is written (`Just`), and a built constructor has no further successful
    execution (`Flags`).
-/
namespace Dig.C02

theorem C02_once (ctx : Ctx) (L L' fuel : Nat) (ps : List Param) (c : Nat) (st : St) (hv : VL L L' st) :
    ∃ l, (buildList ctx fuel ps c st).2.hist = st.hist ++ l ∧
      (∀ n, okExits (.ctor n) l ≤ 1 ∧
            ((st.ctor n).called = true → okExits (.ctor n) l = 0) ∧
            ((st.ctor n).onStack = true → okExits (.ctor n) l = 0) ∧
            (okExits (.ctor n) l = 1 → ((buildList ctx fuel ps c st).2.ctor n).called = true)) ∧
      (∀ d, okExits (.deco d) l ≤ 1 ∧
            ((st.deco d).state = .called → okExits (.deco d) l = 0) ∧
            ((st.deco d).state = .onStack → okExits (.deco d) l = 0) ∧
            (okExits (.deco d) l = 1 → ((buildList ctx fuel ps c st).2.deco d).state = .called)) := by
  obtain ⟨l, h1, _, h3, h4⟩ := ((engine_flags ctx L L' fuel).2.2.2.2.2 ps c st hv).ext
  exact ⟨l, h1, h3, h4⟩

theorem C02_built_stays_built (ctx : Ctx) (L L' fuel : Nat) (ps : List Param) (c : Nat) (st : St) (hv : VL L L' st) :
    (∀ n, (st.ctor n).called = true → ((buildList ctx fuel ps c st).2.ctor n).called = true) ∧
    (∀ d, (st.deco d).state = .called → ((buildList ctx fuel ps c st).2.deco d).state = .called) ∧
    (∀ n, ((buildList ctx fuel ps c st).2.ctor n).onStack = (st.ctor n).onStack) ∧
    (∀ d, ((buildList ctx fuel ps c st).2.deco d).state = .onStack ↔ (st.deco d).state = .onStack) :=
  have h := (engine_flags ctx L L' fuel).2.2.2.2.2 ps c st hv
  ⟨h.ctorMono, h.decoMono, h.ctorBal, h.decoBal⟩

theorem C02_cached (ctx : Ctx) (fuel n c : Nat) (st : St) (h : (st.ctor n).called = true) :
    callCtor ctx (fuel + 1) n c st = (.ok (), st) := by
  simp [callCtor, h]

theorem C02_noreentry (ctx : Ctx) (fuel n c : Nat) (st : St) (h0 : (st.ctor n).called = false)
    (h : (st.ctor n).onStack = true) :
    callCtor ctx (fuel + 1) n c st = (.error (.err (.cycle [n] (st.ctor n).s)), st) := by
  simp [callCtor, h, h0]

theorem C02_deco_cached (ctx : Ctx) (fuel d s : Nat) (st : St) (h : (st.deco d).state = .called) :
    callDeco ctx (fuel + 1) d s st = (.ok (), st) := by
  simp [callDeco, h]

theorem C02_once_history (p : Program) :
    (∀ n, okExits (.ctor n) (runProgram p).1.hist ≤ 1 ∧
          (okExits (.ctor n) (runProgram p).1.hist = 1 → ((runProgram p).1.ctor n).called = true) ∧
          ((runProgram p).1.ctor n).onStack = false) ∧
    (∀ d, okExits (.deco d) (runProgram p).1.hist ≤ 1 ∧
          (okExits (.deco d) (runProgram p).1.hist = 1 → ((runProgram p).1.deco d).state = .called) ∧
          ((runProgram p).1.deco d).state ≠ .onStack) := by
  have h := HInv.runOps p.ctx p.fns p.ops 0 {} [] HInv.init
  exact ⟨fun n => ⟨(h.ctorOnce n).1, (h.ctorOnce n).2, h.ctorIdle n⟩,
         fun d => ⟨(h.decoOnce d).1, (h.decoOnce d).2, h.decoIdle d⟩⟩

/-- the same for every intermediate state: the invariant is preserved by each operation -/
theorem C02_step_invariant (ctx : Ctx) (fns : List Fn) (st : St) (i : Nat) (op : Op) (h : HInv st) :
    HInv (step ctx fns st i op).1 := h.step ctx fns i op

/-- non-vacuity (test): the empty container satisfies the hypothesis -/
example : VL 0 0 ({} : St) := ⟨⟨fun s k n h => by simp [St.scope, agetL, aget] at h; cases s <;> simp [agetL, aget] at h,
  fun s k d h => by cases s <;> simp [St.scope, aget] at h⟩, rfl, rfl⟩

/-- executions never nest: in the events of any Invoke an enter event is directly followed by the exit event
    of the same execution (dig builds every argument before it enters a function) -/
theorem C02_no_nesting (ctx : Ctx) (fn : Fn) (st : St) (s : Nat) (info : Bool) (hlog : st.log = [])
    (i : Nat) (w : Who) (f x : Nat) (args : List Val)
    (h : (apiInvoke ctx fn st s info).2.ev[i]? = some (.enter w f x args)) :
    ∃ r, (apiInvoke ctx fn st s info).2.ev[i + 1]? = some (.exit w f x r) := by
  obtain ⟨l, t, he, hb, ht, _⟩ := apiInvoke_shape ctx fn st s info hlog
  rw [he] at h ⊢
  by_cases hlt : i < l.length
  · rw [List.getElem?_append_left hlt] at h
    obtain ⟨r, hnext⟩ := hb.exit_after_enter i w f x args h
    refine ⟨r, ?_⟩
    have hlt' : i + 1 < l.length := by
      rcases Nat.lt_or_ge (i + 1) l.length with h' | h'
      · exact h'
      · rw [List.getElem?_eq_none h'] at hnext; cases hnext
    rw [List.getElem?_append_left hlt']; exact hnext
  · rw [List.getElem?_append_right (by omega)] at h
    rcases ht with rfl | ⟨_, x', args', r, rfl⟩
    · simp at h
    · have : i - l.length = 0 ∨ i - l.length = 1 ∨ 2 ≤ i - l.length := by omega
      rcases this with e | e | e
      · rw [e] at h; simp at h
        obtain ⟨rfl, rfl, rfl, _⟩ := h
        refine ⟨r, ?_⟩
        rw [List.getElem?_append_right (by omega)]
        have : i + 1 - l.length = 1 := by omega
        rw [this]; simp
      · rw [e] at h; simp at h
      · rw [List.getElem?_eq_none (by simpa using e)] at h; cases h

/-- the state after the first `ops1` operations, and the state after `ops2` more -/
theorem C02_identical_instance (ctx : Ctx) (hnd : ctx.cfg.dry = false) (fns : List Fn) (ops1 ops2 : List Op)
    (acc : List OpRes) (S : Nat) (k : Key) (v : Val)
    (h : aget ((runOps ctx fns ops1 0 {} []).1.scope S).values k = some v) :
    aget ((runOps ctx fns ops2 ops1.length (runOps ctx fns ops1 0 {} []).1 acc).1.scope S).values k = some v :=
  stable_runOps ctx hnd fns ops2 ops1.length _ acc
    (Just.runOps ctx fns ops1 0 {} [] (Just.init ctx.env))
    (RegInv.runOps ctx fns ops1 0 {} [] RegInv.init)
    (HInv.runOps ctx fns ops1 0 {} [] HInv.init) S k v h

#print axioms C02_once
#print axioms C02_identical_instance
#print axioms C02_once_history
#print axioms C02_step_invariant
#print axioms C02_built_stays_built
#print axioms C02_cached
#print axioms C02_noreentry
#print axioms C02_deco_cached
#print axioms C02_no_nesting
end Dig.C02
