import DigModel.Proofs.ApiLemmas
import DigModel.Proofs.DrySimApi
/-
  C17 — DryRun executes nothing but validates the same.

  `C17_silent` (full strength): in a DryRun container no operation of any history, in any
  state, in any scope reports an `enter` or `exit` event — the only events are callbacks
  (which dig fires in DryRun too).
  `C17_verdicts` (full strength, whole programs): for every program — any scope tree, any registrations, any
  malformed inputs, any order — whose scripted user functions all return normally, running it on a container
  created with DryRun(true) yields, operation by operation, **the same verdict** (accepted, or the very same
  dig error chain: invalid input, duplicate, cycle with the same path, missing dependencies with the same keys)
  and the same Info as running it on a normal container.  Proof: a simulation (`engine_drysim`) between the two
  runs of the resolver — their containers keep the same *core* (registry, flags, graph holders, and the set of
  keys under which something is cached; `CoreEq`), since dig never branches on a cached *value*, only on its
  presence — lifted through every API operation (registrations and Scope read and write the core only:
  `coreEq_apiProvide`, `coreEq_apiDecorate`, `coreEq_apiScope`) and every history (`coreEq_runOps`).
  `C17_verdict_at` restates it index by index.
-/
namespace Dig.C17

theorem C17_silent (ctx : Ctx) (hdry : ctx.cfg.dry = true) (fns : List Fn) (st : St) (i : Nat) (op : Op) :
    ∀ e ∈ (step ctx fns st i op).2.ev, isCb e = true := by
  cases hop : op.isInvoke with
  | false => rw [step_passive ctx fns st i op hop]; simp
  | true =>
    cases op with
    | invoke s f info =>
      simp only [step]
      split
      · split
        · exact apiInvoke_dry ctx hdry _ _ s info rfl
        · simp
      · simp
    | _ => simp [Op.isInvoke] at hop

/-- every history: fold of `step` -/
theorem C17_silent_history (ctx : Ctx) (hdry : ctx.cfg.dry = true) (fns : List Fn) :
    ∀ (ops : List Op) (i : Nat) (st : St) (acc : List OpRes),
      (∀ r ∈ acc, ∀ e ∈ r.ev, isCb e = true) →
      ∀ r ∈ (runOps ctx fns ops i st acc).2, ∀ e ∈ r.ev, isCb e = true := by
  intro ops
  induction ops with
  | nil => intro i st acc h r hr; simp only [runOps] at hr; exact h r (by simpa using hr)
  | cons op rest ih =>
    intro i st acc h
    simp only [runOps]
    cases hs : step ctx fns st i op with
    | mk st' r0 =>
      simp only
      apply ih
      intro r hr
      rcases List.mem_cons.mp hr with h1 | h1
      · subst h1
        have := C17_silent ctx hdry fns st i op
        rw [hs] at this
        exact this
      · exact h r h1

theorem C17_verdicts (p : Program) (hnd : p.cfg.dry = false) (hok : AllOk p.ctx) :
    SameVerdicts (runProgram { p with cfg := { p.cfg with dry := true } }).2 (runProgram p).2 :=
  dryRun_same_verdicts p hnd hok

theorem sameVerdicts_at : ∀ (l l' : List OpRes), SameVerdicts l l' →
    l.length = l'.length ∧ ∀ i : Nat, (l[i]?).map OpRes.v = (l'[i]?).map OpRes.v ∧ (l[i]?).map OpRes.info = (l'[i]?).map OpRes.info := by
  intro l
  induction l with
  | nil =>
    intro l' h
    cases l' with
    | nil => exact ⟨rfl, fun i => by simp⟩
    | cons x xs => exact absurd h (by simp [SameVerdicts])
  | cons r rs ih =>
    intro l' h
    cases l' with
    | nil => exact absurd h (by simp [SameVerdicts])
    | cons x xs =>
      obtain ⟨h1, h2, h3⟩ := h
      obtain ⟨i1, i2⟩ := ih xs h3
      refine ⟨by simp [i1], fun i => ?_⟩
      cases i with
      | zero => simp [h1, h2]
      | succ j => simpa using i2 j

/-- operation `i` of the DryRun run and of the normal run report the same verdict -/
theorem C17_verdict_at (p : Program) (hnd : p.cfg.dry = false) (hok : AllOk p.ctx) (i : Nat) :
    ((runProgram { p with cfg := { p.cfg with dry := true } }).2[i]?).map OpRes.v = ((runProgram p).2[i]?).map OpRes.v :=
  ((sameVerdicts_at _ _ (C17_verdicts p hnd hok)).2 i).1

/-- non-vacuity: a program with an empty script, none of whose functions has a value-typed error result, satisfies
    the hypothesis (every execution succeeds) -/
example (p : Program) (h : p.script = []) (hf : p.fns.filterMap (forcedOf p.types) = []) : AllOk p.ctx := by
  intro f x
  simp [Program.ctx, Ctx.beh, Ctx.scripted, h, hf]

#print axioms C17_silent
#print axioms C17_verdicts
#print axioms sameVerdicts_at
#print axioms C17_verdict_at
#print axioms C17_silent_history
end Dig.C17
