import DigModel.Proofs.ApiLemmas
/-
  C17 — DryRun executes nothing but validates the same.

  `C17_silent` (full strength): in a DryRun container no operation of any history, in any
  state, in any scope reports an `enter` or `exit` event — the only events are callbacks
  (which dig fires in DryRun too).
  The verdict-equality half of the property (`C17_verdicts`) is carried by the metamorphic
  twin of the correspondence check (tools/props.py:twin_c17), not yet by a theorem.
-/
namespace Dig.C17

theorem C17_silent (ctx : Ctx) (hdry : ctx.cfg.dry = true) (fns : List Fn) (st : St) (i : Nat) (op : Op) :
    ∀ e ∈ (step ctx fns st i op).2.ev, isCb e = true := by
  cases hop : op.isInvoke with
  | false => rw [step_passive ctx fns st i op hop]; simp
  | true =>
    cases op with
    | invoke s f info =>
      simp only [step]
      split
      · split
        · exact apiInvoke_dry ctx hdry _ _ s info rfl
        · simp
      · simp
    | _ => simp [Op.isInvoke] at hop

/-- every history: fold of `step` -/
theorem C17_silent_history (ctx : Ctx) (hdry : ctx.cfg.dry = true) (fns : List Fn) :
    ∀ (ops : List Op) (i : Nat) (st : St) (acc : List OpRes),
      (∀ r ∈ acc, ∀ e ∈ r.ev, isCb e = true) →
      ∀ r ∈ (runOps ctx fns ops i st acc).2, ∀ e ∈ r.ev, isCb e = true := by
  intro ops
  induction ops with
  | nil => intro i st acc h r hr; simp only [runOps] at hr; exact h r (by simpa using hr)
  | cons op rest ih =>
    intro i st acc h
    simp only [runOps]
    cases hs : step ctx fns st i op with
    | mk st' r0 =>
      simp only
      apply ih
      intro r hr
      rcases List.mem_cons.mp hr with h1 | h1
      · subst h1
        have := C17_silent ctx hdry fns st i op
        rw [hs] at this
        exact this
      · exact h r h1

#print axioms C17_silent
#print axioms C17_silent_history
end Dig.C17
