/-
  Syntax of programs: the Go type grammar, function descriptors, behaviour
  scripts, operations, values and events.  Core Lean only (the driver links
  against this file).
-/
namespace Dig

/-- `reflect.Kind`, as far as dig looks at it. -/
inductive Kind where
  | ptr | iface | slice | struct | other
  deriving DecidableEq, Repr, Inhabited

/-- Facts about a universe type, as answered by package `reflect`. -/
structure TypeInfo where
  id    : Nat
  kind  : Kind
  elem  : Option Nat
  impl  : List Nat
  isErr : Bool
  deriving Repr, Inhabited

/-- Well-known universe ids. -/
def tError : Nat := 0
def tIn : Nat := 1
def tOut : Nat := 2
def tInPtr : Nat := 3
def tOutPtr : Nat := 4
def tInt : Nat := 70

/-- Struct tags dig reads.  `StructTag.Get` returns "" for an absent key. -/
structure Tags where
  name     : String := ""
  optional : String := ""
  group    : String := ""
  ignore   : String := ""
  deriving Repr, Inhabited, DecidableEq

structure FieldMeta where
  name     : String
  exported : Bool
  anon     : Bool
  tags     : Tags
  deriving Repr, Inhabited, DecidableEq

/-- Go types occurring in signatures.  Composite types carry the id the
    generator interned them under. -/
inductive GoT where
  | univ  (id : Nat)
  | ptr   (id : Nat) (t : GoT)
  | strct (id : Nat) (fields : List (FieldMeta × GoT))
  deriving Repr, Inhabited

def GoT.id : GoT → Nat
  | .univ i => i
  | .ptr i _ => i
  | .strct i _ => i

inductive NonFunc where
  | nil | int | ptr | struct
  /-- a typed nil function value -/
  | nilfunc
  deriving DecidableEq, Repr, Inhabited

/-- A Go value handed to Provide / Decorate / Invoke. -/
structure Fn where
  id       : Nat
  name     : String
  nonfunc  : Option NonFunc
  ins      : List GoT
  variadic : Bool
  outs     : List GoT
  deriving Repr, Inhabited

inductive BehKind where
  | ok | err | panic
  deriving DecidableEq, Repr, Inhabited

structure Beh where
  k     : BehKind := .ok
  len   : Nat := 1
  dt    : Nat := 0
  eslot : Nat := 0
  deriving Repr, Inhabited

/-- The map key of the container: `container.go:key`. -/
structure Key where
  ty    : Nat
  name  : String
  group : String
  deriving DecidableEq, Repr, Inhabited, BEq

instance : LawfulBEq Key where
  eq_of_beq {a b} h := by
    cases a; cases b
    simp only [BEq.beq, instBEqKey.beq] at h
    simp_all
  rfl {a} := by
    cases a
    simp [BEq.beq, instBEqKey.beq]

/-- Values.  A token names the producing function, its execution number, the
    result slot and the element index. -/
inductive Val where
  | tok  (f x s i : Nat)
  | zero (ty : Nat)
  | int  (n : Nat)
  | sl   (xs : List Val)
  | obj  (xs : List Val)
  deriving Repr, Inhabited

inductive AsArg where
  | iface (id : Nat)
  | nil
  | val (id : Nat)
  | ptrTo (id : Nat)
  deriving DecidableEq, Repr, Inhabited

structure ProvideOpts where
  name     : String := ""
  group    : String := ""
  as       : List AsArg := []
  export_  : Bool := false
  cb       : Bool := false
  info     : Bool := false
  /-- `dig.LocationForPC(pc)` with the code pointer of function `loc`: the constructor is *reported* (error texts,
      DOT labels, `CallbackInfo.Name`) as that function; its identity (`ProvideInfo.ID`, DOT constructor ID) stays
      the provided function's -/
  loc      : Option Nat := none
  deriving Repr, Inhabited

inductive Op where
  | scope (parent : Nat)
  | provide (scope fn : Nat) (o : ProvideOpts)
  | decorate (scope fn : Nat) (cb info : Bool)
  | invoke (scope fn : Nat) (info : Bool)
  | visualize (scope : Nat) (errOf : Option Nat)
  | string (scope : Nat)
  deriving Repr, Inhabited

structure Cfg where
  deferAcyclic : Bool := false
  recover      : Bool := false
  dry          : Bool := false
  deriving Repr, Inhabited, DecidableEq

structure Program where
  cfg    : Cfg
  types  : List TypeInfo
  fns    : List Fn
  script : List (Nat × List Beh)
  ops    : List Op
  /-- all functions share one code pointer (reflect.MakeFunc mode) -/
  sameIds : Bool := true
  deriving Repr, Inhabited

end Dig
