import DigModel.Syntax
/-
  dig's error values as a datatype (error.go, cycle_error.go): one
  constructor per wrapper, `Unwrap`, `RootCause`, `errors.As(dig.Error)`,
  `errors.Is`, `IsCycleDetected`, `CanVisualizeError`.
-/
namespace Dig

inductive DErr where
  /-- `errInvalidInput{msg, nil}` -/
  | invalid0
  /-- `errInvalidInput{msg, cause}` -/
  | invalid (cause : DErr)
  | provide (r : DErr)
  | ctorFailed (r : DErr)
  | argsFailed (r : DErr)
  | missingDeps (r : DErr)
  | paramSingle (k : Key) (ctor : Nat) (r : DErr)
  | paramGroup (k : Key) (ctor : Nat) (r : DErr)
  | missingTypes (ks : List Key)
  /-- `errCycleDetected`; `path` = constructor nodes on the reported path -/
  | cycle (path : List Nat) (scope : Nat)
  | groupOpt
  /-- (no constructor for errors of foreign packages: after the repair of F10 dig wraps none)
      `PanicError` holding the tagged panic value of execution `x` of `f` -/
  | panicErr (f x : Nat)
  /-- the `*UserErr` returned by execution `x` of `f` -/
  | user (f x : Nat)
  deriving Repr, Inhabited, DecidableEq

namespace DErr

/-- `errors.Unwrap` -/
def unwrap : DErr → Option DErr
  | invalid c => some c
  | provide r => some r
  | ctorFailed r => some r
  | argsFailed r => some r
  | missingDeps r => some r
  | paramSingle _ _ r => some r
  | paramGroup _ _ r => some r
  | _ => none

/-- does this value itself implement `dig.Error` (has `writeMessage`)? -/
def isDigHere : DErr → Bool
  | panicErr _ _ => false
  | user _ _ => false
  | _ => true

/-- `errors.As(err, &dig.Error)`: the first element of the chain that is a dig.Error -/
def firstDig : DErr → Option DErr
  | invalid0 => some invalid0
  | invalid c => some (invalid c)
  | provide r => some (provide r)
  | ctorFailed r => some (ctorFailed r)
  | argsFailed r => some (argsFailed r)
  | missingDeps r => some (missingDeps r)
  | paramSingle k c r => some (paramSingle k c r)
  | paramGroup k c r => some (paramGroup k c r)
  | missingTypes ks => some (missingTypes ks)
  | cycle p s => some (cycle p s)
  | groupOpt => some groupOpt
  | panicErr _ _ => none
  | user _ _ => none

/-- `dig.RootCause`:
    `for ; errors.As(err,&de); err = errors.Unwrap(de) {}; if err == nil {return de}; return err`.
    Every non-dig value in this model is a leaf, so `errors.As` succeeds exactly
    when the head is a dig error. -/
def rootCause : DErr → DErr
  | invalid c => rootCause c
  | provide r => rootCause r
  | ctorFailed r => rootCause r
  | argsFailed r => rootCause r
  | missingDeps r => rootCause r
  | paramSingle _ _ r => rootCause r
  | paramGroup _ _ r => rootCause r
  | e => e

/-- the chain of values reached by repeated `Unwrap`, outermost first -/
def chain : DErr → List DErr
  | invalid c => invalid c :: chain c
  | provide r => provide r :: chain r
  | ctorFailed r => ctorFailed r :: chain r
  | argsFailed r => argsFailed r :: chain r
  | missingDeps r => missingDeps r :: chain r
  | paramSingle k c r => paramSingle k c r :: chain r
  | paramGroup k c r => paramGroup k c r :: chain r
  | e => [e]

/-- `errors.Is(err, target)` for a leaf target compared by identity -/
def errorsIs (e target : DErr) : Bool := (chain e).contains target

/-- `dig.IsCycleDetected` = `errors.As(err, &errCycleDetected{})` -/
def isCycleDetected (e : DErr) : Bool :=
  (chain e).any fun x => match x with | cycle _ _ => true | _ => false

/-- `errors.As(err, new(errMissingDependencies))` -/
def hasMissingDeps (e : DErr) : Bool :=
  (chain e).any fun x => match x with | missingDeps _ => true | _ => false

/-- implements `errVisualizer` (has `updateGraph`) -/
def isVisualizer : DErr → Bool
  | paramSingle _ _ _ => true
  | paramGroup _ _ _ => true
  | missingTypes _ => true
  | _ => false

/-- `dig.CanVisualizeError`: some element of the chain is an `errVisualizer` -/
def canVisualize (e : DErr) : Bool := (chain e).any isVisualizer

/-- innermost `errMissingTypes` keys -/
def missingKeys (e : DErr) : List Key :=
  (chain e).foldl (fun acc x => match x with | missingTypes ks => ks | _ => acc) []

def cycleLen (e : DErr) : Nat :=
  (chain e).foldl (fun acc x => match x with | cycle p _ => p.length | _ => acc) 0

def kindName : DErr → String
  | invalid0 => "invalid" | invalid _ => "invalid" | provide _ => "provide"
  | ctorFailed _ => "ctorFailed" | argsFailed _ => "argsFailed" | missingDeps _ => "missingDeps"
  | paramSingle _ _ _ => "paramSingle" | paramGroup _ _ _ => "paramGroup"
  | missingTypes _ => "missingTypes" | cycle _ _ => "cycle" | groupOpt => "groupOpt"
  | panicErr _ _ => "panicErr" | user _ _ => "user"

end DErr
end Dig
