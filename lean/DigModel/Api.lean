import DigModel.Engine
/-
  The public API as a state machine: New(options), Scope, Provide, Decorate,
  Invoke (container.go, scope.go, provide.go, decorate.go, invoke.go).

  The model describes the tree with the repairs F1, F2, F3, F7, F12, F15, F16 applied.
-/
namespace Dig

inductive Verdict where
  | ok
  | badop
  | err (e : DErr)
  | panicUser (f x : Nat)
  | panicDig
  | fuel
  deriving Repr, Inhabited

structure InfoOut where
  id   : Nat
  ins  : List (Nat × String × String × Bool)
  outs : List (Nat × String × String)
  deriving Repr, Inhabited

structure OpRes where
  v    : Verdict
  ev   : List Event := []
  info : Option InfoOut := none
  deriving Repr, Inhabited

/-- result of a registration: these operations never run user code, so they carry no events -/
structure RegRes where
  v    : Verdict
  info : Option InfoOut := none
  deriving Repr, Inhabited

def RegRes.toOpRes (r : RegRes) : OpRes := { v := r.v, ev := [], info := r.info }

/-! ### DotParam / DotResult flattening used by the Info structs -/

mutual
def dotParam : Param → List (Nat × String × String × Bool)
  | .single k opt => [(k.ty, k.name, "", opt)]
  | .grouped ty k _ _ => [(ty, "", k.group, false)]
  | .object _ fs => dotParams fs
def dotParams : List Param → List (Nat × String × String × Bool)
  | [] => []
  | p :: ps => dotParam p ++ dotParams ps
end

mutual
def dotResult : Result → List (Nat × String × String)
  | .single _ _ ty name as => (ty :: as).map fun t => (t, name, "")
  | .grouped _ _ ty group _ as => (ty :: as).map fun t => (t, "", group)
  | .object _ fs => dotResults fs
def dotResults : List Result → List (Nat × String × String)
  | [] => []
  | r :: rs => dotResult r ++ dotResults rs
end

def dotSlots : List RSlot → List (Nat × String × String)
  | [] => []
  | .err :: rest => dotSlots rest
  | .val r :: rest => dotResult r ++ dotSlots rest

/-! ### helpers -/

def failToVerdict : Fail → Verdict
  | .err e => .err e
  | .panic f x => .panicUser f x
  | .bug => .panicDig
  | .fuel => .fuel

mutual
/-- nesting depth of a parameter (a plain or group parameter: 1, an object: 1 + its deepest field) -/
def pdepth : Param → Nat
  | .single _ _ => 1
  | .grouped _ _ _ _ => 1
  | .object _ fs => pdepthL fs + 1
def pdepthL : List Param → Nat
  | [] => 0
  | p :: ps => max (pdepth p) (pdepthL ps)
end

/-- deepest parameter of the invoked function and of any registered constructor or decorator -/
def maxDepth (st : St) (ps : List Param) : Nat :=
  max (pdepthL ps) (max ((st.ctors.map fun c => pdepthL c.params).foldl max 0) ((st.decos.map fun d => pdepthL d.params).foldl max 0))

/-- recursion budget of one Invoke.  Go recurses on its stack; the model's resolver is structurally recursive on
    this number.  It is *sufficient*: `Proofs/Termination.lean` proves that the resolver never runs out of it
    (every constructor or decorator whose arguments are being built is marked, a marked node is never entered
    again, and between two such entries the recursion descends at most `maxDepth + 3` levels). -/
def engineFuel (st : St) (ps : List Param) : Nat :=
  (st.ctors.length + st.decos.length + 1) * (maxDepth st ps + 3) + 2

/-- register the graph nodes of the group parameters created by a parse:
    `c.newGraphNode(&pg, pg.orders)` in `s` and all its descendants -/
def addPGNodes (st : St) (s : Nat) (oldLen : Nat) (descs : List PGDesc) : St :=
  let st := { st with pgs := st.pgs ++ (descs.drop oldLen).map fun d => { desc := d } }
  (List.range (descs.length - oldLen)).foldl (fun st j => st.newGraphNode s (.pg (oldLen + j))) st

/-- parse the parameters of `fn` for scope `s`, adding graph nodes for the group parameters
    that were created, also when the parse fails -/
def parseParams (env : TyEnv) (st : St) (s : Nat) (fn : Fn) : Except DErr (List Param) × St :=
  let old := st.pgs.map (·.desc)
  match newParamList env fn old with
  | (r, descs) => (r, addPGNodes st s old.length descs)

def St.root : Nat := 0

/-! ### Provide -/

/-- the keys a constructor provides, with dig's duplicate check
    (`findAndValidateResults` / `connectionVisitor`) -/
def visitKeys (target : ScopeSt) : List Result → List Key → Except DErr (List Key)
  | [], seen => .ok seen
  | .single _ _ ty name as :: rest, seen =>
    let ks := (ty :: as).map fun t => ({ ty := t, name := name, group := "" } : Key)
    let rec chk : List Key → List Key → Except DErr (List Key)
      | [], seen => .ok seen
      | k :: more, seen =>
        if seen.contains k then .error (.invalid .invalid0)
        else if !(agetL target.providers k).isEmpty then .error (.invalid .invalid0)
        else chk more (seen ++ [k])
    match chk ks seen with
    | .error e => .error e
    | .ok seen' => visitKeys target rest seen'
  | .grouped _ _ ty group _ as :: rest, seen =>
    let ks := (ty :: as).map fun t => ({ ty := t, name := "", group := group } : Key)
    visitKeys target rest (ks.foldl (fun acc k => if acc.contains k then acc else acc ++ [k]) seen)
  | .object _ fs :: rest, seen =>
    match visitKeys target fs seen with
    | .error e => .error e
    | .ok seen' => visitKeys target rest seen'

def slotResults : List RSlot → List Result
  | [] => []
  | .err :: rest => slotResults rest
  | .val r :: rest => r :: slotResults rest

/-- undo of a rejected Provide: `gh.Rollback()` in the target scope and its
    descendants, the node tables, and the providers of the target scope -/
def rollbackProvide (st0 w : St) (target : Nat) (scopes : List Nat) : St :=
  let w := scopes.foldl (fun w sc =>
    w.modScope sc fun x => { x with gh := x.gh.take (st0.scope sc).gh.length }) w
  let w := w.modScope target fun x => { x with providers := (st0.scope target).providers }
  { w with ctors := w.ctors.take st0.ctors.length, pgs := w.pgs.take st0.pgs.length }

/-- the verification loop of `provide` over the target scope and its descendants -/
def verifyScopes (cfg : Cfg) : List Nat → St → Except (Nat × CycleRes) Unit × St
  | [], st => (.ok (), st)
  | sc :: rest, st =>
    let st := st.modScope sc fun x => { x with verified := false }
    if cfg.deferAcyclic then verifyScopes cfg rest st
    else match checkAcyclic st sc with
      | .acyclic => verifyScopes cfg rest (st.modScope sc fun x => { x with verified := true })
      | r => (.error (sc, r), st)

def fnOf (fns : List Fn) (id : Nat) : Option Fn := fns.find? (·.id == id)

def apiProvide (ctx : Ctx) (fn : Fn) (st : St) (i : Nat) (s : Nat) (o : ProvideOpts) : St × RegRes :=
  match fn.nonfunc with
  | some _ => (st, { v := .err .invalid0 })
  | none =>
  match validateOpts ctx.env o with
  | .error e => (st, { v := .err e })
  | .ok as =>
    let target := if o.export_ then St.root else s
    let scopes := st.subscopes target
    let reject (w : St) (e : DErr) : St × RegRes :=
      (rollbackProvide st w target scopes, { v := .err (.provide e) })
    -- newConstructorNode
    match parseParams ctx.env st target fn with
    | (.error e, w) => reject w e
    | (.ok params, w) =>
      match newResultList ctx.env { name := o.name, group := o.group, as := as } fn with
      | .error e => reject w e
      | .ok results =>
        let n := w.ctors.length
        let node : CtorNode :=
          { fn := fn, params := params, results := results, s := target, origS := s,
            cb := if o.cb then some i else none }
        let w := { w with ctors := w.ctors ++ [node] }
        let w := w.newGraphNode target (.ctor n)
        match visitKeys (w.scope target) (slotResults results) [] with
        | .error e => reject w e
        | .ok [] => reject w .invalid0
        | .ok keys =>
          let w := w.modScope target fun x =>
            { x with providers := keys.foldl (fun m k => aset m k (agetL m k ++ [n])) x.providers }
          match verifyScopes ctx.cfg scopes w with
          | (.error (sc, .cycle p), w) =>
            reject w (.invalid (.cycle (cyclePath w sc p) sc))
          | (.error _, w) => (w, { v := .panicDig })
          | (.ok (), w) =>
            let w := w.modScope target fun x => { x with nodes := x.nodes ++ [n] }
            (w, { v := .ok,
                  info := if o.info then
                    some { id := fn.id, ins := dotParams params, outs := dotSlots results } else none })

/-! ### Decorate -/

/-- `findResultKeys` (after F12: flatten is rejected) -/
def resultKeys (env : TyEnv) : List Result → Except DErr (List Key)
  | [] => .ok []
  | .single _ _ ty name _ :: rest =>
    match resultKeys env rest with
    | .ok ks => .ok ({ ty := ty, name := name, group := "" } :: ks)
    | .error e => .error e
  | .grouped _ _ ty group flatten _ :: rest =>
    if flatten then .error .invalid0
    else if kindOfId env ty != .slice then .error .invalid0
    else match resultKeys env rest with
      | .ok ks => .ok ({ ty := (elemOfId env ty).getD 0, name := "", group := group } :: ks)
      | .error e => .error e
  | .object _ fs :: rest =>
    match resultKeys env fs with
    | .error e => .error e
    | .ok ks1 =>
      match resultKeys env rest with
      | .ok ks2 => .ok (ks1 ++ ks2)
      | .error e => .error e

def hasDup : List Key → Bool
  | [] => false
  | k :: ks => ks.contains k || hasDup ks

def apiDecorate (ctx : Ctx) (fn : Fn) (st : St) (i : Nat) (s : Nat) (cb info : Bool) : St × RegRes :=
  match fn.nonfunc with
  | some _ => (st, { v := .err .invalid0 })
  | none =>
    -- a rejected decorator leaves nothing behind: the graph nodes added by the parse are rolled back (repair of F15;
    -- the provider table is not touched by a Decorate, restoring it is the identity)
    let reject (w : St) (e : DErr) : St × RegRes := (rollbackProvide st w s (st.subscopes s), { v := .err e })
    match parseParams ctx.env st s fn with
    | (.error e, w) => reject w e
    | (.ok params, w) =>
      match newResultList ctx.env {} fn with
      | .error e => reject w e
      | .ok results =>
        match resultKeys ctx.env (slotResults results) with
        | .error e => reject w e
        | .ok keys =>
          if hasDup keys || keys.any (fun k => (aget (w.scope s).decorators k).isSome) then
            reject w .invalid0
          else
            let d := w.decos.length
            let node : DecoNode :=
              { fn := fn, params := params, results := results, s := s, cb := if cb then some i else none }
            let w := { w with decos := w.decos ++ [node] }
            let w := w.modScope s fun x =>
              { x with decorators := keys.foldl (fun m k => aset m k d) x.decorators }
            (w, { v := .ok,
                  info := if info then
                    some { id := fn.id, ins := dotParams params, outs := dotSlots results } else none })

/-! ### Invoke -/

def lastIsErr (env : TyEnv) (fn : Fn) : Bool :=
  match fn.outs.getLast? with
  | some t => isErrorT env t
  | none => false

def apiInvoke (ctx : Ctx) (fn : Fn) (st : St) (s : Nat) (info : Bool) : St × OpRes :=
  match fn.nonfunc with
  | some _ => (st, { v := .err .invalid0 })
  | none =>
    match parseParams ctx.env st s fn with
    -- the function is rejected: the graph nodes of the parameters parsed so far are rolled back (repair of F16)
    | (.error e, w) => (rollbackProvide st w s (st.subscopes s), { v := .err e })
    | (.ok params, w) =>
      match shallowCheck s params w with
      | (.error f, w) => (w, { v := failToVerdict f })
      | (.ok (), w) =>
        -- acyclicity, if not verified yet
        let chk : Except Verdict St :=
          if (w.scope s).verified then .ok w
          else match checkAcyclic w s with
            | .acyclic => .ok (w.modScope s fun x => { x with verified := true })
            | .cycle p => .error (.err (.invalid (.cycle (cyclePath w s p) s)))
            | _ => .error .panicDig
        match chk with
        | .error v => (w, { v := v })
        | .ok w =>
          match EM.wrapErr (buildList ctx (engineFuel w params) params s) .argsFailed w with
          | (.error f, w) => (w, { v := failToVerdict f, ev := w.log })
          | (.ok args, w) =>
            let inf : Option InfoOut :=
              if info then some { id := 0, ins := dotParams params, outs := [] } else none
            match callBody ctx .invoked fn args w with
            | (r, w) =>
              let v : Verdict := match r with
                | .dry => .ok
                | .ok _ _ => .ok
                | .err x out =>
                  if out + 1 == fn.outs.length then .err (.user fn.id x) else .ok
                | .panic x => if ctx.cfg.recover then .err (.panicErr fn.id x) else .panicUser fn.id x
              (w, { v := v, ev := w.log, info := inf })

/-! ### Scope -/

/-- `CopyOrder(parent, child)` for a constructor node; `orders[child] = orders[parent]` for a
    group-parameter node (repair of F7) -/
def copyOrder (child parent : Nat) (st : St) : GNode → St
  | .ctor n => st.modCtor n fun c => { c with orders := setOrder c.orders child (orderOf c.orders parent) }
  | .pg i => { st with pgs := st.pgs.modify i fun g =>
      { g with orders := setOrder g.orders child (orderOf g.orders parent) } }

/-- `Scope.Scope(name)`: the child copies the parent's graph nodes and their orders -/
def apiScope (st : St) (parent : Nat) : St :=
  let child := st.scopes.length
  let p := st.scope parent
  let st := { st with scopes := st.scopes ++ [({ parent := some parent, gh := p.gh } : ScopeSt)] }
  let st := st.modScope parent fun x => { x with children := x.children ++ [child] }
  p.gh.foldl (copyOrder child parent) st

/-! ### the step function -/

def step (ctx : Ctx) (fns : List Fn) (st : St) (i : Nat) (op : Op) : St × OpRes :=
  let st := { st with log := [] }
  match op with
  | .scope parent =>
    if parent < st.scopes.length then (apiScope st parent, { v := .ok }) else (st, { v := .badop })
  | .provide s f o =>
    match fnOf fns f with
    | some fn =>
      if s < st.scopes.length then
        match apiProvide ctx fn st i s o with
        | (st', r) => (st', r.toOpRes)
      else (st, { v := .badop })
    | none => (st, { v := .badop })
  | .decorate s f cb info =>
    match fnOf fns f with
    | some fn =>
      if s < st.scopes.length then
        match apiDecorate ctx fn st i s cb info with
        | (st', r) => (st', r.toOpRes)
      else (st, { v := .badop })
    | none => (st, { v := .badop })
  | .invoke s f info =>
    match fnOf fns f with
    | some fn => if s < st.scopes.length then apiInvoke ctx fn st s info else (st, { v := .badop })
    | none => (st, { v := .badop })
  | .visualize s e =>
    -- the picture itself: Dot.lean
    if s == 0 && (match e with | some j => decide (j < i) | none => true) then (st, { v := .ok }) else (st, { v := .badop })
  | .string s => if s < st.scopes.length then (st, { v := .ok }) else (st, { v := .badop })

def runOps (ctx : Ctx) (fns : List Fn) : List Op → Nat → St → List OpRes → St × List OpRes
  | [], _, st, acc => (st, acc.reverse)
  | op :: rest, i, st, acc =>
    match step ctx fns st i op with
    | (st', r) => runOps ctx fns rest (i + 1) st' (r :: acc)

/-- is `t` a value type (not an interface) that implements `error`? -/
def isValErrT (env : TyEnv) : GoT → Bool
  | .univ i => (match env.info i with | some ti => ti.isErr && ti.kind != .iface | none => false)
  | _ => false

/-- the entry of `Ctx.forced` for one function: `none` when no result is a value-typed error -/
def forcedOf (env : TyEnv) (fn : Fn) : Option (Nat × Nat × Bool) :=
  let eo := errOuts env fn
  let isV (i : Nat) : Bool := isValErrT env (fn.outs.getD i (.univ 0))
  if isV (fn.outs.length - 1) && fn.outs.length != 0 then some (fn.id, eo.length - 1, true)
  else match eo.findIdx? isV with
    | some j => some (fn.id, j, false)
    | none => none

def Program.ctx (p : Program) : Ctx :=
  { cfg := p.cfg, env := p.types, script := p.script, sameIds := p.sameIds,
    forced := p.fns.filterMap (forcedOf p.types) }

def runProgram (p : Program) : St × List OpRes :=
  runOps p.ctx p.fns p.ops 0 {} []

end Dig
