import DigModel.DotText
/-
  The DOT language as far as `dig.Visualize` uses it: a lexer (bare identifiers, double-quoted strings, HTML strings,
  punctuation, `->`), a parser (node, edge, attribute and assignment statements, subgraphs), and the document
  `visualizeGraph` (visualize.go) writes, as a list of *pieces* (a token and the white space written before it).
  Plain functions over `List Char`; core only, so that the driver can run the lexer and the parser on the text the
  library really wrote.
-/
namespace Dig.DotSyntax

inductive Tok where
  | lbrace | rbrace | lbrack | rbrack | semi | comma | eq | arrow
  /-- an identifier or numeral written without quotes -/
  | bare (s : List Char)
  /-- a double-quoted string: what stands between the quotes, escapes as written -/
  | quoted (s : List Char)
  /-- an HTML string: what stands between the outer angle brackets -/
  | html (s : List Char)
  deriving DecidableEq, Repr, Inhabited

def isWs (c : Char) : Bool := c == ' ' || c == '\t' || c == '\n' || c == '\r'

def isIdChar (c : Char) : Bool := c.isAlphanum || c == '_'

/-- the rest of a bare identifier -/
def spanId : List Char → List Char × List Char
  | [] => ([], [])
  | c :: rest => if isIdChar c then let (a, b) := spanId rest; (c :: a, b) else ([], c :: rest)

/-- inside a double-quoted string, after the opening quote: a backslash protects the next character -/
def lexQuoted : List Char → List Char → Option (List Char × List Char)
  | _, [] => none
  | acc, '"' :: rest => some (acc, rest)
  | acc, '\\' :: c :: rest => lexQuoted (acc ++ ['\\', c]) rest
  | _, ['\\'] => none
  | acc, c :: rest => lexQuoted (acc ++ [c]) rest

/-- inside an HTML string, after the opening `<`: `DotText.scan` (`<` opens a level, `>` closes one) -/
abbrev lexHtml := DotText.scan

/-- the lexer; `fuel` bounds the number of tokens and white-space characters (the length of the text + 1 is enough) -/
def lex : Nat → List Char → Option (List Tok)
  | 0, _ => none
  | _ + 1, [] => some []
  | fuel + 1, c :: rest =>
    if isWs c then lex fuel rest
    else if c = '{' then (lex fuel rest).map (Tok.lbrace :: ·)
    else if c = '}' then (lex fuel rest).map (Tok.rbrace :: ·)
    else if c = '[' then (lex fuel rest).map (Tok.lbrack :: ·)
    else if c = ']' then (lex fuel rest).map (Tok.rbrack :: ·)
    else if c = ';' then (lex fuel rest).map (Tok.semi :: ·)
    else if c = ',' then (lex fuel rest).map (Tok.comma :: ·)
    else if c = '=' then (lex fuel rest).map (Tok.eq :: ·)
    else if c = '-' then
      (match rest with
       | '>' :: rest' => (lex fuel rest').map (Tok.arrow :: ·)
       | _ => none)
    else if c = '"' then
      (match lexQuoted [] rest with
       | some (body, rest') => (lex fuel rest').map (Tok.quoted body :: ·)
       | none => none)
    else if c = '<' then
      (match lexHtml 1 [] rest with
       | some (body, rest') => (lex fuel rest').map (Tok.html body :: ·)
       | none => none)
    else if isIdChar c then
      (match spanId rest with
       | (a, rest') => (lex fuel rest').map (Tok.bare (c :: a) :: ·))
    else none

def lexDot (s : List Char) : Option (List Tok) := lex (s.length + 1) s

/-! ### the parser -/

def Tok.isId : Tok → Bool
  | .bare _ => true
  | .quoted _ => true
  | .html _ => true
  | _ => false

structure Attr where
  key : Tok
  val : Tok
  deriving Repr, DecidableEq, Inhabited

inductive Stmt where
  | node (id : Tok) (attrs : List Attr)
  | edge (a b : Tok) (attrs : List Attr)
  /-- `graph [...]`, `node [...]`, `edge [...]` -/
  | attrs (kw : List Char) (attrs : List Attr)
  /-- `ID = ID` -/
  | assign (k v : Tok)
  | subgraph (name : List Char) (body : List Stmt)
  deriving Repr, Inhabited

def isKw (s : List Char) : Bool := s == "graph".toList || s == "node".toList || s == "edge".toList

/-- the head of a statement that may be followed by attribute lists -/
inductive Head where
  | node (a : Tok)
  | edge (a b : Tok)
  | attrs (kw : List Char)
  deriving Repr, Inhabited

def Head.toStmt : Head → List Attr → Stmt
  | .node a, as => .node a as
  | .edge a b, as => .edge a b as
  | .attrs kw, as => .attrs kw as

/-- where the parser stands -/
inductive Mode where
  /-- before `digraph` -/
  | start
  /-- after `digraph`, before `{` -/
  | open0
  /-- at the start of a statement -/
  | stmt
  /-- after an ID at the start of a statement -/
  | id1 (a : Tok)
  | kwSub
  | kwSubName (n : List Char)
  /-- after `graph` / `node` / `edge`: a bracket must follow -/
  | afterKw (s : List Char)
  /-- after `ID =` -/
  | assignV (a : Tok)
  /-- after `ID ->` -/
  | edge1 (a : Tok)
  /-- the head is complete: a `[` continues the statement, anything else ends it -/
  | afterHead (h : Head) (as : List Attr)
  /-- inside brackets, before a key or the `]` -/
  | inAttr (h : Head) (as : List Attr)
  | attrEq (h : Head) (as : List Attr) (k : Tok)
  | attrVal (h : Head) (as : List Attr) (k : Tok)
  /-- after the closing brace of the graph -/
  | done
  deriving Repr, Inhabited

/-- the parser reads one token at a time; `stack` holds the enclosing blocks (subgraph name, statements before it) -/
structure PState where
  stack : List (List Char × List Stmt) := []
  cur   : List Stmt := []
  mode  : Mode := .start
  deriving Repr, Inhabited

def PState.commit (st : PState) (h : Head) (as : List Attr) : PState :=
  { st with cur := st.cur ++ [h.toStmt as], mode := .stmt }

/-- a token at the start of a statement -/
def stepStmt (st : PState) : Tok → Option PState
  | .semi => some st
  | .rbrace =>
    match st.stack with
    | [] => some { st with mode := .done }
    | (name, outer) :: rest => some { stack := rest, cur := outer ++ [.subgraph name st.cur], mode := .stmt }
  | .bare s =>
    if s == "subgraph".toList then some { st with mode := .kwSub }
    else if isKw s then some { st with mode := .afterKw s }
    else some { st with mode := .id1 (.bare s) }
  | .quoted s => some { st with mode := .id1 (.quoted s) }
  | .html s => some { st with mode := .id1 (.html s) }
  | _ => none

def step (st : PState) (t : Tok) : Option PState :=
  match st.mode with
  | .start => if t = .bare "digraph".toList then some { st with mode := .open0 } else none
  | .open0 => if t = .lbrace then some { st with mode := .stmt } else none
  | .stmt => stepStmt st t
  | .kwSub => (match t with
      | .bare n => some { st with mode := .kwSubName n }
      | _ => none)
  | .kwSubName n => if t = .lbrace then some { stack := (n, st.cur) :: st.stack, cur := [], mode := .stmt } else none
  | .afterKw s => if t = .lbrack then some { st with mode := .inAttr (.attrs s) [] } else none
  | .id1 a => (match t with
      | .eq => some { st with mode := .assignV a }
      | .arrow => some { st with mode := .edge1 a }
      | .lbrack => some { st with mode := .inAttr (.node a) [] }
      | t => stepStmt (st.commit (.node a) []) t)
  | .assignV a => if t.isId then some { st with cur := st.cur ++ [.assign a t], mode := .stmt } else none
  | .edge1 a => if t.isId then some { st with mode := .afterHead (.edge a t) [] } else none
  | .afterHead h as => if t = .lbrack then some { st with mode := .inAttr h as } else stepStmt (st.commit h as) t
  | .inAttr h as => (match t with
      | .rbrack => some { st with mode := .afterHead h as }
      | .semi => some st
      | .comma => some st
      | t => if t.isId then some { st with mode := .attrEq h as t } else none)
  | .attrEq h as k => if t = .eq then some { st with mode := .attrVal h as k } else none
  | .attrVal h as k => if t.isId then some { st with mode := .inAttr h (as ++ [{ key := k, val := t }]) } else none
  | .done => none

def run (st : PState) : List Tok → Option PState
  | [] => some st
  | t :: rest => (step st t).bind fun st' => run st' rest

/-- `digraph { stmt_list }` and nothing after it -/
def parseDot (ts : List Tok) : Option (List Stmt) :=
  match run {} ts with
  | some st => (match st.mode, st.stack with
      | .done, [] => some st.cur
      | _, _ => none)
  | none => none

end Dig.DotSyntax
