/-
  internal/graph/graph.go: IsAcyclic / isAcyclic as a fuelled DFS.
  `vis` is the persistent Visited flag, membership in `path` is OnStack.
-/
namespace Dfs

inductive R where
  | cycle (p : List Nat)
  | ok (vis : List Nat)
  | oof
  deriving Repr, DecidableEq

/-- suffix of `path` starting at the last occurrence of `v` (empty if absent) -/
def cutFrom (v : Nat) : List Nat → List Nat
  | [] => []
  | x :: xs =>
    let r := cutFrom v xs
    if r.isEmpty then (if x = v then x :: xs else []) else r

def step (g : Nat → List Nat) (rec : Nat → List Nat → R) (path' : List Nat) (acc : R) (v : Nat) : R :=
  match acc with
  | .ok vis' =>
    if v ∉ vis' then rec v vis'
    else if v ∈ path' then .cycle (cutFrom v path' ++ [v])
    else .ok vis'
  | r => r

def dfs (g : Nat → List Nat) : Nat → Nat → List Nat → List Nat → R
  | 0, _, _, _ => .oof
  | fuel+1, u, vis, path =>
    if u ∈ vis then .ok vis else
    (g u).foldl (step g (fun v vis' => dfs g fuel v vis' (path ++ [u])) (path ++ [u])) (.ok (u :: vis))

def isAcyclic (g : Nat → List Nat) (n : Nat) : R :=
  (List.range n).foldl (fun acc i =>
    match acc with
    | .ok vis => dfs g (n+1) i vis []
    | r => r) (.ok [])

/-! ### soundness of `ok`: a rank function that strictly decreases along edges -/

end Dfs
