import DigModel.Error
/-
  The reflection layer: counterparts of inout.go (embedsType, IsIn, IsOut,
  isFieldOptional), group.go (parseGroupString), param.go (newParam*),
  result.go (newResult*), provide.go (provideOptions.Validate).

  The model describes the tree with the repairs F3, F6, F10, F11, F12 applied
  (see DESIGN.md §8).
-/
namespace Dig

abbrev TyEnv := List TypeInfo

def TyEnv.info (env : TyEnv) (id : Nat) : Option TypeInfo := env.find? (·.id == id)

def GoT.kind (env : TyEnv) : GoT → Kind
  | .univ i => match env.info i with | some ti => ti.kind | none => .other
  | .ptr _ _ => .ptr
  | .strct _ _ => .struct

/-- id of `t.Elem()` for pointer / slice kinds -/
def GoT.elemId (env : TyEnv) : GoT → Option Nat
  | .univ i => match env.info i with | some ti => ti.elem | none => none
  | .ptr _ t => some t.id
  | .strct _ _ => none

def kindOfId (env : TyEnv) (i : Nat) : Kind :=
  match env.info i with | some ti => ti.kind | none => .other

def elemOfId (env : TyEnv) (i : Nat) : Option Nat :=
  match env.info i with | some ti => ti.elem | none => none

/-- `t.Implements(iface)`; composite (reflect-built) types have no methods. -/
def implementsT (env : TyEnv) (t : GoT) (iface : Nat) : Bool :=
  match t with
  | .univ i => match env.info i with | some ti => ti.impl.contains iface | none => false
  | _ => false

/-- `isError(t)` = `t.Implements(error)` -/
def isErrorT (env : TyEnv) (t : GoT) : Bool :=
  match t with
  | .univ i => match env.info i with | some ti => ti.isErr | none => false
  | _ => false

mutual
/-- `embedsType(t, e)`: breadth-first search through anonymous struct fields -/
def embeds (e : Nat) : GoT → Bool
  | .univ i => i == e
  | .ptr i _ => i == e
  | .strct i fs => i == e || embedsFields e fs
def embedsFields (e : Nat) : List (FieldMeta × GoT) → Bool
  | [] => false
  | f :: rest => embedsField e f || embedsFields e rest
def embedsField (e : Nat) : FieldMeta × GoT → Bool
  | (m, t) => m.anon && embeds e t
end

def isInT (t : GoT) : Bool := embeds tIn t
def isOutT (t : GoT) : Bool := embeds tOut t

/-- `t.Kind() == reflect.Ptr && pred(t.Elem())` -/
def ptrElem (env : TyEnv) (pred : GoT → Bool) : GoT → Bool
  | .ptr _ inner => pred inner
  | .univ i => kindOfId env i == .ptr && (match elemOfId env i with | some e => pred (.univ e) | none => false)
  | .strct _ _ => false

/-- `strconv.ParseBool` -/
def parseBool (s : String) : Option Bool :=
  if s == "1" || s == "t" || s == "T" || s == "TRUE" || s == "true" || s == "True" then some true
  else if s == "0" || s == "f" || s == "F" || s == "FALSE" || s == "false" || s == "False" then some false
  else none

/-- `isFieldOptional` / `isIgnoreUnexportedSet` (after F10: the strconv error is not wrapped) -/
def boolTag (tag : String) : Except DErr Bool :=
  if tag == "" then .ok false
  else match parseBool tag with
    | some b => .ok b
    | none => .error .invalid0

/-- `optional, _ := isFieldOptional(f)` -/
def boolTagLax (tag : String) : Bool :=
  if tag == "" then false else (parseBool tag).getD false

structure GroupSpec where
  name    : String
  flatten : Bool
  soft    : Bool
  deriving Repr, DecidableEq

def parseGroupOpts : List String → GroupSpec → Except DErr GroupSpec
  | [], g => .ok g
  | c :: cs, g =>
    if c == "flatten" then parseGroupOpts cs { g with flatten := true }
    else if c == "soft" then parseGroupOpts cs { g with soft := true }
    else .error .groupOpt

/-- `parseGroupString` (after F11: an empty group name is rejected) -/
def parseGroupString (s : String) : Except DErr GroupSpec :=
  match s.splitOn "," with
  | [] => .error .invalid0
  | name :: opts =>
    if name == "" then .error .invalid0
    else parseGroupOpts opts { name := name, flatten := false, soft := false }

/-! ### Parameters -/

/-- graph node of a value-group parameter -/
structure PGDesc where
  group : String
  elem  : Nat
  deriving Repr, DecidableEq, Inhabited

inductive Param where
  | single (k : Key) (optional : Bool)
  /-- `ty` slice type, `k` = group key (element type, group name), `pg` index of its graph node descriptor -/
  | grouped (ty : Nat) (k : Key) (soft : Bool) (pg : Nat)
  | object (ty : Nat) (fields : List Param)
  deriving Repr, Inhabited

/-- Parsing creates graph nodes for group parameters as a side effect
    (`c.newGraphNode(&pg, pg.orders)`), also when a later part of the signature
    is rejected.  `pgs` is the global table of such nodes. -/
abbrev PM (α : Type) := List PGDesc → Except DErr α × List PGDesc

@[inline] def PM.pure (a : α) : PM α := fun s => (.ok a, s)
@[inline] def PM.fail (e : DErr) : PM α := fun s => (.error e, s)
@[inline] def PM.bind (m : PM α) (f : α → PM β) : PM β := fun s =>
  match m s with
  | (.ok a, s') => f a s'
  | (.error e, s') => (.error e, s')
/-- wrap an error: `newErrInvalidInput(msg, err)` -/
@[inline] def PM.wrap (m : PM α) : PM α := fun s =>
  match m s with
  | (.ok a, s') => (.ok a, s')
  | (.error e, s') => (.error (.invalid e), s')
@[inline] def PM.lift (x : Except DErr α) : PM α := fun s => (x, s)

instance : Monad PM where
  pure := PM.pure
  bind := PM.bind

/-- `newParamGroupedSlice` -/
def newParamGroupedSlice (env : TyEnv) (m : FieldMeta) (t : GoT) : PM Param := fun pgs =>
  match parseGroupString m.tags.group with
  | .error e => (.error e, pgs)
  | .ok g =>
    if t.kind env != .slice then (.error .invalid0, pgs)
    else if g.flatten then (.error .invalid0, pgs)
    else if m.tags.name != "" then (.error .invalid0, pgs)
    else if boolTagLax m.tags.optional then (.error .invalid0, pgs)
    else
      let elem := (t.elemId env).getD 0
      (.ok (.grouped t.id { ty := elem, name := "", group := g.name } g.soft pgs.length),
       pgs ++ [{ group := g.name, elem := elem }])

/-- the type is `dig.In` itself (`f.Type == _inType`) -/
def GoT.isUniv (t : GoT) (i : Nat) : Bool := match t with | .univ j => i == j | _ => false

/-- the `ignore-unexported` tag of the first field whose type is `dig.In` -/
def findIgnoreTag : List (FieldMeta × GoT) → String
  | [] => ""
  | (m, t) :: rest => if t.isUniv tIn then m.tags.ignore else findIgnoreTag rest

def hasInField : List (FieldMeta × GoT) → Bool
  | [] => false
  | (_, t) :: rest => t.isUniv tIn || hasInField rest

mutual
/-- `newParam` -/
def newParam (env : TyEnv) : GoT → PM Param
  | .univ i =>
    let t := GoT.univ i
    if isOutT t || ptrElem env isOutT t || embeds tOutPtr t then PM.fail .invalid0
    else if isInT t then
      -- `dig.In` itself: its only field `_` is unexported → "bad field" wrapping "unexported fields not allowed"
      PM.fail (.invalid .invalid0)
    else if embeds tInPtr t then PM.fail .invalid0
    else if ptrElem env isInT t then PM.fail .invalid0
    else PM.pure (.single { ty := i, name := "", group := "" } false)
  | .ptr i inner =>
    let t := GoT.ptr i inner
    if isOutT t || isOutT inner || embeds tOutPtr t then PM.fail .invalid0
    else if embeds tInPtr t then PM.fail .invalid0
    else if isInT inner then PM.fail .invalid0
    else PM.pure (.single { ty := i, name := "", group := "" } false)
  | .strct i fs =>
    let t := GoT.strct i fs
    if isOutT t || embeds tOutPtr t then PM.fail .invalid0
    else if isInT t then
      -- `newParamObject`
      match boolTag (if hasInField fs then findIgnoreTag fs else "") with
      | .error e => PM.fail e
      | .ok ignore => fun s =>
        match newParamFields env ignore fs s with
        | (.ok ps, s') => (.ok (.object i ps), s')
        | (.error e, s') => (.error e, s')
    else if embeds tInPtr t then PM.fail .invalid0
    else PM.pure (.single { ty := i, name := "", group := "" } false)
/-- the field loop of `newParamObject` -/
def newParamFields (env : TyEnv) (ignore : Bool) : List (FieldMeta × GoT) → PM (List Param)
  | [] => PM.pure []
  | f :: rest => fun s =>
    if f.2.isUniv tIn then newParamFields env ignore rest s
    else if !f.1.exported && ignore then newParamFields env ignore rest s
    else
      match newParamField env f s with
      | (.error e, s') => (.error (.invalid e), s')
      | (.ok p, s') =>
        match newParamFields env ignore rest s' with
        | (.ok ps, s'') => (.ok (p :: ps), s'')
        | (.error e, s'') => (.error e, s'')
/-- `newParamObjectField` -/
def newParamField (env : TyEnv) : FieldMeta × GoT → PM Param
  | (m, t) => fun s =>
    if !m.exported then (.error .invalid0, s)
    else if m.tags.group != "" then newParamGroupedSlice env m t s
    else
      match newParam env t s with
      | (.error e, s') => (.error e, s')
      | (.ok (.single k _), s') =>
        match boolTag m.tags.optional with
        | .error e => (.error e, s')
        | .ok opt => (.ok (.single { k with name := m.tags.name } opt), s')
      | (.ok p, s') => (.ok p, s')
end

/-- `newParamList`: variadic arguments are dropped; errors are wrapped as "bad argument i" -/
def newParamListAux (env : TyEnv) : List GoT → PM (List Param)
  | [] => PM.pure []
  | t :: rest => fun s =>
    match newParam env t s with
    | (.error e, s') => (.error (.invalid e), s')
    | (.ok p, s') =>
      match newParamListAux env rest s' with
      | (.ok ps, s'') => (.ok (p :: ps), s'')
      | (.error e, s'') => (.error e, s'')

def newParamList (env : TyEnv) (fn : Fn) : PM (List Param) :=
  newParamListAux env (if fn.variadic then fn.ins.dropLast else fn.ins)

/-! ### Results -/

inductive Result where
  /-- `slot`: index of the leaf among the declared results; `decl`: declared Go type of the leaf -/
  | single (slot decl : Nat) (ty : Nat) (name : String) (as : List Nat)
  | grouped (slot decl : Nat) (ty : Nat) (group : String) (flatten : Bool) (as : List Nat)
  | object (ty : Nat) (fields : List Result)
  deriving Repr, Inhabited

structure ResultOpts where
  name  : String := ""
  group : String := ""
  as    : List Nat := []
  deriving Repr, Inhabited

mutual
/-- number of leaves of a declared type (slot numbering of PROTOCOL §2.3) -/
def leafCount : GoT → Nat
  | .univ _ => 1
  | .ptr _ _ => 1
  | .strct _ fs => leafCountFields fs
def leafCountFields : List (FieldMeta × GoT) → Nat
  | [] => 0
  | f :: rest => leafCountField f + leafCountFields rest
def leafCountField : FieldMeta × GoT → Nat
  | (_, t) => leafCount t
end

/-- the As loop shared by `newResultSingle` and the grouped case of `newResult` -/
def asTypes (env : TyEnv) (t : GoT) : List Nat → Except DErr (List Nat)
  | [] => .ok []
  | a :: rest =>
    if a == t.id then asTypes env t rest
    else if !implementsT env t a then .error .invalid0
    else match asTypes env t rest with
      | .ok r => .ok (a :: r)
      | .error e => .error e

/-- `newResultSingle` -/
def newResultSingle (env : TyEnv) (slot : Nat) (t : GoT) (o : ResultOpts) : Except DErr Result :=
  match asTypes env t o.as with
  | .error e => .error e
  | .ok [] => .ok (.single slot t.id t.id o.name [])
  | .ok (a :: rest) => .ok (.single slot t.id a o.name rest)

/-- the `len(opts.Group) > 0` case of `newResult` (after F6: flatten + As is rejected) -/
def newResultGroupOpt (env : TyEnv) (slot : Nat) (t : GoT) (o : ResultOpts) : Except DErr Result :=
  match parseGroupString o.group with
  | .error e => .error (.invalid e)
  | .ok g =>
    if g.flatten && !o.as.isEmpty then .error .invalid0
    else match asTypes env t o.as with
    | .error e => .error e
    | .ok as =>
      let ty := match as with | [] => t.id | a :: _ => a
      if g.soft then .error .invalid0
      else if g.flatten then
        if t.kind env != .slice then .error .invalid0
        else .ok (.grouped slot t.id ((t.elemId env).getD 0) g.name true as.tail)
      else .ok (.grouped slot t.id ty g.name false as.tail)

/-- `newResultGrouped` (group given by a field tag) -/
def newResultGrouped (env : TyEnv) (slot : Nat) (m : FieldMeta) (t : GoT) : Except DErr Result :=
  match parseGroupString m.tags.group with
  | .error e => .error e
  | .ok g =>
    if g.flatten && t.kind env != .slice then .error .invalid0
    else if g.soft then .error .invalid0
    else if m.tags.name != "" then .error .invalid0
    else if boolTagLax m.tags.optional then .error .invalid0
    else .ok (.grouped slot t.id (if g.flatten then (t.elemId env).getD 0 else t.id) g.name g.flatten [])

mutual
/-- `newResult` -/
def newResult (env : TyEnv) (o : ResultOpts) (slot : Nat) : GoT → Except DErr Result
  | .univ i =>
    let t := GoT.univ i
    if isInT t || ptrElem env isInT t || embeds tInPtr t then .error .invalid0
    else if isErrorT env t then .error .invalid0
    else if isOutT t then
      -- `dig.Out` itself
      if o.name != "" then .error .invalid0
      else if o.group != "" then .error .invalid0
      else .error (.invalid .invalid0)
    else if embeds tOutPtr t then .error .invalid0
    else if ptrElem env isOutT t then .error .invalid0
    else if o.group != "" then newResultGroupOpt env slot t o
    else newResultSingle env slot t o
  | .ptr i inner =>
    let t := GoT.ptr i inner
    if isInT inner || embeds tInPtr t then .error .invalid0
    else if isOutT inner then .error .invalid0
    else if o.group != "" then newResultGroupOpt env slot t o
    else newResultSingle env slot t o
  | .strct i fs =>
    let t := GoT.strct i fs
    if isInT t || embeds tInPtr t then .error .invalid0
    else if isOutT t then
      -- `newResultObject`
      if o.name != "" then .error .invalid0
      else if o.group != "" then .error .invalid0
      else match newResultFields env o slot fs with
        | .ok rs => .ok (.object i rs)
        | .error e => .error e
    else if embeds tOutPtr t then .error .invalid0
    else if o.group != "" then newResultGroupOpt env slot t o
    else newResultSingle env slot t o
def newResultFields (env : TyEnv) (o : ResultOpts) (slot : Nat) : List (FieldMeta × GoT) → Except DErr (List Result)
  | [] => .ok []
  | f :: rest =>
    if f.2.isUniv tOut then newResultFields env o (slot + 1) rest
    else match newResultField env o slot f with
      | .error e => .error (.invalid e)
      | .ok r =>
        match newResultFields env o (slot + leafCountField f) rest with
        | .ok rs => .ok (r :: rs)
        | .error e => .error e
/-- `newResultObjectField` -/
def newResultField (env : TyEnv) (o : ResultOpts) (slot : Nat) : FieldMeta × GoT → Except DErr Result
  | (m, t) =>
    if !m.exported then .error .invalid0
    else if m.tags.group != "" then newResultGrouped env slot m t
    else newResult env (if m.tags.name != "" then { o with name := m.tags.name } else o) slot t
end

/-- one declared result position: a value result or an `error` -/
inductive RSlot where
  | val (r : Result)
  | err
  deriving Repr, Inhabited

/-- `newResultList`: `error`-typed results get index -1, others are parsed -/
def newResultListAux (env : TyEnv) (o : ResultOpts) : Nat → List GoT → Except DErr (List RSlot)
  | _, [] => .ok []
  | slot, t :: rest =>
    if isErrorT env t then
      match newResultListAux env o (slot + leafCount t) rest with
      | .ok rs => .ok (.err :: rs)
      | .error e => .error e
    else match newResult env o slot t with
      | .error e => .error (.invalid e)
      | .ok r =>
        match newResultListAux env o (slot + leafCount t) rest with
        | .ok rs => .ok (.val r :: rs)
        | .error e => .error e

def newResultList (env : TyEnv) (o : ResultOpts) (fn : Fn) : Except DErr (List RSlot) :=
  newResultListAux env o 0 fn.outs

/-! ### provideOptions.Validate -/

def hasBackquote (s : String) : Bool := s.contains '`'

def validateAs (env : TyEnv) : List AsArg → Except DErr (List Nat)
  | [] => .ok []
  | .nil :: _ => .error .invalid0
  | .val _ :: _ => .error .invalid0
  | .ptrTo _ :: _ => .error .invalid0
  | .iface i :: rest =>
    if kindOfId env i != .iface then .error .invalid0
    else match validateAs env rest with
      | .ok r => .ok (i :: r)
      | .error e => .error e

/-- `provideOptions.Validate`; returns the As interface ids -/
def validateOpts (env : TyEnv) (o : ProvideOpts) : Except DErr (List Nat) :=
  if o.group != "" && o.name != "" then .error .invalid0
  else if hasBackquote o.name then .error .invalid0
  else if hasBackquote o.group then .error .invalid0
  else validateAs env o.as

end Dig
