import DigModel.Reflect
import DigModel.Graph
/-
  Container state: scope tree, per-scope maps, constructor / decorator nodes,
  graph holders, event log (scope.go, constructor.go, decorate.go, graph.go).
-/
namespace Dig

/-- association lists standing in for Go maps -/
def aget {β : Type} (l : List (Key × β)) (k : Key) : Option β :=
  match l with
  | [] => none
  | (k', v) :: rest => if k' == k then some v else aget rest k

def aset {β : Type} (l : List (Key × β)) (k : Key) (v : β) : List (Key × β) :=
  match l with
  | [] => [(k, v)]
  | (k', v') :: rest => if k' == k then (k', v) :: rest else (k', v') :: aset rest k v

/-- `providers[k]` with a missing entry read as the empty slice -/
def agetL {β : Type} (l : List (Key × List β)) (k : Key) : List β := (aget l k).getD []

/-- `orders map[*Scope]int`: a missing entry reads as 0, as a Go map does -/
def orderOf (orders : List (Nat × Nat)) (s : Nat) : Nat :=
  match orders with
  | [] => 0
  | (s', o) :: rest => if s' == s then o else orderOf rest s

def setOrder (orders : List (Nat × Nat)) (s o : Nat) : List (Nat × Nat) :=
  match orders with
  | [] => [(s, o)]
  | (s', o') :: rest => if s' == s then (s', o) :: rest else (s', o') :: setOrder rest s o

inductive GNode where
  | ctor (n : Nat)
  | pg (i : Nat)
  deriving Repr, DecidableEq, Inhabited

structure ScopeSt where
  parent          : Option Nat
  children        : List Nat := []
  providers       : List (Key × List Nat) := []
  decorators      : List (Key × Nat) := []
  values          : List (Key × Val) := []
  decoratedValues : List (Key × Val) := []
  groups          : List (Key × List Val) := []
  decoratedGroups : List (Key × Val) := []
  /-- `s.nodes`: accepted constructors, for Visualize -/
  nodes           : List Nat := []
  /-- `s.gh.nodes` -/
  gh              : List GNode := []
  verified        : Bool := false
  deriving Repr, Inhabited

structure CtorNode where
  fn      : Fn
  params  : List Param
  results : List RSlot
  s       : Nat
  origS   : Nat
  called  : Bool := false
  /-- the arguments of this constructor are being built (repair of F8/F9) -/
  onStack : Bool := false
  cb      : Option Nat := none
  orders  : List (Nat × Nat) := []
  deriving Repr, Inhabited

inductive DecoState where
  | ready | onStack | called
  deriving Repr, DecidableEq, Inhabited

structure DecoNode where
  fn      : Fn
  params  : List Param
  results : List RSlot
  s       : Nat
  state   : DecoState := .ready
  cb      : Option Nat := none
  deriving Repr, Inhabited

structure PGNode where
  desc   : PGDesc
  orders : List (Nat × Nat) := []
  deriving Repr, Inhabited

inductive ExitKind where
  | ok | err | panic
  deriving Repr, DecidableEq, Inhabited

/-- which node of the container a user function is executed for (not visible in Go;
    carried by the model's events so that theorems can speak about nodes) -/
inductive Who where
  | ctor (n : Nat)
  | deco (d : Nat)
  | invoked
  deriving Repr, DecidableEq, Inhabited

inductive Event where
  | enter (who : Who) (f x : Nat) (args : List Val)
  | exit (who : Who) (f x : Nat) (r : ExitKind)
  | cb (op : Nat) (who : Who) (fn : Nat) (err : Option DErr) (rt : Nat)
  deriving Repr, Inhabited

structure St where
  scopes : List ScopeSt := [{ parent := none }]
  ctors  : List CtorNode := []
  decos  : List DecoNode := []
  pgs    : List PGNode := []
  execs  : List (Nat × Nat) := []
  clock  : Nat := 0
  /-- events of the current operation -/
  log    : List Event := []
  /-- all events since the container was created (not visible in Go; lets theorems speak about whole histories) -/
  hist   : List Event := []
  deriving Repr, Inhabited

def St.scope (st : St) (s : Nat) : ScopeSt := st.scopes.getD s { parent := none }

def St.modScope (st : St) (s : Nat) (f : ScopeSt → ScopeSt) : St :=
  { st with scopes := st.scopes.modify s f }

def St.modCtor (st : St) (n : Nat) (f : CtorNode → CtorNode) : St :=
  { st with ctors := st.ctors.modify n f }

def St.modDeco (st : St) (d : Nat) (f : DecoNode → DecoNode) : St :=
  { st with decos := st.decos.modify d f }

def St.ctor (st : St) (n : Nat) : CtorNode := st.ctors.getD n default
def St.deco (st : St) (d : Nat) : DecoNode := st.decos.getD d default

/-- `Scope.ancestors`: the scope itself first, the root last -/
def ancestorsAux (scopes : List ScopeSt) : Nat → Nat → List Nat
  | 0, _ => []
  | fuel + 1, s =>
    match scopes[s]? with
    | none => []
    | some sc => s :: (match sc.parent with | none => [] | some p => ancestorsAux scopes fuel p)

def St.ancestors (st : St) (s : Nat) : List Nat := ancestorsAux st.scopes st.scopes.length s

/-- `appendSubscopes`: the scope and all its descendants, pre-order -/
def subscopesAux (scopes : List ScopeSt) : Nat → Nat → List Nat
  | 0, _ => []
  | fuel + 1, s =>
    match scopes[s]? with
    | none => []
    | some sc => s :: sc.children.flatMap (subscopesAux scopes fuel)

def St.subscopes (st : St) (s : Nat) : List Nat := subscopesAux st.scopes st.scopes.length s

/-- `getAllProviders`: providers of `k` in the scope and its ancestors, nearest first -/
def St.allProviders (st : St) (s : Nat) (k : Key) : List Nat :=
  (st.ancestors s).flatMap fun a => agetL (st.scope a).providers k

def St.execCount (st : St) (f : Nat) : Nat :=
  match st.execs.find? (·.1 == f) with | some (_, c) => c | none => 0

def St.bumpExec (st : St) (f : Nat) : St :=
  if st.execs.any (·.1 == f) then
    { st with execs := st.execs.map fun (g, c) => if g == f then (g, c + 1) else (g, c) }
  else { st with execs := st.execs ++ [(f, 1)] }

def St.emit (st : St) (e : Event) : St := { st with log := st.log ++ [e], hist := st.hist ++ [e] }

/-! ### graph holder -/

/-- `getParamOrder` -/
def paramOrders (st : St) (s : Nat) : Param → List Nat
  | .single k _ => (st.allProviders s k).map fun n => orderOf (st.ctor n).orders s
  | .grouped _ _ _ pg => [orderOf (st.pgs.getD pg default).orders s]
  | .object _ fs => paramOrdersList st s fs
where paramOrdersList (st : St) (s : Nat) : List Param → List Nat
  | [] => []
  | p :: ps => paramOrders st s p ++ paramOrdersList st s ps

/-- `graphHolder.EdgesFrom` for the holder of scope `s` -/
def edgesFrom (st : St) (s : Nat) (u : Nat) : List Nat :=
  match (st.scope s).gh[u]? with
  | some (.ctor n) => paramOrders.paramOrdersList st s (st.ctor n).params
  | some (.pg i) =>
    let d := (st.pgs.getD i default).desc
    (st.allProviders s { ty := d.elem, name := "", group := d.group }).map
      fun n => orderOf (st.ctor n).orders s
  | none => []

/-- `newGraphNode`: append the node to the holder of `s` and of every descendant, recording the orders -/
def St.newGraphNode (st : St) (s : Nat) (node : GNode) : St :=
  (st.subscopes s).foldl (fun st sc =>
    let o := (st.scope sc).gh.length
    let st := st.modScope sc fun x => { x with gh := x.gh ++ [node] }
    match node with
    | .ctor n => st.modCtor n fun c => { c with orders := setOrder c.orders sc o }
    | .pg i => { st with pgs := st.pgs.modify i fun p => { p with orders := setOrder p.orders sc o } }) st

inductive CycleRes where
  | acyclic
  | cycle (path : List Nat)
  | outOfRange
  | fuel
  deriving Repr, DecidableEq

/-- `graph.IsAcyclic(s.gh)` -/
def checkAcyclic (st : St) (s : Nat) : CycleRes :=
  let n := (st.scope s).gh.length
  if (List.range n).any (fun u => (edgesFrom st s u).any (fun v => decide (n ≤ v))) then .outOfRange
  else match Dfs.isAcyclic (edgesFrom st s) n with
    | .ok _ => .acyclic
    | .cycle p => .cycle p
    | .oof => .fuel

/-- `cycleDetectedError`: only constructor nodes appear in the path -/
def cyclePath (st : St) (s : Nat) (p : List Nat) : List Nat :=
  p.filterMap fun u => match (st.scope s).gh[u]? with | some (GNode.ctor n) => some n | _ => none

end Dig
