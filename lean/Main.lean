import DigModel.Json

partial def loop (hin hout : IO.FS.Stream) : IO Unit := do
  let line ← hin.getLine
  if line.isEmpty then return ()
  let t := line.trimAscii.toString
  if t.isEmpty then loop hin hout else
  hout.putStrLn (Dig.handleLine t)
  hout.flush
  loop hin hout

def main : IO Unit := do
  loop (← IO.getStdin) (← IO.getStdout)
