#!/bin/sh
# Builds digexec and runs the smoke programs through the plain worker and the
# supervisor; prints every response so that a human can eyeball them.
set -e
cd "$(dirname "$0")"
export GOFLAGS=-mod=mod GOPROXY=off GOSUMDB=off GOTOOLCHAIN=local
go build -tags verif -o digexec ./cmd/digexec
go test -tags verif ./... >/dev/null

echo "== digexec -types"
./digexec -types

echo "== worker: testdata/smoke.jsonl"
./digexec < testdata/smoke.jsonl > /tmp/digexec.worker.out
cat /tmp/digexec.worker.out

echo "== supervisor: same input must give the same output"
./digexec -supervise < testdata/smoke.jsonl > /tmp/digexec.super.out
cmp /tmp/digexec.worker.out /tmp/digexec.super.out && echo identical

echo "== supervisor: stack overflow (F8) / survivor / garbage line"
TYPES=$(./digexec -types)
F8='{"kind":"prog","cfg":{"defer":false,"recover":false,"dry":false},"types":'$TYPES',"fns":[{"id":1,"name":"F1","in":[{"u":10}],"variadic":false,"out":[{"u":12}]},{"id":2,"name":"F2","in":[{"u":11}],"variadic":false,"out":[{"u":13}]},{"id":3,"name":"F3","in":[{"u":13}],"variadic":false,"out":[{"u":10}]},{"id":4,"name":"F4","in":[{"u":12}],"variadic":false,"out":[{"u":11}]},{"id":5,"name":"F5","in":[{"u":12}],"variadic":false,"out":[]}],"script":{},"ops":[{"op":"scope","parent":0},{"op":"scope","parent":0},{"op":"provide","scope":1,"fn":1,"name":"","group":"","as":[],"export":true,"cb":false,"info":false,"opts":["export"]},{"op":"provide","scope":2,"fn":2,"name":"","group":"","as":[],"export":true,"cb":false,"info":false,"opts":["export"]},{"op":"provide","scope":1,"fn":3,"name":"","group":"","as":[],"export":false,"cb":false,"info":false,"opts":[]},{"op":"provide","scope":2,"fn":4,"name":"","group":"","as":[],"export":false,"cb":false,"info":false,"opts":[]},{"op":"invoke","scope":1,"fn":5,"info":false}]}'
{
  echo "$F8"
  echo '{"kind":"graph","n":2,"succ":[[1],[0]]}'
  echo 'this is not json'
  echo '{"kind":"graph","n":2,"succ":[[1],[]]}'
} | ./digexec -supervise -timeout 30s | cut -c1-400
echo "== done"
