// Package m2gen holds Go source generated from protocol programs (tools/m2gen.py):
// declared struct types and declared functions, registered with package exec.
// gen.go is rewritten by every check that uses the generated-source mode.
package m2gen
