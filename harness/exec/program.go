// Package exec executes protocol programs (PROTOCOL.md) on the real dig
// library and produces the response trace.
package exec

import (
	"encoding/json"
	"fmt"
	"go.uber.org/dig"
	"runtime"
)

// Request is one input line.
type Request struct {
	Kind string `json:"kind"`

	// graph
	N    int     `json:"n"`
	Succ [][]int `json:"succ"`

	// label: the DOT attributes of a result node (Who "result") or of a group node (Who "group") of universe type Ty,
	// whose name as package reflect prints it must be TStr (that string is what the model is given)
	Who   string `json:"who"`
	Ty    int    `json:"ty"`
	TStr  string `json:"tstr"`
	Name  string `json:"name"`
	Group string `json:"group"`
	Err   int    `json:"err"`

	// tag: What = "group" (parseGroupString on S), "optional" / "ignore-unexported" (the boolean struct tags, value S),
	// "opts" (provideOptions.Validate for Name and Group)
	What string `json:"what"`
	S    string `json:"s"`

	// prog
	Cfg    Cfg              `json:"cfg"`
	Types  json.RawMessage  `json:"types"` // facts for the model; the executor asks reflect
	Fns    []Fn             `json:"fns"`
	Script map[string][]Beh `json:"script"`
	Ops    []Op             `json:"ops"`

	// M2 (generated-source mode): key under which the program's declared
	// functions and struct types were compiled in (package m2gen); "" = reflect mode.
	M2 string `json:"m2"`
}

type Cfg struct {
	Defer   bool `json:"defer"`
	Recover bool `json:"recover"`
	Dry     bool `json:"dry"`
	// OptSeq, when present, is the exact sequence of options handed to dig.New: ["dry",b] = DryRun(b),
	// ["defer",true] = DeferAcyclicVerification(), ["recover",true] = RecoverFromPanics().  The last DryRun counts;
	// the effective configuration must be the one the three fields state (what the model reads).
	OptSeq [][]interface{} `json:"optseq"`
}

// GoT is a Go type expression: exactly one of U, Ptr, St is set.
type GoT struct {
	U   *int     `json:"u"`
	Ptr *GoT     `json:"ptr"`
	St  *[]Field `json:"st"`
	ID  int      `json:"id"`
}

type Field struct {
	N    string            `json:"n"`
	X    bool              `json:"x"`
	Anon bool              `json:"anon"`
	T    GoT               `json:"t"`
	Tags map[string]string `json:"tags"`
}

type Fn struct {
	ID       int     `json:"id"`
	Name     string  `json:"name"`
	NonFunc  *string `json:"nonfunc"`
	In       []GoT   `json:"in"`
	Variadic bool    `json:"variadic"`
	Out      []GoT   `json:"out"`
}

type Beh struct {
	K     string `json:"k"`
	Len   *int   `json:"len"`
	Dt    int    `json:"dt"`
	ESlot int    `json:"eslot"`
	// TNil (with K == "err"): the error returned is a typed nil pointer, `(*NilErr)(nil)` -- a non-nil error value.
	TNil bool `json:"tnil"`
	// Re makes the function call back into the container while it is running: it invokes function Fn on
	// scope Scope between its enter and its exit event (programs with such behaviours are judged by the
	// trace predicates only; the model has no re-entrant user functions).
	Re *ReCall `json:"re"`
}

// ReCall describes a nested Invoke made from inside a user function.
type ReCall struct {
	Scope int `json:"scope"`
	Fn    int `json:"fn"`
}

func (b Beh) length() int {
	if b.Len == nil {
		return 1
	}
	if *b.Len < 0 {
		return 0
	}
	return *b.Len
}

type AsArg struct {
	Iface *int  `json:"iface"`
	Nil   *bool `json:"nil"`
	Val   *int  `json:"val"`
	PtrTo *int  `json:"ptrTo"`
}

type Op struct {
	Op     string  `json:"op"`
	Parent int     `json:"parent"`
	Scope  int     `json:"scope"`
	Fn     int     `json:"fn"`
	Name   string  `json:"name"`
	Group  string  `json:"group"`
	As     []AsArg `json:"as"`
	Export bool    `json:"export"`
	// Exports, when present, makes the executor pass dig.Export once per element, in order (the last one counts
	// and equals Export)
	Exports []bool `json:"exports"`
	Cb      bool   `json:"cb"`
	// Loc (with "loc" among opts): dig.LocationForPC(code pointer of function Loc) is passed to Provide
	Loc int `json:"loc"`
	// CbPanic k > 0: the callback registered by this operation panics on its k-th call (unmodelled programs only)
	CbPanic int      `json:"cbpanic"`
	Info    bool     `json:"info"`
	Opts    []string `json:"opts"`
	ErrOf   *int     `json:"errOf"`
}

func (o Op) hasOpt(name string) bool {
	for _, s := range o.Opts {
		if s == name {
			return true
		}
	}
	return false
}

// ---- responses ----

// GraphRes answers a graph request.
type GraphRes struct {
	OK    bool  `json:"ok"`
	Cycle []int `json:"cycle"`
}

// LabelRes answers a label request.
type LabelRes struct {
	Text string `json:"text"`
}

// TagRes answers a tag request.
type TagRes struct {
	Err     string `json:"err"` // "" | "invalid" | "groupOpt" | "other"
	Name    string `json:"name"`
	Flatten bool   `json:"flatten"`
	Soft    bool   `json:"soft"`
	Val     bool   `json:"val"`
}

// ProgRes answers a program request.
type ProgRes struct {
	Ops      []*OpRes `json:"ops"`
	Fatal    *string  `json:"fatal"`
	FatalMsg string   `json:"fatalMsg,omitempty"`
}

// OpRes is the trace of one op.
type OpRes struct {
	V        interface{}       `json:"v"` // "ok" | "badop" | "unbuildable" | {"err":ErrC} | {"panic":...}
	Ev       []json.RawMessage `json:"ev"`
	Info     *Info             `json:"info"`
	Dot      interface{}       `json:"dot"`
	DotText  *string           `json:"dotText,omitempty"`
	DotNames *DotNames         `json:"dotNames,omitempty"`
	VizJoin  *VizJoin          `json:"vizJoin,omitempty"`
	PanicMsg string            `json:"panicMsg,omitempty"`
}

// VizJoin is what Visualize and CanVisualizeError do with the error of a failed Invoke wrapped in a multi-error.
type VizJoin struct {
	Can   bool   `json:"can"`
	Same  bool   `json:"same"`
	Panic string `json:"panic,omitempty"`
}

// DotNames is what package reflect and the runtime know about a picture and the model does not (K-dottext):
// Type.String() of every type of the program, Name and Package of the constructors of createGraph, in order.
type DotNames struct {
	Types [][]interface{} `json:"types"` // [id, "string"]
	Ctors [][2]string     `json:"ctors"`
}

type verdictErr struct {
	Err *ErrC `json:"err"`
}

type verdictPanic struct {
	Panic string `json:"panic"`
}

// ErrC is the classification of a returned error (PROTOCOL §3).
type ErrC struct {
	Chain   []string        `json:"chain"`
	Root    string          `json:"root"`
	Is      bool            `json:"is"`
	Cyc     bool            `json:"cyc"`
	Viz     bool            `json:"viz"`
	Missing [][]interface{} `json:"missing"`
	CycLen  int             `json:"cycLen"`
}

// Info is the content of a Provide/Decorate/InvokeInfo.
type Info struct {
	ID  int             `json:"id"`
	In  [][]interface{} `json:"in"`
	Out [][]interface{} `json:"out"`
}

// FatalRes builds a program response that only carries a fatal verdict.
func FatalRes(kind, msg string) *ProgRes {
	return &ProgRes{Ops: []*OpRes{}, Fatal: &kind, FatalMsg: msg}
}

// UserErr is the error returned by scripted functions.
type UserErr struct{ Fn, X int }

func (e *UserErr) Error() string { return fmt.Sprintf("user error %d:%d", e.Fn, e.X) }

// NilErr is the error type of which scripted functions return the typed nil pointer: `var e *NilErr; return v, e`.
// The interface value is not nil, so the function has failed.  Its methods do not touch the receiver.
type NilErr struct{ _ int }

func (e *NilErr) Error() string { return "typed nil error" }

// Code makes *NilErr implement pool.EI.
func (e *NilErr) Code() int { return -1 }

// Code makes *UserErr implement pool.EI, the user-defined error interface of the universe.
func (e *UserErr) Code() int { return e.X }

// UserPanic is the value scripted functions panic with.
type UserPanic struct{ Fn, X int }

func (p UserPanic) String() string { return fmt.Sprintf("user panic %d:%d", p.Fn, p.X) }

// UserPanicErr is a panic value that is itself an error and wraps another error (a genuine dig error:
// a constructor that panics with the failure of a private sub-container).  dig must treat it as an
// opaque panic value: the PanicError it reports is the root cause, whatever the value wraps.
type UserPanicErr struct {
	UserPanic
	Inner error
}

func (p UserPanicErr) Error() string { return fmt.Sprintf("user panic %d:%d: %v", p.Fn, p.X, p.Inner) }
func (p UserPanicErr) Unwrap() error { return p.Inner }

// asUserPanic recognises both forms of scripted panic values.
func asUserPanic(v interface{}) (UserPanic, bool) {
	switch p := v.(type) {
	case UserPanic:
		return p, true
	case UserPanicErr:
		return p.UserPanic, true
	case UserPanicRt:
		return p.UserPanic, true
	}
	return UserPanic{}, false
}

type subA struct{}
type subB struct{}

// genuine dig errors for UserPanicErr to wrap: a missing-type failure and a cycle rejection
var subMissingErr = func() error {
	return dig.New().Invoke(func(*subA) {})
}()
var subCycleErr = func() error {
	c := dig.New()
	if err := c.Provide(func(*subB) *subA { return nil }); err != nil {
		return err
	}
	return c.Provide(func(*subA) *subB { return nil })
}()

// UserPanicRt is a panic value of the kind the Go runtime raises: it implements runtime.Error.
type UserPanicRt struct{ UserPanic }

func (p UserPanicRt) Error() string {
	return fmt.Sprintf("runtime error of function %d, execution %d", p.Fn, p.X)
}

// RuntimeError makes UserPanicRt a runtime.Error.
func (UserPanicRt) RuntimeError() {}

var _ runtime.Error = UserPanicRt{}

// panicValue picks the form of the panic value of execution x of function f.
func panicValue(f, x int) interface{} {
	up := UserPanic{Fn: f, X: x}
	if (f+x)%4 == 3 {
		// what the Go runtime raises (a nil map write, an index out of range): a runtime.Error
		return UserPanicRt{up}
	}
	switch (f + x) % 3 {
	case 1:
		return UserPanicErr{up, subMissingErr}
	case 2:
		return UserPanicErr{up, subCycleErr}
	}
	return up
}
