package exec

import (
	"fmt"
	"reflect"
	"sort"
	"strings"

	"go.uber.org/dig"

	"verif/harness/pool"
)

// producer creates the values returned by one execution (PROTOCOL §2.3).
type producer struct {
	f, x int
	n    int // length of every top-level slice value
	slot int // next leaf number
	// zero (PROTOCOL §2.3, len = 1000+n): every value is the zero value of its type -- nil pointers, nil interfaces,
	// zero structs -- and slices have n zero elements
	zero bool
}

// newProducer reads the behaviour's length: 1000+n asks for zero values.
func newProducer(f, x, length int) producer {
	if length >= 1000 {
		return producer{f: f, x: x, n: length - 1000, zero: true}
	}
	return producer{f: f, x: x, n: length}
}

// fill sets dst (of a declared result type) and advances the slot counter.
// Leaves are: every universe type, every non-struct composite type, and every
// struct that is not a result object (a plain struct is one value to dig: it is
// left zero, like the model's value of a type outside the universe).
// Result objects are flattened field by field whatever their exportedness;
// values below an unexported field are counted but not set.
func (p *producer) fill(dst reflect.Value, settable bool) {
	t := dst.Type()
	if id, ok := pool.ID(t); ok {
		slot := p.slot
		p.slot++
		if settable {
			dst.Set(p.leaf(t, id, slot))
		}
		return
	}
	if t.Kind() == reflect.Struct && dig.IsOut(t) {
		for i := 0; i < t.NumField(); i++ {
			p.fill(dst.Field(i), settable && t.Field(i).PkgPath == "")
		}
		return
	}
	p.slot++ // composite pointer: nil; plain struct: zero
}

func (p *producer) leaf(t reflect.Type, id, slot int) reflect.Value {
	if p.zero {
		if t.Kind() == reflect.Slice {
			return reflect.MakeSlice(t, p.n, p.n) // n zero elements
		}
		return reflect.Zero(t)
	}
	if t.Kind() == reflect.Slice {
		s := reflect.MakeSlice(t, p.n, p.n)
		for i := 0; i < p.n; i++ {
			s.Index(i).Set(element(t.Elem(), pool.Token{F: p.f, X: p.x, S: slot, I: i}))
		}
		return s
	}
	if id == pool.IDInt {
		return reflect.ValueOf(p.f*1000000 + p.x*10000 + slot*100)
	}
	return element(t, pool.Token{F: p.f, X: p.x, S: slot, I: 0})
}

// element builds a token-carrying value of type t. A slice type in element
// position gets exactly one element carrying the same token.
func element(t reflect.Type, tok pool.Token) reflect.Value {
	switch t.Kind() {
	case reflect.Ptr:
		if isTn(t) {
			v := reflect.New(t.Elem())
			v.Elem().Field(0).Set(reflect.ValueOf(tok))
			return v
		}
	case reflect.Interface:
		if t != pool.ErrorType {
			if impl := lowestImpl(t); impl != nil {
				v := reflect.New(t).Elem()
				v.Set(element(impl, tok))
				return v
			}
		}
	case reflect.Struct:
		if t == pool.S0Type {
			return reflect.ValueOf(pool.S0{Tok: tok})
		}
	case reflect.Slice:
		s := reflect.MakeSlice(t, 1, 1)
		s.Index(0).Set(element(t.Elem(), tok))
		return s
	}
	return reflect.Zero(t) // error, dig.In/Out, *dig.In/*dig.Out, int in element position
}

func isTn(t reflect.Type) bool {
	id, ok := pool.ID(t)
	return ok && id >= pool.IDT0Ptr && id < pool.IDT0Ptr+8
}

// lowestImpl returns the lowest-id *Tn implementing iface.
func lowestImpl(iface reflect.Type) reflect.Type {
	for n := 0; n < 8; n++ {
		t, _ := pool.Type(pool.IDT0Ptr + n)
		if t.Implements(iface) {
			return t
		}
	}
	return nil
}

// render prints v (whose static type is the declared parameter / field / element
// type) as the compact JSON text of a protocol Val.
func (r *run) render(v reflect.Value) string {
	t := v.Type()
	switch t.Kind() {
	case reflect.Ptr:
		if v.IsNil() {
			return fmt.Sprintf(`{"zero":%d}`, r.ts.id(t))
		}
		if isTn(t) {
			return tokJSON(v.Elem().Field(0).Interface().(pool.Token))
		}
		return fmt.Sprintf(`{"nonnil":%d}`, r.ts.id(t)) // never produced by scripted functions
	case reflect.Interface:
		if v.IsNil() {
			return fmt.Sprintf(`{"zero":%d}`, r.ts.id(t))
		}
		return r.render(v.Elem()) // dynamic value (a *Tn, or e.g. an NS0 provided As I0)
	case reflect.Slice:
		elems := make([]string, v.Len())
		for i := range elems {
			elems[i] = r.render(v.Index(i))
		}
		sort.Strings(elems) // bytewise
		return `{"sl":[` + strings.Join(elems, ",") + `]}`
	case reflect.Struct:
		if t == pool.S0Type {
			tok := v.Field(0).Interface().(pool.Token)
			if tok == (pool.Token{}) {
				return fmt.Sprintf(`{"zero":%d}`, pool.IDS0)
			}
			return tokJSON(tok)
		}
		if t == pool.InType || t == pool.OutType {
			return fmt.Sprintf(`{"zero":%d}`, r.ts.id(t))
		}
		if !dig.IsIn(t) && !dig.IsOut(t) && v.IsZero() {
			return fmt.Sprintf(`{"zero":%d}`, r.ts.id(t)) // a plain struct is a single value
		}
		var fields []string
		for i := 0; i < t.NumField(); i++ {
			f := t.Field(i)
			if f.PkgPath != "" || f.Type == pool.InType || f.Type == pool.OutType {
				continue
			}
			fields = append(fields, r.render(v.Field(i)))
		}
		return `{"obj":[` + strings.Join(fields, ",") + `]}`
	case reflect.Array:
		// arrays of the universe are only ever zero (never inspect them: Huge has 2^61 elements)
		if id := r.ts.id(t); id >= 0 {
			return fmt.Sprintf(`{"zero":%d}`, id)
		}
	case reflect.Int:
		if v.Int() == 0 {
			return fmt.Sprintf(`{"zero":%d}`, pool.IDInt)
		}
		return fmt.Sprintf(`{"int":%d}`, v.Int())
	}
	// the remaining kinds of the universe (named integers, channels, maps, function values) are only ever zero
	if id := r.ts.id(t); id >= 0 && v.IsZero() {
		return fmt.Sprintf(`{"zero":%d}`, id)
	}
	return fmt.Sprintf(`{"unk":%q}`, t.String())
}

func tokJSON(t pool.Token) string {
	return fmt.Sprintf(`{"tok":[%d,%d,%d,%d]}`, t.F, t.X, t.S, t.I)
}
