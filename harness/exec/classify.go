package exec

import (
	"errors"
	"fmt"
	"reflect"
	"unsafe"

	"go.uber.org/dig"
	"verif/harness/pool"
)

var kindByType = map[string]string{
	"dig.errProvide":             "provide",
	"dig.errInvalidInput":        "invalid",
	"dig.errConstructorFailed":   "ctorFailed",
	"dig.errArgumentsFailed":     "argsFailed",
	"dig.errMissingDependencies": "missingDeps",
	"dig.errParamSingleFailed":   "paramSingle",
	"dig.errParamGroupFailed":    "paramGroup",
	"dig.errMissingTypes":        "missingTypes",
	"dig.errCycleDetected":       "cycle",
	"dig.errInvalidGroupOption":  "groupOpt",
	"dig.PanicError":             "panicErr",
	"*exec.UserErr":              "user",
	"*exec.NilErr":               "user",
	"pool.VErr":                  "user",
}

func kindOf(err error) string {
	if k, ok := kindByType[fmt.Sprintf("%T", err)]; ok {
		return k
	}
	return "foreign"
}

// classify computes the ErrC of a non-nil error.
func (r *run) classify(err error) *ErrC {
	c := &ErrC{Chain: []string{}, Missing: [][]interface{}{}}
	var innermost error
	for e := err; e != nil; e = errors.Unwrap(e) {
		k := kindOf(e)
		c.Chain = append(c.Chain, k)
		innermost = e
		switch k {
		case "missingTypes":
			c.Missing = r.missingKeys(e) // overwritten by deeper ones: innermost wins
		case "cycle":
			c.CycLen = reflect.ValueOf(e).FieldByName("Path").Len()
		}
	}

	root := dig.RootCause(err)
	var de dig.Error
	switch {
	case errors.As(root, &de):
		c.Root = "dig"
	default:
		c.Root = "foreign"
		if ue, ok := root.(*UserErr); ok {
			c.Root = fmt.Sprintf("user:%d:%d", ue.Fn, ue.X)
		} else if ne, ok := root.(*NilErr); ok && ne == nil {
			c.Root = fmt.Sprintf("user:%d:%d", r.lastNil[0], r.lastNil[1])
		} else if ve, ok := root.(pool.VErr); ok {
			c.Root = fmt.Sprintf("user:%d:%d", ve.Code>>20, ve.Code&(1<<20-1))
		} else if pe, ok := root.(dig.PanicError); ok {
			if up, ok := asUserPanic(pe.Panic); ok {
				c.Root = fmt.Sprintf("panic:%d:%d", up.Fn, up.X)
			}
		}
	}

	if ue, ok := innermost.(*UserErr); ok && r.userErrs[[2]int{ue.Fn, ue.X}] == ue {
		c.Is = errors.Is(err, ue)
	} else if ne, ok := innermost.(*NilErr); ok && ne == nil {
		c.Is = errors.Is(err, error((*NilErr)(nil)))
	} else if ve, ok := innermost.(pool.VErr); ok {
		c.Is = errors.Is(err, ve)
	}
	c.Cyc = dig.IsCycleDetected(err)
	c.Viz = dig.CanVisualizeError(err)
	return c
}

// missingKeys extracts [[typeId,"name"],…] from a dig.errMissingTypes value
// (a slice of struct{ Key key; suggestions []key }, key = struct{ t reflect.Type; name, group string }).
func (r *run) missingKeys(e error) [][]interface{} {
	out := [][]interface{}{}
	rv := reflect.ValueOf(e)
	for i := 0; i < rv.Len(); i++ {
		key := rv.Index(i).FieldByName("Key")
		t, _ := peek(key.FieldByName("t")).(reflect.Type)
		out = append(out, []interface{}{r.ts.id(t), key.FieldByName("name").String()})
	}
	return out
}

// peek reads an addressable value obtained through unexported fields.
func peek(v reflect.Value) interface{} {
	return reflect.NewAt(v.Type(), unsafe.Pointer(v.UnsafeAddr())).Elem().Interface()
}

// inputs converts []*dig.Input.
func (r *run) inputs(ins []*dig.Input) [][]interface{} {
	out := [][]interface{}{}
	for _, in := range ins {
		v := reflect.ValueOf(in).Elem()
		t, _ := peek(v.FieldByName("t")).(reflect.Type)
		name, group, optional := v.FieldByName("name").String(), v.FieldByName("group").String(), v.FieldByName("optional").Bool()
		out = append(out, checkInfoString([]interface{}{r.ts.id(t), name, group, optional}, in.String(), t, optional, name, group))
	}
	return out
}

// outputs converts []*dig.Output.
func (r *run) outputs(outs []*dig.Output) [][]interface{} {
	out := [][]interface{}{}
	for _, o := range outs {
		v := reflect.ValueOf(o).Elem()
		t, _ := peek(v.FieldByName("t")).(reflect.Type)
		name, group := v.FieldByName("name").String(), v.FieldByName("group").String()
		out = append(out, checkInfoString([]interface{}{r.ts.id(t), name, group}, o.String(), t, false, name, group))
	}
	return out
}
