package exec

import (
	"fmt"
	"reflect"
	"regexp"
	"strconv"
)

// Generated-source mode (M2): programs whose functions are *declared* Go
// functions and whose composite types are *declared* struct types, compiled into
// the executor (package m2gen, build tag m2). Distinct functions then have
// distinct code pointers (dig constructor IDs) and real runtime names.

var (
	m2Funcs = map[string]map[int]interface{}{}
	m2Cur   *run // the run currently executing (the executor is single-threaded per process)
)

// M2Register records the declared function for (program key, fn id).
func M2Register(key string, fn int, f interface{}) {
	if m2Funcs[key] == nil {
		m2Funcs[key] = map[int]interface{}{}
	}
	m2Funcs[key][fn] = f
}

// M2Call is what every generated function body does: hand the arguments to the
// scripted body of the running program.
func M2Call(key string, fn int, args ...interface{}) []reflect.Value {
	r := m2Cur
	if r == nil || r.req.M2 != key {
		panic(fmt.Sprintf("m2: function %s/%d called outside its program", key, fn))
	}
	fs := r.fns[fn]
	vals := make([]reflect.Value, len(args))
	for i, a := range args {
		v := reflect.ValueOf(a)
		if !v.IsValid() {
			// a nil interface argument: use the declared parameter type
			v = reflect.Zero(fs.in[i])
		} else if v.Type() != fs.in[i] {
			// interface-typed parameter holding a concrete value
			w := reflect.New(fs.in[i]).Elem()
			w.Set(v)
			v = w
		}
		vals[i] = v
	}
	return r.body(fs, vals)
}

// registerShape walks a GoT next to the reflect.Type the compiler made of it and
// registers the ids of the composite types.
func (ts *types) registerShape(g GoT, t reflect.Type) {
	switch {
	case g.U != nil:
		return
	case g.Ptr != nil:
		if t.Kind() != reflect.Ptr {
			panic(badTypes{fmt.Sprintf("m2: id %d is not a pointer type: %v", g.ID, t)})
		}
		ts.register(g.ID, t)
		ts.registerShape(*g.Ptr, t.Elem())
	default:
		if t.Kind() != reflect.Struct || t.NumField() != len(*g.St) {
			panic(badTypes{fmt.Sprintf("m2: id %d does not match the compiled struct %v", g.ID, t)})
		}
		ts.register(g.ID, t)
		for i, f := range *g.St {
			ts.registerShape(f.T, t.Field(i).Type)
		}
	}
}

// buildFnM2 uses the compiled function for def.
func (r *run) buildFnM2(def Fn, fs *fnState) *fnState {
	f, ok := m2Funcs[r.req.M2][def.ID]
	if !ok {
		fs.unbuildable = true
		fs.why = "m2: function not compiled in"
		return fs
	}
	ft := reflect.TypeOf(f)
	if ft.NumIn() != len(def.In) || ft.NumOut() != len(def.Out) || ft.IsVariadic() != def.Variadic {
		panic(badTypes{fmt.Sprintf("m2: compiled function %d has another signature: %v", def.ID, ft)})
	}
	for i, g := range def.In {
		t := ft.In(i)
		r.ts.registerShape(g, t)
		fs.in = append(fs.in, t)
	}
	for i, g := range def.Out {
		t := ft.Out(i)
		r.ts.registerShape(g, t)
		fs.out = append(fs.out, t)
		if g.U != nil && t.Implements(errorType) {
			fs.errIdx = append(fs.errIdx, i)
		}
	}
	fs.value = f
	return fs
}

var errorType = reflect.TypeOf((*error)(nil)).Elem()

var m2NameRe = regexp.MustCompile(`_F(\d+)(\[\.\.\.\]\.func1)?$`)

// m2Name turns the runtime name dig reports for a compiled function into the protocol name "F<id>".  A function whose
// id is 3 modulo 5 is a closure made by a generic function: its name must carry the "[...].func1" of such a closure,
// the name of any other function must not.
func m2Name(runtimeName string) string {
	m := m2NameRe.FindStringSubmatch(runtimeName)
	if m == nil {
		return "?" + runtimeName
	}
	n, _ := strconv.Atoi(m[1])
	if (n%5 == 3) != (m[2] != "") {
		return "?" + runtimeName
	}
	return fmt.Sprintf("F%d", n)
}

// M2Set stores a result value produced by the scripted body into a named result of a generated function.
func M2Set(ptr interface{}, v reflect.Value) {
	reflect.ValueOf(ptr).Elem().Set(v)
}
