package exec

import (
	"bytes"
	"encoding/json"
	"errors"
	"fmt"
	"reflect"
	"sort"
	"strings"
	"time"

	"go.uber.org/dig"

	"verif/harness/pool"
)

// Graph answers a graph request with dig's own cycle detector.
func Graph(req *Request) *GraphRes {
	n := req.N
	if len(req.Succ) > n {
		n = len(req.Succ)
	}
	succ := make([][]int, n)
	copy(succ, req.Succ)
	ok, cycle := dig.VerifIsAcyclic(succ)
	if cycle == nil {
		cycle = []int{}
	}
	return &GraphRes{OK: ok, Cycle: cycle}
}

// Label answers a label request with the attribute text internal/dot composes.
func Label(req *Request) interface{} {
	t, ok := pool.Type(req.Ty)
	if !ok || t.String() != req.TStr {
		return FatalRes("bad-request", fmt.Sprintf("label: type %d is not %q", req.Ty, req.TStr))
	}
	if req.Who == "group" {
		return &LabelRes{Text: dig.VerifGroupAttributes(t, req.Name, req.Err)}
	}
	return &LabelRes{Text: dig.VerifResultAttributes(t, req.Name, req.Group)}
}

// Tag answers a tag request with dig's own parsers and validators.
func Tag(req *Request) interface{} {
	switch req.What {
	case "group":
		n, fl, so, e := dig.VerifParseGroup(req.S)
		if e != "" {
			return &TagRes{Err: e}
		}
		return &TagRes{Name: n, Flatten: fl, Soft: so}
	case "optional", "ignore-unexported":
		b, e := dig.VerifBoolTag(req.What, req.S)
		if e != "" {
			return &TagRes{Err: e}
		}
		return &TagRes{Val: b}
	case "opts":
		return &TagRes{Err: dig.VerifValidateNameGroup(req.Name, req.Group)}
	}
	return FatalRes("bad-request", "tag: unknown what "+req.What)
}

// scope is either the root container or a child scope.
type scope interface {
	Provide(interface{}, ...dig.ProvideOption) error
	Decorate(interface{}, ...dig.DecorateOption) error
	Invoke(interface{}, ...dig.InvokeOption) error
	Scope(string, ...dig.ScopeOption) *dig.Scope
	String() string
}

// run is the state of one program execution.
type run struct {
	req      *Request
	ts       *types
	tnames   *typeNames // lazily built reverse map for DOT node names
	fns      map[int]*fnState
	userErrs map[[2]int]*UserErr
	// lastNil: the execution that last returned the typed nil error (a failure ends the resolution, so within one
	// operation it is the only one)
	lastNil [2]int

	container *dig.Container
	scopes    []scope
	advance   func(time.Duration)

	errs []error // error returned by each op (nil if none)
	cur  *OpRes  // op being executed; receives events
	res  *ProgRes
}

// Marshal prints v as one line of compact JSON without HTML escaping.
func Marshal(v interface{}) []byte {
	var buf bytes.Buffer
	enc := json.NewEncoder(&buf)
	enc.SetEscapeHTML(false)
	if err := enc.Encode(v); err != nil {
		return []byte(fmt.Sprintf(`{"ops":[],"fatal":"crash","fatalMsg":%q}`, "marshal: "+err.Error()))
	}
	return bytes.TrimRight(buf.Bytes(), "\n")
}

func msDuration(ms int) time.Duration { return time.Duration(ms) * time.Millisecond }

func (r *run) event(js string) {
	if r.cur != nil {
		r.cur.Ev = append(r.cur.Ev, json.RawMessage(js))
	}
}

// Prog executes a program request. It never panics: an unexpected panic of
// the executor itself is reported as fatal "crash" with the ops completed so far.
func Prog(req *Request) (res *ProgRes) {
	r := &run{
		req:      req,
		ts:       newTypes(),
		fns:      map[int]*fnState{},
		userErrs: map[[2]int]*UserErr{},
		res:      &ProgRes{Ops: []*OpRes{}},
	}
	defer func() {
		if p := recover(); p != nil {
			if bt, ok := p.(badTypes); ok {
				res = FatalRes("bad-types", bt.msg)
				return
			}
			kind := "crash"
			r.res.Fatal = &kind
			r.res.FatalMsg = fmt.Sprint(p)
			res = r.res
		}
	}()

	m2Cur = r
	defer func() { m2Cur = nil }()
	for _, def := range req.Fns {
		if _, dup := r.fns[def.ID]; dup {
			panic(badTypes{fmt.Sprintf("duplicate fn id %d", def.ID)})
		}
		r.fns[def.ID] = r.buildFn(def)
	}

	clock, advance := dig.VerifMockClock()
	r.advance = advance
	var opts []dig.Option
	if len(req.Cfg.OptSeq) > 0 {
		eff := Cfg{}
		for _, o := range req.Cfg.OptSeq {
			if len(o) != 2 {
				panic(badTypes{"optseq entries are [name, bool]"})
			}
			name, _ := o[0].(string)
			val, ok := o[1].(bool)
			if !ok {
				panic(badTypes{"optseq entries are [name, bool]"})
			}
			switch {
			case name == "dry":
				opts = append(opts, dig.DryRun(val))
				eff.Dry = val
			case name == "defer" && val:
				opts = append(opts, dig.DeferAcyclicVerification())
				eff.Defer = true
			case name == "recover" && val:
				opts = append(opts, dig.RecoverFromPanics())
				eff.Recover = true
			default:
				panic(badTypes{"unknown optseq entry " + name})
			}
		}
		if eff.Dry != req.Cfg.Dry || eff.Defer != req.Cfg.Defer || eff.Recover != req.Cfg.Recover {
			panic(badTypes{"optseq does not amount to the stated configuration"})
		}
	} else {
		if req.Cfg.Defer {
			opts = append(opts, dig.DeferAcyclicVerification())
		}
		if req.Cfg.Recover {
			opts = append(opts, dig.RecoverFromPanics())
		}
		if req.Cfg.Dry {
			opts = append(opts, dig.DryRun(true))
		}
	}
	opts = append(opts, clock)
	readOptions(opts)
	r.container = dig.New(opts...)
	r.scopes = []scope{r.container}

	r.errs = make([]error, len(req.Ops))
	for i, op := range req.Ops {
		or := &OpRes{Ev: []json.RawMessage{}}
		r.cur = or
		r.exec(i, op, or)
		r.cur = nil
		r.res.Ops = append(r.res.Ops, or)
	}
	return r.res
}

// guarded runs one dig API call, translating its outcome into the verdict.
func (r *run) guarded(i int, or *OpRes, call func() error) {
	defer func() {
		if p := recover(); p != nil {
			if up, ok := asUserPanic(p); ok {
				or.V = verdictPanic{fmt.Sprintf("user:%d:%d", up.Fn, up.X)}
			} else {
				or.V = verdictPanic{"dig"}
				or.PanicMsg = fmt.Sprint(p)
			}
		}
	}()
	err := call()
	if err != nil {
		r.errs[i] = err
		readAsCallerWould(err)
		or.V = verdictErr{r.classify(err)}
	} else {
		or.V = "ok"
	}
}

// vizJoined hands Visualize the error of a failed Invoke inside a multi-error (errors.Join with an unrelated error, the
// way a caller collecting several failures would) and reports whether CanVisualizeError says there is something to draw
// and whether the picture differs from the one drawn without any error.  C19: the two must agree.
func (r *run) vizJoined(err error) (res *VizJoin) {
	res = &VizJoin{}
	defer func() {
		if p := recover(); p != nil {
			res.Panic = fmt.Sprint(p)
		}
	}()
	joined := errors.Join(errors.New("another failure"), err)
	res.Can = dig.CanVisualizeError(joined)
	var plain, with bytes.Buffer
	if e := dig.Visualize(r.container, &plain); e != nil {
		res.Panic = "Visualize: " + e.Error()
		return res
	}
	if e := dig.Visualize(r.container, &with, dig.VisualizeError(joined)); e != nil {
		res.Panic = "Visualize: " + e.Error()
		return res
	}
	res.Same = plain.String() == with.String()
	return res
}

// what an Info struct holds before the call: a caller's earlier contents.  A rejected Provide or Decorate must not
// write to it (C18); an accepted one overwrites all three fields.
const sentinelID = dig.ID(-7)

var (
	sentinelIn  = []*dig.Input{nil}
	sentinelOut = []*dig.Output{nil}
	touchedInfo = &Info{ID: -99, In: [][]interface{}{}, Out: [][]interface{}{}}
)

func untouched(id int64, in []*dig.Input, out []*dig.Output) bool {
	return id == int64(sentinelID) && len(in) == 1 && in[0] == nil && len(out) == 1 && out[0] == nil
}

// readOptions prints every option the way a caller who logs its configuration would (the options implement
// fmt.Stringer); a panic in there surfaces, through guarded, as a panic of dig's own.
func readOptions(opts interface{}) {
	v := reflect.ValueOf(opts)
	for i := 0; i < v.Len(); i++ {
		if fmt.Sprint(v.Index(i).Interface()) == "" {
			panic("an option prints as the empty string")
		}
	}
}

// readAsCallerWould formats an error in the three ways callers do. dig's error types implement fmt.Formatter; a panic in
// there surfaces (through guarded) as a panic of dig's own.
func readAsCallerWould(err error) {
	for _, txt := range []string{err.Error(), fmt.Sprintf("%v", err), fmt.Sprintf("%+v", err)} {
		if txt == "" {
			panic("dig returned an error with an empty message")
		}
		if strings.Contains(txt, "(PANIC=") { // package fmt recovers a panicking Format / Error method and prints this instead
			panic("formatting an error of dig panicked: " + txt)
		}
	}
}

func (r *run) exec(i int, op Op, or *OpRes) {
	or.V = "badop"

	target := op.Scope
	if op.Op == "scope" {
		target = op.Parent
	}
	if target < 0 || target >= len(r.scopes) {
		return
	}
	sc := r.scopes[target]

	var fs *fnState
	switch op.Op {
	case "provide", "decorate", "invoke":
		var ok bool
		if fs, ok = r.fns[op.Fn]; !ok {
			return
		}
		if fs.unbuildable {
			or.V = "unbuildable"
			or.PanicMsg = fs.why
			return
		}
	}

	switch op.Op {
	case "scope":
		id := len(r.scopes)
		r.guarded(i, or, func() error {
			r.scopes = append(r.scopes, sc.Scope(fmt.Sprintf("s%d", id)))
			return nil
		})

	case "provide":
		var opts []dig.ProvideOption
		if op.hasOpt("name") {
			opts = append(opts, dig.Name(op.Name))
		}
		if op.hasOpt("group") {
			opts = append(opts, dig.Group(op.Group))
		}
		if op.hasOpt("as") {
			args := make([]interface{}, len(op.As))
			for j, a := range op.As {
				v, ok := asArg(a)
				if !ok {
					return
				}
				args[j] = v
			}
			opts = append(opts, dig.As(args...))
		}
		if op.hasOpt("export") {
			if len(op.Exports) > 0 {
				for _, e := range op.Exports {
					opts = append(opts, dig.Export(e))
				}
			} else {
				opts = append(opts, dig.Export(op.Export))
			}
		}
		if op.hasOpt("loc") && op.Loc == 0 {
			// an address that belongs to no function: dig falls back to the constructor's own location
			opts = append(opts, dig.LocationForPC(1))
		} else if op.hasOpt("loc") {
			lf, ok := r.fns[op.Loc]
			if !ok || lf.unbuildable || lf.value == nil || reflect.ValueOf(lf.value).Kind() != reflect.Func {
				panic(badTypes{fmt.Sprintf("op %d: loc %d is not a function of the program", i, op.Loc)})
			}
			opts = append(opts, dig.LocationForPC(reflect.ValueOf(lf.value).Pointer()))
		}
		if op.Cb {
			opts = append(opts, dig.WithProviderCallback(r.callback(i)))
		}
		// the struct is handed over already filled (as a caller who reuses one struct for several calls does): a rejected
		// Provide must leave it exactly as it is
		pi := dig.ProvideInfo{ID: sentinelID, Inputs: sentinelIn, Outputs: sentinelOut}
		if op.Info {
			opts = append(opts, dig.FillProvideInfo(&pi))
		}
		r.guarded(i, or, func() error { readOptions(opts); return sc.Provide(fs.value, opts...) })
		if op.Info && !untouched(int64(pi.ID), pi.Inputs, pi.Outputs) {
			if or.V != "ok" {
				or.Info = touchedInfo // rejected, yet the struct was written to
			} else {
				or.Info = &Info{ID: r.infoID(int64(pi.ID), op.Fn), In: r.inputs(pi.Inputs), Out: r.outputs(pi.Outputs)}
			}
		}

	case "decorate":
		var opts []dig.DecorateOption
		if op.Cb {
			opts = append(opts, dig.WithDecoratorCallback(r.callback(i)))
		}
		di := dig.DecorateInfo{ID: sentinelID, Inputs: sentinelIn, Outputs: sentinelOut}
		if op.Info {
			opts = append(opts, dig.FillDecorateInfo(&di))
		}
		r.guarded(i, or, func() error { readOptions(opts); return sc.Decorate(fs.value, opts...) })
		if op.Info && !untouched(int64(di.ID), di.Inputs, di.Outputs) {
			if or.V != "ok" {
				or.Info = touchedInfo
			} else {
				or.Info = &Info{ID: r.infoID(int64(di.ID), op.Fn), In: r.inputs(di.Inputs), Out: r.outputs(di.Outputs)}
			}
		}

	case "invoke":
		var opts []dig.InvokeOption
		var ii dig.InvokeInfo
		if op.Info {
			opts = append(opts, dig.FillInvokeInfo(&ii))
		}
		r.guarded(i, or, func() error { readOptions(opts); return sc.Invoke(fs.value, opts...) })
		if op.Info && ii.Inputs != nil {
			or.Info = &Info{ID: 0, In: r.inputs(ii.Inputs), Out: [][]interface{}{}}
		}

	case "visualize":
		if op.Scope != 0 {
			return
		}
		var opts []dig.VisualizeOption
		if op.ErrOf != nil && *op.ErrOf != -1 {
			if *op.ErrOf < 0 || *op.ErrOf >= i {
				return
			}
			if err := r.errs[*op.ErrOf]; err != nil {
				opts = append(opts, dig.VisualizeError(err))
			}
		}
		var buf bytes.Buffer
		r.guarded(i, or, func() error { return dig.Visualize(r.container, &buf, opts...) })
		text := buf.String()
		or.DotText = &text
		if op.ErrOf != nil && *op.ErrOf >= 0 && r.errs[*op.ErrOf] != nil {
			or.VizJoin = r.vizJoined(r.errs[*op.ErrOf])
		}
		or.DotNames = r.dotNames()
		if _, panicked := or.V.(verdictPanic); !panicked {
			if r.tnames == nil {
				r.tnames = newTypeNames(r.ts.byID) // all composites are registered before the first op
			}
			or.Dot = parseDot(text, r.tnames)
		}

	case "string":
		r.guarded(i, or, func() error { _ = sc.String(); return nil })
	}
}

// dotNames collects the names the model needs to write the text of the current picture itself.
func (r *run) dotNames() (dn *DotNames) {
	defer func() {
		if recover() != nil {
			dn = nil
		}
	}()
	dn = &DotNames{Types: [][]interface{}{}, Ctors: dig.VerifGraphCtorNames(r.container)}
	for _, id := range pool.IDs() {
		if t, ok := pool.Type(id); ok {
			dn.Types = append(dn.Types, []interface{}{id, t.String()})
		}
	}
	ids := make([]int, 0, len(r.ts.byID))
	for id := range r.ts.byID {
		ids = append(ids, id)
	}
	sort.Ints(ids)
	for _, id := range ids {
		dn.Types = append(dn.Types, []interface{}{id, r.ts.byID[id].String()})
	}
	return dn
}

func (r *run) callback(opIndex int) dig.Callback {
	calls := 0
	return func(ci dig.CallbackInfo) {
		calls++
		defer func() {
			// a callback that panics (executor only, programs marked "reentrant"): the k-th call of the callback
			// registered by this operation panics after having recorded its event
			if k := r.req.Ops[opIndex].CbPanic; k > 0 && calls == k {
				panic(UserPanic{Fn: -1, X: opIndex})
			}
		}()
		errJS := `"nil"`
		if ci.Error != nil {
			errJS = string(Marshal(r.classify(ci.Error)))
		}
		name := ""
		if r.req.M2 != "" {
			name = m2Name(ci.Name)
		}
		r.event(fmt.Sprintf(`{"e":"cb","op":%d,"name":%q,"err":%s,"rt":%d}`,
			opIndex, name, errJS, int64(ci.Runtime/time.Millisecond)))
	}
}

// infoID is the "id" of an Info struct: 0 in reflect mode (all functions share one code
// pointer); in M2 the fn id if the reported ID is that function's code pointer, else -1.
func (r *run) infoID(reported int64, fn int) int {
	if r.req.M2 == "" {
		return 0
	}
	fs := r.fns[fn]
	if fs != nil && fs.value != nil && reflect.ValueOf(fs.value).Kind() == reflect.Func &&
		int64(reflect.ValueOf(fs.value).Pointer()) == reported {
		return fn
	}
	return -1
}

// asArg builds the argument of dig.As described by a.
func asArg(a AsArg) (interface{}, bool) {
	switch {
	case a.Nil != nil:
		return nil, true
	case a.Iface != nil:
		return newOf(*a.Iface)
	case a.PtrTo != nil:
		return newOf(*a.PtrTo)
	case a.Val != nil:
		t, ok := pool.Type(*a.Val)
		if !ok {
			return nil, false
		}
		return reflect.Zero(t).Interface(), true
	}
	return nil, false
}

func newOf(id int) (interface{}, bool) {
	t, ok := pool.Type(id)
	if !ok {
		return nil, false
	}
	return reflect.New(t).Interface(), true
}
