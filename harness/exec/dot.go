package exec

import (
	"fmt"
	"html"
	"reflect"
	"sort"
	"strconv"
	"strings"

	"verif/harness/pool"
)

// This file turns the DOT text written by dig.Visualize into the canonical
// "dot" value of a visualize OpRes (see NOTES.md). It has three layers:
//
//   1. a tokenizer + recursive-descent parser for the subset of the DOT
//      language dig emits, written as a general parser for that subset so that
//      malformed output is rejected rather than tolerated;
//   2. an extractor that walks the AST the way visualize.go lays the graph out
//      (groups, ctor clusters, param edges, failure markers);
//   3. a decoder of node name strings (Result/Param/Group.String()) into
//      [type id, name, group, index] tuples.

// ---------------------------------------------------------------------------
// 1. Tokenizer
// ---------------------------------------------------------------------------

type dotTokKind int

const (
	tkEOF dotTokKind = iota
	tkLBrace
	tkRBrace
	tkLBrack
	tkRBrack
	tkSemi
	tkComma
	tkEq
	tkArrow
	tkID
)

func (k dotTokKind) String() string {
	switch k {
	case tkEOF:
		return "end of input"
	case tkLBrace:
		return "'{'"
	case tkRBrace:
		return "'}'"
	case tkLBrack:
		return "'['"
	case tkRBrack:
		return "']'"
	case tkSemi:
		return "';'"
	case tkComma:
		return "','"
	case tkEq:
		return "'='"
	case tkArrow:
		return "'->'"
	case tkID:
		return "identifier"
	}
	return "?"
}

// dotIDKind tells how an ID was written.
type dotIDKind int

const (
	idBare dotIDKind = iota
	idQuoted
	idHTML
)

// dotID is a DOT identifier: Text is the unquoted content.
type dotID struct {
	Text string
	Kind dotIDKind
}

func (id dotID) isBare(s string) bool { return id.Kind == idBare && id.Text == s }

type dotTok struct {
	kind dotTokKind
	id   dotID
	pos  int // byte offset in the source
}

func (t dotTok) describe() string {
	if t.kind != tkID {
		return t.kind.String()
	}
	switch t.id.Kind {
	case idQuoted:
		return "string " + strconv.Quote(t.id.Text)
	case idHTML:
		return "HTML string <" + t.id.Text + ">"
	}
	return "identifier " + t.id.Text
}

// dotSyntaxError is the error of the tokenizer and the parser.
type dotSyntaxError struct {
	Line, Col int
	Msg       string
}

func (e *dotSyntaxError) Error() string { return fmt.Sprintf("%d:%d: %s", e.Line, e.Col, e.Msg) }

func dotErrAt(src string, pos int, format string, args ...interface{}) *dotSyntaxError {
	if pos > len(src) {
		pos = len(src)
	}
	line, col := 1, 1
	for i := 0; i < pos; i++ {
		if src[i] == '\n' {
			line++
			col = 1
		} else {
			col++
		}
	}
	return &dotSyntaxError{Line: line, Col: col, Msg: fmt.Sprintf(format, args...)}
}

func isBareIDByte(c byte) bool {
	return c == '_' || c == '.' || (c >= '0' && c <= '9') || (c >= 'a' && c <= 'z') || (c >= 'A' && c <= 'Z')
}

// dotLex splits src into tokens; the last token is tkEOF.
func dotLex(src string) ([]dotTok, *dotSyntaxError) {
	var toks []dotTok
	i := 0
	for i < len(src) {
		c := src[i]
		switch {
		case c == ' ' || c == '\t' || c == '\n' || c == '\r':
			i++
		case c == '{':
			toks = append(toks, dotTok{kind: tkLBrace, pos: i})
			i++
		case c == '}':
			toks = append(toks, dotTok{kind: tkRBrace, pos: i})
			i++
		case c == '[':
			toks = append(toks, dotTok{kind: tkLBrack, pos: i})
			i++
		case c == ']':
			toks = append(toks, dotTok{kind: tkRBrack, pos: i})
			i++
		case c == ';':
			toks = append(toks, dotTok{kind: tkSemi, pos: i})
			i++
		case c == ',':
			toks = append(toks, dotTok{kind: tkComma, pos: i})
			i++
		case c == '=':
			toks = append(toks, dotTok{kind: tkEq, pos: i})
			i++
		case c == '-':
			switch {
			case i+1 < len(src) && src[i+1] == '>':
				toks = append(toks, dotTok{kind: tkArrow, pos: i})
				i += 2
			case i+1 < len(src) && (src[i+1] == '.' || (src[i+1] >= '0' && src[i+1] <= '9')):
				// negative numeral
				j := i + 1
				for j < len(src) && (src[j] == '.' || (src[j] >= '0' && src[j] <= '9')) {
					j++
				}
				toks = append(toks, dotTok{kind: tkID, id: dotID{Text: src[i:j], Kind: idBare}, pos: i})
				i = j
			default:
				return nil, dotErrAt(src, i, "stray '-'")
			}
		case c == '"':
			// Go strconv.Quote syntax: find the closing unescaped quote.
			j := i + 1
			for j < len(src) && src[j] != '"' {
				if src[j] == '\\' {
					j++
				}
				j++
			}
			if j >= len(src) {
				return nil, dotErrAt(src, i, "unterminated quoted string")
			}
			text, err := strconv.Unquote(src[i : j+1])
			if err != nil {
				return nil, dotErrAt(src, i, "bad quoted string %s", src[i:j+1])
			}
			toks = append(toks, dotTok{kind: tkID, id: dotID{Text: text, Kind: idQuoted}, pos: i})
			i = j + 1
		case c == '<':
			depth, j := 0, i
			for ; j < len(src); j++ {
				if src[j] == '<' {
					depth++
				} else if src[j] == '>' {
					depth--
					if depth == 0 {
						break
					}
				}
			}
			if j >= len(src) {
				return nil, dotErrAt(src, i, "unbalanced '<' in HTML string")
			}
			toks = append(toks, dotTok{kind: tkID, id: dotID{Text: src[i+1 : j], Kind: idHTML}, pos: i})
			i = j + 1
		case isBareIDByte(c):
			j := i
			for j < len(src) && isBareIDByte(src[j]) {
				j++
			}
			toks = append(toks, dotTok{kind: tkID, id: dotID{Text: src[i:j], Kind: idBare}, pos: i})
			i = j
		default:
			return nil, dotErrAt(src, i, "unexpected character %q", rune(c))
		}
	}
	toks = append(toks, dotTok{kind: tkEOF, pos: len(src)})
	return toks, nil
}

// ---------------------------------------------------------------------------
// 1b. AST and parser
// ---------------------------------------------------------------------------

type dotStmtKind int

const (
	stAttr   dotStmtKind = iota // graph|node|edge attr_list
	stSub                       // subgraph [ID] { ... }
	stEdge                      // ID -> ID [attr_list]
	stNode                      // ID [attr_list]
	stAssign                    // ID = ID
)

type dotAttr struct{ Key, Val dotID }

type dotStmt struct {
	Kind   dotStmtKind
	Target string    // stAttr: "graph" | "node" | "edge"
	Node   dotID     // stNode: the node; stEdge: the source; stAssign: the key
	To     dotID     // stEdge: the target; stAssign: the value
	Attrs  []dotAttr // stAttr, stEdge, stNode
	Sub    *dotGraph // stSub
	pos    int
}

type dotGraph struct {
	HasName bool
	Name    dotID
	Stmts   []dotStmt
}

// attr returns the value of the first attribute called key.
func (s *dotStmt) attr(key string) (dotID, bool) {
	for _, a := range s.Attrs {
		if a.Key.Text == key {
			return a.Val, true
		}
	}
	return dotID{}, false
}

var dotKeywords = map[string]bool{
	"digraph": true, "graph": true, "subgraph": true, "node": true, "edge": true, "strict": true,
}

type dotParser struct {
	src  string
	toks []dotTok
	p    int
}

func (ps *dotParser) peek() dotTok { return ps.toks[ps.p] }

func (ps *dotParser) next() dotTok {
	t := ps.toks[ps.p]
	if t.kind != tkEOF {
		ps.p++
	}
	return t
}

func (ps *dotParser) fail(t dotTok, format string, args ...interface{}) *dotSyntaxError {
	return dotErrAt(ps.src, t.pos, format, args...)
}

func (ps *dotParser) expect(k dotTokKind) (dotTok, *dotSyntaxError) {
	t := ps.next()
	if t.kind != k {
		return t, ps.fail(t, "expected %s, found %s", k, t.describe())
	}
	return t, nil
}

// isKeyword reports whether t is the bare (unquoted) keyword kw.
func isKeyword(t dotTok, kw string) bool {
	return t.kind == tkID && t.id.Kind == idBare && strings.EqualFold(t.id.Text, kw)
}

func isAnyKeyword(t dotTok) bool {
	return t.kind == tkID && t.id.Kind == idBare && dotKeywords[strings.ToLower(t.id.Text)]
}

// expectID reads an ID that is not a bare keyword.
func (ps *dotParser) expectID() (dotID, *dotSyntaxError) {
	t := ps.next()
	if t.kind != tkID {
		return dotID{}, ps.fail(t, "expected identifier, found %s", t.describe())
	}
	if isAnyKeyword(t) {
		return dotID{}, ps.fail(t, "keyword %s used as identifier", t.id.Text)
	}
	return t.id, nil
}

// dotParse parses a complete DOT document.
func dotParse(src string) (*dotGraph, *dotSyntaxError) {
	toks, err := dotLex(src)
	if err != nil {
		return nil, err
	}
	ps := &dotParser{src: src, toks: toks}
	t := ps.next()
	if !isKeyword(t, "digraph") {
		return nil, ps.fail(t, "expected 'digraph', found %s", t.describe())
	}
	g := &dotGraph{}
	if nt := ps.peek(); nt.kind == tkID {
		id, err := ps.expectID()
		if err != nil {
			return nil, err
		}
		g.HasName, g.Name = true, id
	}
	if g.Stmts, err = ps.block(); err != nil {
		return nil, err
	}
	if t := ps.peek(); t.kind != tkEOF {
		return nil, ps.fail(t, "unexpected %s after the closing '}' of the graph", t.describe())
	}
	return g, nil
}

// block parses '{' stmt_list '}'.
func (ps *dotParser) block() ([]dotStmt, *dotSyntaxError) {
	if _, err := ps.expect(tkLBrace); err != nil {
		return nil, err
	}
	stmts := []dotStmt{}
	for {
		t := ps.peek()
		if t.kind == tkRBrace {
			ps.next()
			return stmts, nil
		}
		if t.kind == tkEOF {
			return nil, ps.fail(t, "missing closing '}'")
		}
		st, err := ps.stmt()
		if err != nil {
			return nil, err
		}
		stmts = append(stmts, st)
		if ps.peek().kind == tkSemi {
			ps.next()
		}
	}
}

func (ps *dotParser) stmt() (dotStmt, *dotSyntaxError) {
	t := ps.peek()
	st := dotStmt{pos: t.pos}
	if t.kind != tkID {
		return st, ps.fail(t, "expected a statement, found %s", t.describe())
	}
	switch {
	case isKeyword(t, "graph"), isKeyword(t, "node"), isKeyword(t, "edge"):
		ps.next()
		st.Kind, st.Target = stAttr, strings.ToLower(t.id.Text)
		if nt := ps.peek(); nt.kind != tkLBrack {
			return st, ps.fail(nt, "expected '[' after %s, found %s", st.Target, nt.describe())
		}
		attrs, err := ps.attrLists()
		st.Attrs = attrs
		return st, err

	case isKeyword(t, "subgraph"):
		ps.next()
		st.Kind, st.Sub = stSub, &dotGraph{}
		if nt := ps.peek(); nt.kind == tkID {
			id, err := ps.expectID()
			if err != nil {
				return st, err
			}
			st.Sub.HasName, st.Sub.Name = true, id
		}
		stmts, err := ps.block()
		st.Sub.Stmts = stmts
		return st, err

	case isAnyKeyword(t):
		return st, ps.fail(t, "unexpected keyword %s", t.id.Text)
	}

	id, err := ps.expectID()
	if err != nil {
		return st, err
	}
	st.Node = id
	switch ps.peek().kind {
	case tkEq:
		ps.next()
		st.Kind = stAssign
		st.To, err = ps.expectID()
		return st, err
	case tkArrow:
		ps.next()
		st.Kind = stEdge
		if st.To, err = ps.expectID(); err != nil {
			return st, err
		}
	default:
		st.Kind = stNode
	}
	if ps.peek().kind == tkLBrack {
		st.Attrs, err = ps.attrLists()
	}
	return st, err
}

// attrLists parses one or more '[' a_list ']' groups.
func (ps *dotParser) attrLists() ([]dotAttr, *dotSyntaxError) {
	attrs := []dotAttr{}
	for ps.peek().kind == tkLBrack {
		ps.next()
		for {
			t := ps.peek()
			if t.kind == tkRBrack {
				ps.next()
				break
			}
			if t.kind != tkID {
				return attrs, ps.fail(t, "expected attribute name or ']', found %s", t.describe())
			}
			key, err := ps.expectID()
			if err != nil {
				return attrs, err
			}
			if _, err := ps.expect(tkEq); err != nil {
				return attrs, err
			}
			val, err := ps.expectID()
			if err != nil {
				return attrs, err
			}
			attrs = append(attrs, dotAttr{Key: key, Val: val})
			if k := ps.peek().kind; k == tkSemi || k == tkComma {
				ps.next()
			}
		}
	}
	return attrs, nil
}

// ---------------------------------------------------------------------------
// 3. Node name strings
// ---------------------------------------------------------------------------

// typeNames maps reflect.Type.String() renderings back to protocol type ids.
type typeNames struct {
	names []string // by decreasing length
	ids   map[string]int
}

// newTypeNames builds the table for the universe plus the given composites.
// When two types print alike the lowest id wins.
func newTypeNames(composites map[int]reflect.Type) *typeNames {
	tn := &typeNames{ids: map[string]int{}}
	add := func(id int, t reflect.Type) {
		s := t.String()
		if prev, ok := tn.ids[s]; !ok || id < prev {
			tn.ids[s] = id
		}
	}
	for _, id := range pool.IDs() {
		t, _ := pool.Type(id)
		add(id, t)
	}
	for id, t := range composites {
		add(id, t)
	}
	for s := range tn.ids {
		tn.names = append(tn.names, s)
	}
	sort.Slice(tn.names, func(i, j int) bool {
		if len(tn.names[i]) != len(tn.names[j]) {
			return len(tn.names[i]) > len(tn.names[j])
		}
		return tn.names[i] < tn.names[j]
	})
	return tn
}

const (
	namePrefix  = "[name="
	groupPrefix = "[group="
)

// split cuts s into the type rendering and the "[name=…]" / "[group=…]K"
// remainder: the longest known type string that is a prefix of s followed by
// the end of s or one of the two markers. For an unknown type (id -1) the cut
// is made at the first marker.
func (tn *typeNames) split(s string) (tstr string, id int, rest string) {
	for _, n := range tn.names {
		if !strings.HasPrefix(s, n) {
			continue
		}
		r := s[len(n):]
		if r == "" || strings.HasPrefix(r, namePrefix) || strings.HasPrefix(r, groupPrefix) {
			return n, tn.ids[n], r
		}
	}
	cut := len(s)
	for _, m := range []string{namePrefix, groupPrefix} {
		if i := strings.Index(s, m); i >= 0 && i < cut {
			cut = i
		}
	}
	return s[:cut], -1, s[cut:]
}

// nodeRef is a decoded Result / Param node name.
type nodeRef struct {
	tstr  string
	ty    int
	name  string
	group string
	idx   int
}

func (n nodeRef) result() []interface{} { return []interface{}{n.ty, n.name, n.group, n.idx} }

// resultName decodes `T`, `T[name=N]`, `T[group=G]K`. When the remainder is
// not of one of these forms the whole string is taken as an unknown type.
func (tn *typeNames) resultName(s string) (nodeRef, bool) {
	tstr, id, rest := tn.split(s)
	ref := nodeRef{tstr: tstr, ty: id}
	switch {
	case rest == "":
		return ref, true
	case strings.HasPrefix(rest, namePrefix) && strings.HasSuffix(rest, "]"):
		ref.name = rest[len(namePrefix) : len(rest)-1]
		return ref, true
	case strings.HasPrefix(rest, groupPrefix):
		end := len(rest)
		for end > 0 && rest[end-1] >= '0' && rest[end-1] <= '9' {
			end--
		}
		if end == len(rest) || end <= len(groupPrefix) || rest[end-1] != ']' {
			break
		}
		k, err := strconv.Atoi(rest[end:])
		if err != nil {
			break
		}
		ref.group, ref.idx = rest[len(groupPrefix):end-1], k
		return ref, true
	}
	return nodeRef{tstr: s, ty: -1}, false
}

// paramName decodes `T`, `T[name=N]`.
func (tn *typeNames) paramName(s string) (nodeRef, bool) {
	tstr, id, rest := tn.split(s)
	ref := nodeRef{tstr: tstr, ty: id}
	switch {
	case rest == "":
		return ref, true
	case strings.HasPrefix(rest, namePrefix) && strings.HasSuffix(rest, "]"):
		ref.name = rest[len(namePrefix) : len(rest)-1]
		return ref, true
	}
	return nodeRef{tstr: s, ty: -1}, false
}

// groupName decodes `[type=T group=G]`; T ends at the last " group=".
func (tn *typeNames) groupName(s string) (nodeRef, bool) {
	const pre, mid = "[type=", " group="
	if !strings.HasPrefix(s, pre) || !strings.HasSuffix(s, "]") {
		return nodeRef{tstr: s, ty: -1}, false
	}
	inner := s[len(pre) : len(s)-1]
	j := strings.LastIndex(inner, mid)
	if j < 0 {
		return nodeRef{tstr: s, ty: -1}, false
	}
	ref := nodeRef{tstr: inner[:j], ty: -1, group: inner[j+len(mid):]}
	if id, ok := tn.ids[ref.tstr]; ok {
		ref.ty = id
	}
	return ref, true
}

// ---------------------------------------------------------------------------
// 2. Extraction
// ---------------------------------------------------------------------------

// Dot is the canonical "dot" value of a visualize OpRes.
type Dot struct {
	Valid      bool            `json:"valid"`
	LabelsOk   bool            `json:"labelsOk"`
	Groups     []DotGroup      `json:"groups"`
	Ctors      []DotCtor       `json:"ctors"`
	Transitive [][]interface{} `json:"transitive"`
	Root       [][]interface{} `json:"root"`
	// SyntaxError is set iff the text is not DOT at all (everything else is empty then).
	SyntaxError string `json:"syntaxError,omitempty"`
	// StructError (diagnostic, first problem found) is set when the text is
	// DOT but not laid out the way visualize.go lays graphs out; Valid is false then.
	StructError string `json:"structError,omitempty"`
}

type DotGroup struct {
	Ty      int             `json:"ty"`
	G       string          `json:"g"`
	Color   string          `json:"color"`
	Members [][]interface{} `json:"members"` // [ty,name,group,idx]
}

type DotCtor struct {
	Color   string          `json:"color"`
	Results [][]interface{} `json:"results"` // [ty,name,group,idx]
	Params  [][]interface{} `json:"params"`  // [ty,name,optional]
	GParams [][]interface{} `json:"gparams"` // [ty,group]

	index int
}

func emptyDot() *Dot {
	return &Dot{Groups: []DotGroup{}, Ctors: []DotCtor{}, Transitive: [][]interface{}{}, Root: [][]interface{}{}}
}

// ParseDot parses the text written by dig.Visualize. composites are the
// program's non-universe types by id (may be nil).
func ParseDot(text string, composites map[int]reflect.Type) *Dot {
	return parseDot(text, newTypeNames(composites))
}

func parseDot(text string, tn *typeNames) *Dot {
	g, err := dotParse(text)
	if err != nil {
		d := emptyDot()
		d.SyntaxError = err.Error()
		return d
	}
	x := &dotExtractor{src: text, tn: tn, d: emptyDot(), groupAt: map[string]int{}, ctorAt: map[int]int{}}
	x.d.LabelsOk = true
	x.graph(g)
	if x.d.StructError == "" && !x.rankdir {
		x.d.StructError = "no top-level rankdir=RL"
	}
	if x.d.StructError == "" && !x.compound {
		x.d.StructError = "no top-level graph [compound=true]"
	}
	x.d.Valid = x.d.StructError == "" && x.rankdir && x.compound
	sort.SliceStable(x.d.Ctors, func(i, j int) bool { return x.d.Ctors[i].index < x.d.Ctors[j].index })
	return x.d
}

type dotExtractor struct {
	src string
	tn  *typeNames
	d   *Dot

	rankdir, compound bool
	groupAt           map[string]int // group node name -> index in d.Groups
	ctorAt            map[int]int    // cluster index -> index in d.Ctors
}

// problem records the first structural problem.
func (x *dotExtractor) problem(st *dotStmt, format string, args ...interface{}) {
	if x.d.StructError == "" {
		x.d.StructError = dotErrAt(x.src, st.pos, format, args...).Error()
	}
}

const (
	clusterPrefix = "cluster_"
	ctorPrefix    = "constructor_"
	fontOpen      = `<BR /><FONT POINT-SIZE="10">`
	fontClose     = `</FONT>`
)

// indexOf parses s = prefix + canonical decimal.
func indexOf(id dotID, prefix string) (int, bool) {
	if id.Kind != idBare || !strings.HasPrefix(id.Text, prefix) {
		return 0, false
	}
	digits := id.Text[len(prefix):]
	n, err := strconv.Atoi(digits)
	if err != nil || n < 0 || strconv.Itoa(n) != digits {
		return 0, false
	}
	return n, true
}

func (x *dotExtractor) graph(g *dotGraph) {
	if g.HasName {
		x.d.StructError = "the digraph has a name"
	}
	for i := range g.Stmts {
		st := &g.Stmts[i]
		switch st.Kind {
		case stAssign:
			if st.Node.isBare("rankdir") && st.To.isBare("RL") {
				x.rankdir = true
			} else {
				x.problem(st, "unexpected top-level assignment %s=%s", st.Node.Text, st.To.Text)
			}
		case stAttr:
			if st.Target == "graph" && len(st.Attrs) == 1 && st.Attrs[0].Key.isBare("compound") && st.Attrs[0].Val.isBare("true") {
				x.compound = true
			} else {
				x.problem(st, "unexpected %s attribute statement", st.Target)
			}
		case stNode:
			x.topNode(st)
		case stEdge:
			x.topEdge(st)
		case stSub:
			x.cluster(st)
		}
	}
}

// topNode handles group nodes and failure markers.
func (x *dotExtractor) topNode(st *dotStmt) {
	if shape, ok := st.attr("shape"); ok && shape.Text == "diamond" {
		x.groupNode(st)
		return
	}
	if len(st.Attrs) == 1 && st.Attrs[0].Key.isBare("color") {
		ref, ok := x.tn.resultName(st.Node.Text)
		if !ok {
			x.problem(st, "failure marker %q is not a result node name", st.Node.Text)
		}
		switch c := st.Attrs[0].Val; {
		case c.isBare("orange"):
			x.d.Transitive = append(x.d.Transitive, ref.result())
		case c.isBare("red"):
			x.d.Root = append(x.d.Root, ref.result())
		default:
			x.problem(st, "failure marker %q has color %q", st.Node.Text, c.Text)
		}
		return
	}
	x.problem(st, "top-level node %q is neither a group node nor a failure marker", st.Node.Text)
}

func (x *dotExtractor) groupNode(st *dotStmt) {
	name := st.Node.Text
	ref, ok := x.tn.groupName(name)
	if !ok {
		x.problem(st, "group node %q is not of the form [type=T group=G]", name)
	}
	if _, dup := x.groupAt[name]; dup {
		x.problem(st, "group node %q declared twice", name)
	}
	g := DotGroup{Ty: ref.ty, G: ref.group, Members: [][]interface{}{}}
	var haveLabel bool
	for _, a := range st.Attrs {
		switch a.Key.Text {
		case "shape":
		case "label":
			haveLabel = true
			if !ok || a.Val.Kind != idHTML || !htmlLabelIs(a.Val.Text, ref.tstr, "Group: "+ref.group) {
				x.d.LabelsOk = false
			}
		case "color":
			g.Color = a.Val.Text
		default:
			x.problem(st, "group node %q has unexpected attribute %s", name, a.Key.Text)
		}
	}
	if !haveLabel {
		x.d.LabelsOk = false
	}
	x.groupAt[name] = len(x.d.Groups)
	x.d.Groups = append(x.d.Groups, g)
}

// htmlLabelIs reports whether the HTML-like label got shows the text first, followed — if second is not empty — by
// second in the small font.  Text inside an HTML-like label must not contain raw angle brackets, and an ampersand must
// start a character reference; escaped or not, what counts is the text the label displays.
func htmlLabelIs(got, first, second string) bool {
	if second == "" {
		return htmlTextIs(got, first)
	}
	i := strings.Index(got, fontOpen)
	if i < 0 || !strings.HasSuffix(got, fontClose) || len(got) < i+len(fontOpen)+len(fontClose) {
		return false
	}
	return htmlTextIs(got[:i], first) && htmlTextIs(got[i+len(fontOpen):len(got)-len(fontClose)], second)
}

func htmlTextIs(raw, want string) bool {
	if strings.ContainsAny(raw, "<>") {
		return false
	}
	for i := 0; i < len(raw); i++ {
		if raw[i] != '&' {
			continue
		}
		j := strings.IndexByte(raw[i:], ';')
		if j < 2 || html.UnescapeString(raw[i:i+j+1]) == raw[i:i+j+1] {
			return false // a bare ampersand, or not a character reference
		}
	}
	return html.UnescapeString(raw) == want
}

// topEdge handles group member edges and constructor parameter edges.
func (x *dotExtractor) topEdge(st *dotStmt) {
	src, dst := st.Node, st.To.Text

	if gi, ok := x.groupAt[src.Text]; ok && src.Kind == idQuoted {
		if len(st.Attrs) != 0 {
			x.problem(st, "group member edge to %q has attributes", dst)
		}
		ref, ok := x.tn.resultName(dst)
		if !ok {
			x.problem(st, "group member %q is not a result node name", dst)
		}
		x.d.Groups[gi].Members = append(x.d.Groups[gi].Members, ref.result())
		return
	}

	if i, ok := indexOf(src, ctorPrefix); ok {
		ci, declared := x.ctorAt[i]
		if !declared {
			x.problem(st, "edge from %s before cluster_%d", src.Text, i)
			return
		}
		var ltail, dashed bool
		for _, a := range st.Attrs {
			switch {
			case a.Key.isBare("ltail") && a.Val.isBare(clusterPrefix+strconv.Itoa(i)) && !ltail:
				ltail = true
			case a.Key.isBare("style") && a.Val.isBare("dashed") && !dashed:
				dashed = true
			default:
				x.problem(st, "edge from %s has unexpected attribute %s=%s", src.Text, a.Key.Text, a.Val.Text)
			}
		}
		if !ltail {
			x.problem(st, "edge from %s lacks ltail=cluster_%d", src.Text, i)
		}
		c := &x.d.Ctors[ci]
		if ref, ok := x.tn.groupName(dst); ok {
			if dashed {
				x.problem(st, "group parameter edge to %q is dashed", dst)
			}
			c.GParams = append(c.GParams, []interface{}{ref.ty, ref.group})
			return
		}
		ref, ok := x.tn.paramName(dst)
		if !ok {
			x.problem(st, "parameter %q is not a param node name", dst)
		}
		c.Params = append(c.Params, []interface{}{ref.ty, ref.name, dashed})
		return
	}

	x.problem(st, "edge from %q starts neither at a declared group node nor at a constructor", src.Text)
}

// cluster handles `subgraph cluster_<i> { ... }`.
func (x *dotExtractor) cluster(st *dotStmt) {
	sub := st.Sub
	i, ok := 0, false
	if sub.HasName {
		i, ok = indexOf(sub.Name, clusterPrefix)
	}
	if !ok {
		x.problem(st, "subgraph is not named cluster_<i>")
		return
	}
	if _, dup := x.ctorAt[i]; dup {
		x.problem(st, "cluster_%d declared twice", i)
		return
	}
	c := DotCtor{index: i, Results: [][]interface{}{}, Params: [][]interface{}{}, GParams: [][]interface{}{}}
	var haveCtor, haveColor, haveLabel bool
	for j := range sub.Stmts {
		s := &sub.Stmts[j]
		switch s.Kind {
		case stAssign:
			switch {
			case s.Node.isBare("color") && !haveColor:
				haveColor, c.Color = true, s.To.Text
			case s.Node.isBare("label") && !haveLabel:
				haveLabel = true
			default:
				x.problem(s, "unexpected assignment %s in cluster_%d", s.Node.Text, i)
			}
		case stNode:
			if k, isCtor := indexOf(s.Node, ctorPrefix); isCtor {
				shape, _ := s.attr("shape")
				_, hasLabel := s.attr("label")
				if k != i || haveCtor || len(s.Attrs) != 2 || !shape.isBare("plaintext") || !hasLabel {
					x.problem(s, "bad constructor node %s in cluster_%d", s.Node.Text, i)
				}
				haveCtor = true
				continue
			}
			ref, ok := x.tn.resultName(s.Node.Text)
			if !ok {
				x.problem(s, "node %q in cluster_%d is not a result node name", s.Node.Text, i)
			}
			c.Results = append(c.Results, ref.result())
			if len(s.Attrs) != 1 || s.Attrs[0].Key.Text != "label" {
				x.problem(s, "result node %q must have exactly the label attribute", s.Node.Text)
			}
			label, has := s.attr("label")
			second := ""
			switch {
			case ref.name != "":
				second = "Name: " + ref.name
			case ref.group != "":
				second = "Group: " + ref.group
			}
			if !ok || !has || label.Kind != idHTML || !htmlLabelIs(label.Text, ref.tstr, second) {
				x.d.LabelsOk = false
			}
		default:
			x.problem(s, "unexpected statement in cluster_%d", i)
		}
	}
	if !haveCtor {
		x.problem(st, "cluster_%d has no constructor_%d node", i, i)
	}
	x.ctorAt[i] = len(x.d.Ctors)
	x.d.Ctors = append(x.d.Ctors, c)
}
