package exec

import (
	"bytes"
	"encoding/json"
	"errors"
	"os"
	"path/filepath"
	"strings"
	"testing"

	"go.uber.org/dig"

	"verif/harness/pool"
)

// viz returns the DOT text of c.
func viz(t *testing.T, c *dig.Container, opts ...dig.VisualizeOption) string {
	t.Helper()
	var buf bytes.Buffer
	if err := dig.Visualize(c, &buf, opts...); err != nil {
		t.Fatal(err)
	}
	return buf.String()
}

func must(t *testing.T, err error) {
	t.Helper()
	if err != nil {
		t.Fatal(err)
	}
}

// checkDot parses text and compares the compact JSON of the result with want.
func checkDot(t *testing.T, text, want string) {
	t.Helper()
	got := string(Marshal(ParseDot(text, nil)))
	if got != want {
		t.Errorf("DOT text:\n%s\n got %s\nwant %s", text, got, want)
	}
}

func t0() *pool.T0 { return &pool.T0{} }
func t1() *pool.T1 { return &pool.T1{} }
func t2() *pool.T2 { return &pool.T2{} }

// ---- (a) real containers ----

func TestDotEmpty(t *testing.T) {
	checkDot(t, viz(t, dig.New()),
		`{"valid":true,"labelsOk":true,"groups":[],"ctors":[],"transitive":[],"root":[]}`)
}

func TestDotNamesAndOptional(t *testing.T) {
	type in struct {
		dig.In
		A *pool.T0 `name:"a"`
		B *pool.T1 `optional:"true"`
		C *pool.T2
		D *pool.T0 `name:"zz" optional:"true"`
	}
	c := dig.New()
	must(t, c.Provide(t0, dig.Name("a")))
	must(t, c.Provide(t2))
	must(t, c.Provide(func(in, pool.I0) (*pool.T3, pool.NS0, [][]*pool.T1, error) { return nil, nil, nil, nil }))
	checkDot(t, viz(t, c), `{"valid":true,"labelsOk":true,"groups":[],"ctors":[`+
		`{"color":"","results":[[10,"a","",0]],"params":[],"gparams":[]},`+
		`{"color":"","results":[[12,"","",0]],"params":[],"gparams":[]},`+
		`{"color":"","results":[[13,"","",0],[50,"","",0],[61,"","",0]],`+
		`"params":[[10,"a",false],[11,"",true],[12,"",false],[10,"zz",true],[20,"",false]],"gparams":[]}`+
		`],"transitive":[],"root":[]}`)
}

func TestDotGroupsAndFlatten(t *testing.T) {
	type out struct {
		dig.Out
		A *pool.T0 `group:"g"`
		B *pool.T1 `group:"h"`
		N *pool.T2 `name:"n"`
	}
	type in struct {
		dig.In
		H []*pool.T1 `group:"h"`
		G []*pool.T0 `group:"g"`
		N *pool.T2   `name:"n"`
		X []pool.I2  `group:"nobody"`
	}
	c := dig.New()
	must(t, c.Provide(t0, dig.Group("g")))
	must(t, c.Provide(func() []*pool.T0 { return nil }, dig.Group("g,flatten")))
	must(t, c.Provide(func() out { return out{} }))
	must(t, c.Provide(func(in) *pool.T3 { return nil }))
	must(t, c.Provide(func() []*pool.T0 { return nil }, dig.Group("g"))) // not flattened: group of slices
	checkDot(t, viz(t, c), `{"valid":true,"labelsOk":true,"groups":[`+
		`{"ty":10,"g":"g","color":"","members":[[10,"","g",0],[10,"","g",1],[10,"","g",2]]},`+
		`{"ty":11,"g":"h","color":"","members":[[11,"","h",0]]},`+
		`{"ty":22,"g":"nobody","color":"","members":[]},`+
		`{"ty":30,"g":"g","color":"","members":[[30,"","g",0]]}],`+
		`"ctors":[`+
		`{"color":"","results":[[10,"","g",0]],"params":[],"gparams":[]},`+
		`{"color":"","results":[[10,"","g",1]],"params":[],"gparams":[]},`+
		`{"color":"","results":[[10,"","g",2],[11,"","h",0],[12,"n","",0]],"params":[],"gparams":[]},`+
		`{"color":"","results":[[13,"","",0]],"params":[[12,"n",false]],"gparams":[[11,"h"],[10,"g"],[22,"nobody"]]},`+
		`{"color":"","results":[[30,"","g",0]],"params":[],"gparams":[]}`+
		`],"transitive":[],"root":[]}`)
}

func TestDotAs(t *testing.T) {
	c := dig.New()
	must(t, c.Provide(t1, dig.As(new(pool.I0), new(pool.I1))))
	must(t, c.Provide(t0, dig.As(new(pool.I2)), dig.Name("x")))
	must(t, c.Provide(func() pool.NS0 { return nil }, dig.As(new(pool.I0)), dig.Group("g")))
	must(t, c.Provide(func(pool.I0, pool.I1) *pool.T2 { return nil }))
	checkDot(t, viz(t, c), `{"valid":true,"labelsOk":true,"groups":[`+
		`{"ty":20,"g":"g","color":"","members":[[20,"","g",0]]}],"ctors":[`+
		`{"color":"","results":[[20,"","",0],[21,"","",0]],"params":[],"gparams":[]},`+
		`{"color":"","results":[[22,"x","",0]],"params":[],"gparams":[]},`+
		`{"color":"","results":[[20,"","g",0]],"params":[],"gparams":[]},`+
		`{"color":"","results":[[12,"","",0]],"params":[[20,"",false],[21,"",false]],"gparams":[]}`+
		`],"transitive":[],"root":[]}`)
}

func TestDotNestedScopes(t *testing.T) {
	c := dig.New()
	s1 := c.Scope("s1")
	s2 := s1.Scope("s2")
	sb := c.Scope("sb")
	must(t, s2.Provide(func(*pool.T1) *pool.T2 { return nil }))
	must(t, sb.Provide(func() *pool.T3 { return nil }, dig.Name("b")))
	must(t, s1.Provide(func(*pool.T0) *pool.T1 { return nil }))
	must(t, c.Provide(t0))
	// root first, then children depth-first in creation order
	checkDot(t, viz(t, c), `{"valid":true,"labelsOk":true,"groups":[],"ctors":[`+
		`{"color":"","results":[[10,"","",0]],"params":[],"gparams":[]},`+
		`{"color":"","results":[[11,"","",0]],"params":[[10,"",false]],"gparams":[]},`+
		`{"color":"","results":[[12,"","",0]],"params":[[11,"",false]],"gparams":[]},`+
		`{"color":"","results":[[13,"b","",0]],"params":[],"gparams":[]}`+
		`],"transitive":[],"root":[]}`)
}

func TestDotMissingType(t *testing.T) {
	type in struct {
		dig.In
		A *pool.T3
		B *pool.T4 `name:"x"`
	}
	c := dig.New()
	must(t, c.Provide(func(in) *pool.T0 { return nil }))
	must(t, c.Provide(func(*pool.T0) *pool.T1 { return nil }))
	must(t, c.Provide(t2)) // pruned
	err := c.Invoke(func(*pool.T1, *pool.T2) {})
	if err == nil || !dig.CanVisualizeError(err) {
		t.Fatalf("unexpected error %v", err)
	}
	checkDot(t, viz(t, c, dig.VisualizeError(err)), `{"valid":true,"labelsOk":true,"groups":[],"ctors":[`+
		`{"color":"orange","results":[[10,"","",0]],"params":[[13,"",false],[14,"x",false]],"gparams":[]},`+
		`{"color":"orange","results":[[11,"","",0]],"params":[[10,"",false]],"gparams":[]}`+
		`],"transitive":[[10,"","",0],[11,"","",0]],"root":[[13,"","",0],[14,"x","",0]]}`)

	// a type missing directly in the Invoke: nothing but the marker
	err = dig.New().Invoke(func(*pool.T5) {})
	checkDot(t, viz(t, dig.New(), dig.VisualizeError(err)),
		`{"valid":true,"labelsOk":true,"groups":[],"ctors":[],"transitive":[],"root":[[15,"","",0]]}`)
}

func TestDotConstructorError(t *testing.T) {
	type in struct {
		dig.In
		G []*pool.T2 `group:"g"`
	}
	boom := errors.New("boom")
	c := dig.New()
	must(t, c.Provide(func() (*pool.T0, error) { return nil, boom }))
	must(t, c.Provide(func(*pool.T0) *pool.T1 { return nil }))
	must(t, c.Provide(t2, dig.Group("g")))
	must(t, c.Provide(func() (*pool.T2, error) { return nil, boom }, dig.Group("g")))
	must(t, c.Provide(func(in) *pool.T3 { return nil }))

	err := c.Invoke(func(*pool.T1) {})
	if !errors.Is(err, boom) {
		t.Fatalf("unexpected error %v", err)
	}
	checkDot(t, viz(t, c, dig.VisualizeError(err)), `{"valid":true,"labelsOk":true,"groups":[],"ctors":[`+
		`{"color":"red","results":[[10,"","",0]],"params":[],"gparams":[]},`+
		`{"color":"orange","results":[[11,"","",0]],"params":[[10,"",false]],"gparams":[]}`+
		`],"transitive":[[11,"","",0]],"root":[[10,"","",0]]}`)

	// the same error without VisualizeError: the full graph
	full := ParseDot(viz(t, c), nil)
	if !full.Valid || !full.LabelsOk || len(full.Ctors) != 5 || len(full.Groups) != 1 || len(full.Root) != 0 {
		t.Errorf("full graph: %s", Marshal(full))
	}

	err = c.Invoke(func(*pool.T3) {})
	if !errors.Is(err, boom) {
		t.Fatalf("unexpected error %v", err)
	}
	got := ParseDot(viz(t, c, dig.VisualizeError(err)), nil)
	t.Logf("group failure: %s", Marshal(got))
	if !got.Valid || !got.LabelsOk {
		t.Fatalf("group failure graph not valid: %s", Marshal(got))
	}
	if len(got.Groups) != 1 || got.Groups[0].Ty != 12 || got.Groups[0].G != "g" || got.Groups[0].Color != "red" {
		t.Errorf("group failure: groups %s", Marshal(got.Groups))
	}
	if string(Marshal(got.Root)) != `[[12,"","g",1]]` {
		t.Errorf("group failure: root %s", Marshal(got.Root))
	}
}

// ---- through the executor, with composite (reflect-built) types ----

func TestDotThroughProg(t *testing.T) {
	const types = `[]`
	// fn1: func() *struct{ A *T0 `name:"q"` }   (ids: struct 100, pointer 101); the type prints with quotes
	// and backslashes, which strconv.Quote escapes in node names and the HTML labels carry verbatim
	// fn2: func(struct{ dig.In; P *struct{...} `optional:"true"`; G []*T1 `group:"g"` }) *T1   (id 102)
	const ptr = `{"ptr":{"st":[{"n":"A","x":true,"anon":false,"t":{"u":10},"tags":{"name":"q"}}],"id":100},"id":101}`
	req := `{"kind":"prog","cfg":{"defer":false,"recover":false,"dry":false},"types":` + types + `,"fns":[` +
		`{"id":1,"name":"F1","in":[],"variadic":false,"out":[` + ptr + `]},` +
		`{"id":2,"name":"F2","in":[{"st":[{"n":"In","x":true,"anon":true,"t":{"u":1},"tags":{}},` +
		`{"n":"P","x":true,"anon":false,"t":` + ptr + `,"tags":{"optional":"true"}},` +
		`{"n":"G","x":true,"anon":false,"t":{"u":31},"tags":{"group":"g"}}],"id":102}],"variadic":false,"out":[{"u":11}]},` +
		`{"id":3,"name":"F3","nonfunc":"nil","in":[],"variadic":false,"out":[]}],"script":{},"ops":[` +
		`{"op":"provide","scope":0,"fn":1,"name":"n","group":"","as":[],"export":false,"cb":false,"info":false,"opts":["name"]},` +
		`{"op":"provide","scope":0,"fn":1,"name":"","group":"","as":[],"export":false,"cb":false,"info":false,"opts":[]},` +
		`{"op":"provide","scope":0,"fn":2,"name":"","group":"","as":[],"export":false,"cb":false,"info":false,"opts":[]},` +
		`{"op":"visualize","scope":0,"errOf":-1},` +
		`{"op":"visualize","scope":1,"errOf":-1},` +
		`{"op":"visualize","scope":0,"errOf":7},` +
		`{"op":"string","scope":0}]}`
	var r Request
	if err := json.Unmarshal([]byte(req), &r); err != nil {
		t.Fatal(err)
	}
	res := Prog(&r)
	if res.Fatal != nil || len(res.Ops) != 7 {
		t.Fatalf("unexpected response %s", Marshal(res))
	}
	want := `{"valid":true,"labelsOk":true,"groups":[{"ty":11,"g":"g","color":"","members":[]}],"ctors":[` +
		`{"color":"","results":[[101,"n","",0]],"params":[],"gparams":[]},` +
		`{"color":"","results":[[101,"","",0]],"params":[],"gparams":[]},` +
		`{"color":"","results":[[11,"","",0]],"params":[[101,"",true]],"gparams":[[11,"g"]]}` +
		`],"transitive":[],"root":[]}`
	if got := string(Marshal(res.Ops[3].Dot)); got != want {
		t.Errorf("dot of op 3:\n%s\n got %s\nwant %s", *res.Ops[3].DotText, got, want)
	}
	if res.Ops[3].DotText == nil || !strings.Contains(*res.Ops[3].DotText, `"*struct { A *pool.T0 \"name:\\\"q\\\"\" }[name=n]" [label=<*struct { A *pool.T0 &#34;name:\&#34;q\&#34;&#34; }<BR />`) {
		t.Errorf("dotText of op 3 missing or unexpected")
	}
	for _, i := range []int{4, 5, 6} { // badop, badop, string
		if res.Ops[i].Dot != nil || res.Ops[i].DotText != nil {
			t.Errorf("op %d has a dot value: %s", i, Marshal(res.Ops[i]))
		}
	}
	if got := string(Marshal(res.Ops[4])); got != `{"v":"badop","ev":[],"info":null,"dot":null}` {
		t.Errorf("badop visualize: %s", got)
	}
}

// ---- node names ----

func TestDotNodeNames(t *testing.T) {
	tn := newTypeNames(nil)
	results := []struct {
		s    string
		want string
		ok   bool
	}{
		{`*pool.T0`, `[10,"","",0]`, true},
		{`[][]*pool.T1[name=a]`, `[61,"a","",0]`, true},
		{`[]*pool.T1[name=[name=a]]`, `[31,"[name=a]","",0]`, true},
		{`pool.NS0[group=g]12`, `[50,"","g",12]`, true},
		{`pool.I0[group=a]1]0`, `[20,"","a]1",0]`, true},
		{`error`, `[0,"","",0]`, true},
		{`int[name=7]`, `[70,"7","",0]`, true},
		{`dig_test.t1[group=g1]3`, `[-1,"","g1",3]`, true},
		{`*pool.T0x`, `[-1,"","",0]`, true},
		{`*pool.T0[group=g]`, `[-1,"","",0]`, false},
		{`*pool.T0[group=g]x1`, `[-1,"","",0]`, false},
		{`*pool.T0[name=a`, `[-1,"","",0]`, false},
	}
	for _, c := range results {
		ref, ok := tn.resultName(c.s)
		if got := string(Marshal(ref.result())); got != c.want || ok != c.ok {
			t.Errorf("resultName(%q) = %s,%v want %s,%v", c.s, got, ok, c.want, c.ok)
		}
	}
	if ref, ok := tn.paramName(`*pool.T0[group=g]0`); ok {
		t.Errorf("paramName accepted a group form: %+v", ref)
	}
	if ref, ok := tn.groupName(`[type=[]*pool.T0 group=a b]`); !ok || ref.ty != 30 || ref.group != "a b" {
		t.Errorf("groupName: %+v %v", ref, ok)
	}
	// T ends at the LAST " group=": here T is "[]*pool.T0 group=a", which is no known type
	if ref, ok := tn.groupName(`[type=[]*pool.T0 group=a group=b]`); !ok || ref.ty != -1 || ref.group != "b" {
		t.Errorf("groupName (last ' group='): %+v %v", ref, ok)
	}
	if ref, ok := tn.groupName(`[type=[]*pool.T0 x group=b]`); !ok || ref.ty != -1 || ref.group != "b" {
		t.Errorf("groupName (unknown type): %+v %v", ref, ok)
	}
	for _, s := range []string{`*pool.T0`, `[type=*pool.T0]`, `[type=*pool.T0 group=g`} {
		if _, ok := tn.groupName(s); ok {
			t.Errorf("groupName accepted %q", s)
		}
	}
}

// ---- (b) malformed texts ----

const okHead = "digraph {\n\trankdir=RL;\n\tgraph [compound=true];\n"

func TestDotSyntaxErrors(t *testing.T) {
	bad := map[string]string{
		"empty":                   ``,
		"no digraph":              `graph { }`,
		"missing closing brace":   okHead + "\t\"*pool.T0\" [color=red];\n",
		"missing cluster brace":   okHead + "subgraph cluster_0 { constructor_0 [shape=plaintext label=\"f\"];\n}",
		"extra closing brace":     okHead + "}\n}",
		"text after the graph":    okHead + "}\nfoo",
		"second graph":            okHead + "}\ndigraph {}",
		"unbalanced <":            okHead + "\t\"*pool.T0\" [label=<*pool.T0<BR />];\n}",
		"unbalanced < (nested)":   okHead + "\tsubgraph cluster_0 { \"a\" [label=<a<b>]; }\n}",
		"stray >":                 okHead + "\t\"*pool.T0\" [label=<*pool.T0>>];\n}",
		"stray token =":           okHead + "\t= ;\n}",
		"stray token ,":           okHead + "\t\"a\" , \"b\";\n}",
		"stray token ->":          okHead + "\t-> \"b\";\n}",
		"stray ;":                 okHead + "\t;\n}",
		"stray ]":                 okHead + "\t\"a\" ];\n}",
		"missing ]":               okHead + "\t\"*pool.T0\" [color=red;\n}",
		"missing ] before brace":  okHead + "\t\"*pool.T0\" [color=red }",
		"missing [":               okHead + "\t\"*pool.T0\" color=red];\n}",
		"attr without value":      okHead + "\t\"a\" [color];\n}",
		"attr without value 2":    okHead + "\t\"a\" [color=];\n}",
		"edge without target":     okHead + "\t\"a\" -> ;\n}",
		"edge chain":              okHead + "\t\"a\" -> \"b\" -> \"c\";\n}",
		"edge to subgraph":        okHead + "\t\"a\" -> subgraph x { };\n}",
		"unterminated string":     okHead + "\t\"a [color=red];\n}",
		"bad escape":              okHead + "\t\"a\\q\" [color=red];\n}",
		"newline in string":       okHead + "\t\"a\nb\" [color=red];\n}",
		"illegal character":       okHead + "\ta:b;\n}",
		"stray -":                 okHead + "\ta - b;\n}",
		"undirected edge":         okHead + "\ta -- b;\n}",
		"keyword as node":         okHead + "\tnode;\n}",
		"keyword as edge target":  okHead + "\ta -> graph;\n}",
		"attr stmt without list":  "digraph {\n\trankdir=RL;\n\tgraph compound=true;\n}",
		"subgraph without braces": okHead + "\tsubgraph cluster_0;\n}",
		"two ids":                 "digraph a b {\n}",
		"no braces":               "digraph",
	}
	for name, text := range bad {
		d := ParseDot(text, nil)
		js := string(Marshal(d))
		if d.Valid || d.LabelsOk || d.SyntaxError == "" {
			t.Errorf("%s: accepted: %s", name, js)
			continue
		}
		wantPrefix := `{"valid":false,"labelsOk":false,"groups":[],"ctors":[],"transitive":[],"root":[],"syntaxError":"`
		if !strings.HasPrefix(js, wantPrefix) {
			t.Errorf("%s: unexpected shape %s", name, js)
		}
		t.Logf("%-24s %s", name, d.SyntaxError)
	}
}

// Things a general DOT parser for the subset must accept.
func TestDotSyntaxAccepted(t *testing.T) {
	good := []string{
		`digraph{}`,
		`DiGraph G { }`,
		`digraph "my graph" { a; b c -> d e = f }`,
		`digraph { a [x=1,y=2;z=3 w=<b<i>x</i>>] [] [k="v"]; node [shape=box]; edge []; graph [a=b] }`,
		`digraph { subgraph { subgraph s { a -> b [w=-1.5] } } subgraph t {} ; }`,
		"digraph\n{\r\n\t\"q\\\"uo\\u00e9\\n\" -> <<a>\n<b>> }",
		`digraph { "node" -> "graph" ; "subgraph" = "edge" }`,
	}
	for _, text := range good {
		if _, err := dotParse(text); err != nil {
			t.Errorf("%q: %v", text, err)
		}
	}
	g, err := dotParse(`digraph { "a\tb" [label=<x<BR />y> k = v]; s -> "t" [l=1] }`)
	if err != nil {
		t.Fatal(err)
	}
	if len(g.Stmts) != 2 || g.Stmts[0].Kind != stNode || g.Stmts[0].Node != (dotID{"a\tb", idQuoted}) ||
		len(g.Stmts[0].Attrs) != 2 || g.Stmts[0].Attrs[0].Val != (dotID{"x<BR />y", idHTML}) ||
		g.Stmts[1].Kind != stEdge || g.Stmts[1].Node != (dotID{"s", idBare}) || g.Stmts[1].To != (dotID{"t", idQuoted}) {
		t.Errorf("unexpected AST %+v", g)
	}
}

// Syntactically fine, but not what visualize.go writes.
func TestDotStructureErrors(t *testing.T) {
	const c0 = "\tsubgraph cluster_0 {\n\t\tlabel = \"p\";\n\t\tconstructor_0 [shape=plaintext label=\"f\"];\n\t\t\"*pool.T0\" [label=<*pool.T0>];\n\t}\n"
	bad := map[string]string{
		"no rankdir":              "digraph {\n\tgraph [compound=true];\n}",
		"no compound":             "digraph {\n\trankdir=RL;\n}",
		"rankdir LR":              "digraph {\n\trankdir=LR;\n\tgraph [compound=true];\n}",
		"named graph":             "digraph G {\n\trankdir=RL;\n\tgraph [compound=true];\n}",
		"node attr stmt":          okHead + "\tnode [shape=box];\n}",
		"bare top-level node":     okHead + "\t\"*pool.T0\";\n}",
		"marker color":            okHead + "\t\"*pool.T0\" [color=blue];\n}",
		"marker name":             okHead + "\t\"*pool.T0[group=g]\" [color=red];\n}",
		"edge from nowhere":       okHead + "\t\"*pool.T0\" -> \"*pool.T1\";\n}",
		"edge before cluster":     okHead + "\tconstructor_0 -> \"*pool.T1\" [ltail=cluster_0];\n" + c0 + "}",
		"edge without ltail":      okHead + c0 + "\tconstructor_0 -> \"*pool.T1\";\n}",
		"edge with wrong ltail":   okHead + c0 + "\tconstructor_0 -> \"*pool.T1\" [ltail=cluster_1];\n}",
		"edge with extra attr":    okHead + c0 + "\tconstructor_0 -> \"*pool.T1\" [ltail=cluster_0 style=dotted];\n}",
		"group param, dashed":     okHead + c0 + "\tconstructor_0 -> \"[type=*pool.T1 group=g]\" [ltail=cluster_0 style=dashed];\n}",
		"param with group form":   okHead + c0 + "\tconstructor_0 -> \"*pool.T1[group=g]0\" [ltail=cluster_0];\n}",
		"cluster twice":           okHead + c0 + c0 + "}",
		"unnamed subgraph":        okHead + "\tsubgraph { }\n}",
		"cluster name":            okHead + "\tsubgraph cluster_01 { constructor_1 [shape=plaintext label=\"f\"]; }\n}",
		"cluster w/o constructor": okHead + "\tsubgraph cluster_0 { \"*pool.T0\" [label=<*pool.T0>]; }\n}",
		"wrong constructor":       okHead + "\tsubgraph cluster_0 { constructor_1 [shape=plaintext label=\"f\"]; }\n}",
		"constructor shape":       okHead + "\tsubgraph cluster_0 { constructor_0 [shape=box label=\"f\"]; }\n}",
		"edge in cluster":         okHead + "\tsubgraph cluster_0 { constructor_0 [shape=plaintext label=\"f\"]; a -> b; }\n}",
		"result extra attr":       okHead + "\tsubgraph cluster_0 { constructor_0 [shape=plaintext label=\"f\"]; \"*pool.T0\" [label=<*pool.T0> color=red]; }\n}",
		"group node name":         okHead + "\t\"*pool.T0\" [shape=diamond label=<*pool.T0>];\n}",
		"group node twice": okHead + "\t\"[type=*pool.T0 group=g]\" [shape=diamond label=<*pool.T0<BR /><FONT POINT-SIZE=\"10\">Group: g</FONT>>];\n" +
			"\t\"[type=*pool.T0 group=g]\" [shape=diamond label=<*pool.T0<BR /><FONT POINT-SIZE=\"10\">Group: g</FONT>>];\n}",
		"member edge with attrs": okHead + "\t\"[type=*pool.T0 group=g]\" [shape=diamond label=<*pool.T0<BR /><FONT POINT-SIZE=\"10\">Group: g</FONT>>];\n" +
			"\t\"[type=*pool.T0 group=g]\" -> \"*pool.T0[group=g]0\" [style=dashed];\n}",
	}
	for name, text := range bad {
		d := ParseDot(text, nil)
		if d.SyntaxError != "" {
			t.Errorf("%s: syntax error %s", name, d.SyntaxError)
		} else if d.Valid {
			t.Errorf("%s: accepted: %s", name, Marshal(d))
		}
		t.Logf("%-24s %s", name, d.StructError)
	}
	// the building blocks themselves are fine
	checkDot(t, okHead+c0+"\tconstructor_0 -> \"*pool.T1\" [ltail=cluster_0, style=dashed];\n}",
		`{"valid":true,"labelsOk":true,"groups":[],"ctors":[{"color":"","results":[[10,"","",0]],"params":[[11,"",true]],"gparams":[]}],"transitive":[],"root":[]}`)
}

func TestDotLabels(t *testing.T) {
	cluster := func(node string) string {
		return okHead + "\tsubgraph cluster_0 {\n\t\tconstructor_0 [shape=plaintext label=\"f\"];\n\t\t" + node + ";\n\t}\n}"
	}
	const font = `<BR /><FONT POINT-SIZE="10">`
	cases := []struct {
		text string
		ok   bool
	}{
		{cluster(`"*pool.T0" [label=<*pool.T0>]`), true},
		{cluster(`"*pool.T0" [label=<*pool.T1>]`), false},
		{cluster(`"*pool.T0" [label="*pool.T0"]`), false},
		{cluster(`"*pool.T0" [label=<*pool.T0` + font + `Name: a</FONT>>]`), false},
		{cluster(`"*pool.T0[name=a]" [label=<*pool.T0` + font + `Name: a</FONT>>]`), true},
		{cluster(`"*pool.T0[name=a]" [label=<*pool.T0` + font + `Name: b</FONT>>]`), false},
		{cluster(`"*pool.T0[name=a]" [label=<*pool.T0` + font + `Group: a</FONT>>]`), false},
		{cluster(`"*pool.T0[name=a]" [label=<*pool.T0>]`), false},
		{cluster(`"*pool.T0[group=g]3" [label=<*pool.T0` + font + `Group: g</FONT>>]`), true},
		{cluster(`"*pool.T0[group=g]3" [label=<*pool.T0` + font + `Group: h</FONT>>]`), false},
		{cluster(`"*pool.T0[group=g]3" [label=<[]*pool.T0` + font + `Group: g</FONT>>]`), false},
		{okHead + `"[type=*pool.T0 group=g]" [shape=diamond label=<*pool.T0` + font + `Group: g</FONT>> color=orange]` + "\n}", true},
		{okHead + `"[type=*pool.T0 group=g]" [shape=diamond label=<*pool.T1` + font + `Group: g</FONT>>]` + "\n}", false},
		{okHead + `"[type=*pool.T0 group=g]" [shape=diamond label=<*pool.T0` + font + `Group: gg</FONT>>]` + "\n}", false},
		{okHead + `"[type=*pool.T0 group=g]" [shape=diamond label=<*pool.T0` + font + `Name: g</FONT>>]` + "\n}", false},
		{okHead + `"[type=*pool.T0 group=g]" [shape=diamond]` + "\n}", false},
	}
	for _, c := range cases {
		d := ParseDot(c.text, nil)
		if d.SyntaxError != "" || d.StructError != "" || !d.Valid {
			t.Errorf("not valid: %s\n%s", Marshal(d), c.text)
		}
		if d.LabelsOk != c.ok {
			t.Errorf("labelsOk=%v, want %v:\n%s", d.LabelsOk, c.ok, c.text)
		}
	}
}

// ---- (c) dig's golden files ----

func TestDotGoldenFiles(t *testing.T) {
	files, err := filepath.Glob("/repo/testdata/*.dot")
	if err != nil || len(files) == 0 {
		t.Fatalf("no golden files: %v", err)
	}
	parsed := map[string]*Dot{}
	for _, f := range files {
		data, err := os.ReadFile(f)
		if err != nil {
			t.Fatal(err)
		}
		d := ParseDot(string(data), nil)
		parsed[filepath.Base(f)] = d
		if !d.Valid || !d.LabelsOk || d.SyntaxError != "" || d.StructError != "" {
			t.Errorf("%s: %s", f, Marshal(d))
		}
		t.Logf("%s: %s", filepath.Base(f), Marshal(d))
	}
	if d := parsed["error.dot"]; d != nil {
		want := `{"valid":true,"labelsOk":true,"groups":[` +
			`{"ty":-1,"g":"g1","color":"red","members":[[-1,"","g1",0]]},` +
			`{"ty":-1,"g":"g2","color":"orange","members":[[-1,"","g2",0],[-1,"","g2",2]]}],"ctors":[` +
			`{"color":"orange","results":[[-1,"n3","",0],[-1,"","g2",0]],"params":[],"gparams":[[-1,"g1"]]},` +
			`{"color":"orange","results":[[-1,"","",0]],"params":[[-1,"n3",false]],"gparams":[[-1,"g2"]]},` +
			`{"color":"red","results":[[-1,"","g1",0],[-1,"","g2",2]],"params":[],"gparams":[]}],` +
			`"transitive":[[-1,"","g2",0],[-1,"","",0]],"root":[[-1,"","g1",0]]}`
		if got := string(Marshal(d)); got != want {
			t.Errorf("error.dot:\n got %s\nwant %s", got, want)
		}
	} else {
		t.Errorf("error.dot not found")
	}
	if d := parsed["optional.dot"]; d == nil || len(d.Ctors) != 2 || string(Marshal(d.Ctors[1].Params)) != `[[-1,"",true]]` {
		t.Errorf("optional.dot: %s", Marshal(d))
	}
}
