package exec

import (
	"fmt"
	"reflect"
	"strconv"
	"strings"
)

// infoString is the documented rendering of a ProvideInfo / DecorateInfo / InvokeInfo entry — the only public way to read
// one (the fields of dig.Input and dig.Output are unexported): the type, followed in brackets by `optional`,
// `name = "<quoted>"`, `group = "<quoted>"` for whichever of them is set, in that order, separated by ", ".
func infoString(t reflect.Type, optional bool, name, group string) string {
	toks := []string{}
	if optional {
		toks = append(toks, "optional")
	}
	if name != "" {
		toks = append(toks, "name = "+strconv.Quote(name))
	}
	if group != "" {
		toks = append(toks, "group = "+strconv.Quote(group))
	}
	ts := "<nil>"
	if t != nil {
		ts = t.String()
	}
	if len(toks) == 0 {
		return ts
	}
	return fmt.Sprintf("%s[%s]", ts, strings.Join(toks, ", "))
}

// checkInfoString compares what the entry's String method says with the rendering of the fields read through
// reflection; a difference is reported inside the entry, so that it surfaces as a disagreement with the model.
func checkInfoString(entry []interface{}, got string, t reflect.Type, optional bool, name, group string) []interface{} {
	if want := infoString(t, optional, name, group); got != want {
		return append(entry, "String()="+got+" want "+want)
	}
	return entry
}
