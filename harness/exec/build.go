package exec

import (
	"fmt"
	"reflect"
	"strconv"
	"strings"

	"go.uber.org/dig"

	"verif/harness/pool"
)

// DynPkgPath is the PkgPath given to unexported fields of composite structs.
const DynPkgPath = "verif/harness/dyn"

// badTypes is the panic value used while building types when the program's
// type table is inconsistent (answered with fatal "bad-types").
type badTypes struct{ msg string }

// types is the per-program type table: universe plus composites.
type types struct {
	byID map[int]reflect.Type
	rev  map[reflect.Type]int
}

func newTypes() *types {
	return &types{byID: map[int]reflect.Type{}, rev: map[reflect.Type]int{}}
}

// id returns the protocol id of t, -1 if it has none.
func (ts *types) id(t reflect.Type) int {
	if t == nil {
		return -1
	}
	if id, ok := pool.ID(t); ok {
		return id
	}
	if id, ok := ts.rev[t]; ok {
		return id
	}
	return -1
}

func (ts *types) register(id int, t reflect.Type) {
	if id < pool.FirstCompositeID {
		panic(badTypes{fmt.Sprintf("composite type %v has universe-range id %d", t, id)})
	}
	if u, ok := pool.ID(t); ok {
		panic(badTypes{fmt.Sprintf("composite id %d denotes universe type %d (%v)", id, u, t)})
	}
	if prev, ok := ts.byID[id]; ok && prev != t {
		panic(badTypes{fmt.Sprintf("id %d denotes both %v and %v", id, prev, t)})
	}
	if prev, ok := ts.rev[t]; ok && prev != id {
		panic(badTypes{fmt.Sprintf("type %v has ids %d and %d", t, prev, id)})
	}
	ts.byID[id] = t
	ts.rev[t] = id
}

// build turns a GoT into a reflect.Type. It panics with badTypes for an
// inconsistent table and with whatever reflect panics with when the type
// cannot be constructed at run time.
func (ts *types) build(g GoT) reflect.Type {
	n := 0
	if g.U != nil {
		n++
	}
	if g.Ptr != nil {
		n++
	}
	if g.St != nil {
		n++
	}
	if n != 1 {
		panic(badTypes{"GoT must have exactly one of u/ptr/st"})
	}
	switch {
	case g.U != nil:
		t, ok := pool.Type(*g.U)
		if !ok {
			panic(badTypes{fmt.Sprintf("unknown universe id %d", *g.U)})
		}
		return t
	case g.Ptr != nil:
		t := reflect.PointerTo(ts.build(*g.Ptr))
		ts.register(g.ID, t)
		return t
	default:
		fields := make([]reflect.StructField, len(*g.St))
		for i, f := range *g.St {
			sf := reflect.StructField{
				Name:      f.N,
				Type:      ts.build(f.T),
				Tag:       reflect.StructTag(tagString(f.Tags)),
				Anonymous: f.Anon,
			}
			if !f.X {
				sf.PkgPath = DynPkgPath
			}
			fields[i] = sf
		}
		t := reflect.StructOf(fields)
		ts.register(g.ID, t)
		return t
	}
}

var tagOrder = []string{"name", "optional", "group", "ignore-unexported"}

func tagString(tags map[string]string) string {
	var parts []string
	for _, k := range tagOrder {
		if v, ok := tags[k]; ok {
			parts = append(parts, k+":"+strconv.Quote(v))
		}
	}
	return strings.Join(parts, " ")
}

// fnState is a function value of the program plus its execution counter.
type fnState struct {
	def         Fn
	unbuildable bool
	why         string
	value       interface{} // what is handed to dig
	in, out     []reflect.Type
	errIdx      []int // indices of top-level results of an isErr universe type
	count       int   // executions so far
}

// buildFn constructs the value for one Fn. A badTypes panic is propagated.
func (r *run) buildFn(def Fn) (fs *fnState) {
	fs = &fnState{def: def}
	if def.NonFunc != nil {
		switch *def.NonFunc {
		case "nil":
			fs.value = nil
		case "int":
			fs.value = 42
		case "ptr":
			fs.value = &pool.T0{}
		case "struct":
			fs.value = pool.S0{}
		case "nilfunc":
			// a typed nil function value: (func() *T0)(nil)
			fs.value = reflect.Zero(reflect.FuncOf(nil, []reflect.Type{reflect.TypeOf(&pool.T0{})}, false)).Interface()
		case "nilfunc1":
			// (func(*T0))(nil)
			fs.value = reflect.Zero(reflect.FuncOf([]reflect.Type{reflect.TypeOf(&pool.T0{})}, nil, false)).Interface()
		default:
			panic(badTypes{"unknown nonfunc " + *def.NonFunc})
		}
		return fs
	}
	if r.req.M2 != "" {
		return r.buildFnM2(def, fs)
	}
	defer func() {
		if p := recover(); p != nil {
			if bt, ok := p.(badTypes); ok {
				panic(bt)
			}
			fs.unbuildable = true
			fs.why = fmt.Sprint(p)
		}
	}()
	for _, g := range def.In {
		fs.in = append(fs.in, r.ts.build(g))
	}
	for i, g := range def.Out {
		t := r.ts.build(g)
		fs.out = append(fs.out, t)
		if g.U != nil && t.Implements(pool.ErrorType) {
			fs.errIdx = append(fs.errIdx, i)
		}
	}
	ft := reflect.FuncOf(fs.in, fs.out, def.Variadic)
	fs.value = reflect.MakeFunc(ft, func(args []reflect.Value) []reflect.Value {
		return r.body(fs, args)
	}).Interface()
	return fs
}

func (r *run) behaviour(fn, x int) Beh {
	if l := r.req.Script[strconv.Itoa(fn)]; x < len(l) {
		b := l[x]
		if b.K == "" {
			b.K = "ok"
		}
		return b
	}
	return Beh{K: "ok"}
}

var vErrType = reflect.TypeOf(pool.VErr{})

// body is the implementation shared by all scripted functions.
func (r *run) body(fs *fnState, args []reflect.Value) []reflect.Value {
	f, x := fs.def.ID, fs.count
	fs.count++

	n := len(args)
	if fs.def.Variadic && n > 0 {
		n--
	}
	rendered := make([]string, n)
	for i := 0; i < n; i++ {
		rendered[i] = r.render(args[i])
	}
	r.event(fmt.Sprintf(`{"e":"enter","fn":%d,"x":%d,"args":[%s]}`, f, x, strings.Join(rendered, ",")))

	beh := r.behaviour(f, x)
	if beh.Dt != 0 {
		r.advance(msDuration(beh.Dt))
	}

	if beh.Re != nil {
		r.reenter(f, x, beh.Re)
	}

	failing := -1
	if beh.K == "err" && len(fs.errIdx) > 0 {
		m := len(fs.errIdx)
		failing = fs.errIdx[((beh.ESlot%m)+m)%m]
	}

	p := newProducer(f, x, beh.length())
	valErr := false
	outs := make([]reflect.Value, len(fs.out))
	for i, t := range fs.out {
		v := reflect.New(t).Elem()
		if t == vErrType {
			// a value-typed error result: never a nil interface, so dig takes it for an error on every call; it
			// carries the execution it comes from
			p.slot++
			valErr = true
			v.Set(reflect.ValueOf(pool.VErr{Code: f<<20 | x}))
		} else if i == failing {
			p.slot++
			if beh.TNil {
				// the typed nil pointer: no identity of its own, so the run remembers whose it is
				r.lastNil = [2]int{f, x}
				v.Set(reflect.ValueOf((*NilErr)(nil)))
			} else {
				ue := &UserErr{Fn: f, X: x}
				r.userErrs[[2]int{f, x}] = ue
				v.Set(reflect.ValueOf(ue))
			}
		} else {
			p.fill(v, true)
		}
		outs[i] = v
	}

	switch {
	case beh.K == "panic":
		r.event(fmt.Sprintf(`{"e":"exit","fn":%d,"x":%d,"r":"panic"}`, f, x))
		panic(panicValue(f, x))
	case failing >= 0 || valErr:
		r.event(fmt.Sprintf(`{"e":"exit","fn":%d,"x":%d,"r":"err"}`, f, x))
	default:
		r.event(fmt.Sprintf(`{"e":"exit","fn":%d,"x":%d,"r":"ok"}`, f, x))
	}
	return outs
}

// reenter performs the nested Invoke of a re-entrant behaviour.  Its outcome is recorded as an event; a
// panic escaping the nested Invoke is caught here (it is an observation about the nested call, the outer
// function then continues as scripted).
func (r *run) reenter(f, x int, rc *ReCall) {
	if rc.Scope < 0 || rc.Scope >= len(r.scopes) {
		return
	}
	fs, ok := r.fns[rc.Fn]
	if !ok || fs.unbuildable || fs.value == nil {
		return
	}
	outcome := "ok"
	func() {
		defer func() {
			if p := recover(); p != nil {
				outcome = "panic"
			}
		}()
		if err := r.scopes[rc.Scope].Invoke(fs.value); err != nil {
			outcome = "err"
			if dig.IsCycleDetected(err) {
				outcome = "cycle"
			}
		}
	}()
	r.event(fmt.Sprintf(`{"e":"re","fn":%d,"x":%d,"inner":%d,"r":%q}`, f, x, rc.Fn, outcome))
}
