package pool

import (
	"encoding/json"
	"testing"
)

func TestUniverseFactsAgreeWithReflect(t *testing.T) {
	if err := Verify(); err != nil {
		t.Fatal(err)
	}
	b, _ := json.Marshal(Types())
	t.Logf("%s", b)
}

func TestReverseMap(t *testing.T) {
	for _, id := range IDs() {
		ty, _ := Type(id)
		got, ok := ID(ty)
		if !ok || got != id {
			t.Fatalf("id %d (%v) maps back to %d,%v", id, ty, got, ok)
		}
	}
}
