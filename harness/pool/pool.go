// Package pool declares the static universe of Go types used by every
// program (PROTOCOL.md §2.1) together with the id <-> reflect.Type tables and
// the reflect-derived "types" facts.
package pool

import (
	"fmt"
	"reflect"
	"sort"

	"go.uber.org/dig"
)

// Token identifies a produced value: function id, execution number, result
// slot and index inside a slice.
type Token struct{ F, X, S, I int }

type (
	T0 struct{ Tok Token }
	T1 struct{ Tok Token }
	T2 struct{ Tok Token }
	T3 struct{ Tok Token }
	T4 struct{ Tok Token }
	T5 struct{ Tok Token }
	T6 struct{ Tok Token }
	T7 struct{ Tok Token }

	// S0 is a plain (non In/Out) struct.
	S0 struct{ Tok Token }

	// I0 is implemented by *T0, *T1 and NS0.
	I0 interface{ MI0() }
	// I1 is implemented by *T1 and *T2.
	I1 interface{ MI1() }
	// I2 is implemented by *T0..*T7.
	I2 interface{ MI2() }
	// VErr is an error type with a value receiver: a result of this type can never be nil, so dig takes it for an
	// error on every call.  Outside the model: programs that use it are judged by the trace predicates only.
	VErr struct{ Code int }
	// I0x is a distinct interface type with exactly the method set of I0: each implements the other.
	I0x interface{ MI0() }
	// I3 embeds I0 and I2: it implements both and is implemented by *T0 and *T1.
	I3 interface {
		MI0()
		MI2()
	}
	// EI is an error interface of the user's own: a result of this type is an error result.
	EI interface {
		error
		Code() int
	}

	// NS0 is a named slice implementing I0.
	NS0 []*T0
	// NS1 is a named slice without methods.
	NS1 []*T1

	// Huge is an array type of size 0 whose length is such that arrays of anything with a size
	// cannot exist (reflect.ArrayOf(len, <pointer>) would exceed the address space).
	Huge [1 << 61]struct{}

	// ZI is a non-pointer type implementing I0 whose every scripted value is the zero value.
	ZI int8
	// Big is 128 KiB: `chan *Big` is a legal type, `chan Big` is not (reflect.ChanOf refuses elements of 64 KiB or more).
	Big [1 << 17]byte
	// Giant is 32 TiB: `[1<<20]*Giant` is a legal type of 8 MiB, `[1<<20]Giant` is not a type at all
	// (reflect.ArrayOf panics: the size would exceed the address space).
	Giant [1 << 45]byte
)

func (ZI) MI0() {}

// Error makes VErr an error.
func (VErr) Error() string { return "value error" }

func (*T0) MI0() {}
func (*T1) MI0() {}
func (NS0) MI0() {}

func (*T1) MI1() {}
func (*T2) MI1() {}

func (*T0) MI2() {}
func (*T1) MI2() {}
func (*T2) MI2() {}
func (*T3) MI2() {}
func (*T4) MI2() {}
func (*T5) MI2() {}
func (*T6) MI2() {}
func (*T7) MI2() {}

// Ids of the universe that have a special meaning for the executor.
const (
	IDError  = 0
	IDIn     = 1
	IDOut    = 2
	IDInPtr  = 3
	IDOutPtr = 4
	IDT0Ptr  = 10 // *Tn is IDT0Ptr+n, n in 0..7
	IDS0     = 19
	IDI0     = 20
	IDI1     = 21
	IDI2     = 22
	IDI3     = 23
	IDI0x    = 24
	IDVErr   = 25
	IDInt    = 70

	// FirstCompositeID is the lowest id a program may give to a composite type.
	FirstCompositeID = 100
)

var (
	ErrorType = reflect.TypeOf((*error)(nil)).Elem()
	InType    = reflect.TypeOf(dig.In{})
	OutType   = reflect.TypeOf(dig.Out{})
	TokenType = reflect.TypeOf(Token{})
	S0Type    = reflect.TypeOf(S0{})
)

func ifaceT(p interface{}) reflect.Type { return reflect.TypeOf(p).Elem() }

// byID is the universe table.
var byID = map[int]reflect.Type{
	0: ErrorType,
	1: InType,
	2: OutType,
	3: reflect.TypeOf((*dig.In)(nil)),
	4: reflect.TypeOf((*dig.Out)(nil)),
	5: ifaceT((*EI)(nil)),

	10: reflect.TypeOf((*T0)(nil)),
	11: reflect.TypeOf((*T1)(nil)),
	12: reflect.TypeOf((*T2)(nil)),
	13: reflect.TypeOf((*T3)(nil)),
	14: reflect.TypeOf((*T4)(nil)),
	15: reflect.TypeOf((*T5)(nil)),
	16: reflect.TypeOf((*T6)(nil)),
	17: reflect.TypeOf((*T7)(nil)),

	19: S0Type,

	20: ifaceT((*I0)(nil)),
	21: ifaceT((*I1)(nil)),
	22: ifaceT((*I2)(nil)),
	23: ifaceT((*I3)(nil)),
	24: ifaceT((*I0x)(nil)),
	25: reflect.TypeOf(VErr{}),

	30: reflect.TypeOf([]*T0(nil)),
	31: reflect.TypeOf([]*T1(nil)),
	32: reflect.TypeOf([]*T2(nil)),
	33: reflect.TypeOf([]*T3(nil)),
	34: reflect.TypeOf([]*T4(nil)),
	35: reflect.TypeOf([]*T5(nil)),
	36: reflect.TypeOf([]*T6(nil)),
	37: reflect.TypeOf([]*T7(nil)),
	38: reflect.TypeOf([]S0(nil)),

	40: reflect.TypeOf([]I0(nil)),
	41: reflect.TypeOf([]I1(nil)),
	42: reflect.TypeOf([]I2(nil)),

	50: reflect.TypeOf(NS0(nil)),
	51: reflect.TypeOf(NS1(nil)),

	60: reflect.TypeOf([][]*T0(nil)),
	61: reflect.TypeOf([][]*T1(nil)),
	62: reflect.TypeOf([][]*T2(nil)),
	63: reflect.TypeOf([][]*T3(nil)),
	64: reflect.TypeOf([]NS0(nil)),
	65: reflect.TypeOf([]NS1(nil)),

	70: reflect.TypeOf(int(0)),

	71: reflect.TypeOf(ZI(0)),

	80: reflect.TypeOf([2]*T0{}),
	81: reflect.TypeOf(Huge{}),
	82: reflect.TypeOf((chan *Big)(nil)),
	83: reflect.TypeOf(map[string]*T0(nil)),
	84: reflect.TypeOf((func() *T0)(nil)),
	85: reflect.TypeOf((<-chan *T0)(nil)),
	86: reflect.TypeOf((*[1 << 20]*Giant)(nil)).Elem(),
}

var (
	byType = map[reflect.Type]int{}
	ids    []int
)

func init() {
	for id, t := range byID {
		if prev, dup := byType[t]; dup {
			panic(fmt.Sprintf("pool: type %v has ids %d and %d", t, prev, id))
		}
		byType[t] = id
		ids = append(ids, id)
	}
	sort.Ints(ids)
}

// Type returns the universe type with the given id.
func Type(id int) (reflect.Type, bool) { t, ok := byID[id]; return t, ok }

// ID returns the universe id of t.
func ID(t reflect.Type) (int, bool) { id, ok := byType[t]; return id, ok }

// IDs returns all universe ids in increasing order.
func IDs() []int { return append([]int(nil), ids...) }

// TypeInfo is one entry of the "types" array of a program (PROTOCOL §2.1).
type TypeInfo struct {
	ID    int    `json:"id"`
	Kind  string `json:"kind"`
	Elem  int    `json:"elem"`
	Impl  []int  `json:"impl"`
	IsErr bool   `json:"isErr"`
}

// KindName maps a reflect.Kind to the protocol's kind name.
func KindName(k reflect.Kind) string {
	switch k {
	case reflect.Ptr:
		return "ptr"
	case reflect.Interface:
		return "iface"
	case reflect.Slice:
		return "slice"
	case reflect.Struct:
		return "struct"
	}
	return "other"
}

// Facts computes the TypeInfo of universe type id from package reflect only.
func Facts(id int) TypeInfo {
	t := byID[id]
	ti := TypeInfo{ID: id, Kind: KindName(t.Kind()), Elem: -1, Impl: []int{}}
	if t.Kind() == reflect.Ptr || t.Kind() == reflect.Slice {
		if e, ok := byType[t.Elem()]; ok {
			ti.Elem = e
		}
	}
	for _, i := range []int{IDI0, IDI1, IDI2, IDI3, IDI0x} {
		if t.Implements(byID[i]) {
			ti.Impl = append(ti.Impl, i)
		}
	}
	ti.IsErr = t.Implements(ErrorType)
	return ti
}

// Types returns the reflect-derived facts of the whole universe, by id.
func Types() []TypeInfo {
	out := make([]TypeInfo, 0, len(ids))
	for _, id := range ids {
		out = append(out, Facts(id))
	}
	return out
}

// expected is the table of PROTOCOL.md §2.1 written out by hand; Verify
// compares it with what reflect says.
var expected = func() []TypeInfo {
	var e []TypeInfo
	add := func(id int, kind string, elem int, isErr bool, impl ...int) {
		if impl == nil {
			impl = []int{}
		}
		e = append(e, TypeInfo{id, kind, elem, impl, isErr})
	}
	add(0, "iface", -1, true)
	add(1, "struct", -1, false)
	add(2, "struct", -1, false)
	add(3, "ptr", 1, false)
	add(4, "ptr", 2, false)
	add(5, "iface", -1, true)
	add(10, "ptr", -1, false, 20, 22, 23, 24)
	add(11, "ptr", -1, false, 20, 21, 22, 23, 24)
	add(12, "ptr", -1, false, 21, 22)
	for id := 13; id <= 17; id++ {
		add(id, "ptr", -1, false, 22)
	}
	add(19, "struct", -1, false)
	add(20, "iface", -1, false, 20, 24)
	add(21, "iface", -1, false, 21)
	add(22, "iface", -1, false, 22)
	add(23, "iface", -1, false, 20, 22, 23, 24)
	add(24, "iface", -1, false, 20, 24)
	add(25, "struct", -1, true)
	for n := 0; n < 8; n++ {
		add(30+n, "slice", 10+n, false)
	}
	add(38, "slice", 19, false)
	add(40, "slice", 20, false)
	add(41, "slice", 21, false)
	add(42, "slice", 22, false)
	add(50, "slice", 10, false, 20, 24)
	add(51, "slice", 11, false)
	for n := 0; n < 4; n++ {
		add(60+n, "slice", 30+n, false)
	}
	add(64, "slice", 50, false)
	add(65, "slice", 51, false)
	add(70, "other", -1, false)
	add(71, "other", -1, false, 20, 24)
	add(80, "other", -1, false)
	add(81, "other", -1, false)
	add(82, "other", -1, false)
	add(83, "other", -1, false)
	add(84, "other", -1, false)
	add(85, "other", -1, false)
	add(86, "other", -1, false)
	return e
}()

// Verify checks that the facts PROTOCOL.md states about the universe are the
// ones package reflect reports for the pool.
func Verify() error {
	got := Types()
	if len(got) != len(expected) {
		return fmt.Errorf("pool: %d types declared, protocol lists %d", len(got), len(expected))
	}
	for i, g := range got {
		if !reflect.DeepEqual(g, expected[i]) {
			return fmt.Errorf("pool: type facts differ: reflect says %+v, protocol says %+v", g, expected[i])
		}
	}
	// *Tn must all be struct{ Tok Token }.
	for n := 0; n < 8; n++ {
		st := byID[IDT0Ptr+n].Elem()
		if st.Kind() != reflect.Struct || st.NumField() != 1 || st.Field(0).Name != "Tok" || st.Field(0).Type != TokenType {
			return fmt.Errorf("pool: %v is not struct{ Tok Token }", st)
		}
	}
	return nil
}
