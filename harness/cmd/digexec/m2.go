//go:build m2

package main

// The generated-source mode: programs compiled into the executor.
import _ "verif/harness/m2gen"
