package main

import (
	"bufio"
	"bytes"
	"fmt"
	"io"
	"os"
	"os/exec"
	"strings"
	"sync"
	"time"

	dexec "verif/harness/exec"
)

// capBuffer keeps the first max bytes written to it.
type capBuffer struct {
	mu  sync.Mutex
	buf bytes.Buffer
	max int
}

func (c *capBuffer) Write(p []byte) (int, error) {
	c.mu.Lock()
	defer c.mu.Unlock()
	if room := c.max - c.buf.Len(); room > 0 {
		if len(p) < room {
			room = len(p)
		}
		c.buf.Write(p[:room])
	}
	return len(p), nil
}

func (c *capBuffer) String() string {
	c.mu.Lock()
	defer c.mu.Unlock()
	return c.buf.String()
}

// child is one worker process.
type child struct {
	cmd    *exec.Cmd
	stdin  io.WriteCloser
	lines  chan []byte // response lines; closed when stdout ends
	stderr *capBuffer
}

func startChild() (*child, error) {
	self, err := os.Executable()
	if err != nil {
		return nil, err
	}
	c := &child{cmd: exec.Command(self), lines: make(chan []byte, 1), stderr: &capBuffer{max: 1 << 20}}
	c.cmd.Stderr = c.stderr
	if c.stdin, err = c.cmd.StdinPipe(); err != nil {
		return nil, err
	}
	stdout, err := c.cmd.StdoutPipe()
	if err != nil {
		return nil, err
	}
	if err := c.cmd.Start(); err != nil {
		return nil, err
	}
	go func() {
		defer close(c.lines)
		rd := bufio.NewReaderSize(stdout, 1<<20)
		for {
			line, err := rd.ReadBytes('\n')
			if len(line) > 0 && line[len(line)-1] == '\n' {
				c.lines <- line[:len(line)-1]
			}
			if err != nil {
				return
			}
		}
	}()
	return c, nil
}

// stop kills the child and waits until its stderr has been collected.
func (c *child) stop() {
	c.stdin.Close()
	c.cmd.Process.Kill()
	for range c.lines { // let the reader goroutine finish before Wait closes the pipe
	}
	c.cmd.Wait()
}

func superviseLoop(in io.Reader, out io.Writer, timeout time.Duration) int {
	w := bufio.NewWriter(out)
	var c *child
	defer func() {
		if c != nil {
			c.stdin.Close()
			c.cmd.Wait()
		}
	}()
	status := 0
	forEachLine(in, func(line []byte) {
		resp, fatal, msg := []byte(nil), "", ""
		if c == nil {
			var err error
			if c, err = startChild(); err != nil {
				fatal, msg = "crash", "cannot start worker: "+err.Error()
				c = nil
				status = 1
			}
		}
		if c != nil {
			_, werr := c.stdin.Write(append(append([]byte(nil), line...), '\n'))
			timer := time.NewTimer(timeout)
			select {
			case l, ok := <-c.lines:
				if ok {
					resp = l
				} else {
					c.stop()
					fatal, msg = "crash", c.stderr.String()
					if strings.Contains(msg, "stack overflow") || strings.Contains(msg, "goroutine stack exceeds") {
						fatal = "stack-overflow"
					}
					if werr != nil && msg == "" {
						msg = werr.Error()
					}
					c = nil
				}
			case <-timer.C:
				c.stop()
				fatal, msg = "timeout", fmt.Sprintf("no answer within %v", timeout)
				c = nil
			}
			timer.Stop()
		}
		if resp == nil {
			if len(msg) > 2000 {
				msg = msg[:2000]
			}
			resp = dexec.Marshal(dexec.FatalRes(fatal, msg))
		}
		w.Write(resp)
		w.WriteByte('\n')
		w.Flush()
	})
	return status
}
