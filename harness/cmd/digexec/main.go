// Command digexec executes protocol requests (PROTOCOL.md) on the real dig
// library: one JSON request per input line, one JSON response per output line.
//
//	digexec                 plain worker
//	digexec -supervise      runs a worker child, survives its crashes / hangs
//	digexec -types          prints the reflect-derived "types" array and exits
package main

import (
	"bufio"
	"bytes"
	"encoding/json"
	"flag"
	"fmt"
	"io"
	"os"
	"runtime/debug"
	"time"

	"verif/harness/exec"
	"verif/harness/pool"
)

func main() {
	types := flag.Bool("types", false, "print the universe type facts computed by reflect and exit")
	supervise := flag.Bool("supervise", false, "run a worker child process and supervise it")
	timeout := flag.Duration("timeout", 20*time.Second, "per-request timeout in supervisor mode")
	flag.Parse()

	if err := pool.Verify(); err != nil {
		fmt.Fprintln(os.Stderr, err)
		os.Exit(2)
	}
	switch {
	case *types:
		os.Stdout.Write(append(exec.Marshal(pool.Types()), '\n'))
	case *supervise:
		os.Exit(superviseLoop(os.Stdin, os.Stdout, *timeout))
	default:
		debug.SetMaxStack(64 << 20)
		worker(os.Stdin, os.Stdout)
	}
}

// forEachLine calls f with every non-blank input line (without the newline).
func forEachLine(in io.Reader, f func(line []byte)) {
	rd := bufio.NewReaderSize(in, 1<<20)
	for {
		line, err := rd.ReadBytes('\n')
		if line = bytes.TrimSpace(line); len(line) > 0 {
			f(line)
		}
		if err != nil {
			return
		}
	}
}

func worker(in io.Reader, out io.Writer) {
	w := bufio.NewWriter(out)
	forEachLine(in, func(line []byte) {
		// A fresh goroutine per request: fresh stack, bounded by SetMaxStack.
		done := make(chan []byte, 1)
		go func() { done <- handle(line) }()
		w.Write(<-done)
		w.WriteByte('\n')
		w.Flush()
	})
}

func handle(line []byte) (resp []byte) {
	defer func() {
		if p := recover(); p != nil {
			resp = exec.Marshal(exec.FatalRes("crash", fmt.Sprint(p)))
		}
	}()
	var req exec.Request
	if err := json.Unmarshal(line, &req); err != nil {
		return exec.Marshal(exec.FatalRes("bad-request", err.Error()))
	}
	switch req.Kind {
	case "graph":
		return exec.Marshal(exec.Graph(&req))
	case "label":
		return exec.Marshal(exec.Label(&req))
	case "tag":
		return exec.Marshal(exec.Tag(&req))
	case "prog":
		return exec.Marshal(exec.Prog(&req))
	}
	return exec.Marshal(exec.FatalRes("bad-request", "unknown kind "+req.Kind))
}
