package main

import (
	"bytes"
	"encoding/json"
	"flag"
	"fmt"
	"os"
	"strings"
	"testing"

	"verif/harness/exec"
	"verif/harness/pool"
)

var update = flag.Bool("update", false, "rewrite ../../testdata/smoke.jsonl from the programs in this file")

const smokeFile = "../../testdata/smoke.jsonl"

// ---- tiny JSON builders for hand-written programs ----

func u(id int) string { return fmt.Sprintf(`{"u":%d}`, id) }

func list(xs ...string) string { return "[" + strings.Join(xs, ",") + "]" }

// fld is an exported, non-embedded field; tags is the JSON object body, e.g. `"name":"a"`.
func fld(name, t, tags string) string {
	return fmt.Sprintf(`{"n":%q,"x":true,"anon":false,"t":%s,"tags":{%s}}`, name, t, tags)
}

func embed(name, t string) string {
	return fmt.Sprintf(`{"n":%q,"x":true,"anon":true,"t":%s,"tags":{}}`, name, t)
}

var (
	embIn  = embed("In", u(1))
	embOut = embed("Out", u(2))
)

func st(id int, fields ...string) string {
	return fmt.Sprintf(`{"st":%s,"id":%d}`, list(fields...), id)
}

func fn(id int, in, out []string) string {
	return fmt.Sprintf(`{"id":%d,"name":"F%d","in":%s,"variadic":false,"out":%s}`, id, id, list(in...), list(out...))
}

func nonfunc(id int, what string) string {
	return fmt.Sprintf(`{"id":%d,"name":"F%d","nonfunc":%q,"in":[],"variadic":false,"out":[]}`, id, id, what)
}

func ts(xs ...string) []string { return xs }

func provide(scope, fn int, extra string) string {
	if extra == "" {
		extra = `"name":"","group":"","as":[],"export":false,"cb":false,"info":false,"opts":[]`
	}
	return fmt.Sprintf(`{"op":"provide","scope":%d,"fn":%d,%s}`, scope, fn, extra)
}

func popts(name, group, as string, export, cb, info bool, opts ...string) string {
	q := make([]string, len(opts))
	for i, o := range opts {
		q[i] = fmt.Sprintf("%q", o)
	}
	if as == "" {
		as = "[]"
	}
	return fmt.Sprintf(`"name":%q,"group":%q,"as":%s,"export":%v,"cb":%v,"info":%v,"opts":%s`,
		name, group, as, export, cb, info, list(q...))
}

func decorate(scope, fn int, cb, info bool) string {
	return fmt.Sprintf(`{"op":"decorate","scope":%d,"fn":%d,"cb":%v,"info":%v}`, scope, fn, cb, info)
}

func invoke(scope, fn int, info bool) string {
	return fmt.Sprintf(`{"op":"invoke","scope":%d,"fn":%d,"info":%v}`, scope, fn, info)
}

func visualize(errOf int) string {
	return fmt.Sprintf(`{"op":"visualize","scope":0,"errOf":%d}`, errOf)
}

func cfg(deferV, recoverV, dry bool) string {
	return fmt.Sprintf(`{"defer":%v,"recover":%v,"dry":%v}`, deferV, recoverV, dry)
}

func prog(cfg string, fns []string, script string, ops ...string) string {
	if script == "" {
		script = "{}"
	}
	return fmt.Sprintf(`{"kind":"prog","cfg":%s,"types":%s,"fns":%s,"script":%s,"ops":%s}`,
		cfg, exec.Marshal(pool.Types()), list(fns...), script, list(ops...))
}

type smoke struct{ name, req string }

var plain = cfg(false, false, false)

// inG is struct{ dig.In; G []*T0 `group:"g"` }.
func inG(id int) string { return st(id, embIn, fld("G", u(30), `"group":"g"`)) }

func smokePrograms() []smoke {
	return []smoke{
		{"graph-cycle", `{"kind":"graph","n":3,"succ":[[1],[2],[0]]}`},
		{"graph-dag", `{"kind":"graph","n":4,"succ":[[1,2],[3],[3],[]]}`},

		{"plain provide+invoke, info", prog(plain,
			ts(fn(1, nil, ts(u(10))), fn(2, ts(u(10)), nil), fn(3, nil, nil)), "",
			provide(0, 1, popts("", "", "", false, false, true)),
			invoke(0, 2, true),
			invoke(0, 2, false),
			invoke(0, 3, true),
		)},

		{"param object: name / optional tags", prog(plain,
			ts(fn(1, nil, ts(u(10))),
				fn(2, ts(st(100, embIn,
					fld("A", u(10), `"name":"a"`),
					fld("B", u(11), `"optional":"true"`),
					fld("C", u(10), `"name":"zz","optional":"true"`),
					fld("D", u(70), `"optional":"true"`))), nil)), "",
			provide(0, 1, popts("a", "", "", false, false, true, "name")),
			invoke(0, 2, true),
		)},

		{"result object with groups + group consumer", prog(plain,
			ts(fn(1, nil, ts(st(100, embOut, fld("A", u(10), `"group":"g"`), fld("B", u(10), `"group":"g"`), fld("N", u(11), `"name":"n"`)))),
				fn(2, nil, ts(u(10))),
				fn(3, ts(inG(101)), nil),
				fn(4, ts(st(102, embIn, fld("N", u(11), `"name":"n"`))), nil)), "",
			provide(0, 1, popts("", "", "", false, false, true)),
			provide(0, 2, popts("", "g", "", false, false, true, "group")),
			invoke(0, 3, true),
			invoke(0, 4, false),
		)},

		{"flatten", prog(plain,
			ts(fn(1, nil, ts(u(30))), fn(2, nil, ts(u(10))), fn(3, ts(inG(100)), nil)),
			`{"1":[{"k":"ok","len":3,"dt":0,"eslot":0}]}`,
			provide(0, 1, popts("", "g,flatten", "", false, false, true, "group")),
			provide(0, 2, popts("", "g", "", false, false, false, "group")),
			invoke(0, 3, false),
		)},

		{"As", prog(plain,
			ts(fn(1, nil, ts(u(11))), fn(2, ts(u(20), u(21)), nil), fn(3, ts(u(11)), nil), fn(4, nil, ts(u(12)))), "",
			provide(0, 1, popts("", "", `[{"iface":20},{"iface":21}]`, false, false, true, "as")),
			invoke(0, 2, false),
			invoke(0, 3, false),
			provide(0, 4, popts("", "", `[{"nil":true}]`, false, false, false, "as")),
			provide(0, 4, popts("", "", `[{"val":70}]`, false, false, false, "as")),
			provide(0, 4, popts("", "", `[{"ptrTo":19}]`, false, false, false, "as")),
			provide(0, 4, popts("", "", `[{"iface":20}]`, false, false, false, "as")),
		)},

		{"decorator with callback", prog(plain,
			ts(fn(1, nil, ts(u(10))), fn(2, ts(u(10)), ts(u(10))), fn(3, ts(u(10)), nil)),
			`{"2":[{"k":"ok","len":1,"dt":3,"eslot":0}]}`,
			provide(0, 1, ""),
			decorate(0, 2, true, true),
			invoke(0, 3, false),
			decorate(0, 2, false, true),
		)},

		{"child scopes, export, badop, string, visualize", prog(plain,
			ts(fn(1, nil, ts(u(10))), fn(2, ts(u(10)), nil), fn(3, nil, ts(u(11))), fn(4, ts(u(11)), nil)), "",
			`{"op":"scope","parent":0}`,
			provide(1, 1, ""),
			invoke(0, 2, false),
			invoke(1, 2, false),
			provide(1, 3, popts("", "", "", true, false, false, "export")),
			invoke(0, 4, false),
			`{"op":"scope","parent":1}`,
			invoke(2, 2, false),
			invoke(5, 2, false),
			`{"op":"scope","parent":7}`,
			`{"op":"string","scope":0}`,
			`{"op":"string","scope":2}`,
			visualize(-1),
			`{"op":"visualize","scope":1,"errOf":-1}`,
		)},

		{"failing constructor (error results)", prog(plain,
			ts(fn(1, nil, ts(u(10), u(0))), fn(2, ts(u(10)), nil), fn(3, nil, ts(u(0))), fn(4, nil, ts(u(0), u(11), u(0)))),
			`{"1":[{"k":"err","len":1,"dt":0,"eslot":0}],"3":[{"k":"err","len":1,"dt":0,"eslot":0}],"4":[{"k":"err","len":1,"dt":0,"eslot":3}]}`,
			provide(0, 1, ""),
			invoke(0, 2, true),
			invoke(0, 2, false),
			invoke(0, 3, false),
			invoke(0, 3, false),
			invoke(0, 4, false),
		)},

		{"panicking constructor, no recover", prog(plain,
			ts(fn(1, nil, ts(u(10))), fn(2, ts(u(10)), nil)),
			`{"1":[{"k":"panic","len":1,"dt":0,"eslot":0}],"2":[{"k":"ok","len":1,"dt":0,"eslot":0},{"k":"panic","len":1,"dt":0,"eslot":0}]}`,
			provide(0, 1, popts("", "", "", false, true, false)),
			invoke(0, 2, false),
			invoke(0, 2, false),
			invoke(0, 2, false),
		)},

		{"panicking constructor, RecoverFromPanics", prog(cfg(false, true, false),
			ts(fn(1, nil, ts(u(10))), fn(2, ts(u(10)), nil)),
			`{"1":[{"k":"panic","len":1,"dt":5,"eslot":0}],"2":[{"k":"ok","len":1,"dt":0,"eslot":0},{"k":"panic","len":1,"dt":0,"eslot":0}]}`,
			provide(0, 1, popts("", "", "", false, true, false)),
			invoke(0, 2, false),
			invoke(0, 2, false),
			invoke(0, 2, false),
		)},

		{"callbacks with dt, ok and err", prog(plain,
			ts(fn(1, nil, ts(u(10), u(0))), fn(2, nil, ts(u(11), u(0))), fn(3, ts(u(10)), nil), fn(4, ts(u(11)), nil)),
			`{"1":[{"k":"ok","len":1,"dt":7,"eslot":0}],"2":[{"k":"err","len":1,"dt":11,"eslot":0}]}`,
			provide(0, 1, popts("", "", "", false, true, false)),
			provide(0, 2, popts("", "", "", false, true, false)),
			invoke(0, 3, false),
			invoke(0, 4, false),
		)},

		{"missing dependencies + visualize error", prog(plain,
			ts(fn(1, ts(u(13)), ts(u(10))), fn(2, ts(u(10)), nil), fn(3, ts(u(14), st(100, embIn, fld("A", u(15), `"name":"x"`))), nil)), "",
			provide(0, 1, ""),
			invoke(0, 2, false),
			invoke(0, 3, false),
			visualize(1),
			visualize(0),
		)},

		{"cycle rejected at Provide", prog(plain,
			ts(fn(1, ts(u(11)), ts(u(10))), fn(2, ts(u(10)), ts(u(11))), fn(3, ts(u(10)), nil)), "",
			provide(0, 1, ""),
			provide(0, 2, popts("", "", "", false, false, true)),
			invoke(0, 3, false),
		)},

		{"cycle detected at Invoke (deferred verification)", prog(cfg(true, false, false),
			ts(fn(1, ts(u(11)), ts(u(10))), fn(2, ts(u(10)), ts(u(11))), fn(3, ts(u(10)), nil)), "",
			provide(0, 1, ""),
			provide(0, 2, popts("", "", "", false, false, true)),
			invoke(0, 3, false),
		)},

		{"non-function values", prog(plain,
			ts(nonfunc(1, "nil"), nonfunc(2, "int"), nonfunc(3, "ptr"), nonfunc(4, "struct")), "",
			provide(0, 1, popts("", "", "", false, false, true)),
			provide(0, 2, ""),
			provide(0, 3, ""),
			provide(0, 4, ""),
			invoke(0, 1, true),
			invoke(0, 2, false),
			decorate(0, 1, false, true),
			decorate(0, 2, false, false),
		)},

		{"dry run", prog(cfg(false, false, true),
			ts(fn(1, nil, ts(u(10), u(0))), fn(2, ts(u(10)), ts(u(0)))),
			`{"1":[{"k":"err","len":1,"dt":0,"eslot":0}]}`,
			provide(0, 1, popts("", "", "", false, true, true)),
			invoke(0, 2, true),
		)},
	}
}

// extra programs exercising executor-only answers (not compared with the model).
func extraPrograms() []smoke {
	unexpEmbedded := `{"st":[{"n":"in","x":false,"anon":true,"t":{"u":1},"tags":{}}],"id":100}`
	unexpField := st(101, embIn, `{"n":"a","x":false,"anon":false,"t":{"u":10},"tags":{}}`, fld("B", u(10), ""))
	return []smoke{
		{"unbuildable fn + unexported field", prog(plain,
			ts(fn(1, ts(unexpEmbedded), nil), fn(2, ts(unexpField), nil), fn(3, nil, ts(u(10)))), "",
			invoke(0, 1, false), provide(0, 3, ""), invoke(0, 2, true))},
		{"bad-types: one type, two ids", prog(plain,
			ts(fn(1, ts(st(100, embIn)), nil), fn(2, ts(st(101, embIn)), nil)), "", invoke(0, 1, false))},
		{"bad-types: one id, two types", prog(plain,
			ts(fn(1, ts(st(100, embIn)), ts(st(100, embOut)))), "", invoke(0, 1, false))},
		{"bad request", `{"kind":"prog","cfg":`},
		{"unknown fn", prog(plain, nil, "", invoke(0, 9, false))},
		{"slices of slices, named slices, interfaces, S0, int", prog(plain,
			ts(fn(1, nil, ts(u(60), u(50), u(64), u(42), u(19), u(70), u(38), u(20))),
				fn(2, ts(u(60), u(50), u(64), u(42), u(19), u(70), u(38), u(20)), nil)),
			`{"1":[{"k":"ok","len":2,"dt":0,"eslot":0}]}`,
			provide(0, 1, ""), invoke(0, 2, true))},
		{"dig-internal panics (F6 flatten+As, F11 empty group name)", prog(plain,
			ts(fn(1, nil, ts(u(30))), fn(2, ts(u(10)), nil)), "",
			provide(0, 1, popts("", "g,flatten", `[{"iface":20}]`, false, false, false, "group", "as")),
			provide(0, 1, popts("", ",flatten", "", false, false, false, "group")),
			invoke(0, 2, false))},
		{"variadic + nested result struct slots", prog(plain,
			ts(fn(1, nil, ts(u(11), st(100, embOut, fld("A", u(10), ""), fld("Inner", st(101, embOut, fld("S", u(19), "")), "")), u(0))),
				`{"id":2,"name":"F2","in":[{"u":10},{"u":19},{"u":31}],"variadic":true,"out":[]}`), "",
			provide(0, 1, popts("", "", "", false, false, true)), invoke(0, 2, true))},
	}
}

func runAll(t *testing.T, progs []smoke) {
	for _, p := range progs {
		resp := handle([]byte(p.req))
		if !json.Valid(resp) {
			t.Errorf("%s: invalid JSON response %s", p.name, resp)
		}
		again := handle([]byte(p.req))
		if !bytes.Equal(resp, again) {
			t.Errorf("%s: not deterministic:\n%s\n%s", p.name, resp, again)
		}
		t.Logf("=== %s\n    %s", p.name, compactOps(resp))
	}
}

// compactOps prints one op per line to keep the log readable.
func compactOps(resp []byte) string {
	var pr struct {
		Ops   []json.RawMessage `json:"ops"`
		Fatal json.RawMessage   `json:"fatal"`
	}
	if json.Unmarshal(resp, &pr) != nil || pr.Ops == nil {
		return string(resp)
	}
	var sb strings.Builder
	for i, o := range pr.Ops {
		fmt.Fprintf(&sb, "\n      [%d] %s", i, o)
	}
	fmt.Fprintf(&sb, "\n      fatal=%s", pr.Fatal)
	return sb.String()
}

func TestSmoke(t *testing.T) {
	progs := smokePrograms()
	if *update {
		var buf bytes.Buffer
		for _, p := range progs {
			if strings.Contains(p.req, "\n") {
				t.Fatalf("%s: request contains a newline", p.name)
			}
			buf.WriteString(p.req + "\n")
		}
		if err := os.WriteFile(smokeFile, buf.Bytes(), 0o644); err != nil {
			t.Fatal(err)
		}
	}
	runAll(t, progs)
}

func TestExtra(t *testing.T) { runAll(t, extraPrograms()) }

// TestSmokeFileInSync makes sure testdata/smoke.jsonl is what this file generates.
func TestSmokeFileInSync(t *testing.T) {
	data, err := os.ReadFile(smokeFile)
	if err != nil {
		t.Fatal(err)
	}
	var want bytes.Buffer
	for _, p := range smokePrograms() {
		want.WriteString(p.req + "\n")
	}
	if !bytes.Equal(data, want.Bytes()) {
		t.Fatalf("%s is stale; run go test -tags verif ./cmd/digexec -run TestSmoke -update", smokeFile)
	}
}
