"""Exploration tool: generate programs, run model and implementation, summarise disagreements."""
import argparse
import json
import multiprocessing as mp
import sys
import os
sys.path.insert(0, os.path.dirname(os.path.abspath(__file__)))
import gen
import runner


def sig(mt, it, i):
    def v(tr):
        ops = tr.get("ops", [])
        if i < len(ops):
            x = ops[i].get("v")
            if isinstance(x, dict):
                if "err" in x:
                    return "err:" + ">".join(x["err"]["chain"]) + ":" + x["err"]["root"].split(":")[0]
                return "panic:" + x["panic"].split(":")[0]
            return str(x)
        return "fatal:" + str(tr.get("fatal"))
    a, b = v(mt), v(it)
    if a == b:
        mo, io_ = runner.canon_op(mt["ops"][i]), runner.canon_op(it["ops"][i])
        for k in ("ev", "info", "dot"):
            if mo.get(k) != io_.get(k):
                return "same-verdict(%s) differ-in:%s" % (a, k)
    return "model=%s impl=%s" % (a, b)


def work(args):
    seed0, lo, hi, wjson = args
    w = json.loads(wjson) if wjson else None
    pair = runner.Pair()
    out = []
    for k in range(lo, hi):
        seed = seed0 * 1000003 + k
        prog = gen.generate(seed, w)
        mt, it = pair.run(prog)
        i = runner.first_diff(mt, it)
        if i is not None:
            opk = prog["ops"][i]["op"] if i < len(prog["ops"]) else "?"
            out.append((seed, i, opk + " " + sig(mt, it, i)))
    pair.close()
    return out


def main():
    ap = argparse.ArgumentParser()
    ap.add_argument("--seed", type=int, default=1)
    ap.add_argument("--n", type=int, default=200)
    ap.add_argument("--jobs", type=int, default=16)
    ap.add_argument("--w", default="")
    ap.add_argument("--show", type=int, default=0, help="print details of the first N disagreements")
    a = ap.parse_args()
    chunk = max(1, a.n // (a.jobs * 4))
    tasks = [(a.seed, lo, min(a.n, lo + chunk), a.w) for lo in range(0, a.n, chunk)]
    with mp.Pool(a.jobs) as pool:
        res = [x for r in pool.map(work, tasks) for x in r]
    groups = {}
    for seed, i, s in res:
        groups.setdefault(s, []).append((seed, i))
    print("programs=%d disagreements=%d" % (a.n, len(res)))
    for s, l in sorted(groups.items(), key=lambda kv: -len(kv[1])):
        print("%5d  %s   e.g. seed=%d op=%d" % (len(l), s, l[0][0], l[0][1]))


if __name__ == "__main__":
    main()
