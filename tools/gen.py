"""Seeded generator of dig programs (PROTOCOL.md).  Every random choice comes from one
random.Random(seed); a program replays exactly from its JSON."""
import json
import random
from universe import TYPES, IMPLS

PT = [10, 11, 12, 13, 14, 15]         # value types used most
IF = [20, 21, 22]
NAMES = ["", "", "", "n1", "n2"]
GROUPS = ["g", "h"]
# legal names / group names whose *content* matters to whoever formats, quotes, compares or splits them
ODD = ['a<b', 'x>y', 'p&q', 'q"x', 'b\\s', 'sp ace', '\u00fc', 'N1', 'x:y', "it's", 'tab\there']

DEFAULT_W = dict(
    malformed=0.12,      # probability that a function / option is drawn from the malformed stream
    decorate=0.18,       # share of decorate ops
    scope=0.10,
    invoke=0.30,
    obj_param=0.45,      # a parameter is a dig.In object
    deeptree=0.1,        # scope trees that grow deep, with siblings below depth 2
    errif=0.08,          # an error result is declared with a user-defined interface embedding error
    blankgroup=0.03,     # group names that differ by a leading / trailing blank
    multias=0.25,        # (given As) several results sharing the As list, one of them being a listed interface itself
    optseq=0.3,          # container options given in another order / repeated (the last value counts)
    selfcycle=0.02,      # a constructor feeding, through several results, the group it consumes
    dupdep=0.0,          # a failing constructor declaring one dependency several times, drawn with the Invoke's error
    longchain=0.01,      # a dependency chain of 17..45 named values (size thresholds), ending well, badly, nowhere or in itself
    oddkinds=0.02,       # non-pointer implementers (zero values behind interfaces), channel / map / function typed keys
    strmix=0.04,         # a name equal to a group name in use (and vice versa)
    oddstr=0.0,          # names / group names with quotes, backslashes, blanks, non-ASCII, upper case
    shadow=0.03,         # one key provided in a scope and in an ancestor, decorated on the path, consumed below
    vizgroup=0.0,        # a value group with failing members, consumed and drawn with that Invoke's error
    loc=0.03,            # Provide carries dig.LocationForPC
    ascollide=0.0,       # a constructor whose As list collides, in its second or later entry, with a key the scope already provides
    nilmembers=0.0,      # value groups of interface / pointer element type fed nil members (plain and inside flattened slices)
    nilvals=0.05,        # share of scripted executions that return zero values (nil pointers, nil interfaces, slices of nil elements)
    staleundo=0.01,      # an operation rejected before anything is parsed, right after a success, then a Provide that leans on that success
    deferleak=0.01,      # (deferred verification) an unverified cycle below a verified scope, a rejected Provide above, an Invoke below
    softpair=0.0,        # two adjacent soft groups followed by a field whose multi-result constructor feeds the second
    embed=0.04,          # an object embeds further structs (plain ones, or dig.In / dig.Out indirectly)
    obj_result=0.30,     # a result is a dig.Out object
    group=0.30,          # use of value groups
    optional=0.25,
    named=0.30,
    as_=0.15,
    export=0.15,
    cb=0.35,
    fault=0.18,          # share of scripted executions that fail
    backedge=0.12,       # a dependency may point "upwards" (possible cycle)
    defer=0.2, recover=0.6, dry=0.1,
    max_ops=28, max_scopes=5,
    visualize=0.03,
    reprovide=0.15,      # provide a key that some scope already provides, in another scope
    reinvoke=0.35,       # invoke an earlier invoker again (same or other scope)
    web=0.04,            # a small web of feeders / consumers / decorators around one value group
    late=0.04,           # a dependency that is missing at the first Invoke and provided before the retry
    retry=0.04,          # a constructor / decorator scripted to fail first and succeed on the retry
    deepcycle=0.03,      # a dependency cycle that only a (grand)child scope can see, closed from an ancestor
)


def u(i):
    return {"u": i}


class Gen:
    def __init__(self, seed, w=None, m2=False):
        self.r = random.Random(seed)
        self.w = dict(DEFAULT_W)
        if w:
            self.w.update(w)
        self.m2 = m2
        self.fns = []
        self.ops = []
        self.script = {}
        self.intern = {}
        self.next_ty = 100
        self.nscopes = 1
        # what has been provided so far, per scope: list of (ty, name) and groups (elem, group)
        self.provided = []       # (scope, ty, name)
        self.resolvable = []     # (scope, ty, name): provided by a constructor whose own dependencies looked resolvable
        self.parents = [None]    # parent of each scope
        self._deps_ok = True
        self.groups_fed = []     # (scope, elem, group)
        self.invokers = []

    # ---- helpers
    def p(self, key):
        return self.r.random() < self.w[key]

    def st(self, fields):
        key = json.dumps(fields, sort_keys=True)
        if key not in self.intern:
            self.intern[key] = self.next_ty
            self.next_ty += 1
        return {"st": fields, "id": self.intern[key]}

    def ptr(self, t):
        key = "ptr:" + json.dumps(t, sort_keys=True)
        if key not in self.intern:
            self.intern[key] = self.next_ty
            self.next_ty += 1
        return {"ptr": t, "id": self.intern[key]}

    def field(self, name, t, tags=None, x=True, anon=False):
        return {"n": name, "x": x, "anon": anon, "t": t, "tags": tags or {}}

    def in_field(self, tags=None):
        return self.field("In", u(1), tags, anon=True)

    def out_field(self):
        return self.field("Out", u(2), anon=True)

    def pick_type(self, level=None, backedge=False):
        r = self.r
        if level is not None and not backedge and level > 0 and r.random() < 0.85:
            return PT[r.randrange(0, min(level, len(PT)))]
        if r.random() < 0.15:
            return r.choice(IF)
        return r.choice(PT)

    def pick_name(self):
        if not self.p("named"):
            return ""
        if self.r.random() < self.w["oddstr"]:
            return self.r.choice(ODD)
        if self.r.random() < self.w["strmix"]:
            return self.r.choice(GROUPS)
        return self.r.choice(NAMES)

    def err_t(self):
        """the type of an error result: `error`, sometimes the user-defined error interface EI"""
        return u(5) if self.r.random() < self.w["errif"] else u(0)

    def pick_group(self):
        """a group name; rarely one that differs from another only by a blank"""
        g = self.r.choice(GROUPS)
        if self.r.random() < self.w["oddstr"]:
            g = self.r.choice(ODD)
        elif self.r.random() < self.w["strmix"]:
            g = self.r.choice(["n1", "n2"])
        if self.r.random() < self.w["blankgroup"]:
            g = self.r.choice([g + " ", " " + g])
        return g

    def slice_of(self, elem):
        for t in TYPES:
            if t["kind"] == "slice" and t["elem"] == elem and t["id"] not in (50, 51):
                return t["id"]
        return 30

    # ---- parameters
    def anc(self, s):
        out = []
        while s is not None:
            out.append(s)
            s = self.parents[s]
        return out

    def gen_single_param(self, level, scope=None, optional=False):
        """returns (ty, name).  Prefer keys that are resolvable from `scope`."""
        r = self.r
        if scope is not None and self.resolvable and r.random() < self.w.get("resolvable", 0.92):
            a = set(self.anc(scope))
            cands = [(t, n) for (sc, t, n) in self.resolvable if sc in a]
            if level is not None and not self.p("backedge"):
                low = [c for c in cands if c[0] in PT and PT.index(c[0]) < max(level, 1)]
                cands = low or (cands if level == 0 and False else [])
            if cands:
                return r.choice(cands)
        if not optional:
            self._deps_ok = False
        if self.provided and r.random() < 0.7:
            cands = [(t, n) for (_, t, n) in self.provided]
            if level is not None and not self.p("backedge"):
                low = [c for c in cands if c[0] in PT and PT.index(c[0]) < max(level, 1)] or cands
                cands = low if r.random() < 0.85 else cands
            return r.choice(cands)
        return (self.pick_type(level, self.p("backedge")), self.pick_name())

    def gen_params(self, level, n=None, allow_soft=True, scope=None):
        r = self.r
        ins = []
        n = r.choice([0, 1, 1, 2, 2, 3]) if n is None else n
        fieldno = [0]

        def fname():
            fieldno[0] += 1
            return "F%d" % fieldno[0]

        def obj(depth):
            fs = [self.in_field()]
            k = r.choice([1, 2, 2, 3])
            for _ in range(k):
                c = r.random()
                if c < self.w["group"]:
                    if self.groups_fed and r.random() < 0.75:
                        (_, elem, g) = r.choice(self.groups_fed)
                    else:
                        elem, g = self.pick_type(None), self.pick_group()
                    sl = self.slice_of(elem)
                    if elem == 11 and r.random() < 0.2:
                        sl = 51          # named slice consumer
                    if elem == 10 and r.random() < 0.1:
                        sl = 50
                    tag = g + (",soft" if (allow_soft and r.random() < 0.3) else "")
                    fs.append(self.field(fname(), u(sl), {"group": tag}))
                elif c < self.w["group"] + self.w.get("nest", 0.12) and depth < 2:
                    fs.append(self.field(fname(), obj(depth + 1)))
                else:
                    optv = r.choice(["true", "true", "1", "T", "false"]) if self.p("optional") else None
                    (t, nm) = self.gen_single_param(level, scope, optional=optv not in (None, "false"))
                    tags = {}
                    if nm:
                        tags["name"] = nm
                    if optv is not None:
                        tags["optional"] = optv
                    fs.append(self.field(fname(), u(t), tags))
            # sometimes put In last / in the middle
            if r.random() < 0.2:
                fs = fs[1:] + fs[:1]
            if self.p("embed"):
                e = r.random()
                if e < 0.5:
                    # an ordinary struct embedded next to dig.In (before it, half of the time): a plain dependency
                    tg = {"optional": "true"} if r.random() < 0.5 else {}
                    pos = 0 if r.random() < 0.5 else r.randrange(0, len(fs) + 1)
                    fs.insert(pos, self.field("S0", u(19), tg, anon=True))
                elif e < 0.8:
                    # dig.In embedded indirectly, through an embedded struct that embeds it
                    (t, nm) = self.gen_single_param(level, scope)
                    base = self.st([self.in_field(), self.field("B1", u(t), {"name": nm} if nm else {})])
                    # ... through one or two further embedded structs, a third of the time each (decided by what has
                    # been drawn already: no extra draw, the random stream of every program stays what it was)
                    for _ in range((t + len(fs)) % 3):
                        base = self.st([self.field("Base", base, anon=True)])
                    i = [j for j, f in enumerate(fs) if f["anon"] and f["t"].get("u") == 1][0]
                    fs[i] = self.field("Base", base, anon=True)
                    if r.random() < 0.3:
                        fs.insert(0, self.field("S0", u(19), {"optional": "true"}, anon=True))
                elif e < 0.9:
                    # an embedded composite struct that does not embed dig.In
                    plain = self.st([self.field("X", u(r.choice(PT)))])
                    fs.insert(r.randrange(0, len(fs) + 1), self.field("Plain", plain, {"optional": "true"}, anon=True))
                else:
                    # no dig.In of its own: two parameter objects embedded side by side, each embedding dig.In
                    (t1, n1) = self.gen_single_param(level, scope)
                    (t2, n2) = self.gen_single_param(level, scope)
                    left = self.st([self.in_field(), self.field("L1", u(t1), {"name": n1} if n1 else {})])
                    right = self.st([self.in_field(), self.field("R1", u(t2), {"name": n2} if n2 else {})])
                    return self.st([self.field("PartA", left, anon=True), self.field("PartB", right, anon=True)])
            return self.st(fs)

        for _ in range(n):
            if self.p("obj_param"):
                ins.append(obj(0))
            else:
                (t, nm) = self.gen_single_param(level, scope)
                if nm:
                    # a named dependency needs an object
                    ins.append(self.st([self.in_field(), self.field("F1", u(t), {"name": nm})]))
                else:
                    ins.append(u(t))
        return ins

    # ---- results
    def gen_results(self, level):
        """returns (outs, opts dict)"""
        r = self.r
        outs = []
        opts = {"name": "", "group": "", "as": [], "opts": []}
        ty = PT[level % len(PT)] if level is not None else r.choice(PT)
        if self.p("obj_result"):
            fs = [self.out_field()]
            k = r.choice([1, 2, 2, 3])
            for j in range(k):
                t = ty if j == 0 else self.pick_type(None)
                c = r.random()
                if c < self.w["group"]:
                    g = self.pick_group()
                    if r.random() < 0.4:
                        fs.append(self.field("R%d" % j, u(self.slice_of(t)), {"group": g + ",flatten"}))
                    else:
                        fs.append(self.field("R%d" % j, u(t), {"group": g}))
                elif c < self.w["group"] + 0.1:
                    fs.append(self.field("R%d" % j, self.st([self.out_field(), self.field("N", u(t), {"name": self.pick_name()} if self.p("named") else {})])))
                else:
                    nm = self.pick_name()
                    fs.append(self.field("R%d" % j, u(t), {"name": nm} if nm else {}))
            if self.p("embed"):
                e = r.random()
                if e < 0.6:
                    fs.insert(0 if r.random() < 0.5 else r.randrange(0, len(fs) + 1), self.field("S0", u(19), anon=True))
                else:
                    base = self.st([self.out_field(), self.field("B1", u(self.pick_type(None)))])
                    fs[0] = self.field("Base", base, anon=True)
                    if r.random() < 0.3:
                        fs.insert(0, self.field("S0", u(19), anon=True))
            outs.append(self.st(fs))
            if self.p("as_") and r.random() < 0.3:
                opts["as"] = [{"iface": 22}]
                opts["opts"].append("as")
        else:
            outs.append(u(ty))
            if r.random() < 0.2:
                outs.append(u(self.pick_type(None)))
            c = r.random()
            if c < self.w["group"]:
                g = self.pick_group()
                if r.random() < 0.35 and len(outs) == 1:
                    outs = [u(self.slice_of(ty))]
                    opts["group"] = g + ",flatten"
                else:
                    opts["group"] = g
                opts["opts"].append("group")
            elif c < self.w["group"] + self.w["named"]:
                opts["name"] = r.choice(["n1", "n2"])
                opts["opts"].append("name")
            if self.p("as_") and self.p("multias") and "flatten" not in opts["group"]:
                # several results share the As list; one of them is itself one of the listed interfaces
                impl = r.choice([10, 11])
                outs = r.choice([[u(23), u(impl)], [u(impl), u(23)], [u(23), u(impl), u(r.choice([10, 11]))]])
                lst = r.choice([[23, 20], [23, 22], [20, 23], [23, 20, 22], [22, 23, 20]])
                opts["as"] = [{"iface": i} for i in lst]
                opts["opts"].append("as")
            elif self.p("as_") and r.random() < 0.2 and "flatten" not in opts["group"]:
                # twin interfaces: a result whose own type is an interface, provided As another interface type with the
                # very same method set (20 and 24) -- a different key
                own, twin = r.choice([(20, 24), (24, 20)])
                outs = r.choice([[u(own)], [u(own)], [u(own), u(r.choice([10, 11]))], [u(23)]])
                lst = r.choice([[twin], [twin], [twin, own], [own, twin], [twin, 22]])
                opts["as"] = [{"iface": i} for i in lst]
                opts["opts"].append("as")
            elif self.p("as_"):
                cands = [i for i in IF + [24] if i in IMPLS.get(ty, [])]
                if cands and len(outs) == 1 and "flatten" not in opts["group"]:
                    k = r.choice([1, 1, 2])
                    opts["as"] = [{"iface": i} for i in r.sample(cands, min(k, len(cands)))]
                    if r.random() < 0.15:
                        opts["as"].append({"iface": 22})
                    opts["opts"].append("as")
        if r.random() < 0.45:
            pos = r.choice([len(outs), len(outs), 0, r.randrange(0, len(outs) + 1)])
            outs.insert(pos, self.err_t())
            if r.random() < 0.1:
                outs.insert(r.randrange(0, len(outs) + 1), self.err_t())
        return outs, opts

    def new_fn(self, ins, outs, variadic=False, nonfunc=None):
        fid = len(self.fns) + 1
        fn = {"id": fid, "name": "F%d" % fid, "in": ins, "variadic": variadic, "out": outs}
        if nonfunc:
            fn["nonfunc"] = nonfunc
        self.fns.append(fn)
        # behaviour script
        behs = []
        for _ in range(self.r.choice([0, 1, 2, 3])):
            c = self.r.random()
            k = "ok"
            if c < self.w["fault"] * 0.65:
                k = "err"
            elif c < self.w["fault"]:
                k = "panic"
            b = {"k": k, "len": self.r.choice([0, 1, 1, 2, 2, 3]), "dt": self.r.randrange(0, 10),
                 "eslot": self.r.choice([0, 0, 1])}
            if k == "err" and self.r.random() < 0.12:
                b["tnil"] = True        # the error returned is a typed nil pointer: not nil, hence a failure
            if self.r.random() < self.w["nilvals"]:
                b["len"] = 1000 + self.r.choice([0, 1, 2, 2])   # zero values: nil pointers / interfaces, slices of nil elements
            behs.append(b)
        if behs:
            self.script[str(fid)] = behs
        return fid

    # ---- malformed stream
    def malformed_fn(self):
        r = self.r
        c = r.randrange(0, 35)
        ty = r.choice(PT)
        if c == 0:
            return self.new_fn([], [], nonfunc=r.choice(["nil", "int", "ptr", "struct", "nilfunc", "nilfunc1"]))
        if c == 1:   # result only error
            return self.new_fn(self.gen_params(None, 1), [u(0)])
        if c == 2:   # no results
            return self.new_fn(self.gen_params(None, 1), [])
        if c == 3:   # Out object as parameter
            return self.new_fn([self.st([self.out_field(), self.field("A", u(ty))])], [u(ty)])
        if c == 4:   # In object as result
            return self.new_fn([], [self.st([self.in_field(), self.field("A", u(ty))])])
        if c == 5:   # pointer to In struct param
            return self.new_fn([self.ptr(self.st([self.in_field(), self.field("A", u(ty))]))], [u(ty)])
        if c == 6:   # pointer to Out struct result
            return self.new_fn([], [self.ptr(self.st([self.out_field(), self.field("A", u(ty))]))])
        if c == 7:   # embedded *dig.In
            return self.new_fn([self.st([self.field("In", u(3), anon=True), self.field("A", u(ty))])], [u(ty)])
        if c == 8:   # embedded *dig.Out
            return self.new_fn([], [self.st([self.field("Out", u(4), anon=True), self.field("A", u(ty))])])
        if c == 9:   # bad optional tag
            return self.new_fn([self.st([self.in_field(), self.field("A", u(ty), {"optional": r.choice(["maybe", "yes", "2"])})])], [u(r.choice(PT))])
        if c == 10:  # bad group option (param)
            return self.new_fn([self.st([self.in_field(), self.field("A", u(self.slice_of(ty)), {"group": r.choice(["g,bogus", "g,flatten", ",soft", "g,soft,zzz", ","])})])], [u(r.choice(PT))])
        if c == 11:  # group param not a slice / named group / optional group
            tags = r.choice([{"group": "g"}, {"group": "g", "name": "n1"}, {"group": "g", "optional": "true"}])
            t = u(r.choice([ty, 19, 70, 20, 21])) if tags == {"group": "g"} else u(self.slice_of(ty))
            return self.new_fn([self.st([self.in_field(), self.field("A", t, tags)])], [u(r.choice(PT))])
        if c == 12:  # bad group result tags
            tags = r.choice([{"group": "g,soft"}, {"group": "g,flatten"}, {"group": ",flatten"}, {"group": "g", "name": "x"},
                             {"group": "g", "optional": "true"}, {"group": "g,what"}, {"group": ""}])
            return self.new_fn([], [self.st([self.out_field(), self.field("A", u(ty), tags)])])
        if c == 13:  # error field in Out
            return self.new_fn([], [self.st([self.out_field(), self.field("A", u(ty)), self.field("E", u(0))])])
        if c == 14:  # dig.In / dig.Out themselves
            return self.new_fn([u(r.choice([1, 2, 3, 4]))], [u(ty)])
        if c == 15:
            return self.new_fn([], [u(r.choice([1, 2, 3, 4]))])
        if c == 16:  # ignore-unexported garbage
            return self.new_fn([self.st([self.in_field({"ignore-unexported": r.choice(["maybe", "true", "false"])}), self.field("A", u(ty))])], [u(r.choice(PT))])
        if c == 17:  # duplicate keys within own results
            return self.new_fn([], [u(ty), u(ty)])
        if c == 18:  # duplicate via object
            return self.new_fn([], [self.st([self.out_field(), self.field("A", u(ty)), self.field("B", u(ty))])])
        if c == 19:  # nested In inside Out etc
            return self.new_fn([], [self.st([self.out_field(), self.field("A", self.st([self.in_field(), self.field("X", u(ty))]))])])
        if c == 20:  # In object with an Out-typed field
            return self.new_fn([self.st([self.in_field(), self.field("A", self.st([self.out_field(), self.field("X", u(ty))]))])], [u(ty)])
        if c == 21:  # variadic
            return self.new_fn([u(ty), u(self.slice_of(r.choice(PT)))], [u(r.choice(PT))], variadic=True)
        if c == 22:  # unexported field in dig.In (rejected unless ignore-unexported)
            tg = r.choice([{}, {"ignore-unexported": "true"}, {"ignore-unexported": "false"}, {"ignore-unexported": "1"}])
            return self.new_fn([self.st([self.in_field(tg), self.field("A", u(ty)), self.field("hidden", u(r.choice(PT)), x=False)])], [u(r.choice(PT))])
        if c == 23:  # unexported field in dig.Out
            return self.new_fn([], [self.st([self.out_field(), self.field("A", u(ty)), self.field("hidden", u(r.choice(PT)), x=False)])])
        if c == 30:  # an array-typed dependency nobody provides (missing-type suggestions are computed for it)
            return self.new_fn([u(r.choice([80, 81, 81, 86]))] + ([u(ty)] if r.random() < 0.5 else []), [u(r.choice(PT))])
        if c == 31:  # ... as an optional / named field of a parameter object
            tg = r.choice([{}, {"optional": "true"}, {"name": "n1"}])
            return self.new_fn([self.st([self.in_field(), self.field("A", u(r.choice([80, 81, 86])), tg)])], [u(r.choice(PT))])
        if c == 32:  # an array-typed result (never Huge: fmt would print 2^61 elements in Scope.String)
            return self.new_fn([], [u(80)] + ([u(0)] if r.random() < 0.5 else []))
        if c in (33, 34):  # an embedded struct of an unexported type in a dig.Out / dig.In (generated-source mode only: reflect.StructOf cannot build it)
            inner = self.st([self.field("X", u(ty))] + ([self.field("Y", u(r.choice(PT)))] if r.random() < 0.4 else []))
            emb = self.field("meta", inner, x=False, anon=True)
            if c == 33:
                return self.new_fn([], [self.st([self.out_field(), emb, self.field("A", u(r.choice(PT)))])])
            tg = r.choice([{}, {"ignore-unexported": "true"}])
            return self.new_fn([self.st([self.in_field(tg), emb, self.field("A", u(ty))])], [u(r.choice(PT))])
        if c == 24:  # a plain struct (no In/Out) as parameter and as result
            plain = self.st([self.field("A", u(ty)), self.field("B", u(r.choice(PT)))])
            return self.new_fn([plain] if r.random() < 0.5 else [], [plain])
        if c in (26, 27):  # rejected only after a valid value-group parameter has been parsed (side effects first)
            g = r.choice(["g", "h"])
            soft = r.choice(["", ",soft"])
            good = self.field("G", u(self.slice_of(ty)), {"group": g + soft})
            if c == 26:
                bad = self.field("B", u(r.choice(PT)), {"optional": r.choice(["maybe", "2"])})
                return self.new_fn([self.st([self.in_field(), good, bad])], [u(r.choice(PT))])
            return self.new_fn([self.st([self.in_field(), good]), self.st([self.out_field(), self.field("A", u(ty))])], [u(r.choice(PT))])
        if c == 28:  # (as a decorator) a value-group result that is not a slice: only whole groups can be decorated
            g = r.choice(["g", "h"])
            return self.new_fn([self.st([self.in_field(), self.field("G", u(self.slice_of(ty)), {"group": g})])],
                               [self.st([self.out_field(), self.field("G", u(ty), {"group": g})])])
        if c == 29:  # an interface-typed result (As naming the result's own type is skipped by dig)
            return self.new_fn([], [u(r.choice(IF + [24, 24]))] + ([u(0)] if r.random() < 0.3 else []))
        # c == 25: group tag on a nested In object field / name tag on a nested object (ignored by dig)
        inner = self.st([self.in_field(), self.field("X", u(ty))])
        return self.new_fn([self.st([self.in_field(), self.field("O", inner, {"name": "zz", "optional": "maybe"})])], [u(r.choice(PT))])

    def malformed_opts(self, opts):
        r = self.r
        c = r.randrange(0, 11)
        if c == 9:
            # a name for whatever the function returns (rejected for result objects)
            opts.update(name="n1"); opts["opts"] = list(set(opts["opts"]) | {"name"})
            return opts
        if c == 10:
            # As naming interfaces in general, possibly the result's own (interface) type
            opts["as"] = [{"iface": i} for i in r.sample(IF + [24], r.choice([1, 2]))]; opts["opts"] = list(set(opts["opts"]) | {"as"})
            return opts
        if c == 0:
            opts.update(name="n1", group="g"); opts["opts"] = ["name", "group"]
        elif c == 1:
            opts.update(name="a`b"); opts["opts"] = ["name"]
        elif c == 2:
            opts.update(group="g`"); opts["opts"] = ["group"]
        elif c == 3:
            opts["as"] = [r.choice([{"nil": True}, {"val": 10}, {"val": 70}, {"val": 30}, {"ptrTo": 10}, {"ptrTo": 30}])]; opts["opts"] = list(set(opts["opts"]) | {"as"})
        elif c == 4:
            opts["as"] = [{"iface": r.choice(IF)}, {"iface": r.choice(IF)}]; opts["opts"] = list(set(opts["opts"]) | {"as"})
        elif c == 5:
            opts.update(group=r.choice(["g,flatten", "g,soft", ",flatten", "g,bogus", "g,flatten,soft"])); opts["opts"] = list(set(opts["opts"]) | {"group"})
        elif c == 6:
            opts.update(name=""); opts["opts"] = list(set(opts["opts"]) | {"name"})
        elif c == 7:
            opts.update(group=""); opts["opts"] = list(set(opts["opts"]) | {"group"})
        else:
            opts["as"] = [{"iface": 0}]; opts["opts"] = list(set(opts["opts"]) | {"as"})
        return opts

    # ---- ops
    def record_results(self, scope, outs, opts, export, deps_ok=False):
        """remember (roughly) what a provide makes available, to bias later consumers"""
        sc = 0 if export else scope
        n0 = len(self.provided)
        self._record(sc, outs, opts)
        if deps_ok:
            self.resolvable.extend(self.provided[n0:])

    def _record(self, sc, outs, opts):

        def walk(t, name, group, as_):
            if "u" in t:
                if t["u"] in (0, 1, 2, 3, 4):
                    return
                if group:
                    g = group.split(",")[0]
                    elem = t["u"]
                    if "flatten" in group:
                        elem = next((x["elem"] for x in TYPES if x["id"] == t["u"]), elem)
                    for a in (as_ or [elem]):
                        self.groups_fed.append((sc, a, g))
                else:
                    for a in (as_ or [t["u"]]):
                        self.provided.append((sc, a, name))
            elif "st" in t:
                for f in t["st"]:
                    tg = f.get("tags", {})
                    walk(f["t"], tg.get("name", name), tg.get("group", ""), as_ if not tg.get("group") else None)
        as_ = [a["iface"] for a in opts.get("as", []) if "iface" in a] if "as" in opts.get("opts", []) else None
        for o in outs:
            walk(o, opts.get("name", "") if "name" in opts.get("opts", []) else "", opts.get("group", "") if "group" in opts.get("opts", []) else "", as_)

    def op_provide(self):
        r = self.r
        scope = r.randrange(0, self.nscopes)
        if self.p("malformed") and r.random() < 0.6:
            fid = self.malformed_fn()
            opts = {"name": "", "group": "", "as": [], "opts": []}
            outs = self.fns[fid - 1]["out"]
        elif self.provided and self.p("reprovide"):
            # the same key again, somewhere else in the tree (nearest-wins, stale caches, duplicates)
            (_, t, nm) = r.choice(self.provided)
            outs = [u(t)]
            opts = {"name": nm, "group": "", "as": [], "opts": (["name"] if nm else [])}
            lvl = PT.index(t) if t in PT else None
            self._deps_ok = True
            ins = self.gen_params(lvl, r.choice([0, 0, 1]), scope=scope)
            fid = self.new_fn(ins, outs)
        else:
            level = r.randrange(0, len(PT))
            outs, opts = self.gen_results(level)
            self._deps_ok = True
            ins = self.gen_params(level, r.choice([0, 0, 1, 1, 2, 3]), scope=scope)
            variadic = False
            if r.random() < 0.06:
                ins.append(u(self.slice_of(r.choice(PT))))
                variadic = True
            fid = self.new_fn(ins, outs, variadic)
        if self.p("malformed") and r.random() < 0.5:
            opts = self.malformed_opts(opts)
        if self.p("malformed") and r.random() < 0.08:
            # flatten + As on a named slice type with methods
            fid = self.new_fn([], [u(50)])
            outs = self.fns[fid - 1]["out"]
            opts = {"name": "", "group": r.choice(["g,flatten", "g"]), "as": [{"iface": 20}], "opts": ["group", "as"]}
        export = self.p("export")
        exports = None
        if export:
            opts["opts"] = list(opts["opts"]) + ["export"]
        if r.random() < 0.06:
            # the option given several times: the last one counts
            exports = [r.random() < 0.5 for _ in range(r.choice([2, 2, 3]))]
            export = exports[-1]
            opts["opts"] = list(set(opts["opts"]) | {"export"})
        op = {"op": "provide", "scope": scope, "fn": fid, "name": opts["name"], "group": opts["group"], "as": opts["as"],
              "export": export, "cb": self.p("cb"), "info": r.random() < 0.7, "opts": sorted(set(opts["opts"]))}
        if exports:
            op["exports"] = exports
        if self.p("loc"):
            # dig.LocationForPC: the constructor is reported under another function's location
            cands = [f["id"] for f in self.fns if "nonfunc" not in f]
            if cands:
                op["loc"] = r.choice(cands) if r.random() < 0.85 else 0     # 0: an address that belongs to no function
                op["opts"] = sorted(set(op["opts"]) | {"loc"})
        self.ops.append(op)
        self.record_results(scope, outs, opts, export, deps_ok=self._deps_ok and "nonfunc" not in self.fns[fid - 1])
        # occasionally provide the very same function again (same or other scope)
        if r.random() < 0.06:
            op2 = dict(op); op2["scope"] = r.randrange(0, self.nscopes)
            self.ops.append(op2)

    def op_decorate(self):
        r = self.r
        scope = r.randrange(0, self.nscopes)
        if self.p("malformed") and r.random() < 0.5:
            fid = self.malformed_fn()
        else:
            outs = []
            ins = []
            k = r.choice([1, 1, 1, 2])
            for _ in range(k):
                if self.groups_fed and r.random() < self.w["group"] + 0.15:
                    (_, elem, g) = r.choice(self.groups_fed)
                    sl = self.slice_of(elem)
                    sl_out = sl
                    if elem == 11 and r.random() < 0.15:
                        sl_out = 51
                    ins.append(self.st([self.in_field(), self.field("G", u(sl), {"group": g})]))
                    tag = g
                    if r.random() < 0.06:
                        tag = g + ",flatten"
                        if elem in (10, 11, 12, 13) and r.random() < 0.7:
                            sl_out = 60 + (elem - 10)       # [][]*T flattened by a decorator
                    outs.append(self.st([self.out_field(), self.field("G", u(sl_out), {"group": tag})]))
                else:
                    if self.provided and r.random() < 0.85:
                        (_, t, nm) = r.choice(self.provided)
                    else:
                        t, nm = r.choice(PT), ""
                    if r.random() < 0.15:
                        # the decorated value sits in a result object nested in a result object
                        if r.random() < 0.8:
                            ins.append(self.single_in(t, nm))
                        inner = self.st([self.out_field(), self.field("V", u(t), {"name": nm} if nm else {})])
                        outs.append(self.st([self.out_field(), self.field("N", inner)]))
                    elif nm:
                        ins.append(self.st([self.in_field(), self.field("V", u(t), {"name": nm})]))
                        outs.append(self.st([self.out_field(), self.field("V", u(t), {"name": nm})]))
                    else:
                        if r.random() < 0.8:
                            ins.append(u(t))
                        outs.append(u(t))
            if r.random() < 0.5:
                ins += self.gen_params(None, r.choice([0, 1]), scope=scope)
            if r.random() < 0.4:
                outs.insert(r.choice([len(outs), len(outs), r.randrange(0, len(outs) + 1)]), self.err_t())
            fid = self.new_fn(ins, outs)
        self.ops.append({"op": "decorate", "scope": scope, "fn": fid, "cb": self.p("cb"), "info": r.random() < 0.7})

    def op_group_web(self):
        """feeders, a constructor consuming the group, decorators of the group on a path of scopes (some
        depending on that constructor's result), consumers -- with random scopes, Export and order"""
        r = self.r
        elem = r.choice(PT[:4])
        g = r.choice(GROUPS)
        sl = self.slice_of(elem)
        # a path of scopes from the root
        path = [0]
        kids = {}
        for s_, p_ in enumerate(self.parents):
            if p_ is not None:
                kids.setdefault(p_, []).append(s_)
        while path[-1] in kids and r.random() < 0.8:
            path.append(r.choice(kids[path[-1]]))
        steps = []
        vt = r.choice(PT[3:])          # the value produced by the group-consuming constructor

        def provide(scope, ins, outs, opts=None, export=False):
            fid = self.new_fn(ins, outs)
            o = {"name": "", "group": "", "as": [], "opts": []}
            o.update(opts or {})
            if export:
                o["opts"] = list(o["opts"]) + ["export"]
            steps.append({"op": "provide", "scope": scope, "fn": fid, "name": o["name"], "group": o["group"], "as": o["as"],
                          "export": export, "cb": self.p("cb"), "info": False, "opts": sorted(set(o["opts"]))})
            self.record_results(scope, outs, o, export, deps_ok=not ins)

        for _ in range(r.choice([1, 2, 3])):
            sc = r.choice(path)
            if r.random() < 0.3:
                provide(sc, [], [u(sl)], {"group": g + ",flatten", "opts": ["group"]})
            else:
                provide(sc, [], [u(elem)], {"group": g, "opts": ["group"]})
        gin = self.st([self.in_field(), self.field("G", u(sl), {"group": g + (",soft" if r.random() < 0.2 else "")})])
        provide(r.choice(path), [gin], [u(vt)], export=r.random() < 0.5)
        for sc in r.sample(path, min(len(path), r.choice([1, 2]))):
            ins = [self.st([self.in_field(), self.field("G", u(sl), {"group": g})])] if r.random() < 0.8 else []
            if r.random() < 0.5:
                ins.append(u(vt))
            fid = self.new_fn(ins, [self.st([self.out_field(), self.field("G", u(sl), {"group": g})])] + ([u(0)] if r.random() < 0.3 else []))
            steps.append({"op": "decorate", "scope": sc, "fn": fid, "cb": self.p("cb"), "info": False})
        for _ in range(r.choice([1, 2, 3])):
            sc = r.choice(path)
            ins = r.choice([[gin], [u(vt)], [gin, u(vt)], [u(vt), gin]])
            fid = self.new_fn(ins, [])
            self.invokers.append((fid, sc))
            steps.append({"op": "invoke", "scope": sc, "fn": fid, "info": False})
        # registrations in random order, invokes interleaved towards the end
        regs = [x for x in steps if x["op"] != "invoke"]
        invs = [x for x in steps if x["op"] == "invoke"]
        r.shuffle(regs)
        out = regs[:]
        for iv in invs:
            out.insert(r.randrange(max(1, len(out) // 2), len(out) + 1), iv)
        self.ops.extend(out)

    # ---- "late dependency": something is missing at the first Invoke and is provided before the retry
    def fresh_key(self):
        """a (type, name) nothing provides yet"""
        r = self.r
        used = {(t, n) for (_, t, n) in self.provided}
        cands = [(t, n) for t in PT + IF for n in ("", "n1", "n2", "late") if (t, n) not in used]
        return r.choice(cands) if cands else (r.choice(PT), "late%d" % len(self.fns))

    def single_in(self, t, nm, optional=False):
        if nm or optional:
            tags = {}
            if nm:
                tags["name"] = nm
            if optional:
                tags["optional"] = "true"
            return self.st([self.in_field(), self.field("F1", u(t), tags)])
        return u(t)

    def plain_provide(self, scope, ins, t, nm, export=False):
        fid = self.new_fn(ins, [u(t)] + ([u(0)] if self.r.random() < 0.3 else []))
        opts = {"name": nm, "group": "", "as": [], "opts": (["name"] if nm else []) + (["export"] if export else [])}
        self.ops.append({"op": "provide", "scope": scope, "fn": fid, "name": nm, "group": "", "as": [], "export": export,
                         "cb": self.p("cb"), "info": False, "opts": sorted(set(opts["opts"]))})
        self.record_results(scope, [u(t)], opts, export, deps_ok=not ins)
        return fid

    def op_late_dep(self):
        r = self.r
        if self.nscopes < self.w["max_scopes"] and (self.nscopes == 1 or r.random() < 0.3):
            par = r.randrange(0, self.nscopes)
            self.ops.append({"op": "scope", "parent": par})
            self.parents.append(par)
            self.nscopes += 1
        c = r.randrange(0, self.nscopes) if r.random() < 0.25 else r.randrange(max(0, self.nscopes - 3), self.nscopes)
        (kt, kn) = self.fresh_key()
        self.provided.append((c, kt, kn))          # reserve
        (tt, tn) = self.fresh_key()
        chain = r.choice([1, 1, 2])
        export = r.random() < 0.55
        # A (needs K, possibly through a middle constructor) provides T
        need = (kt, kn)
        if chain == 2:
            (mt, mn) = self.fresh_key()
            self.plain_provide(c, [self.single_in(kt, kn, optional=r.random() < 0.15)], mt, mn, export=r.random() < 0.3)
            need = (mt, mn)
        self.plain_provide(c, [self.single_in(need[0], need[1], optional=r.random() < 0.15)], tt, tn, export=export)
        below = [s for s in range(self.nscopes) if c in self.anc(s)]
        isc = r.choice(below) if (not export or r.random() < 0.6) else r.randrange(0, self.nscopes)
        cons = self.new_fn([self.single_in(tt, tn, optional=r.random() < 0.5)] + (self.gen_params(None, 1, scope=isc) if r.random() < 0.25 else []), [])
        self.invokers.append((cons, isc))
        self.ops.append({"op": "invoke", "scope": isc, "fn": cons, "info": False})
        if r.random() < 0.25:
            self.op_provide()
        if r.random() < 0.15:
            self.ops.append({"op": "invoke", "scope": isc, "fn": cons, "info": False})
        # now the missing piece, somewhere on the path from c to the root (mostly c itself)
        ksc = c if r.random() < 0.6 else r.choice(self.anc(c))
        self.plain_provide(ksc, [], kt, kn, export=r.random() < 0.15)
        self.resolvable.append((ksc, kt, kn))
        if r.random() < 0.2:
            self.op_provide()
        for _ in range(r.choice([1, 1, 2])):
            self.ops.append({"op": "invoke", "scope": isc if r.random() < 0.8 else r.choice(below), "fn": cons, "info": False})

    # ---- "retry": constructors / decorators scripted to fail first (error or panic, error result anywhere)
    def op_retry_web(self):
        r = self.r
        sc = r.randrange(0, self.nscopes)
        path = self.anc(sc)
        (tt, tn) = self.fresh_key()
        psc = r.choice(path)

        def fail_first():
            return [{"k": r.choice(["err", "err", "panic"]), "len": r.choice([1, 2]), "dt": r.randrange(0, 10), "eslot": r.choice([0, 1])},
                    {"k": r.choice(["ok", "ok", "ok", "err"]), "len": r.choice([1, 2]), "dt": r.randrange(0, 10), "eslot": 0}]

        # provider: T (and maybe a second value), error result at a random position
        outs = [u(tt)] if not tn else [self.st([self.out_field(), self.field("R0", u(tt), {"name": tn})])]
        extra = None
        if r.random() < 0.4:
            extra = self.fresh_key()
            outs.append(u(extra[0]) if not extra[1] else self.st([self.out_field(), self.field("R1", u(extra[0]), {"name": extra[1]})]))
        if r.random() < 0.7:
            outs.insert(r.randrange(0, len(outs) + 1), u(0))
        pf = self.new_fn([], outs)
        if r.random() < 0.4:
            self.script[str(pf)] = fail_first()
        self.ops.append({"op": "provide", "scope": psc, "fn": pf, "name": "", "group": "", "as": [], "export": False,
                         "cb": self.p("cb"), "info": False, "opts": []})
        self.provided.append((psc, tt, tn)); self.resolvable.append((psc, tt, tn))
        if extra:
            self.provided.append((psc, extra[0], extra[1])); self.resolvable.append((psc, extra[0], extra[1]))
        # decorator(s) of T on the path below the provider, results in any order with the error anywhere
        below_p = [s for s in path if psc in self.anc(s)]
        for dsc in r.sample(below_p, min(len(below_p), r.choice([1, 1, 2]))):
            dins = [self.single_in(tt, tn)] if r.random() < 0.85 else []
            douts = [u(tt)] if not tn else [self.st([self.out_field(), self.field("V", u(tt), {"name": tn})])]
            if extra and r.random() < 0.5:
                dins.append(self.single_in(extra[0], extra[1]))
                douts.append(u(extra[0]) if not extra[1] else self.st([self.out_field(), self.field("W", u(extra[0]), {"name": extra[1]})]))
                r.shuffle(douts)
            if r.random() < 0.85:
                douts.insert(r.randrange(0, len(douts) + 1), u(0))
            df = self.new_fn(dins, douts)
            self.script[str(df)] = fail_first()
            self.ops.append({"op": "decorate", "scope": dsc, "fn": df, "cb": self.p("cb"), "info": False})
        cons_in = [self.single_in(tt, tn, optional=r.random() < 0.2)]
        if extra and r.random() < 0.5:
            cons_in.append(self.single_in(extra[0], extra[1]))
        cons = self.new_fn(cons_in, [])
        self.invokers.append((cons, sc))
        for _ in range(r.choice([2, 2, 3])):
            self.ops.append({"op": "invoke", "scope": sc if r.random() < 0.8 else r.choice(path), "fn": cons, "info": False})
            if r.random() < 0.15:
                self.op_provide()

    # ---- re-entrant user functions (judged by trace predicates only: the model has none)
    def op_reentrant_web(self):
        """a provider and decorator(s) of one key whose bodies call back into the container for a consumer of that key"""
        r = self.r
        sc = r.randrange(0, self.nscopes)
        path = self.anc(sc)
        (tt, tn) = self.fresh_key()
        psc = r.choice(path)
        cons = self.new_fn([self.single_in(tt, tn, optional=r.random() < 0.2)], [])
        self.invokers.append((cons, sc))
        pf = self.plain_provide(psc, [], tt, tn)
        self.resolvable.append((psc, tt, tn))
        re_ = {"scope": r.choice([sc, sc, psc]), "fn": cons}
        if r.random() < 0.5:
            self.script[str(pf)] = [{"k": "ok", "len": 1, "dt": 0, "eslot": 0, "re": re_}]
        below_p = [s for s in path if psc in self.anc(s)]
        for dsc in r.sample(below_p, min(len(below_p), r.choice([1, 1, 2]))):
            df = self.new_fn([self.single_in(tt, tn)] if r.random() < 0.8 else [], [u(tt)] if not tn else
                             [self.st([self.out_field(), self.field("V", u(tt), {"name": tn})])])
            self.script[str(df)] = [{"k": r.choice(["ok", "ok", "err"]), "len": 1, "dt": 0, "eslot": 0,
                                     "re": {"scope": r.choice([sc, dsc]), "fn": cons}},
                                    {"k": "ok", "len": 1, "dt": 0, "eslot": 0, "re": {"scope": sc, "fn": cons}}]
            self.ops.append({"op": "decorate", "scope": dsc, "fn": df, "cb": self.p("cb"), "info": False})
        for _ in range(r.choice([1, 2])):
            self.ops.append({"op": "invoke", "scope": sc if r.random() < 0.8 else r.choice(path), "fn": cons, "info": False})

    # ---- a cycle that is visible only from a descendant scope, closed by a Provide to an ancestor
    def op_deep_cycle(self):
        r = self.r
        # a chain of scopes root -> ... -> leaf, some of them created now, with unrelated operations in between
        top = r.randrange(0, self.nscopes)
        chain = [top]
        sibs = []
        for _ in range(r.choice([1, 2, 2, 3])):
            if self.nscopes >= self.w["max_scopes"] + 2:
                break
            if r.random() < 0.6:
                # something happens in an ancestor before the next scope exists (caches of subtree lists, flags ...)
                if r.random() < 0.5:
                    self.plain_provide(r.choice(chain), [], *self.fresh_key())
                else:
                    f0 = self.new_fn([], [])
                    self.ops.append({"op": "invoke", "scope": r.choice(chain), "fn": f0, "info": False})
            if r.random() < 0.4:
                # a sibling branch created *before* the chain's own child: it comes first when the subtree is walked
                self.ops.append({"op": "scope", "parent": chain[-1]})
                self.parents.append(chain[-1])
                sibs.append((self.nscopes, chain[-1]))
                self.nscopes += 1
            self.ops.append({"op": "scope", "parent": chain[-1]})
            self.parents.append(chain[-1])
            chain.append(self.nscopes)
            self.nscopes += 1
        if len(chain) < 2:
            return
        (xt, xn) = self.fresh_key(); self.provided.append((chain[-1], xt, xn))
        (yt, yn) = self.fresh_key(); self.provided.append((chain[0], yt, yn))
        low = r.choice(chain[1:])                     # the private half of the cycle lives here
        high = r.choice(chain[:chain.index(low)])     # the other half is provided above it
        opt = r.random() < 0.2
        # a sibling branch below `high` that does not see the private half: whatever the rejected Provide leaves behind in
        # the scopes checked *before* the one that sees the cycle must not weaken their next check
        sib = None
        cands = [sc for (sc, par) in sibs if par in chain[:chain.index(low)] and chain.index(high) <= chain.index(par)]
        if cands and r.random() < 0.8:
            sib = r.choice(cands)
        elif r.random() < 0.4 and self.nscopes < self.w["max_scopes"] + 3:
            sp = r.choice(chain[:chain.index(low)])
            self.ops.append({"op": "scope", "parent": sp})
            self.parents.append(sp)
            sib = self.nscopes
            self.nscopes += 1
        half = None
        if sib is not None:
            # one half of a two-constructor cycle inside the sibling branch, registered before the rejection ...
            (pt, pn) = self.fresh_key(); self.provided.append((sib, pt, pn))
            (qt, qn) = self.fresh_key(); self.provided.append((sib, qt, qn))
            self.plain_provide(sib, [self.single_in(qt, qn)], pt, pn)
            half = (pt, pn, qt, qn)
        first, second = ((low, xt, xn, yt, yn), (high, yt, yn, xt, xn))
        if r.random() < 0.3:
            first, second = second, first
        for (sc, t, n, dt, dn) in (first, second):
            self.plain_provide(sc, [self.single_in(dt, dn, optional=opt)], t, n, export=(sc == low and r.random() < 0.1))
            if r.random() < 0.2:
                self.op_provide()
        if half is not None:
            # ... and the other half right after it: this Provide closes a cycle in the sibling branch and must be rejected
            (pt, pn, qt, qn) = half
            self.plain_provide(sib, [self.single_in(pt, pn)], qt, qn)
        cons = self.new_fn([self.single_in(xt, xn)], [])
        self.invokers.append((cons, chain[-1]))
        for sc in r.sample(chain, min(len(chain), 2)):
            self.ops.append({"op": "invoke", "scope": sc, "fn": cons, "info": False})
        if half is not None:
            c2 = self.new_fn([self.single_in(half[0], half[1])], [])
            self.ops.append({"op": "invoke", "scope": sib, "fn": c2, "info": False})

    # ---- "stale undo": an operation rejected before anything is parsed must undo nothing of what came before
    def op_stale_undo(self):
        r = self.r
        s0 = r.randrange(0, self.nscopes)
        (kt, kn) = self.fresh_key()
        self.plain_provide(s0, [], kt, kn, export=r.random() < 0.1)
        self.resolvable.append((s0, kt, kn))
        # the rejected call: a non-function (or an ordinary rejection), on the same scope, an ancestor or a descendant
        around = [x for x in range(self.nscopes) if s0 in self.anc(x) or x in self.anc(s0)]
        for _ in range(r.choice([1, 1, 2])):
            sc = s0 if r.random() < 0.6 else r.choice(around)
            c = r.random()
            if c < 0.75:
                bad = self.new_fn([], [], nonfunc=r.choice(["nil", "int", "ptr", "struct", "nilfunc", "nilfunc1"]))
            else:
                bad = self.malformed_fn()
            kind = r.choice(["decorate", "decorate", "provide", "invoke"])
            if kind == "decorate":
                self.ops.append({"op": "decorate", "scope": sc, "fn": bad, "cb": False, "info": r.random() < 0.3})
            elif kind == "provide":
                self.ops.append({"op": "provide", "scope": sc, "fn": bad, "name": "", "group": "", "as": [], "export": False,
                                 "cb": False, "info": r.random() < 0.3, "opts": []})
            else:
                self.ops.append({"op": "invoke", "scope": sc, "fn": bad, "info": False})
        # what leans on the success before it: a constructor that needs it (same holder), then its consumer
        (tt, tn) = self.fresh_key()
        self.plain_provide(s0, [self.single_in(kt, kn)], tt, tn)
        if r.random() < 0.4:
            (vt, vn) = self.fresh_key()
            self.plain_provide(s0, [self.single_in(tt, tn)], vt, vn)
            tt, tn = vt, vn
        cons = self.new_fn([self.single_in(tt, tn)], [])
        below = [x for x in range(self.nscopes) if s0 in self.anc(x)]
        isc = r.choice(below)
        self.invokers.append((cons, isc))
        self.ops.append({"op": "invoke", "scope": isc, "fn": cons, "info": False})

    # ---- "defer leak": what one scope knows about its own graph must not be copied onto another
    def op_defer_leak(self):
        r = self.r
        top = r.randrange(0, self.nscopes)
        if self.nscopes < self.w["max_scopes"] + 2:
            self.ops.append({"op": "scope", "parent": top})
            self.parents.append(top)
            low = self.nscopes
            self.nscopes += 1
        else:
            kids = [x for x in range(self.nscopes) if x != top and top in self.anc(x)]
            if not kids:
                return
            low = r.choice(kids)
        # a two-constructor cycle only `low` sees (accepted under deferred verification, the second half rejected otherwise)
        (at, an) = self.fresh_key(); self.provided.append((low, at, an))
        (bt, bn) = self.fresh_key(); self.provided.append((low, bt, bn))
        self.plain_provide(low, [self.single_in(bt, bn)], at, an)
        self.plain_provide(low, [self.single_in(at, an)], bt, bn)
        # the scope above is verified by an Invoke of its own
        f0 = self.new_fn([], [])
        self.ops.append({"op": "invoke", "scope": top, "fn": f0, "info": False})
        # a Provide above is rejected (a non-function, a duplicate, a malformed function)
        c = r.random()
        if c < 0.4:
            bad = self.new_fn([], [], nonfunc=r.choice(["nil", "int", "nilfunc"]))
            self.ops.append({"op": "provide", "scope": top, "fn": bad, "name": "", "group": "", "as": [], "export": False,
                             "cb": False, "info": False, "opts": []})
        elif c < 0.8:
            (dt, dn) = self.fresh_key()
            self.plain_provide(top, [], dt, dn)
            self.plain_provide(top if r.random() < 0.7 else low, [], dt, dn, export=True)   # the same key again: rejected
        else:
            bad = self.malformed_fn()
            self.ops.append({"op": "provide", "scope": top, "fn": bad, "name": "", "group": "", "as": [], "export": False,
                             "cb": False, "info": False, "opts": []})
        # an Invoke below that touches nothing of the cycle
        self.ops.append({"op": "invoke", "scope": low, "fn": f0 if r.random() < 0.5 else self.new_fn([], []), "info": False})
        if r.random() < 0.4:
            cons = self.new_fn([self.single_in(at, an)], [])
            self.ops.append({"op": "invoke", "scope": low, "fn": cons, "info": False})

    # ---- "soft pair": soft groups are built after every other field, however many of them stand next to each other
    def op_soft_pair(self):
        r = self.r
        sc = r.randrange(0, self.nscopes)
        e1, e2 = r.choice(PT[:4]), r.choice(PT[:4])
        g1, g2 = r.choice([("g", "h"), ("h", "g"), ("g", "g")])
        if g1 == g2:
            e2 = e1
        (vt, vn) = self.fresh_key()
        while vt in (e1, e2):
            (vt, vn) = self.fresh_key()
        self.provided.append((sc, vt, vn))

        def provide(scope, ins, outs, opts=None):
            fid = self.new_fn(ins, outs)
            o = {"name": "", "group": "", "as": [], "opts": []}
            o.update(opts or {})
            self.ops.append({"op": "provide", "scope": scope, "fn": fid, "name": o["name"], "group": o["group"], "as": o["as"],
                             "export": False, "cb": self.p("cb"), "info": False, "opts": sorted(set(o["opts"]))})
            self.record_results(scope, outs, o, False, deps_ok=not ins)
        # plain feeders of both groups (some of them), and the multi-result constructor: the value and a member of the second group
        anc = self.anc(sc)
        for (e, g) in ((e1, g1), (e2, g2)):
            for _ in range(r.choice([0, 1, 1, 2])):
                provide(r.choice(anc), [], [u(e)], {"group": g, "opts": ["group"]})
        vtags = {"name": vn} if vn else {}
        provide(r.choice(anc), [], [self.st([self.out_field(), self.field("V", u(vt), vtags), self.field("M", u(e2), {"group": g2})])])
        softs = [self.field("S1", u(self.slice_of(e1)), {"group": g1 + ",soft"}), self.field("S2", u(self.slice_of(e2)), {"group": g2 + ",soft"})]
        if r.random() < 0.3:
            softs.append(self.field("S3", u(self.slice_of(e1)), {"group": g1 + ",soft"}))
        tail = [self.field("V", u(vt), vtags)]
        if r.random() < 0.3:
            tail.append(self.field("H", u(self.slice_of(e1)), {"group": g1}))
        head = [self.field("H0", u(self.slice_of(e2)), {"group": g2})] if r.random() < 0.15 else []
        fs = [self.in_field()] + head + softs + tail
        cons = self.new_fn([self.st(fs)], [])
        below = [x for x in range(self.nscopes) if sc in self.anc(x)]
        isc = r.choice(below)
        self.invokers.append((cons, isc))
        for _ in range(r.choice([1, 1, 2])):
            self.ops.append({"op": "invoke", "scope": isc, "fn": cons, "info": False})

    # ---- "As collision": every key of an As list is checked against the scope, not only the first
    def op_as_collide(self):
        r = self.r
        sc = r.randrange(0, self.nscopes)
        nm = r.choice(["", "", "n1"])
        k = r.choice([20, 22, 24, 21])
        impls = [t for t in (10, 11, 12) if k in IMPLS.get(t, [])]
        others = [i for i in (20, 21, 22, 24) if i != k]

        def provide(scope, outs, as_, name):
            fid = self.new_fn([], outs)
            o = {"name": name, "group": "", "as": [{"iface": i} for i in as_], "opts": (["as"] if as_ else []) + (["name"] if name else [])}
            self.ops.append({"op": "provide", "scope": scope, "fn": fid, "name": name, "group": "", "as": o["as"],
                             "export": False, "cb": self.p("cb"), "info": r.random() < 0.3, "opts": sorted(set(o["opts"]))})
            self.record_results(scope, outs, o, False, deps_ok=True)
        first = r.choice(impls)
        # the key is there already: provided As it, or by a constructor of that very interface type
        if r.random() < 0.7:
            provide(sc, [u(first)], [k], nm)
        else:
            provide(sc, [u(k)], [], nm)
        cons_k = self.new_fn([self.single_in(k, nm)], [])
        below = [x for x in range(self.nscopes) if sc in self.anc(x)]
        if r.random() < 0.6:
            self.ops.append({"op": "invoke", "scope": r.choice(below), "fn": cons_k, "info": False})
        # the newcomer: the colliding key stands first, in the middle or last in its As list
        second = r.choice([t for t in (10, 11) if t != first] or [11])
        oth = [i for i in others if i in IMPLS.get(second, [])] or [22]
        lst = r.choice([[oth[0], k], [oth[0], k], [k, oth[0]], [oth[0], k, oth[-1]], [oth[0], oth[-1], k]])
        lst = [i for j, i in enumerate(lst) if i not in lst[:j] and i in IMPLS.get(second, [])]
        where = sc if r.random() < 0.75 else r.choice(below)
        provide(where, [u(second)], lst, nm)
        cons_o = self.new_fn([self.single_in(oth[0], nm, optional=r.random() < 0.3)], [])
        self.ops.append({"op": "invoke", "scope": r.choice(below), "fn": cons_o, "info": False})
        self.ops.append({"op": "invoke", "scope": r.choice(below), "fn": cons_k, "info": False})

    # ---- "nil members": a nil pointer / nil interface is a value like any other, also inside a flattened slice
    def op_nil_members(self):
        r = self.r
        sc = r.randrange(0, self.nscopes)
        elem = r.choice([20, 21, 22, 20, 10, 11])
        g = r.choice(GROUPS)
        sl = self.slice_of(elem)
        anc = self.anc(sc)
        impl = [t for t in (10, 11, 12) if elem in IMPLS.get(t, [])] if elem >= 20 else [elem]

        def provide(scope, outs, opts, zero=None):
            fid = self.new_fn([], outs)
            if zero is not None:
                self.script[str(fid)] = [{"k": "ok", "len": 1000 + zero, "dt": 0, "eslot": 0}]
            o = {"name": "", "group": "", "as": [], "opts": []}
            o.update(opts)
            self.ops.append({"op": "provide", "scope": scope, "fn": fid, "name": o["name"], "group": o["group"], "as": o["as"],
                             "export": False, "cb": self.p("cb"), "info": False, "opts": sorted(set(o["opts"]))})
            self.record_results(scope, outs, o, False, deps_ok=True)
        n = 0
        for _ in range(r.choice([2, 3, 3, 4])):
            c = r.random()
            where = r.choice(anc)
            if c < 0.35:      # a flattened slice of nil elements
                provide(where, [u(sl)], {"group": g + ",flatten", "opts": ["group"]}, zero=r.choice([1, 2, 2, 3]))
            elif c < 0.55:    # one nil member
                provide(where, [u(elem)], {"group": g, "opts": ["group"]}, zero=0)
            elif c < 0.7 and elem >= 20:   # a nil pointer provided As the interface: a non-nil interface value
                provide(where, [u(r.choice(impl))], {"group": g, "as": [{"iface": elem}], "opts": ["group", "as"]}, zero=0)
            elif c < 0.85:    # an ordinary flattened slice
                provide(where, [u(sl)], {"group": g + ",flatten", "opts": ["group"]})
            else:
                provide(where, [u(elem)], {"group": g, "opts": ["group"]})
            n += 1
        gin = self.st([self.in_field(), self.field("G", u(sl), {"group": g})])
        cons = self.new_fn([gin], [])
        below = [x for x in range(self.nscopes) if sc in self.anc(x)]
        self.invokers.append((cons, sc))
        for _ in range(r.choice([1, 2])):
            self.ops.append({"op": "invoke", "scope": r.choice(below), "fn": cons, "info": False})
        # and a single nil value, consumed directly
        (vt, vn) = self.fresh_key()
        fid = self.new_fn([], [u(vt)])
        self.script[str(fid)] = [{"k": "ok", "len": 1000, "dt": 0, "eslot": 0}]
        self.ops.append({"op": "provide", "scope": sc, "fn": fid, "name": vn, "group": "", "as": [], "export": False,
                         "cb": False, "info": False, "opts": ["name"] if vn else []})
        self.provided.append((sc, vt, vn))
        c1 = self.new_fn([self.single_in(vt, vn)], [])
        self.ops.append({"op": "invoke", "scope": r.choice(below), "fn": c1, "info": False})

    # ---- shadowing: one key provided in a scope and in an ancestor, decorated somewhere on the path, consumed below
    def op_shadow_web(self):
        """the same key K provided in a scope L and in an ancestor A of L (the nearer one possibly unbuildable: a
        dependency of its constructor is missing), possibly decorated in an ancestor, possibly cached through a
        'side door' (the nearer provider also returns another type that is demanded first); consumed from L and below
        as optional / required, positional / object field"""
        r = self.r
        if self.nscopes < 2:
            par = self.pick_parent()
            self.ops.append({"op": "scope", "parent": par}); self.parents.append(par); self.nscopes += 1
        low = r.choice([s for s in range(self.nscopes) if self.parents[s] is not None])
        path = self.anc(low)              # low ... root
        high = r.choice(path[1:])
        (kt, kn) = self.fresh_key()
        # ancestor provider, with a little dependency chain of its own
        dep = None
        if r.random() < 0.6:
            dep = self.fresh_key()
            self.plain_provide(high, [], dep[0], dep[1])
        self.plain_provide(high, [self.single_in(dep[0], dep[1])] if dep else [], kt, kn)
        # decorator of K somewhere at or above `high`..`low`
        if r.random() < 0.5:
            dsc = r.choice(path)
            douts = [u(kt)] if not kn else [self.st([self.out_field(), self.field("V", u(kt), {"name": kn})])]
            df = self.new_fn([self.single_in(kt, kn)] if r.random() < 0.8 else [], douts)
            self.ops.append({"op": "decorate", "scope": dsc, "fn": df, "cb": self.p("cb"), "info": False})
        # nearer provider: buildable or not, maybe with a second result (the side door)
        side = self.fresh_key() if r.random() < 0.5 else None
        lins = []
        if r.random() < 0.5:
            (mt, mn) = self.fresh_key()
            lins = [self.single_in(mt, mn)]      # nothing provides it: the nearer constructor is unbuildable
        louts = [u(kt)] if not kn else [self.st([self.out_field(), self.field("R0", u(kt), {"name": kn})])]
        if side:
            louts.append(u(side[0]) if not side[1] else self.st([self.out_field(), self.field("R1", u(side[0]), {"name": side[1]})]))
        lf = self.new_fn(lins, louts)
        self.ops.append({"op": "provide", "scope": low, "fn": lf, "name": "", "group": "", "as": [], "export": False,
                         "cb": self.p("cb"), "info": False, "opts": []})
        self.provided.append((low, kt, kn))
        if not lins:
            self.resolvable.append((low, kt, kn))
        below = [s for s in range(self.nscopes) if low in self.anc(s)]
        if side and r.random() < 0.7:
            sf = self.new_fn([self.single_in(side[0], side[1])], [])
            self.ops.append({"op": "invoke", "scope": r.choice(below), "fn": sf, "info": False})
        for _ in range(r.choice([1, 2, 3])):
            opt = r.random() < 0.5
            form = r.choice(["obj", "obj", "pos"]) if not (kn or opt) else "obj"
            if form == "pos":
                ins = [u(kt)]
            else:
                tags = {}
                if kn:
                    tags["name"] = kn
                if opt:
                    tags["optional"] = "true"
                ins = [self.st([self.in_field(), self.field("F1", u(kt), tags)])]
            cf = self.new_fn(ins, [])
            csc = r.choice(below + [low])
            self.invokers.append((cf, csc))
            self.ops.append({"op": "invoke", "scope": csc, "fn": cf, "info": False})

    # ---- a failing constructor that declares one dependency more than once, drawn with the error of the Invoke
    def op_dup_dep_viz(self):
        r = self.r
        t, vt = r.sample(PT, 2)
        nm = self.pick_name() if r.random() < 0.4 else ""
        tag = "d%d" % len(self.fns)
        nm = nm or (tag if r.random() < 0.5 else "")
        # the dependency, from a constructor that does not fail
        pf = self.new_fn([], [u(t)])
        self.script[str(pf)] = [{"k": "ok", "len": 1, "dt": 0, "eslot": 0}] * 3
        self.ops.append({"op": "provide", "scope": 0, "fn": pf, "name": nm, "group": "", "as": [], "export": False, "cb": False,
                         "info": False, "opts": ["name"] if nm else []})
        one = self.single_in(t, nm)
        shape = r.randrange(0, 3)
        if shape == 0:
            ins = [one, one]
        elif shape == 1:
            ins = [one, self.st([self.in_field(), self.field("A", u(t), {"name": nm} if nm else {}), self.field("B", u(t), dict({"optional": "true"}, **({"name": nm} if nm else {})))])]
        else:
            ins = [self.st([self.in_field(), self.field("A", u(t), {"name": nm} if nm else {}), self.field("B", u(t), {"name": nm} if nm else {})]), one]
        how = r.choice(["err", "panic", "missing"])
        if how == "missing":
            ins = ins + [self.single_in(vt, "never%d" % len(self.fns))]
        ff = self.new_fn(ins, [u(vt), u(0)])
        self.script[str(ff)] = [{"k": "ok" if how == "missing" else how, "len": 1, "dt": 0, "eslot": 0}] * 3
        self.ops.append({"op": "provide", "scope": 0, "fn": ff, "name": tag, "group": "", "as": [], "export": False, "cb": self.p("cb"),
                         "info": False, "opts": ["name"]})
        # sometimes one more level, so that the constructor with the repeated dependency is a transitive failure
        top_t, top_n = vt, tag
        if r.random() < 0.4:
            mid = self.new_fn([self.single_in(vt, tag), one], [u(r.choice(PT))])
            top_t, top_n = self.fns[-1]["out"][0]["u"], tag + "m"
            self.ops.append({"op": "provide", "scope": 0, "fn": mid, "name": top_n, "group": "", "as": [], "export": False, "cb": False,
                             "info": False, "opts": ["name"]})
        inv = self.new_fn([self.single_in(top_t, top_n)], [])
        self.ops.append({"op": "invoke", "scope": 0, "fn": inv, "info": False})
        self.ops.append({"op": "visualize", "scope": 0, "errOf": len(self.ops) - 1})
        if r.random() < 0.3:
            self.ops.append({"op": "visualize", "scope": 0, "errOf": -1})

    # ---- a long dependency chain of named values: nothing in dig may depend on how long it is
    def op_long_chain(self):
        r = self.r
        d = r.choice([17, 20, 33, 40, 45])
        t = r.choice(PT)
        tag = "c%d_" % len(self.fns)
        sc = r.randrange(0, self.nscopes)
        path = self.anc(sc)
        ending = r.choice(["ok", "ok", "err", "panic", "missing", "cycle", "optmissing"])
        ops = []
        for i in range(d):
            opt = ending == "optmissing" and i == d - 1
            fid = self.new_fn([self.single_in(t, "%s%d" % (tag, i + 1), optional=opt)], [u(t)])
            self.script[str(fid)] = [{"k": "ok", "len": 1, "dt": 0, "eslot": 0}] * 3
            ops.append({"op": "provide", "scope": r.choice(path) if r.random() < 0.3 else sc, "fn": fid, "name": "%s%d" % (tag, i), "group": "",
                        "as": [], "export": False, "cb": self.p("cb") and i in (0, d - 1), "info": False, "opts": ["name"]})
        if ending in ("ok", "err", "panic"):
            fid = self.new_fn([], [u(t)] + ([u(0)] if ending == "err" or r.random() < 0.3 else []))
            self.script[str(fid)] = [{"k": ending, "len": 1, "dt": 0, "eslot": 0}, {"k": "ok", "len": 1, "dt": 0, "eslot": 0}]
            ops.append({"op": "provide", "scope": sc, "fn": fid, "name": "%s%d" % (tag, d), "group": "", "as": [], "export": False,
                        "cb": self.p("cb"), "info": False, "opts": ["name"]})
        elif ending == "cycle":
            # the last link needs the first: whichever Provide comes last closes the cycle and is rejected
            fid = self.new_fn([self.single_in(t, "%s0" % tag)], [u(t)])
            ops.append({"op": "provide", "scope": sc, "fn": fid, "name": "%s%d" % (tag, d), "group": "", "as": [], "export": False,
                        "cb": False, "info": False, "opts": ["name"]})
        if r.random() < 0.5:
            r.shuffle(ops)
        self.ops.extend(ops)
        inv = self.new_fn([self.single_in(t, "%s0" % tag)], [])
        self.invokers.append((inv, sc))
        below = [s for s in range(self.nscopes) if sc in self.anc(s)]
        for _ in range(r.choice([1, 2])):
            self.ops.append({"op": "invoke", "scope": r.choice(below), "fn": inv, "info": False})

    # ---- kinds of types that are none of pointer / interface / slice / struct, and a non-pointer implementer
    def op_odd_kinds(self):
        r = self.r
        sc = r.randrange(0, self.nscopes)
        c = r.randrange(0, 4)
        if c == 0:
            # ZI (an int8 with a method) provided As I0: consumers get a non-nil interface holding the zero value
            grp = self.pick_group() if r.random() < 0.35 else ""
            fid = self.new_fn([], [u(71)])
            opts = ["as"] + (["group"] if grp else [])
            self.ops.append({"op": "provide", "scope": sc, "fn": fid, "name": "", "group": grp, "as": [{"iface": 20}], "export": False,
                             "cb": self.p("cb"), "info": r.random() < 0.3, "opts": sorted(opts)})
            if grp:
                ins = [self.st([self.in_field(), self.field("G", u(40), {"group": grp})])]
            else:
                ins = r.choice([[u(20)], [self.st([self.in_field(), self.field("A", u(20))])],
                                [self.st([self.in_field(), self.field("A", u(20), {"optional": "true"}), self.field("B", u(20))])]])
            inv = self.new_fn(ins, [])
            self.invokers.append((inv, sc))
            self.ops.append({"op": "invoke", "scope": sc, "fn": inv, "info": False})
            return
        t = r.choice([82, 83, 84, 85, 85, 71])
        if c == 1:
            t = r.choice([t, t, 86, 81])      # the huge array types occur as missing parameters only
            # asked for, provided nowhere
            ins = r.choice([[u(t)], [self.st([self.in_field(), self.field("A", u(t))])],
                            [self.st([self.in_field(), self.field("A", u(t), {"optional": "true"})])]])
            if r.random() < 0.5:
                mid = self.new_fn(ins, [u(r.choice(PT[3:]))])
                vt = self.fns[-1]["out"][0]["u"]
                nm = "k%d" % mid
                self.ops.append({"op": "provide", "scope": sc, "fn": mid, "name": nm, "group": "", "as": [], "export": False,
                                 "cb": self.p("cb"), "info": False, "opts": ["name"]})
                ins = [self.single_in(vt, nm)]
            inv = self.new_fn(ins, [])
            self.invokers.append((inv, sc))
            self.ops.append({"op": "invoke", "scope": sc, "fn": inv, "info": r.random() < 0.2})
            return
        # provided (its scripted value is the zero value) and consumed, plainly, by name or through a group
        nm = self.pick_name() if c == 2 else ""
        grp = self.pick_group() if c == 3 else ""
        fid = self.new_fn([], [u(t)] + ([u(0)] if r.random() < 0.3 else []))
        self.ops.append({"op": "provide", "scope": sc, "fn": fid, "name": nm, "group": grp, "as": [], "export": False,
                         "cb": self.p("cb"), "info": r.random() < 0.3, "opts": sorted((["name"] if nm else []) + (["group"] if grp else []))})
        if grp:
            return
        inv = self.new_fn([self.single_in(t, nm)], [])
        self.invokers.append((inv, sc))
        self.ops.append({"op": "invoke", "scope": sc, "fn": inv, "info": False})

    # ---- a constructor that feeds (through several results) the very group it consumes: rejected for the cycle
    def op_group_self_cycle(self):
        r = self.r
        elem = r.choice(PT[:4])
        g = self.pick_group()
        sl = self.slice_of(elem)
        sc = r.randrange(0, self.nscopes)
        # an honest feeder first, sometimes
        if r.random() < 0.6:
            fid = self.new_fn([], [u(elem)])
            self.ops.append({"op": "provide", "scope": r.choice(self.anc(sc)), "fn": fid, "name": "", "group": g, "as": [], "export": False,
                             "cb": self.p("cb"), "info": False, "opts": ["group"]})
            self.groups_fed.append((sc, elem, g))
        gin = self.st([self.in_field(), self.field("G", u(sl), {"group": g})])
        k = r.choice([2, 2, 3])
        if r.random() < 0.5:
            outs = [self.st([self.out_field()] + [self.field("R%d" % j, u(elem), {"group": g}) for j in range(k)])]
            opts = {"name": "", "group": "", "as": [], "opts": []}
        else:
            outs = [u(elem)] * k
            opts = {"name": "", "group": g, "as": [], "opts": ["group"]}
        fid = self.new_fn([gin], outs)
        export = sc != 0 and r.random() < 0.3
        self.ops.append({"op": "provide", "scope": sc, "fn": fid, "name": "", "group": opts["group"], "as": [], "export": export,
                         "cb": self.p("cb"), "info": False, "opts": sorted(set(opts["opts"] + (["export"] if export else [])))})
        # whoever consumes the group afterwards must not see the rejected constructor
        inv = self.new_fn([gin], [])
        self.invokers.append((inv, sc))
        for _ in range(r.choice([1, 2])):
            below = [s for s in range(self.nscopes) if sc in self.anc(s)]
            self.ops.append({"op": "invoke", "scope": r.choice(below), "fn": inv, "info": False})

    # ---- a value group some of whose members fail, consumed and drawn with the error of that Invoke
    def op_failed_group_viz(self):
        r = self.r
        elem = r.choice(PT[:4])
        g = r.choice(GROUPS + ["viz"])
        sl = self.slice_of(elem)
        k = r.choice([3, 3, 4, 5])
        nfail = r.choice([1, 1, 1, 2])
        failing = set(r.sample(range(k), nfail)) if r.random() < 0.5 else {k - 1}
        for j in range(k):
            ins, how = [], "ok"
            if j in failing:
                how = r.choice(["err", "err", "missing", "panic"])
            if how == "missing":
                (mt, mn) = self.fresh_key()
                ins = [self.single_in(mt, mn)]
            outs = [u(elem), u(0)] if r.random() < 0.7 or how == "err" else [u(elem)]
            c2 = r.random()
            if c2 < 0.2:
                # the feeder gives the group two or three members at once (several fields, one of them in a nested result object)
                fs = [self.out_field(), self.field("M", u(elem), {"group": g}), self.field("N", u(elem), {"group": g})]
                if r.random() < 0.4:
                    fs.append(self.field("O", self.st([self.out_field(), self.field("P", u(elem), {"group": g})])))
                outs = [self.st(fs)] + outs[1:]
                opts = {"name": "", "group": "", "as": [], "opts": []}
            elif c2 < 0.4:
                outs = [self.st([self.out_field(), self.field("M", u(elem), {"group": g}), self.field("X", u(r.choice(PT[4:])), {"name": "v%d" % j})])] + outs[1:]
                opts = {"name": "", "group": "", "as": [], "opts": []}
            elif c2 < 0.55:
                # adjacent results in two groups of the same name and different element types
                other = r.choice([t for t in PT[:5] if t != elem])
                fs = [self.out_field(), self.field("M", u(elem), {"group": g}), self.field("Q", u(other), {"group": g})]
                if r.random() < 0.5:
                    fs = [fs[0], fs[2], fs[1]]
                outs = [self.st(fs)] + outs[1:]
                opts = {"name": "", "group": "", "as": [], "opts": []}
            else:
                opts = {"name": "", "group": g, "as": [], "opts": ["group"]}
            fid = self.new_fn(ins, outs)
            if how in ("err", "panic"):
                self.script[str(fid)] = [{"k": how, "len": 1, "dt": 0, "eslot": 0}] * 2
            else:
                self.script.pop(str(fid), None)
            self.ops.append({"op": "provide", "scope": 0, "fn": fid, "name": "", "group": opts["group"], "as": [], "export": False,
                             "cb": self.p("cb"), "info": False, "opts": opts["opts"]})
            self.record_results(0, outs, opts, False, deps_ok=not ins)
        gin = self.st([self.in_field(), self.field("G", u(sl), {"group": g})])
        if r.random() < 0.35:
            # a decorator of the group, which itself fails (error, panic or a missing dependency) or succeeds
            how = r.choice(["err", "panic", "missing", "ok"])
            dins = [gin] if r.random() < 0.7 else []
            if how == "missing":
                (mt, mn) = self.fresh_key()
                dins.append(self.single_in(mt, mn))
            dfn = self.new_fn(dins, [self.st([self.out_field(), self.field("G", u(sl), {"group": g})]), u(0)])
            if how in ("err", "panic"):
                self.script[str(dfn)] = [{"k": how, "len": 1, "dt": 0, "eslot": 0}] * 2
            else:
                self.script.pop(str(dfn), None)
            self.ops.append({"op": "decorate", "scope": 0, "fn": dfn, "cb": self.p("cb"), "info": False})
        inv = self.new_fn([gin] if r.random() < 0.7 else [gin, u(r.choice(PT))], [])
        self.invokers.append((inv, 0))
        self.ops.append({"op": "invoke", "scope": r.choice([0, 0, r.randrange(0, self.nscopes)]), "fn": inv, "info": False})
        self.ops.append({"op": "visualize", "scope": 0, "errOf": len(self.ops) - 1})
        if r.random() < 0.3:
            self.ops.append({"op": "visualize", "scope": 0, "errOf": -1})

    def op_invoke(self):
        r = self.r
        scope = r.randrange(0, self.nscopes)
        # prefer scopes from which something resolvable is visible
        if self.resolvable and r.random() < 0.7:
            good = [s for s in range(self.nscopes) if any(sc in self.anc(s) for (sc, _, _) in self.resolvable)]
            if good:
                scope = r.choice(good)
        if self.invokers and self.p("reinvoke"):
            fid, home = r.choice(self.invokers)
            if r.random() < 0.6:
                # same scope or one of its descendants: everything visible before is still visible
                below = [s for s in range(self.nscopes) if home in self.anc(s)]
                scope = r.choice(below)
        elif self.p("malformed") and r.random() < 0.4:
            fid = self.malformed_fn()
        else:
            ins = self.gen_params(None, r.choice([1, 1, 2, 3]), scope=scope)
            outs = r.choice([[], [], [u(0)], [u(10), u(0)], [u(0), u(10)]])
            fid = self.new_fn(ins, outs)
            self.invokers.append((fid, scope))
        self.ops.append({"op": "invoke", "scope": scope, "fn": fid, "info": r.random() < 0.5})

    def pick_parent(self):
        """parent of a new scope: any scope, or (weight `deeptree`) one that makes the tree deep, with siblings below
        a parent at depth >= 2"""
        r = self.r
        if self.p("deeptree"):
            ds = [len(self.anc(s)) - 1 for s in range(self.nscopes)]
            m = max(ds)
            if m >= 2 and r.random() < 0.6:
                return r.choice([s for s in range(self.nscopes) if ds[s] >= 2])
            return r.choice([s for s in range(self.nscopes) if ds[s] == m])
        return r.randrange(0, self.nscopes)

    def program(self):
        r = self.r
        cfg = {"defer": self.p("defer"), "recover": self.p("recover"), "dry": self.p("dry")}
        if self.p("optseq"):
            # the container options in a random order, DryRun possibly given twice (the last value counts)
            seq = [["dry", cfg["dry"]]]
            if cfg["defer"]:
                seq.append(["defer", True])
            if cfg["recover"]:
                seq.append(["recover", True])
            r.shuffle(seq)
            if r.random() < 0.5:
                seq.insert(r.randrange(0, seq.index(["dry", cfg["dry"]]) + 1), ["dry", not cfg["dry"]])
            cfg["optseq"] = seq
        nops = r.randrange(4, self.w["max_ops"] + 1)
        # optionally start with a few scopes so that registrations land in a tree
        for _ in range(r.choice([0, 0, 1, 2]) + (r.choice([0, 2, 3]) if self.p("deeptree") else 0)):
            par = self.pick_parent()
            self.ops.append({"op": "scope", "parent": par})
            self.parents.append(par)
            self.nscopes += 1
        # a few registrations first, so that later consumers have something to consume
        for _ in range(r.choice([0, 2, 3, 4, 5])):
            self.op_provide()
        while len(self.ops) < nops:
            c = r.random()
            if not self.resolvable and r.random() < 0.8:
                c = 1.0
            if r.random() < self.w["web"]:
                self.op_group_web()
                continue
            if r.random() < self.w["late"]:
                self.op_late_dep()
                continue
            if r.random() < self.w["vizgroup"]:
                self.op_failed_group_viz()
                continue
            if r.random() < self.w["shadow"]:
                self.op_shadow_web()
                continue
            if r.random() < self.w["selfcycle"]:
                self.op_group_self_cycle()
                continue
            if r.random() < self.w["longchain"]:
                self.op_long_chain()
                continue
            if r.random() < self.w["dupdep"]:
                self.op_dup_dep_viz()
                continue
            if r.random() < self.w["oddkinds"]:
                self.op_odd_kinds()
                continue
            if r.random() < self.w["deepcycle"]:
                self.op_deep_cycle()
                continue
            if r.random() < self.w["staleundo"]:
                self.op_stale_undo()
                continue
            if r.random() < self.w["deferleak"]:
                self.op_defer_leak()
                continue
            if r.random() < self.w["softpair"]:
                self.op_soft_pair()
                continue
            if r.random() < self.w["ascollide"]:
                self.op_as_collide()
                continue
            if r.random() < self.w["nilmembers"]:
                self.op_nil_members()
                continue
            if r.random() < self.w["retry"]:
                self.op_retry_web()
                continue
            if c < self.w["scope"] and self.nscopes < self.w["max_scopes"]:
                par = self.pick_parent()
                self.ops.append({"op": "scope", "parent": par})
                self.parents.append(par)
                self.nscopes += 1
            elif c < self.w["scope"] + self.w["decorate"]:
                self.op_decorate()
            elif c < self.w["scope"] + self.w["decorate"] + self.w["invoke"]:
                self.op_invoke()
            elif c < self.w["scope"] + self.w["decorate"] + self.w["invoke"] + self.w["visualize"]:
                errs = [i for i, o in enumerate(self.ops) if o["op"] == "invoke"]
                pick = -1
                if errs and r.random() < 0.8:
                    pick = errs[-1] if r.random() < 0.6 else r.choice(errs)
                self.ops.append({"op": "visualize", "scope": 0, "errOf": pick})
                if r.random() < 0.5:
                    self.ops.append({"op": "string", "scope": r.randrange(0, self.nscopes)})
            else:
                self.op_provide()
        # closing sweep: invoke something from every scope
        for s in range(self.nscopes):
            if r.random() < 0.35:
                self.ops.append({"op": "invoke", "scope": s, "fn": r.choice(self.invokers)[0] if self.invokers else self.new_fn(self.gen_params(None, 1), []), "info": False})
        return {"kind": "prog", "cfg": cfg, "types": TYPES, "fns": self.fns, "script": self.script, "ops": self.ops}


def generate(seed, w=None):
    return Gen(seed, w).program()


def generate_valerr(seed, w=None):
    """a program some of whose functions declare a result of a value-typed error (pool.VErr, never nil): dig takes it for an
    error on every call.  Modelled (Ctx.forced) except in a DryRun container, where dig is handed the zero VErr
    although nothing ran: those programs are outside the model and judged by the trace predicates only"""
    g = Gen(seed, w)
    p = g.program()
    r = random.Random(seed ^ 0xE44)
    tail = []
    g.ops = tail
    sc = r.randrange(0, g.nscopes)
    below = [x for x in range(g.nscopes) if sc in g.anc(x)]
    (kt, kn) = g.fresh_key()
    f1 = g.new_fn([], r.choice([[u(kt), u(25)], [u(25), u(kt)], [u(kt), u(25), u(0)]]))
    tail.append({"op": "provide", "scope": sc, "fn": f1, "name": kn, "group": "", "as": [], "export": False, "cb": r.random() < 0.5,
                 "info": r.random() < 0.3, "opts": ["name"] if kn else []})
    for _ in range(r.choice([1, 2, 2])):
        ins = [g.single_in(kt, kn, optional=r.random() < 0.3)] if r.random() < 0.5 else g.gen_params(None, r.choice([0, 1]), scope=sc)
        outs = r.choice([[u(25)], [u(10), u(25)], [u(25), u(0)], [u(0), u(25)], [u(25), u(25)]])
        f2 = g.new_fn(ins, outs)
        tail.append({"op": "invoke", "scope": r.choice(below), "fn": f2, "info": r.random() < 0.3})
    if g.provided and r.random() < 0.5:
        (_, t, nm) = r.choice(g.provided)
        if not nm:
            f3 = g.new_fn([u(t)], [u(t), u(25)])
            tail.append({"op": "decorate", "scope": sc, "fn": f3, "cb": r.random() < 0.5, "info": False})
            f4 = g.new_fn([u(t)], [])
            tail.append({"op": "invoke", "scope": r.choice(below), "fn": f4, "info": False})
    if r.random() < 0.4:
        tail.append({"op": "visualize", "scope": 0, "errOf": -1})
    p["ops"] = p["ops"] + tail
    p["fns"] = g.fns
    p["script"] = g.script
    if p["cfg"].get("dry"):
        p["unmodelled"] = "value-typed error results in a DryRun container"
    return p


def generate_reentrant(seed, w=None):
    """a program some of whose constructors / decorators call Invoke from inside their bodies"""
    g = Gen(seed, w)
    p = g.program()
    r = random.Random(seed ^ 0x5EED)
    # a targeted web or two, spliced in before the closing sweep
    tail = []
    g.ops = tail
    for _ in range(r.choice([1, 1, 2])):
        g.op_reentrant_web()
    p["ops"] = p["ops"] + tail
    p["fns"] = g.fns
    p["script"] = g.script
    # random call-backs: functions registered exactly once call an invoker of the program
    uses = {}
    for o in p["ops"]:
        if o["op"] in ("provide", "decorate"):
            uses[o["fn"]] = uses.get(o["fn"], 0) + 1
    invs = [(o["scope"], o["fn"]) for o in p["ops"] if o["op"] == "invoke" and not any(f["id"] == o["fn"] and f.get("nonfunc") for f in p["fns"])]
    nonfunc = {f["id"] for f in p["fns"] if f.get("nonfunc")}
    for f, n in uses.items():
        if n == 1 and f not in nonfunc and invs and r.random() < 0.3:
            behs = p["script"].setdefault(str(f), [{"k": "ok", "len": 1, "dt": 0, "eslot": 0}])
            (s_, fn_) = r.choice(invs)
            behs[0] = dict(behs[0], re={"scope": s_, "fn": fn_})
    # callbacks that panic: an operation's callback panics on its first (sometimes second) call
    for o in p["ops"]:
        if o["op"] in ("provide", "decorate") and o.get("cb") and r.random() < 0.25:
            o["cbpanic"] = r.choice([1, 1, 2])
    if not any(o.get("cbpanic") for o in p["ops"]):
        cands = [o for o in p["ops"] if o["op"] in ("provide", "decorate") and uses.get(o["fn"]) == 1]
        if cands and r.random() < 0.5:
            o = r.choice(cands)
            o["cb"] = True
            o["cbpanic"] = 1
    p["reentrant"] = True
    p["cfg"]["dry"] = False
    return p


if __name__ == "__main__":
    import sys
    seed = int(sys.argv[1]) if len(sys.argv) > 1 else 1
    n = int(sys.argv[2]) if len(sys.argv) > 2 else 1
    for i in range(n):
        print(json.dumps(generate(seed * 1000003 + i), separators=(",", ":")))
