#!/usr/bin/env python3
"""./check <property> [quick|thorough]   — decide one property (see DESIGN.md §6)

1. proof obligations of the property type-check (lake), use no forbidden axiom / sorry;
2. the model and the implementation (rebuilt from /repo's working tree, -tags verif) agree on the
   property's projection of every explored program (corpus first, then generated);
3. trace-level predicates and metamorphic twins are evaluated on the implementation's own traces;
4. verdict, replay file, evidence file.
"""
import copy
import json
import multiprocessing as mp
import os
import random
import re
import subprocess
import sys
import time

HERE = os.path.dirname(os.path.abspath(__file__))
VERIF = os.path.dirname(HERE)
sys.path.insert(0, HERE)
import gen       # noqa: E402
import m2gen     # noqa: E402
import props     # noqa: E402
import runner    # noqa: E402

LEAN = os.path.join(VERIF, "lean")
HARNESS = os.path.join(VERIF, "harness")
GOENV = dict(os.environ, GOFLAGS="-mod=mod", GOPROXY="off", GOSUMDB="off", GOTOOLCHAIN="local")
ALLOWED_AXIOMS = {"propext", "Quot.sound", "Classical.choice"}
FORBIDDEN = ["sorry", "admit", "native_decide", "bv_decide", "implemented_by", "unsafe ", "maxHeartbeats 0"]

N_PROGRAMS = {"quick": 3000, "thorough": 120000}   # programs drawn from the property's own profile ...
N_MIXED = {"quick": 1500, "thorough": 40000}       # ... followed by programs drawn from the union of all profiles (props.mixed_profile)
N_TWINS = {"quick": 250, "thorough": 6000}
# generated-source mode (declared functions: distinct constructor IDs, runtime names): batches x programs
M2_PROPS = {"C01", "C13", "C14", "C18", "C19", "C20"}
# properties that are also judged (by their trace predicate alone) on programs whose user functions call Invoke
# from inside their bodies; every fifth generated program is of that kind
R_PROPS = {"C02", "C05"}
U_PROPS = {"C14", "C05", "C07", "C13"}   # a twelfth of their programs have functions with value-typed error results (gen.generate_valerr); in a DryRun container those are outside the model and judged by the predicates
N_M2 = {"quick": (1, 300), "thorough": (10, 400)}


class M2Pair:
    """model driver + the executor with the generated programs compiled in"""
    def __init__(self):
        self.model = runner.Proc([runner.DRIVER])
        self.impl = runner.Proc([os.path.join(WORK, "digexec-m2"), "-supervise", "-timeout", "20s"])

    def run(self, prog):
        line = json.dumps(prog, separators=(",", ":"))
        return self.model.ask(line), self.impl.ask(line)

    def close(self):
        self.model.close()
        self.impl.close()


def m2_phase(pid, tier, seed):
    """returns (failures, stats)"""
    batches, size = N_M2[tier]
    w = dict(props.PROFILE.get(pid, {}))
    w.setdefault("visualize", 0.08)
    fails, n, ntriv, skipped = [], 0, 0, 0
    for b in range(batches):
        progs = []
        for k in range(size):
            sd = (seed * 7 + 1000 + b) * 1000003 + k
            p = gen.generate(sd, w)
            key = "s%db%dk%d" % (seed, b, k)
            p["m2"] = key
            p["ids"] = "distinct"
            progs.append((key, p, sd))
        ok, err = m2gen.build([(k, p) for (k, p, _) in progs], "m2")
        if not ok:
            fails.append({"kind": "build", "descr": "generated-source executor does not build: " + err[-1500:], "program": None, "seed": seed})
            break
        pair = M2Pair()
        for key, p, sd in progs:
            fs, st = explore_one(pid, pair, p, False, random.Random(sd))
            n += 1
            if st.get("skipped"):
                skipped += 1
            if st.get("nontrivial"):
                ntriv += 1
            for f in fs[:1]:
                f["seed"] = "m2:%d" % sd
                f["m2"] = True
                fails.append(f)
            if len(fails) >= 3:
                break
        pair.close()
        if len(fails) >= 3:
            break
    return fails, {"programs": n, "nontrivial": ntriv, "skipped": skipped, "batches": batches}



def log(*a):
    print(*a, file=sys.stderr, flush=True)


# ------------------------------------------------------------------ build

WORK = None      # per-property working copy of the harness: checks may run concurrently


def build(pid="shared"):
    """copy the harness sources to .work/<pid>/ and build the executor there against /repo's working tree"""
    global WORK
    import shutil
    t = time.time()
    WORK = os.path.join(VERIF, ".work", pid + os.environ.get("VERIF_WORK_SUFFIX", ""))   # the suffix keeps concurrent runs of one property apart
    shutil.rmtree(WORK, ignore_errors=True)
    os.makedirs(WORK)
    for name in ("go.mod", "go.sum", "pool", "exec", "cmd"):
        src = os.path.join(HARNESS, name)
        dst = os.path.join(WORK, name)
        if os.path.isdir(src):
            shutil.copytree(src, dst)
        else:
            shutil.copy(src, dst)
    repo = os.environ.get("VERIF_REPO", "/repo")
    if repo != "/repo":
        # exploration runs against a snapshot of the repository (vp run --with-repo); the registered checks use /repo
        gm = open(os.path.join(WORK, "go.mod")).read().replace("=> /repo", "=> " + repo)
        open(os.path.join(WORK, "go.mod"), "w").write(gm)
        shutil.copy(os.path.join(repo, "go.sum"), os.path.join(WORK, "go.sum"))
    os.makedirs(os.path.join(WORK, "m2gen"))
    shutil.copy(os.path.join(HARNESS, "m2gen", "doc.go"), os.path.join(WORK, "m2gen", "doc.go"))
    r = subprocess.run(["go", "build", "-tags", "verif", "-o", "digexec", "./cmd/digexec"], cwd=WORK, env=GOENV,
                       capture_output=True, text=True)
    if r.returncode != 0:
        return False, "go build of the harness against /repo failed:\n" + r.stderr[-3000:]
    runner.DIGEXEC = os.path.join(WORK, "digexec")
    m2gen.HARNESS = WORK
    r = subprocess.run(["lake", "build", "driver"], cwd=LEAN, capture_output=True, text=True)
    if r.returncode != 0:
        return False, "lake build driver failed:\n" + (r.stdout + r.stderr)[-3000:]
    log("build %.1fs" % (time.time() - t))
    return True, ""


# ------------------------------------------------------------------ proofs

def strip_comments(src):
    src = re.sub(r"/-.*?-/", "", src, flags=re.S)
    src = re.sub(r"--.*", "", src)
    return src


def lean_sources():
    out = []
    for root, _, files in os.walk(os.path.join(LEAN, "DigModel")):
        for f in files:
            if f.endswith(".lean"):
                out.append(os.path.join(root, f))
    out.append(os.path.join(LEAN, "Main.lean"))
    return sorted(out)


def proof_step(pid, tier):
    """returns dict(obligations=[names], discharged=[names], problems=[str], checker_cmd=str, axioms={name:[..]})"""
    path = os.path.join(LEAN, "DigModel", "Props", pid + ".lean")
    res = {"obligations": [], "discharged": [], "problems": [], "axioms": {},
           "checker_cmd": "cd lean && lake build DigModel.Props.%s && lake env lean DigModel/Props/%s.lean  (#print axioms per theorem)" % (pid, pid)}
    if not os.path.exists(path):
        return res
    src = strip_comments(open(path).read())
    ns = re.findall(r"^namespace\s+(\S+)", src, flags=re.M)
    prefix = (ns[0] + ".") if ns else ""
    names = [prefix + n for n in re.findall(r"^theorem\s+(\S+)", src, flags=re.M)]
    res["obligations"] = names
    for p in lean_sources():
        s = strip_comments(open(p).read())
        for tok in FORBIDDEN:
            if tok in s:
                res["problems"].append("forbidden token %r in %s" % (tok.strip(), os.path.relpath(p, VERIF)))
        if re.search(r"^\s*axiom\s", s, flags=re.M):
            res["problems"].append("axiom declared in %s" % os.path.relpath(p, VERIF))
    r = subprocess.run(["lake", "build", "DigModel.Props." + pid], cwd=LEAN, capture_output=True, text=True)
    if r.returncode != 0:
        res["problems"].append("lake build DigModel.Props.%s failed: %s" % (pid, (r.stdout + r.stderr)[-1500:]))
        return res
    r = subprocess.run(["lake", "env", "lean", os.path.join("DigModel", "Props", pid + ".lean")], cwd=LEAN, capture_output=True, text=True)
    out = r.stdout + r.stderr
    if r.returncode != 0:
        res["problems"].append("lean reports errors in Props/%s.lean: %s" % (pid, out[-1500:]))
        return res
    if "declaration uses 'sorry'" in out or "declaration uses `sorry`" in out:
        res["problems"].append("a declaration uses sorry")
    for n in names:
        m = re.search(r"'%s' depends on axioms: \[([^\]]*)\]" % re.escape(n), out.replace("\n", " "))
        if m:
            ax = [a.strip() for a in m.group(1).split(",") if a.strip()]
        elif re.search(r"'%s' does not depend on any axioms" % re.escape(n), out):
            ax = []
        else:
            res["problems"].append("no '#print axioms' line for theorem %s" % n)
            continue
        res["axioms"][n] = ax
        bad = [a for a in ax if a not in ALLOWED_AXIOMS]
        if bad:
            res["problems"].append("theorem %s depends on axioms %s" % (n, bad))
        else:
            res["discharged"].append(n)
    if tier == "thorough":
        r = subprocess.run(["lake", "env", "leanchecker", "DigModel.Props." + pid], cwd=LEAN, capture_output=True, text=True)
        res["leanchecker"] = "ok" if r.returncode == 0 else (r.stdout + r.stderr)[-800:]
        if r.returncode != 0:
            res["problems"].append("leanchecker rejected DigModel.Props.%s" % pid)
    return res


# ------------------------------------------------------------------ exploring programs

def explore_one(pid, pair, prog, do_twins, rnd):
    """returns (failures, stats) for one program.  failure = dict(kind, descr, program)"""
    fails = []
    if prog.get("unmodelled"):
        # inputs the model does not describe (a result of a value-typed error): the implementation's trace is judged alone
        it = pair.impl.ask(json.dumps(prog, separators=(",", ":")))
        unb = any(isinstance(o, dict) and o.get("v") == "unbuildable" for o in it.get("ops", []))
        if unb or it.get("fatal") in ("bad-types", "bad-request"):
            # the executor could not build the program (not an outcome of dig): skipped, as below
            return fails, {"nontrivial": False, "skipped": True, "mt": {"ops": []}, "it": it, "unmodelled": True}
        bad = props.PRED[pid](prog, it)
        if bad:
            fails.append({"kind": "predicate", "descr": "%s: %s" % (prog["unmodelled"], bad[0]), "program": prog})
        return fails, {"nontrivial": True, "mt": {"ops": []}, "it": it, "unmodelled": True}
    if prog.get("reentrant"):
        # user functions that call back into the container: outside the model; the implementation's trace is judged alone
        it = pair.impl.ask(json.dumps(prog, separators=(",", ":")))
        bad = props.PRED[pid](prog, it)
        if bad:
            fails.append({"kind": "predicate", "descr": "re-entrant user functions: " + bad[0], "program": prog})
        nt = any(e["e"] == "re" for o in it.get("ops", []) if isinstance(o, dict) for e in o.get("ev", []))
        return fails, {"nontrivial": nt, "mt": {"ops": []}, "it": it, "reentrant": True}
    mt, it = pair.run(prog)
    proj = props.PROJ[pid]
    if mt.get("error"):
        fails.append({"kind": "correspondence", "descr": "model driver rejected the program: %s" % mt["error"], "program": prog})
        return fails, {"nontrivial": False, "mt": mt, "it": it}
    unb = any(isinstance(o, dict) and o.get("v") == "unbuildable" for o in it.get("ops", []))
    if unb or it.get("fatal") in ("bad-types", "bad-request"):
        return fails, {"nontrivial": False, "skipped": True, "mt": mt, "it": it}
    bad = props.PRED[pid](prog, it)
    if bad:
        fails.append({"kind": "predicate", "descr": bad[0], "program": prog})
    pm, pi = proj(prog, mt), proj(prog, it)
    if pm != pi and not bad:
        k = next((j for j, (x, y) in enumerate(zip(pm["ops"], pi["ops"])) if x != y), None)
        fails.append({"kind": "correspondence", "op": k,
                      "descr": "%s: model and implementation differ on the %s projection at op %s" % (props.CORRESPONDENCE[pid], pid, k),
                      "program": prog})
    ntext = nsame = 0
    if pid == "C19" and not fails:
        bad, ntext, nsame = k_dottext(pair, prog, it)
        if bad:
            fails.append({"kind": "correspondence", "descr": "K-dottext: " + bad, "program": prog})
    known = []
    if do_twins and not fails:
        run = lambda p: pair.impl.ask(json.dumps(p, separators=(",", ":")))   # noqa: E731
        tb = []
        if pid in ("C06", "C14"):
            tb, tp = props.twin_c06(prog, run, with_invoke=(pid == "C14"))
        elif pid == "C16":
            tb, tp = props.twin_c16(prog, run, rnd)
        elif pid == "C17":
            tb, tp = props.twin_c17(prog, run)
        # a listed open finding (KNOWN_FINDINGS.txt) is counted, not reported as a violation; anything else is
        known = [x[len(props.KNOWN_PREFIX):] for x in tb if x.startswith(props.KNOWN_PREFIX)]
        tb = [x for x in tb if not x.startswith(props.KNOWN_PREFIX)]
        if tb:
            fails.append({"kind": "twin", "descr": tb[0], "program": prog})
    return fails, {"nontrivial": props.nontrivial(pid, prog, it), "mt": mt, "it": it, "dottext": ntext, "dottext_same": nsame,
                   "known": known}


def _canon_ast(ast):
    """statements in any order (independent statements may be written in another order), subgraph bodies likewise"""
    if not isinstance(ast, list):
        return ast
    out = []
    for st in ast:
        if isinstance(st, dict) and "body" in st:
            st = dict(st, body=_canon_ast(st["body"]))
        if isinstance(st, dict) and isinstance(st.get("attrs"), list):
            st = dict(st, attrs=sorted(st["attrs"], key=lambda a: json.dumps(a, sort_keys=True)))     # attribute order is free
        out.append(json.dumps(st, sort_keys=True, separators=(",", ":")))
    return sorted(out)


def k_dottext(pair, prog, it):
    """the model writes the text of its own picture with the names the executor reports; both texts are read by the DOT
    lexer and parser of the model and must be the same statements (white space and the order of statements are free);
    returns (problem or None, number of texts compared, number of those that were identical byte for byte)"""
    ops = it.get("ops", [])
    viz = [i for i, o in enumerate(ops) if isinstance(o, dict) and o.get("dotText") is not None and o.get("dotNames") and o.get("v") == "ok"]
    if not viz:
        return None, 0, 0
    n = same = 0
    names = {"types": ops[viz[0]]["dotNames"]["types"], "ctorsAt": {str(i): ops[i]["dotNames"]["ctors"] for i in viz}}
    mt = pair.model.ask(json.dumps(dict(prog, dotNames=names), separators=(",", ":")))
    ask = lambda text: pair.model.ask(json.dumps({"kind": "dotparse", "text": text}, separators=(",", ":")))   # noqa: E731
    for i in viz:
        want = ops[i]["dotText"]
        mo = mt.get("ops", [])
        got = mo[i].get("dotText") if i < len(mo) and isinstance(mo[i], dict) else None
        ps = ask(want)
        if not (ps.get("lex") and ps.get("parse")):
            return "op %d: the text the library wrote is not accepted by the DOT lexer/parser of the model (lex=%s parse=%s)" % (i, ps.get("lex"), ps.get("parse")), n, same
        if got is None:
            continue          # the model draws no picture here (its verdict differs: reported by the projection)
        n += 1
        if got == want:
            same += 1
            continue
        pm = ask(got)
        if _canon_ast(pm.get("ast")) != _canon_ast(ps.get("ast")):
            a, b = _canon_ast(pm.get("ast")) or [], _canon_ast(ps.get("ast")) or []
            only_m = [x for x in a if x not in b][:2]
            only_l = [x for x in b if x not in a][:2]
            return "op %d: the model's text and the library's are different DOT documents: only in the model %s / only in the library %s" % (i, only_m, only_l), n, same
    return None, n, same


def worker(args):
    pid, seed0, lo, hi, ntw, n_own = args
    pair = runner.Pair()
    w_own = props.PROFILE.get(pid, {})
    w_mixed = props.mixed_profile(pid)
    fails, ntriv, seen, skipped = [], 0, set(), 0
    dist = {}
    sample = None
    for k in range(lo, hi):
        seed = seed0 * 1000003 + k
        w = w_own if k < n_own else w_mixed
        if k >= n_own:
            dist["mixed-profile-programs"] = dist.get("mixed-profile-programs", 0) + 1
        if pid in U_PROPS and k % 12 == 11:
            prog = gen.generate_valerr(seed, w)
            dist["programs-with-value-typed-error-results"] = dist.get("programs-with-value-typed-error-results", 0) + 1
        elif pid in R_PROPS and k % 5 == 4:
            prog = gen.generate_reentrant(seed, w)
        else:
            prog = gen.generate(seed, w)
        rnd = random.Random(seed)
        fs, st = explore_one(pid, pair, prog, k < ntw, rnd)
        for f in fs:
            f["seed"] = seed
        fails.extend(fs[:1])
        if st.get("skipped"):
            skipped += 1
        for kf in st.get("known") or []:
            key = "known-finding:%s met (listed open in KNOWN_FINDINGS.txt, not a violation)" % kf.split()[0]
            dist[key] = dist.get(key, 0) + 1
        if st.get("dottext"):
            dist["dottext:texts-compared-as-documents"] = dist.get("dottext:texts-compared-as-documents", 0) + st["dottext"]
            dist["dottext:identical-byte-for-byte"] = dist.get("dottext:identical-byte-for-byte", 0) + st.get("dottext_same", 0)
        if st.get("unmodelled"):
            dist["unmodelled-programs(value-typed-error-results-in-DryRun)"] = dist.get("unmodelled-programs(value-typed-error-results-in-DryRun)", 0) + 1
        if st.get("reentrant"):
            dist["reentrant-programs"] = dist.get("reentrant-programs", 0) + 1
            if st.get("nontrivial"):
                dist["reentrant-programs-with-nested-invoke"] = dist.get("reentrant-programs-with-nested-invoke", 0) + 1
        if st.get("nontrivial"):
            h = hash(json.dumps([prog["fns"], prog["ops"], prog["script"], prog["cfg"]], sort_keys=True))
            if h not in seen:
                seen.add(h)
                ntriv += 1
        # what the inputs looked like: sizes, scope trees, unusual kinds and strings
        nops = len(prog["ops"])
        for key in ("size:ops<=10" if nops <= 10 else "size:ops<=20" if nops <= 20 else "size:ops<=40" if nops <= 40 else "size:ops>40",
                    "scopes:%d" % (1 + sum(1 for o in prog["ops"] if o["op"] == "scope"))):
            dist[key] = dist.get(key, 0) + 1
        text = json.dumps(prog["fns"]) + json.dumps(prog["ops"])
        for tag, needles in (("uses:non-pointer-implementer", ['"u": 71']), ("uses:chan/map/func-types", ['"u": 82', '"u": 83', '"u": 84', '"u": 85']),
                             ("uses:array-types", ['"u": 80', '"u": 81']), ("uses:odd-strings", ['<', '>', '&', '\\"', '\\\\', "'"]),
                             ("uses:chain>=17", ['_17"'])):
            if any(n in text for n in needles):
                dist[tag] = dist.get(tag, 0) + 1
        for op, o in zip(prog["ops"], st["it"].get("ops", [])):
            key = op["op"] + ":" + props.vclass(o["v"])
            dist[key] = dist.get(key, 0) + 1
            ve = props.verr(o["v"])
            if ve:
                rk = "error-kind:" + ("cycle" if ve.get("cyc") else (ve.get("chain") or ["?"])[-1]) + "/" + str(ve.get("root", "?")).split(":")[0]
                dist[rk] = dist.get(rk, 0) + 1
            for e in o.get("ev", []):
                if e["e"] == "exit":
                    dist["exec:" + e["r"]] = dist.get("exec:" + e["r"], 0) + 1
                elif e["e"] == "cb":
                    dist["callback"] = dist.get("callback", 0) + 1
        if sample is None and st.get("nontrivial"):
            sample = {"seed": seed, "cfg": prog["cfg"], "ops": [o["op"] for o in prog["ops"]],
                      "impl_verdicts": [props.vclass(o["v"]) for o in st["it"].get("ops", [])]}
        if len(fails) >= 5:
            break
    pair.close()
    return {"fails": fails, "n": hi - lo, "nontrivial": ntriv, "skipped": skipped, "dist": dist, "sample": sample}


# ------------------------------------------------------------------ shrinking

def can_drop(prog, i):
    op = prog["ops"][i]
    if op["op"] != "scope":
        return True
    # scope op creating id k: only removable if nothing refers to k and it is the last scope
    k = 1 + sum(1 for o in prog["ops"][:i] if o["op"] == "scope")
    total = 1 + sum(1 for o in prog["ops"] if o["op"] == "scope")
    if k != total - 1:
        return False
    for o in prog["ops"]:
        if o.get("scope") == k or (o["op"] == "scope" and o.get("parent") == k):
            return False
    return True


def shrink(prog, still_fails, budget=400):
    """greedy delta debugging on the op list, then on the script"""
    cur = copy.deepcopy(prog)
    n = 0
    chunk = max(1, len(cur["ops"]) // 2)
    while chunk >= 1 and n < budget:
        i = 0
        progress = False
        while i < len(cur["ops"]) and n < budget:
            idxs = list(range(i, min(len(cur["ops"]), i + chunk)))
            cand = cur
            ok = True
            for j in reversed(idxs):
                if not can_drop(cand, j):
                    ok = False
                    break
                cand = props.drop_op(cand, j)
            if ok:
                n += 1
                if still_fails(cand):
                    cur = cand
                    progress = True
                    continue
            i += chunk
        if not progress or chunk == 1:
            if chunk == 1 and not progress:
                break
            chunk = max(1, chunk // 2)
        else:
            chunk = max(1, chunk // 2)
    # drop unused functions and script entries
    used = {o["fn"] for o in cur["ops"] if "fn" in o}
    cur["fns"] = [f for f in cur["fns"] if f["id"] in used]
    for k in list(cur.get("script", {}).keys()):
        if int(k) not in used:
            del cur["script"][k]
    for k in list(cur.get("script", {}).keys()):
        if n >= budget:
            break
        cand = copy.deepcopy(cur)
        del cand["script"][k]
        n += 1
        if still_fails(cand):
            cur = cand
    return cur


# ------------------------------------------------------------------ known findings

def known_findings():
    path = os.path.join(VERIF, "KNOWN_FINDINGS.txt")
    opens, fixed = [], []
    if os.path.exists(path):
        for line in open(path):
            line = line.strip()
            if line.startswith("open:"):
                opens.append(line)
            elif line.startswith("fixed:"):
                fixed.append(line)
    return opens, fixed


# ------------------------------------------------------------------ corpus

def corpus_programs(pid):
    out = []
    d = os.path.join(VERIF, "corpus")
    if os.path.isdir(d):
        for f in sorted(os.listdir(d)):
            if f.endswith(".json"):
                try:
                    j = json.load(open(os.path.join(d, f)))
                except Exception:
                    continue
                if pid in j.get("properties", [pid]):
                    out.append((f, j["program"]))
    return out


# ------------------------------------------------------------------ main

def write_evidence(pid, tier, seed, level, cov, wall, violations, assumptions):
    # runs against a tree that is not /repo as committed (seeded changes, sweeps) keep their evidence apart
    evdir = os.environ.get("VERIF_EVIDENCE_DIR") or os.path.join(VERIF, "evidence")
    os.makedirs(evdir, exist_ok=True)
    ev = {"property_id": pid, "tier": tier, "seed": seed, "level": level, "coverage": cov, "assumptions": assumptions,
          "wall_s": round(wall, 2), "violations": violations}
    with open(os.path.join(evdir, pid + ".json"), "w") as f:
        json.dump(ev, f, indent=1)


def main():
    pid = sys.argv[1]
    tier = sys.argv[2] if len(sys.argv) > 2 else os.environ.get("VERIF_TIER", "quick")
    if len(sys.argv) > 3 and sys.argv[2] == "--replay":
        return replay(pid, sys.argv[3])
    seed = int(os.environ.get("VERIF_SEED", "1"))
    t0 = time.time()
    os.makedirs(os.path.join(VERIF, "replays"), exist_ok=True)
    manifest = json.load(open(os.path.join(VERIF, "MANIFEST.json")))
    level = next((c["level_claimed"]["category"] for c in manifest["checks"] if c["property_id"] == pid), "proof")

    ok, msg = build(pid)
    violations = []          # (replay_path, suffix)
    if not ok:
        path = os.path.join(VERIF, "replays", "%s-build.json" % pid)
        json.dump({"property": pid, "kind": "build", "descr": msg}, open(path, "w"), indent=1)
        print("VIOLATION property=%s replay=%s no-failing-input-found" % (pid, path))
        write_evidence(pid, tier, seed, level, {"evaluations": 1, "distinct_nontrivial": 0, "rule": "build failed", "samples": [msg[:500]],
                                                "obligations": 1, "discharged": 0, "checker_cmd": "go build / lake build", "trusted_base": []},
                       time.time() - t0, 1, [])
        return 1

    pr = proof_step(pid, tier)
    log("proof: %d obligations, %d discharged, problems=%s" % (len(pr["obligations"]), len(pr["discharged"]), pr["problems"][:2]))

    # corpus first
    pair = runner.Pair()
    fails = []
    ncorpus = 0
    known_met = {}          # id of a listed open finding -> programs of this run that showed it
    for name, prog in corpus_programs(pid):
        fs, st = explore_one(pid, pair, prog, True, random.Random(0))
        ncorpus += 1
        for kf in st.get("known") or []:
            log("corpus/%s: open finding %s" % (name, kf[:160]))
            known_met[kf.split()[0]] = known_met.get(kf.split()[0], 0) + 1
        for f in fs:
            f["seed"] = "corpus/" + name
        fails.extend(fs[:1])
    pair.close()

    # K-graph for C05
    graph_stats = None
    if pid == "C05":
        import kgraph
        graph_stats, gfails = kgraph.run(tier, seed)
        fails.extend(gfails)

    # K-tags for C09, C14
    tag_stats = None
    if pid in ("C09", "C14"):
        import ktags
        tag_stats, tfails = ktags.run(tier, seed)
        fails.extend(tfails)

    # K-label for C19
    label_stats = None
    if pid == "C19":
        import klabel
        label_stats, lfails = klabel.run(tier, seed)
        fails.extend(lfails)

    m2_stats = None
    if pid in M2_PROPS:
        m2fails, m2_stats = m2_phase(pid, tier, seed)
        fails.extend(m2fails)

    if pid == "C19":
        # the DOT grammar of the model (DotSyntax.lean) must accept the pictures dig's own test-suite keeps as golden files
        import glob as _glob
        repo_dir = os.environ.get("VERIF_REPO", "/repo")
        drv = runner.Proc([runner.DRIVER])
        nfix = 0
        for f in sorted(_glob.glob(os.path.join(repo_dir, "testdata", "*.dot"))):
            ans = drv.ask(json.dumps({"kind": "dotparse", "text": open(f).read()}, separators=(",", ":")))
            nfix += 1
            if not (ans.get("lex") and ans.get("parse")):
                fails.append({"kind": "correspondence", "descr": "K-dottext: the DOT lexer/parser of the model rejects dig's golden file %s" % os.path.basename(f),
                              "program": {"kind": "dotparse", "text": open(f).read()}})
        drv.close()
        log("K-dottext: %d golden .dot files of /repo/testdata accepted by the model's DOT lexer and parser" % nfix)
    n_own = N_PROGRAMS[tier]
    n = n_own + N_MIXED[tier]
    ntw = N_TWINS[tier] if pid in ("C06", "C14", "C16", "C17") else 0
    jobs = min(16, os.cpu_count() or 4)
    chunk = max(10, n // (jobs * 6))
    tasks = []
    for lo in range(0, n, chunk):
        hi = min(n, lo + chunk)
        # twins on the first programs of each chunk, proportionally
        tw = lo + max(0, (ntw * (hi - lo)) // n)
        tasks.append((pid, seed, lo, hi, tw, n_own))
    with mp.Pool(jobs) as pool:
        results = pool.map(worker, tasks)
    evaluations = sum(r["n"] for r in results) + ncorpus
    ntriv = sum(r["nontrivial"] for r in results)
    skipped = sum(r["skipped"] for r in results)
    dist = {}
    for r in results:
        for k, v in r["dist"].items():
            dist[k] = dist.get(k, 0) + v
        fails.extend(r["fails"])
    samples = [r["sample"] for r in results if r["sample"]][:3]
    log("explored %d programs (%d non-trivial, %d skipped), %d failures, %.1fs" % (evaluations, ntriv, skipped, len(fails), time.time() - t0))

    # ---- failures → shrink → replay
    opens, fixed = known_findings()
    reported = 0
    seen_descr = set()
    pair = runner.Pair()
    for f in fails:
        key = re.sub(r"\d+", "#", f["descr"])[:80]
        if key in seen_descr or reported >= 3:
            continue
        seen_descr.add(key)
        if f["kind"] == "graph":
            path = os.path.join(VERIF, "replays", "%s-graph-%s.json" % (pid, reported))
            json.dump(dict(f, property=pid, broken="K-graph"), open(path, "w"), indent=1)
            violations.append((path, ""))
            reported += 1
            continue
        if f["kind"] == "tag":
            path = os.path.join(VERIF, "replays", "%s-tag-%s.json" % (pid, reported))
            json.dump(dict(f, property=pid, broken="K-tags"), open(path, "w"), indent=1)
            violations.append((path, " no-failing-input-found"))
            log("  tag: %s" % f["descr"])
            reported += 1
            continue
        if f["kind"] == "label":
            path = os.path.join(VERIF, "replays", "%s-label-%s.json" % (pid, reported))
            json.dump(dict(f, property=pid, broken="K-label"), open(path, "w"), indent=1)
            violations.append((path, "" if f.get("judged") else " no-failing-input-found"))
            log("  label: %s" % f["descr"])
            reported += 1
            continue
        kind = f["kind"]
        if f.get("m2") or kind == "build":
            path = os.path.join(VERIF, "replays", "%s-m2-%d.json" % (pid, reported))
            json.dump({"property": pid, "kind": kind, "descr": f["descr"], "seed": f.get("seed"), "program": f.get("program"),
                       "note": "generated-source mode: replay needs the program compiled in (tools/m2gen.py); not shrunk"}, open(path, "w"), indent=1)
            violations.append((path, "" if kind == "predicate" else " no-failing-input-found" if pid in NEEDS_INDEPENDENT or kind == "build" else ""))
            log("  m2 %s: %s" % (kind, f["descr"]))
            reported += 1
            continue

        def still(p, kind=kind):
            fs, _ = explore_one(pid, pair, p, kind == "twin", random.Random(0))
            return any(x["kind"] == kind for x in fs)
        try:
            small = shrink(f["program"], still) if still(f["program"]) else f["program"]
        except Exception as e:     # never let the shrinker hide a finding
            log("shrink failed: %r" % e)
            small = f["program"]
        fs, st = explore_one(pid, pair, small, kind == "twin", random.Random(0))
        descr = next((x["descr"] for x in fs if x["kind"] == kind), f["descr"])
        path = os.path.join(VERIF, "replays", "%s-%s-%d.json" % (pid, f.get("seed", "x") if not str(f.get("seed", "")).startswith("corpus") else "corpus", reported))
        rec = {"property": pid, "kind": kind, "descr": descr, "seed": f.get("seed"), "program": small,
               "model_trace": runner.canon_trace(st["mt"]), "impl_trace": st["it"],
               "broken": props.CORRESPONDENCE[pid] if kind == "correspondence" else None,
               "replay_cmd": "./check %s --replay %s" % (pid, os.path.relpath(path, VERIF))}
        json.dump(rec, open(path, "w"), indent=1)
        suffix = " no-failing-input-found" if kind == "correspondence" and not props.PRED[pid](small, st["it"]) and pid in NEEDS_INDEPENDENT else ""
        violations.append((path, suffix))
        log("  %s: %s" % (kind, descr))
        reported += 1
    pair.close()

    if pr["problems"]:
        path = os.path.join(VERIF, "replays", "%s-proof.json" % pid)
        json.dump({"property": pid, "kind": "proof", "problems": pr["problems"], "obligations": pr["obligations"],
                   "discharged": pr["discharged"]}, open(path, "w"), indent=1)
        violations.append((path, "" if any(not s for _, s in violations) else " no-failing-input-found"))

    known_lines = []
    for line in opens:
        if ("property=%s " % pid) in line:
            print("KNOWN-FINDING: " + line[len("open:"):].strip())
            known_lines.append(line[len("open:"):].strip())
    for k, v in dist.items():
        if k.startswith("known-finding:"):
            fid = k[len("known-finding:"):].split()[0]
            known_met[fid] = known_met.get(fid, 0) + v

    cov = {
        "obligations": len(pr["obligations"]), "discharged": len(pr["discharged"]),
        "checker_cmd": pr["checker_cmd"],
        "trusted_base": ["Lean 4.33.0 kernel", "axioms: " + ", ".join(sorted({a for l in pr["axioms"].values() for a in l}) or ["none"]),
                         "hand-written model tied to /repo by differential execution (tools/check.py, harness/digexec)",
                         "package reflect, fmt, strconv.ParseBool / strconv.Quote, html.EscapeString, runtime code pointers: modelled, not verified",
                         "reflect.Type.String() and the runtime names of functions are inputs of the text comparison (K-dottext), not modelled"],
        "theorems": pr["obligations"], "axioms_per_theorem": pr["axioms"],
        "evaluations": evaluations, "distinct_nontrivial": ntriv,
        "traces_validated_against_impl": evaluations - skipped,
        "rule": "programs from tools/gen.py (seed*1000003+k, profile %s) plus corpus/*.json; a program counts as non-trivial when its implementation trace exercises the property's trigger (tools/props.py:nontrivial), distinct by content hash" % json.dumps(props.PROFILE.get(pid, {})),
        "samples": samples or [{"note": "no non-trivial sample in this run"}],
        "distribution": dist, "correspondence": props.CORRESPONDENCE[pid], "corpus_programs": ncorpus,
        "skipped_unbuildable": skipped,
    }
    if known_lines:
        # listed open findings of this property (KNOWN_FINDINGS.txt): reported, not violations; how often this run met each
        cov["known_findings"] = [{"entry": l, "programs_showing_it_in_this_run": sum(v for f, v in known_met.items() if (" %s " % f) in (" " + l + " "))}
                                 for l in known_lines]
    if graph_stats:
        cov["k_graph"] = graph_stats
    if label_stats:
        cov["k_label"] = label_stats
    if tag_stats:
        cov["k_tags"] = tag_stats
    if m2_stats:
        cov["generated_source_mode"] = m2_stats
    if pr.get("leanchecker"):
        cov["leanchecker"] = pr["leanchecker"]
    if level != "proof" or not pr["obligations"]:
        cov.pop("obligations"); cov.pop("discharged")
    write_evidence(pid, tier, seed, level if pr["obligations"] else ("exploration" if level == "proof" else level), cov, time.time() - t0, len(violations),
                   ["the model (lean/DigModel) describes /repo only as far as the explored programs show agreement",
                    "generator bounds: see DESIGN.md 'Bounds, stated once'"])
    for path, suffix in violations:
        print("VIOLATION property=%s replay=%s%s" % (pid, path, suffix))
    return 1 if violations else 0


# properties whose correspondence projection is not by itself a statement of the property:
# a projection mismatch there is reported as no-failing-input-found unless a predicate fails too
NEEDS_INDEPENDENT = {"C02", "C03", "C05", "C13", "C14", "C17", "C20"}


def replay(pid, path):
    ok, msg = build(pid + "-replay")
    if not ok:
        print(msg)
        return 1
    rec = json.load(open(path))
    prog = rec.get("program")
    if prog is None:
        print(json.dumps(rec, indent=1))
        return 1
    pair = runner.Pair()
    fs, st = explore_one(pid, pair, prog, True, random.Random(0))
    pair.close()
    if fs:
        for f in fs:
            print("%s: %s" % (f["kind"], f["descr"]))
        print("VIOLATION property=%s replay=%s" % (pid, path))
        return 1
    if st.get("known"):
        for kf in st["known"]:
            print("KNOWN-FINDING: property=%s %s" % (pid, kf))
        return 0
    print("replay passes: the property holds on this program now")
    return 0


if __name__ == "__main__":
    sys.exit(main())
