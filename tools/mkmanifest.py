#!/usr/bin/env python3
"""Regenerate /verif/MANIFEST.json from the table below (levels follow what is actually proved:
a property is claimed at level `proof` only when lean/DigModel/Props/<id>.lean exists)."""
import json
import os
import subprocess

VERIF = os.path.dirname(os.path.dirname(os.path.abspath(__file__)))

TB = ("Trusted base: Lean 4.33.0 kernel; axioms propext, Quot.sound, Classical.choice only (audited per theorem by the check, "
      "no sorry/native_decide/bv_decide/own axioms); the hand-written Lean model (lean/DigModel) is tied to /repo only by the "
      "correspondence check (differential execution of model driver and real library on generated programs + corpus), whose reach is "
      "bounded by the generator (tools/gen.py) in two execution modes (reflect-built values; generated Go source for C01 C13 C14 C18 C19 C20); reflect, fmt, strconv.ParseBool, code-pointer identity, math/rand shuffling and the Go "
      "runtime are modelled, not verified; harness (harness/, tools/) trusted as test machinery.")

# id -> (theorem-backed part, correspondence/search-backed part)
TEXT = {
    "C01": ("resolution rule of paramSingle.Build proved for every state and outcome: C01_decorator_wins (nearest decorator not on the stack is called, its stored output is delivered, never a provider's value), C01_decorated_cache, C01_cached_value and C01_provided (nearest scope with a cached value or providers, located by findProviders_value/_provs; zero only for optional), C01_nothing, C01_invoked_once (a successful Invoke entered the invoked function exactly once, as the last thing it did); cache justification (cached values are outputs of registered providers) is still correspondence-only; for whole programs (invariants of every API step and of the whole resolver): C01_cached_value_justified (a value cached under key k in scope S is exactly what a successful execution of a built constructor with home scope S returned in the result slot that declares k -- directly, through a result object, a name tag or an As interface) and C01_args_from_successful_executions (every token in any argument of any user function stems from a constructor/decorator execution that had exited successfully earlier in the history, never from the invoked function, a failed or an unfinished execution)",
            "wiring of every argument of every executed function compared with the model on every explored program (projection: verdict class + enter events with provenance tokens), in reflect mode and in generated-source mode (declared Go functions and struct types compiled into the executor)"),
    "C02": ("flag discipline of the whole resolver proved by induction over its mutual recursion (engine_flags): C02_once (per resolver call: at most one successful execution per constructor and per decorator, none for nodes already built or on the stack, and a successful one marks the node built), C02_once_history (whole programs: in the history of any operation sequence every constructor node has at most one successful exit — step invariant HInv, C02_step_invariant), C02_built_stays_built, C02_cached, C02_noreentry, C02_deco_cached, C02_no_nesting (in the events of any Invoke an enter is directly followed by the exit of the same execution)",
            "enter/exit skeleton compared with the model; trace predicate: successful exits per function <= accepted registrations, no nested entry"),
    "C03": ("C03_passive (Scope/Provide/Decorate/Visualize/String report no event, any state) and C03_invoke_registry (the resolver never changes the registry) are proved for the model; C03_only at full strength (every function entered during an Invoke is the invoked function or belongs to a constructor/decorator reachable -- inductive predicate Reach on the registry as it was when Invoke was called -- from a parameter of the invoked function: decorators of the key on the path, providers of a single key in the nearest providing scope, providers of a non-soft group on the path, recursively from each node's own scope; engine_only is an induction over the whole resolver) and C03_dependencies_complete_first (whole programs)",
            "execution order and closure (only the needed functions run, dependencies complete first) compared with the model on every explored program; trace predicate pred_c03"),
    "C04": ("C04_required_missing, C04_optional_missing, C04_shallow, C04_shallow_single, C04_ctor_not_run (a constructor with a missing direct dependency is not entered and logs nothing), C04_optional_absorbs_only_missing are proved", "verdict class, missing keys, zero-valued optional arguments compared with the model"),
    "C05": ("graph half proved at full strength for every graph size: C05_dfs_sound, C05_path, C05_dfs_total, C05_dfs_complete (Dfs.isAcyclic = internal/graph.IsAcyclic); resolver half: C05_resolver_terminates (any registry, cyclic or not: a Call never exhausts a recursion budget of idle*(D+3)+1 because nodes being built are marked and never re-entered \u2014 induction on the budget with the balanced-marks relation Flags) and C05_invoke_total (in every program no operation runs out of the budget apiInvoke hands out: the model's out-of-fuel answer is unreachable); the on-stack guard (C20_onstack) turns a run-time cycle into an error; container level: C05_provide_accepted_views_acyclic (after an accepted eager Provide the graph of the target scope and of every descendant, new constructor included, has no closed walk -- in the final container, GraphSame), C05_provide_cycle_is_real / C05_invoke_cycle_is_real (a cycle error names a real closed walk of an affected scope's graph: no false positive), C05_invoke_runs_only_on_acyclic_view, C05_check_reads_graph_only",
            "K-graph: IsAcyclic via hook vs model, exhaustive on all digraphs with <= 4 nodes + random graphs, each answer also judged on its own; container level: cycle verdicts, cycle lengths, process survival compared with the model under a cycle-heavy generator profile"),
    "C06": ("C06_provide_unchanged proved at full strength: whenever Provide returns an error (any cause, any state, with or without Export, cycle in the target or any descendant) the container equals the one before in every component except the isVerifiedAcyclic flags — proved through the undo actually performed (rollbackProvide: graph holders truncated, node tables truncated, providers of the target restored), with the invariant `Work` over everything the attempt may have done; C06_decorate_unchanged (after a rejected Decorate the container equals the container before: the graph nodes added by the parse are rolled back, parse_rollback_eq), C06_no_execution", "metamorphic twins on the real library: history with / without each rejected Provide/Decorate followed by a probe sweep (every key invoked, re-provided, re-decorated from every scope; self-feeding group constructors whose cycle error exposes the graph node order) must behave identically; full traces compared with the model"),
    "C07": ("C07_failed_writes_nothing / C07_failed_deco_writes_nothing (a failing execution changes no cache, flag or registry entry), C07_retry_ctor / C07_retry_deco (after a failing call the node is not built, off the stack / ready, hence executed again on the next demand), C07_others_kept are proved; root cause: C13_ctor_outcome / C13_deco_outcome; for whole programs: C07_failed_never_delivered (if execution x of f ended with an error or a panic, no value stemming from it is ever handed to any user function, in any scope, through single values, groups, decorated values or parameter objects) and C07_failed_never_cached (invariants Prov and ExecInv: executions are numbered uniquely)",
            "trace predicate: no token of a failed execution is ever delivered, root cause of the demanding Invoke is the first failure; traces compared with the model under a fault-heavy profile"),
    "C08": ("C08_path_only (the provider search answers only with the nearest scope on the path to the root), C08_all_providers_on_path, C08_child_path (a new child's path is the child followed by its parent's path: registrations made in ancestors before or after the child was created are equally visible), C08_tree_wf are proved; Export and graph orders are correspondence-only; C08_reachable_providers_visible (with C03_only: a constructor that may run directly for a single key is listed in the nearest providing scope on the path to the root; siblings, descendants and shadowed farther ancestors are not reachable)", "wiring across scope trees (up to 7 scopes, Export) compared with the model"),
    "C09": ("C09_keys_distinct, C09_as_only, C09_as_sound (with As a value is registered under the listed, implemented interfaces only, not its concrete type), C09_dup_single (a key already provided in the target scope or repeated within the constructor's results fails validation), C09_groups_free are proved", "wiring + acceptance of registrations compared with the model under a profile rich in names, groups and As"),
    "C10": ("C10_members (an undecorated hard group parameter receives exactly the concatenation of the members committed in the scopes on the path to the root; shape lemma buildGroup_undecorated), C10_feeders_built (when the parameter is delivered every provider of the key on the path has been built: none is skipped), C10_failure_is_group_failure are proved", "multisets received by hard group parameters compared with the model"),
    "C11": ("C11_silent (building an undecorated soft group changes no state and returns exactly the members already committed on the path), C11_soft_last are proved; C11_reaches_only_decorators and C11_never_triggers (with C03_only: a soft group parameter of an undecorated group makes nothing reachable, so no Invoke ever enters a constructor on its account)", "multisets received by soft group parameters and the execution skeleton compared with the model"),
    "C12": ("C12_consumer, C12_self_skipped, C12_local, C12_once, C12_one (an accepted Decorate only fills keys undecorated in that scope; a rejected one changes graph holders only) are proved; C20_deco_cached",
            "wiring with decorators at several scope levels compared with the model"),
    "C13": ("all classification statements proved for every error value the model can build: C13_root_is_leaf, C13_errorsIs_root, C13_user_identity, C13_dig, C13_panic_root, C13_cycle_iff, C13_wrap_*, C13_ctor_outcome, C13_deco_outcome",
            "K-error: chains of wrapper kinds, RootCause, errors.Is, IsCycleDetected, CanVisualizeError of every returned error and callback error compared with the model; trace predicate pred_c13 judges the implementation's own classification"),
    "C14": ("C14_nonfunc (nil / non-function / nil-function values rejected, container unchanged), C14_bad_options, C14_rejected_decorate, C14_rejected_invoke_parse (the container afterwards equals the container before), C14_no_events, and C06_provide_unchanged for rejected Provides are proved; totality of the API is by construction of the model",
            "grammar-based malformed inputs (55% of registrations): verdict classes compared with the model; any panic escaping dig or process failure is a violation with the program as replay; C06 twins extended to Invokes that reject their function"),
    "C15": ("C15_object_build (a parameter object without soft groups is built exactly like the positional list of its fields: same calls, same state, same error point, values in declaration order), C15_interleave_hard, C15_list_build, C15_shallow_flat, C15_dot_flat are proved; the parse-level half and result objects are correspondence-only", "Info structs (the parse made visible) and verdicts compared with the model"),
    "C16": ("verification-timing half proved: C16_defer_never_rejects, C16_eager_step, C16_eager_failure_names_a_check, C16_invoke_checks (an unverified scope is checked by Invoke before anything is built; a cycle rejects without executing anything), C16_flags_only; the permutation half is decided by metamorphic twins on the real library", "metamorphic twins on the real library: permuted registration blocks, scope creation moved earlier, DeferAcyclicVerification on/off against the eager run"),
    "C17": ("C17_silent / C17_silent_history proved at full strength (no enter/exit event in any history of a DryRun container); C17_verdicts / C17_verdict_at at full strength for whole programs: for every program whose scripted functions all succeed, the DryRun run and the normal run report, operation by operation, the same verdict (accepted, or the same dig error chain) and the same Info -- a relational simulation of the whole resolver (engine_drysim) on containers with the same core (CoreEq: registry, flags, graph holders, the set of cached keys) lifted through Provide, Decorate, Scope, Invoke and every history",
            "verdict equality dry vs normal is additionally exercised on the real library by a metamorphic twin; traces compared with the model (50% dry programs)"),
    "C18": ("C18_single_entry, C18_group_entry, C18_object_flat (declaration order), C18_as_expanded, C18_group_result, C18_error_omitted, C18_error_slot, C18_variadic_omitted, C18_rejected_untouched_decorate, C18_info_is_parse_decorate are proved", "Info structs of every Provide/Decorate/Invoke compared with the model (IDs coincide in reflect mode; generated-source mode compares distinct IDs up to an injective renaming)"),
    "C19": ("C19_can, C19_no_error_is_createGraph, C19_uninformative_error, C19_addCtor_appends (one entry per AddCtor, earlier entries kept), C19_first_failure_is_root are proved for the Dot model (createGraph/AddCtor, updateGraph, PruneSuccess in lean/DigModel/Dot.lean)",
            "K-dot: the DOT text of every Visualize (with and without VisualizeError) is parsed by a real DOT-subset parser in the harness (syntax validity, label consistency) and its structure (clusters, result nodes, parameter edges with dashed/solid, group nodes and members, failure colouring, pruning) is compared with the model; in reflect mode all constructor IDs coincide (modelled as such); the generated-source mode (batches of programs rendered as Go source and compiled into the executor) runs the same comparison with distinct constructor IDs, which is what exercises pruning"),
    "C20": ("C20_ctor, C20_deco (exact event sequence of one execution incl. callback error and runtime), C20_error_root, C20_cached, C20_onstack, C20_deco_cached, C20_passive, C20_trace_shape (the events of any Invoke from any state are a sequence of blocks enter-exit[-callback] of constructor/decorator nodes followed by the invoked function's two events) and C20_cb_only_after_exit (every callback event sits directly behind the exit event of an execution of the same node and function: nowhere else) proved",
            "K-callback: callback events (position, error class, runtime under the mock clock) compared with the model; trace predicate pred_c20 judges the implementation's own trace"),
}


def main():
    props = [json.loads(l) for l in open(os.path.join(VERIF, "properties.jsonl"))]
    checks = []
    for p in props:
        pid = p["id"]
        has = os.path.exists(os.path.join(VERIF, "lean", "DigModel", "Props", pid + ".lean"))
        thm, corr = TEXT[pid]
        if has:
            cat = "proof"
            text = ("Lean 4 theorems about the executable model, re-checked on every run (obligations = theorems of lean/DigModel/Props/%s.lean): %s. "
                    "Tie to the code and search for a failing input: %s. A broken theorem, a correspondence disagreement or a failing trace predicate/twin "
                    "is reported as VIOLATION with a minimised replay program." % (pid, thm, corr))
            tech = "Lean 4 proof (model + theorems) + differential correspondence check"
        else:
            cat = "exploration"
            text = ("No theorem registered for this property yet %s. Decided for now by differential execution only: %s. "
                    "(The Lean model is executed; its agreement with the real library and trace predicates are what is checked.)" % (thm, corr))
            tech = "Lean 4 executable model + differential correspondence (theorems pending)"
        checks.append({
            "property_id": pid,
            "quick_cmd": "./check %s quick" % pid,
            "thorough_cmd": "./check %s thorough" % pid,
            "evidence_file": "/verif/evidence/%s.json" % pid,
            "replay_cmd_template": "./check %s --replay {path}" % pid,
            "engine": "lean-model+correspondence",
            "level_claimed": {"category": cat, "text": text, "design_ref": "DESIGN.md §7 " + pid},
            "level_note": TB,
            "technique": tech,
        })
    commits = subprocess.run(["git", "-C", "/repo", "log", "--format=%h %s"], capture_output=True, text=True).stdout.splitlines()
    hook_commits = [c.split()[0] for c in commits if c.split(" ", 1)[1].startswith("verif:")]
    m = {
        "version": 1,
        "setup_cmd": "cd lean && lake build driver && cd ../harness && GOFLAGS=-mod=mod GOPROXY=off GOSUMDB=off GOTOOLCHAIN=local go build -tags verif -o digexec ./cmd/digexec",
        "hooks": {"guard": "verif", "enable": "go build -tags verif (harness/go.mod replaces go.uber.org/dig with /repo); hooks live in /repo/verif_hooks.go",
                  "baseline_off_cmd": "cd /repo && go test -mod=mod -json -vet=off -count=1 -timeout 25m ./...",
                  "source_commits": hook_commits, "add_only": True},
        "engines": [{"name": "lean-model+correspondence", "path": "lean/ harness/ tools/ check",
                     "serves_properties": [p["id"] for p in props],
                     "kind_free_text": "Lean 4 model of dig with theorems (lean/DigModel), model driver exe, Go executor on the real library, Python generator/differ/shrinker"}],
        "checks": checks,
        "notes": "All 16 defects found so far were repaired by fix: commits in /repo (KNOWN_FINDINGS.txt lists them as fixed; none is open). See DESIGN.md.",
        "not_applicable": [],
    }
    json.dump(m, open(os.path.join(VERIF, "MANIFEST.json"), "w"), indent=1)
    print("MANIFEST.json written:", sum(1 for c in checks if c["level_claimed"]["category"] == "proof"), "proof-level,", len(checks), "checks")


if __name__ == "__main__":
    main()
