"""K-tags: dig's own tag parsers and option validators — parseGroupString, isFieldOptional, isIgnoreUnexportedSet,
provideOptions.Validate (through verif hooks) — against parseGroupString, boolTag, validateOpts of the model, on random
strings built from the words these functions know, separators, blanks, case variants and arbitrary characters."""
import json
import multiprocessing as mp
import random
import runner

WORDS = ["g", "h", "flatten", "soft", "Flatten", "SOFT", "true", "false", "True", "TRUE", "t", "T", "f", "F", "1", "0", "yes", "no",
         "2", "01", "tRUE", "", " ", ",", ",,", "`", "\"", "\\", "ü", "\t", "n1", "a,b"]


def rand_s(r):
    k = r.choice([0, 1, 1, 1, 2, 3, 4])
    sep = r.choice(["", "", ",", ",", " ", ", "])
    return sep.join(r.choice(WORDS) for _ in range(k))


def work(args):
    n, seed = args
    r = random.Random(seed)
    model = runner.Proc([runner.DRIVER])
    impl = runner.Proc([runner.DIGEXEC])
    fails, count, rejected = [], 0, 0
    for _ in range(n):
        what = r.choice(["group", "group", "optional", "ignore-unexported", "opts"])
        req = {"kind": "tag", "what": what, "s": rand_s(r), "name": rand_s(r) if r.random() < 0.6 else "", "group": rand_s(r) if r.random() < 0.6 else ""}
        line = json.dumps(req, separators=(",", ":"))
        ma, ia = model.ask(line), impl.ask(line)
        count += 1
        if ia.get("err"):
            rejected += 1
        keys = ("err", "name", "flatten", "soft", "val")
        if ia.get("fatal") or "err" not in ia:
            fails.append({"kind": "tag", "descr": "K-tags: the executor answers %s" % json.dumps(ia)[:200], "request": req, "impl": ia, "model": ma})
        elif {k: ma.get(k) for k in keys} != {k: ia.get(k) for k in keys}:
            fails.append({"kind": "tag", "descr": "K-tags: model and implementation differ on %s %r" % (what, req["s"] if what != "opts" else (req["name"], req["group"])),
                          "request": req, "impl": ia, "model": ma})
        if len(fails) > 3:
            break
    model.close(); impl.close()
    return count, rejected, fails


def run(tier, seed):
    n = 4000 if tier == "quick" else 200000
    with mp.Pool(16) as pool:
        res = pool.map(work, [(n // 16, seed * 15485863 + k) for k in range(16)])
    return {"requests": sum(r[0] for r in res), "rejected": sum(r[1] for r in res)}, [f for r in res for f in r[2]]
