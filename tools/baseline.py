#!/usr/bin/env python3
"""Run /repo's test-suite (guard off) and compare the set of passing tests with BASELINE.json."""
import json, os, subprocess, sys
env = dict(os.environ, GOFLAGS="-mod=mod", GOPROXY="off", GOSUMDB="off", GOTOOLCHAIN="local")
b = json.load(open("/root/.vp/BASELINE.json"))
want = set(b["stable_pass"])
r = subprocess.run(["go", "test", "-json", "-vet=off", "-count=1", "-timeout", "25m", "./..."], cwd="/repo", env=env, capture_output=True, text=True)
passed = set()
for line in r.stdout.splitlines():
    try:
        j = json.loads(line)
    except Exception:
        continue
    if j.get("Action") == "pass" and j.get("Test"):
        passed.add("%s::%s" % (j["Package"], j["Test"]))
missing = sorted(want - passed)
print("baseline stable_pass=%d passing now=%d missing=%d" % (len(want), len(passed), len(missing)))
for m in missing[:20]:
    print("  MISSING", m)
sys.exit(1 if missing else 0)
