#!/bin/sh
# seed sweep of the quick tier on a repository snapshot (vp run --with-repo -- tools/sweep.sh 2 3 4 ...)
cd "$(dirname "$0")/.." || exit 2
[ -n "$VP_RUN_REPO" ] && export VERIF_REPO="$VP_RUN_REPO"
(cd lean && lake build driver DigProofs >/dev/null 2>&1)
rc=0
for seed in "$@"; do
  echo "== seed $seed"
  VERIF_SEED=$seed tools/runall.sh quick || rc=1
done
exit $rc
