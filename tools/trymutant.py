#!/usr/bin/env python3
"""trymutant.py <worktree> <property> [more properties...]
1. confirm the seeded change independently in its own worktree (outside /repo and /verif):
   suite passes as the baseline, the demonstration fails with the change and passes without it;
2. apply MUTANT/patch.diff to /repo, run the quick checks of the given properties, undo it."""
import json, os, subprocess, sys, shutil
os.environ.setdefault("VERIF_EVIDENCE_DIR", "/tmp/verif-evidence-seeded")   # not the committed evidence
env = dict(os.environ, GOFLAGS="-mod=mod", GOPROXY="off", GOSUMDB="off", GOTOOLCHAIN="local")
wt = sys.argv[1]
props = sys.argv[2:]
def sh(cmd, cwd=None):
    r = subprocess.run(cmd, shell=True, cwd=cwd, env=env, capture_output=True, text=True)
    return r.returncode, r.stdout + r.stderr
patch = os.path.join(wt, "MUTANT", "patch.diff")
res = {"worktree": wt}
# --- independent confirmation in a fresh scratch worktree
scratch = wt + "-confirm"
sh("git -C /repo worktree remove --force %s" % scratch)
rc, out = sh("git -C /repo worktree add -q --detach %s HEAD" % scratch)
try:
    shutil.copy(os.path.join(wt, "MUTANT", "demo_test.go"), os.path.join(scratch, "zz_mutant_demo_test.go"))
    rc0, out0 = sh("go test -count=1 -run '^TestMutantDemo$' .", scratch)
    res["demo_without_change"] = "PASS" if rc0 == 0 else "FAIL"
    rc, out = sh("git apply %s" % patch, scratch)
    res["patch_applies"] = rc == 0
    rc1, out1 = sh("go test -count=1 -run '^TestMutantDemo$' .", scratch)
    res["demo_with_change"] = "PASS" if rc1 == 0 else "FAIL"
    res["demo_output"] = out1[-600:]
    os.remove(os.path.join(scratch, "zz_mutant_demo_test.go"))
    rc, out = sh("go build ./... && go test -json -vet=off -count=1 ./...", scratch)
    passed = set()
    for line in out.splitlines():
        try:
            j = json.loads(line)
        except Exception:
            continue
        if j.get("Action") == "pass" and j.get("Test"):
            passed.add("%s::%s" % (j["Package"], j["Test"]))
    want = set(json.load(open("/root/.vp/BASELINE.json"))["stable_pass"])
    res["suite_missing_passes"] = sorted(want - passed)[:5]
    res["suite_ok"] = not (want - passed)
finally:
    sh("git -C /repo worktree remove --force %s" % scratch)
res["confirmed"] = res.get("demo_without_change") == "PASS" and res.get("demo_with_change") == "FAIL" and res.get("suite_ok", False)
# --- run the checks against /repo with the change applied
res["checks"] = {}
if res["confirmed"] and os.environ.get("MUTANT_SCRATCH"):
    # /repo is busy (a regression run applies other seeded changes to it): check a scratch worktree of HEAD instead
    chk = wt + "-check"
    sh("git -C /repo worktree remove --force %s" % chk)
    sh("git -C /repo worktree add -q --detach %s HEAD" % chk)
    try:
        rc, out = sh("git apply %s" % patch, chk)
        res["checks"] = {}
        for p in props:
            r = subprocess.run("./check %s quick" % p, shell=True, cwd="/verif", env=dict(env, VERIF_REPO=chk, VERIF_WORK_SUFFIX="-scratch"), capture_output=True, text=True)
            out = r.stdout + r.stderr
            v = [l for l in out.splitlines() if l.startswith("VIOLATION") or l.startswith("  ")]
            res["checks"][p] = {"exit": r.returncode, "lines": v[:6]}
    finally:
        sh("git -C /repo worktree remove --force %s" % chk)
elif res["confirmed"]:
    rc, out = sh("git -C /repo apply %s" % patch)
    try:
        for p in props:
            rc, out = sh("./check %s quick" % p, "/verif")
            v = [l for l in out.splitlines() if l.startswith("VIOLATION") or l.startswith("  ")]
            res["checks"][p] = {"exit": rc, "lines": v[:6]}
    finally:
        sh("git -C /repo checkout -- .")
        rc, out = sh("git -C /repo status --short")
        res["repo_clean_after"] = out.strip() == ""
        sh("go build -tags verif -o digexec ./cmd/digexec", "/verif/harness")   # back to the unchanged tree
# --- keep it under /verif/seeded/<name>/
name = os.environ.get("SEED_NAME")
if name and res["confirmed"]:
    d = os.path.join("/verif/seeded", name)
    os.makedirs(d, exist_ok=True)
    shutil.copy(patch, os.path.join(d, "patch.diff"))
    shutil.copy(os.path.join(wt, "MUTANT", "demo_test.go"), os.path.join(d, "demo_test.go"))
    try:
        agent_meta = json.load(open(os.path.join(wt, "MUTANT", "meta.json")))
    except Exception:
        agent_meta = {}
    meta = {"property": agent_meta.get("property", props[0] if props else None), "summary": agent_meta.get("summary"),
            "needs": agent_meta.get("needs"), "files": agent_meta.get("files"),
            "confirmed_by_us": {"how": "fresh scratch worktree of /repo HEAD: demo test without the patch, git apply, demo test with the patch, whole suite vs BASELINE.json stable_pass (tools/trymutant.py)",
                                "demo_without_change": res["demo_without_change"], "demo_with_change": res["demo_with_change"], "suite_ok": res["suite_ok"]},
            "checks_run": {p: {"detected": c["exit"] == 1, "lines": c["lines"]} for p, c in res["checks"].items()},
            "agent_ran": agent_meta.get("ran")}
    json.dump(meta, open(os.path.join(d, "meta.json"), "w"), indent=1)
print(json.dumps({k: v for k, v in res.items() if k != "demo_output"}, indent=1))
