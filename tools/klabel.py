"""K-label: the text of DOT node attributes, `(*Result).Attributes` / `(*Group).Attributes` of internal/dot (through
the verif hook), against `DotText.resultAttr` / `DotText.groupAttr` of the model, on random type / name / group strings
over an alphabet rich in what HTML-like labels and quoted strings care about.  Each answer of the implementation is also
judged on its own: the label must be one HTML string for the DOT lexer and must display exactly what was asked for."""
import html
import json
import multiprocessing as mp
import random
import runner
import m2gen

ALPHABET = list("abXY01 _-.*[]{}()/:;,=#") + list("<>&\"'\\") + ["\t", "\n", "ü", "世", "&amp;", "&lt;", "&#34;", "<BR />", "</FONT>", ">>", "<<"]
TYPES = sorted(m2gen.UNIV.items())      # universe id -> the name package reflect prints
FONT_OPEN = '<BR /><FONT POINT-SIZE="10">'
FONT_CLOSE = '</FONT>'


def rand_str(r):
    c = r.random()
    if c < 0.12:
        return ""
    return "".join(r.choice(ALPHABET) for _ in range(r.choice([1, 1, 2, 3, 5, 9, 20])))


def lex_html(text):
    """the DOT lexer on an HTML string: text starts behind the opening '<'; returns (body, rest) or None"""
    depth = 1
    for i, ch in enumerate(text):
        if ch == "<":
            depth += 1
        elif ch == ">":
            depth -= 1
            if depth == 0:
                return text[:i], text[i + 1:]
    return None


def text_ok(raw, want):
    if "<" in raw or ">" in raw:
        return False
    i = 0
    while i < len(raw):
        if raw[i] == "&":
            j = raw.find(";", i)
            if j < 0 or html.unescape(raw[i:j + 1]) == raw[i:j + 1]:
                return False
            i = j
        i += 1
    return html.unescape(raw) == want


def judge(req, text):
    """None if the attribute text is what the documented format demands for this request"""
    pre = "shape=diamond label=<" if req["who"] == "group" else "label=<"
    if not text.startswith(pre):
        return "does not start with %r" % pre
    lx = lex_html(text[len(pre):])
    if lx is None:
        return "the HTML string of the label never ends"
    body, tail = lx
    if req["who"] == "group":
        second = "Group: " + req["name"]
        want_tail = ["", " color=red", " color=orange"][min(req["err"], 2)]
    else:
        second = ("Name: " + req["name"]) if req["name"] else ("Group: " + req["group"]) if req["group"] else None
        want_tail = ""
    if tail != want_tail:
        return "the label ends early or late: %r follows it" % tail
    if second is None:
        return None if text_ok(body, req["tstr"]) else "the label does not display the type"
    i = body.find(FONT_OPEN)
    if i < 0 or not body.endswith(FONT_CLOSE):
        return "the label lacks the small-font part"
    if not text_ok(body[:i], req["tstr"]):
        return "the label does not display the type"
    if not text_ok(body[i + len(FONT_OPEN):len(body) - len(FONT_CLOSE)], second):
        return "the label does not display %r" % second
    return None


def work(args):
    n, seed = args
    r = random.Random(seed)
    model = runner.Proc([runner.DRIVER])
    impl = runner.Proc([runner.DIGEXEC])
    fails, count, special = [], 0, 0
    for _ in range(n):
        ty, tstr = r.choice(TYPES)
        req = {"kind": "label", "who": r.choice(["result", "result", "group"]), "ty": ty, "tstr": tstr,
               "name": rand_str(r), "group": rand_str(r), "err": r.choice([0, 0, 1, 2])}
        line = json.dumps(req, separators=(",", ":"))
        ma, ia = model.ask(line), impl.ask(line)
        count += 1
        if any(c in req["name"] + req["group"] + tstr for c in "<>&"):
            special += 1
        if ia.get("fatal") or "text" not in ia:
            fails.append({"kind": "label", "descr": "K-label: the executor answers %s" % json.dumps(ia)[:200], "request": req, "impl": ia, "model": ma, "judged": False})
        else:
            j = judge(req, ia["text"])
            if j:
                fails.append({"kind": "label", "descr": "node label: " + j, "request": req, "impl": ia, "model": ma, "judged": True})
            elif ma.get("text") != ia["text"]:
                fails.append({"kind": "label", "descr": "K-label: model and implementation compose different attribute text", "request": req, "impl": ia, "model": ma, "judged": False})
        if len(fails) > 3:
            break
    model.close(); impl.close()
    return count, special, fails


def run(tier, seed):
    n = 4000 if tier == "quick" else 200000
    with mp.Pool(16) as pool:
        res = pool.map(work, [(n // 16, seed * 104729 + k) for k in range(16)])
    fails = [f for r in res for f in r[2]]
    return {"labels": sum(r[0] for r in res), "with_angle_bracket_or_ampersand": sum(r[1] for r in res)}, fails
